// C15: the file-format writers / readers (OBJ, PLY, STL) in process, and the command line tools
// draco_encoder / draco_decoder end to end on temporary files.  Mirrored by lean/Ops/IO.lean.
//
//   stl_rt <geom>            -> <file hex> | <decoded>
//   ply_rt <asMesh> <geom>   -> <file hex> | <decoded>
//   obj_rt <asMesh> <geom>   -> <file canon> | <decoded>
//   stl_dec <hex> | ply_dec <asMesh> <hex> | obj_dec <asMesh> <hex>  -> <decoded>
//   obj_nums <bits,...>      -> <bits,...>   ObjEncoder's "%F" followed by parser::ParseFloat, per value
//   tool_rt in=<fmt> out=<fmt> pc=<0|1> [opts=<comma separated draco_encoder options>] -- <geom>
//        -> <rc encoder> <rc decoder> | <library decode of the input file> | <library decode of the tools' output file>
//
// <decoded> = canonical geometry text, or ERR when the library reports failure.
// <file canon> of an OBJ file: records separated by ';', words by ','; the number tokens of v / vt / vn records are
// replaced by the float32 bit pattern parser::ParseFloat reads from them ('?' when it fails or leaves characters
// unread): decimal text is never compared.
#include <fcntl.h>
#include <sys/stat.h>
#include <sys/wait.h>
#include <unistd.h>

#include "common.h"
#include "draco/core/decoder_buffer.h"
#include "draco/core/encoder_buffer.h"
#include "draco/io/obj_decoder.h"
#include "draco/io/obj_encoder.h"
#include "draco/io/parser_utils.h"
#include "draco/io/ply_decoder.h"
#include "draco/io/ply_encoder.h"
#include "draco/io/stl_decoder.h"
#include "draco/io/stl_encoder.h"
#include "geom_text.h"

using namespace draco;

namespace {

typedef std::vector<uint8_t> Bytes;

Bytes bytes_of(const EncoderBuffer &b) {
  return Bytes(reinterpret_cast<const uint8_t *>(b.data()), reinterpret_cast<const uint8_t *>(b.data()) + b.size());
}

// writers: false = the library reported failure
bool write_stl(const PointCloud *pc, bool is_mesh, Bytes *out) {
  if (!is_mesh) return false;  // the API takes meshes only
  EncoderBuffer b;
  StlEncoder e;
  if (!e.EncodeToBuffer(*static_cast<const Mesh *>(pc), &b).ok()) return false;
  *out = bytes_of(b);
  return true;
}
bool write_ply(const PointCloud *pc, bool is_mesh, Bytes *out) {
  EncoderBuffer b;
  PlyEncoder e;
  const bool ok = is_mesh ? e.EncodeToBuffer(*static_cast<const Mesh *>(pc), &b) : e.EncodeToBuffer(*pc, &b);
  if (!ok) return false;
  *out = bytes_of(b);
  return true;
}
bool write_obj(const PointCloud *pc, bool is_mesh, Bytes *out) {
  EncoderBuffer b;
  ObjEncoder e;
  const bool ok = is_mesh ? e.EncodeToBuffer(*static_cast<const Mesh *>(pc), &b) : e.EncodeToBuffer(*pc, &b);
  if (!ok) return false;
  *out = bytes_of(b);
  return true;
}

// readers
std::string read_stl(const Bytes &d) {
  DecoderBuffer b;
  b.Init(reinterpret_cast<const char *>(d.data()), d.size());
  StlDecoder dec;
  auto r = dec.DecodeFromBuffer(&b);
  if (!r.ok()) return "ERR";
  std::unique_ptr<Mesh> m = std::move(r).value();
  if (!m) return "ERR";
  return vh::dump_geometry(m.get(), m.get());
}
std::string read_ply(const Bytes &d, bool as_mesh) {
  DecoderBuffer b;
  b.Init(reinterpret_cast<const char *>(d.data()), d.size());
  PlyDecoder dec;
  if (as_mesh) {
    Mesh m;
    if (!dec.DecodeFromBuffer(&b, &m).ok()) return "ERR";
    return vh::dump_geometry(&m, &m);
  }
  PointCloud pc;
  if (!dec.DecodeFromBuffer(&b, &pc).ok()) return "ERR";
  return vh::dump_geometry(&pc, nullptr);
}
std::string read_obj(const Bytes &d, bool as_mesh) {
  DecoderBuffer b;
  b.Init(reinterpret_cast<const char *>(d.data()), d.size());
  ObjDecoder dec;
  if (as_mesh) {
    Mesh m;
    if (!dec.DecodeFromBuffer(&b, &m).ok()) return "ERR";
    return vh::dump_geometry(&m, &m);
  }
  PointCloud pc;
  if (!dec.DecodeFromBuffer(&b, &pc).ok()) return "ERR";
  return vh::dump_geometry(&pc, nullptr);
}

std::string float_token_bits(const std::string &w) {
  DecoderBuffer b;
  b.Init(w.data(), w.size());
  float f;
  if (!parser::ParseFloat(&b, &f)) return "?";
  if (b.remaining_size() != 0) return "?";
  uint32_t u;
  memcpy(&u, &f, 4);
  return std::to_string(u);
}

std::string obj_canon(const Bytes &d) {
  std::string out;
  size_t p = 0;
  bool first = true;
  while (p < d.size()) {
    size_t q = p;
    while (q < d.size() && d[q] != '\n') ++q;
    std::string line(reinterpret_cast<const char *>(d.data()) + p, q - p);
    p = q + 1;
    std::vector<std::string> words;
    std::istringstream ss(line);
    std::string w;
    while (ss >> w) words.push_back(w);
    if (words.empty()) continue;
    if (!first) out += ';';
    first = false;
    const bool numeric = words[0] == "v" || words[0] == "vt" || words[0] == "vn";
    for (size_t i = 0; i < words.size(); ++i) {
      if (i) out += ',';
      out += (numeric && i > 0) ? float_token_bits(words[i]) : words[i];
    }
  }
  return out.empty() ? "-" : out;
}

}  // namespace

VH_OP(stl_rt) {
  size_t pos = 1;
  bool is_mesh = false;
  auto pc = vh::parse_geometry(a, pos, &is_mesh);
  Bytes f;
  if (!write_stl(pc.get(), is_mesh, &f)) return "ERR | ERR";
  return vh::hex(f) + " | " + read_stl(f);
}

VH_OP(ply_rt) {
  size_t pos = 2;
  bool is_mesh = false;
  auto pc = vh::parse_geometry(a, pos, &is_mesh);
  Bytes f;
  if (!write_ply(pc.get(), is_mesh, &f)) return "ERR | ERR";
  return vh::hex(f) + " | " + read_ply(f, a[1] == "1");
}

VH_OP(obj_rt) {
  size_t pos = 2;
  bool is_mesh = false;
  auto pc = vh::parse_geometry(a, pos, &is_mesh);
  Bytes f;
  if (!write_obj(pc.get(), is_mesh, &f)) return "ERR | ERR";
  return obj_canon(f) + " | " + read_obj(f, a[1] == "1");
}

VH_OP(stl_dec) { return read_stl(vh::unhex(a[1])); }
VH_OP(ply_dec) { return read_ply(vh::unhex(a[2]), a[1] == "1"); }
VH_OP(obj_dec) { return read_obj(vh::unhex(a[2]), a[1] == "1"); }

// every value becomes the x coordinate of one point of a point cloud written by ObjEncoder
VH_OP(obj_nums) {
  auto l = vh::ilist(a[1]);
  PointCloud pc;
  pc.set_num_points(static_cast<uint32_t>(l.size()));
  GeometryAttribute ga;
  ga.Init(GeometryAttribute::POSITION, nullptr, 3, DT_FLOAT32, false, 12, 0);
  const int id = pc.AddAttribute(ga, true, static_cast<uint32_t>(l.size()));
  for (size_t i = 0; i < l.size(); ++i) {
    uint32_t v[3] = {static_cast<uint32_t>(l[i]), 0, 0};
    pc.attribute(id)->SetAttributeValue(AttributeValueIndex(static_cast<uint32_t>(i)), v);
  }
  Bytes f;
  if (!write_obj(&pc, false, &f)) return "ERR";
  // "v,<x>,<y>,<z>;…" -> the x entries
  std::string c = obj_canon(f), out;
  size_t p = 0;
  while (p < c.size()) {
    size_t q = c.find(';', p);
    if (q == std::string::npos) q = c.size();
    std::string rec = c.substr(p, q - p);
    p = q + 1;
    size_t c1 = rec.find(','), c2 = rec.find(',', c1 + 1);
    if (!out.empty()) out += ',';
    out += rec.substr(c1 + 1, c2 - c1 - 1);
  }
  return out;
}

// ---- histories: ONE encoder object writes geometry A, then geometry B; the result for B must satisfy the property
// like the result of a fresh encoder.   <op>h <as_mesh> <geometry A> -- <geometry B>   -> as <op> on B
namespace {
template <class EncT>
bool write_twice(const PointCloud *a, bool a_mesh, const PointCloud *b, bool b_mesh, Bytes *out) {
  EncT e;
  {
    EncoderBuffer scratch;
    if (a_mesh)
      (void)e.EncodeToBuffer(*static_cast<const Mesh *>(a), &scratch);
    else
      (void)e.EncodeToBuffer(*a, &scratch);
  }
  EncoderBuffer buf;
  const bool ok = b_mesh ? e.EncodeToBuffer(*static_cast<const Mesh *>(b), &buf) : e.EncodeToBuffer(*b, &buf);
  if (!ok) return false;
  *out = bytes_of(buf);
  return true;
}
struct TwoGeoms {
  std::unique_ptr<PointCloud> a, b;
  bool a_mesh = false, b_mesh = false;
};
TwoGeoms parse_two(const vh::Args &args) {
  TwoGeoms t;
  size_t pos = 2;
  t.a = vh::parse_geometry(args, pos, &t.a_mesh);
  ++pos;  // "--"
  t.b = vh::parse_geometry(args, pos, &t.b_mesh);
  return t;
}
}  // namespace

VH_OP(obj_rth) {
  TwoGeoms t = parse_two(a);
  Bytes f;
  if (!write_twice<ObjEncoder>(t.a.get(), t.a_mesh, t.b.get(), t.b_mesh, &f)) return "ERR | ERR";
  return obj_canon(f) + " | " + read_obj(f, a[1] == "1");
}
VH_OP(ply_rth) {
  TwoGeoms t = parse_two(a);
  Bytes f;
  if (!write_twice<PlyEncoder>(t.a.get(), t.a_mesh, t.b.get(), t.b_mesh, &f)) return "ERR | ERR";
  return vh::hex(f) + " | " + read_ply(f, a[1] == "1");
}

// ---- decoder-object histories: ONE ObjDecoder / PlyDecoder object reads file A (result dropped), then file B
//   obj_dech / ply_dech <as_mesh> <hex of file A> <hex of file B>   -> as obj_dec / ply_dec on file B
namespace {
template <class DecT>
std::string read_twice(const Bytes &fa, const Bytes &fb, bool as_mesh) {
  DecT dec;
  {
    DecoderBuffer b;
    b.Init(reinterpret_cast<const char *>(fa.data()), fa.size());
    if (as_mesh) {
      Mesh m;
      (void)dec.DecodeFromBuffer(&b, &m);
    } else {
      PointCloud pc;
      (void)dec.DecodeFromBuffer(&b, &pc);
    }
  }
  DecoderBuffer b;
  b.Init(reinterpret_cast<const char *>(fb.data()), fb.size());
  if (as_mesh) {
    Mesh m;
    if (!dec.DecodeFromBuffer(&b, &m).ok()) return "ERR";
    return vh::dump_geometry(&m, &m);
  }
  PointCloud pc;
  if (!dec.DecodeFromBuffer(&b, &pc).ok()) return "ERR";
  return vh::dump_geometry(&pc, nullptr);
}
}  // namespace
VH_OP(obj_dech) { return read_twice<ObjDecoder>(vh::unhex(a[2]), vh::unhex(a[3]), a[1] == "1"); }
VH_OP(ply_dech) { return read_twice<PlyDecoder>(vh::unhex(a[2]), vh::unhex(a[3]), a[1] == "1"); }

// obj_print <bits,...> -> <hex of the text ObjEncoder prints for each value>,...   (snprintf "%F", 20-byte buffer)
VH_OP(obj_print) {
  auto l = vh::ilist(a[1]);
  PointCloud pc;
  pc.set_num_points(static_cast<uint32_t>(l.size()));
  GeometryAttribute ga;
  ga.Init(GeometryAttribute::POSITION, nullptr, 3, DT_FLOAT32, false, 12, 0);
  const int id = pc.AddAttribute(ga, true, static_cast<uint32_t>(l.size()));
  for (size_t i = 0; i < l.size(); ++i) {
    uint32_t v[3] = {static_cast<uint32_t>(l[i]), 0, 0};
    pc.attribute(id)->SetAttributeValue(AttributeValueIndex(static_cast<uint32_t>(i)), v);
  }
  Bytes f;
  if (!write_obj(&pc, false, &f)) return "ERR";
  std::string out;
  size_t p = 0;
  while (p < f.size()) {
    size_t q = p;
    while (q < f.size() && f[q] != '\n') ++q;
    // "v <x> <y> <z>"
    size_t b = p + 2, e = b;
    while (e < q && f[e] != ' ') ++e;
    if (!out.empty()) out += ',';
    out += vh::hex(f.data() + b, e - b);
    p = q + 1;
  }
  return out;
}

// obj_parse <hex token,...> -> <bits>:<characters consumed> | ?   per token   (parser::ParseFloat)
VH_OP(obj_parse) {
  std::string out;
  size_t p = 0;
  const std::string &s = a[1];
  while (p <= s.size()) {
    size_t q = s.find(',', p);
    if (q == std::string::npos) q = s.size();
    auto tok = vh::unhex(s.substr(p, q - p));
    p = q + 1;
    DecoderBuffer b;
    b.Init(reinterpret_cast<const char *>(tok.data()), tok.size());
    float f;
    if (!out.empty()) out += ',';
    if (!parser::ParseFloat(&b, &f)) {
      out += "?";
    } else {
      uint32_t u;
      memcpy(&u, &f, 4);
      out += std::to_string(u) + ":" + std::to_string(static_cast<int64_t>(tok.size()) - b.remaining_size());
    }
  }
  return out;
}

// ---------------------------------------------------------------- command line tools

namespace {

std::string exe_dir() {
  char buf[4096];
  ssize_t n = readlink("/proc/self/exe", buf, sizeof(buf) - 1);
  if (n <= 0) return ".";
  buf[n] = 0;
  std::string s(buf);
  return s.substr(0, s.rfind('/'));
}

// <verif>/.cache/run/c15-tools-<pid>   (the harness lives in <verif>/.cache/build-<flavour>/harness)
std::string tmp_dir() {
  static std::string d;
  if (d.empty()) {
    const char *e = getenv("VH_TMP");
    std::string base = e ? std::string(e) : exe_dir() + "/../../run";
    mkdir(base.c_str(), 0777);
    d = base + "/c15-tools-" + std::to_string(getpid());
    mkdir(d.c_str(), 0777);
    atexit([]() { rmdir(tmp_dir().c_str()); });
  }
  return d;
}

int run_tool(const std::vector<std::string> &argv) {
  pid_t pid = fork();
  if (pid < 0) return -100;
  if (pid == 0) {
    int fd = open("/dev/null", O_WRONLY);
    if (fd >= 0) {
      dup2(fd, 1);
      dup2(fd, 2);
    }
    std::vector<char *> av;
    for (auto &s : argv) av.push_back(const_cast<char *>(s.c_str()));
    av.push_back(nullptr);
    execv(av[0], av.data());
    _exit(127);
  }
  int st = 0;
  if (waitpid(pid, &st, 0) < 0) return -101;
  if (WIFEXITED(st)) return WEXITSTATUS(st);
  if (WIFSIGNALED(st)) return 1000 + WTERMSIG(st);
  return -102;
}

bool write_file(const std::string &path, const Bytes &d) {
  FILE *f = fopen(path.c_str(), "wb");
  if (!f) return false;
  const bool ok = d.empty() || fwrite(d.data(), 1, d.size(), f) == d.size();
  fclose(f);
  return ok;
}
bool read_file(const std::string &path, Bytes *d) {
  FILE *f = fopen(path.c_str(), "rb");
  if (!f) return false;
  d->clear();
  uint8_t buf[65536];
  size_t n;
  while ((n = fread(buf, 1, sizeof(buf), f)) > 0) d->insert(d->end(), buf, buf + n);
  fclose(f);
  return true;
}

std::string read_fmt(const std::string &fmt, const Bytes &d, bool as_mesh) {
  if (fmt == "stl") return read_stl(d);
  if (fmt == "ply") return read_ply(d, as_mesh);
  return read_obj(d, as_mesh);
}

}  // namespace

VH_OP(tool_rt) {
  size_t sep = 1;
  while (sep < a.size() && a[sep] != "--") ++sep;
  if (sep >= a.size()) return "bad-op";
  std::string in = "ply", out = "ply", opts;
  bool as_pc = false;
  for (size_t i = 1; i < sep; ++i) {
    if (a[i].rfind("in=", 0) == 0) in = a[i].substr(3);
    if (a[i].rfind("out=", 0) == 0) out = a[i].substr(4);
    if (a[i].rfind("opts=", 0) == 0) opts = a[i].substr(5);
    if (a[i] == "pc=1") as_pc = true;
  }
  size_t pos = sep + 1;
  bool is_mesh = false;
  auto pc = vh::parse_geometry(a, pos, &is_mesh);
  Bytes f;
  const bool ok = in == "stl" ? write_stl(pc.get(), is_mesh, &f)
                              : (in == "ply" ? write_ply(pc.get(), is_mesh, &f) : write_obj(pc.get(), is_mesh, &f));
  if (!ok) return "ERR-write";
  static int counter = 0;
  const std::string stem = tmp_dir() + "/t" + std::to_string(counter++);
  const std::string fin = stem + "_in." + in, fdrc = stem + ".drc", fout = stem + "_out." + out;
  if (!write_file(fin, f)) return "ERR-tmpfile";
  std::vector<std::string> av = {exe_dir() + "/draco_encoder", "-i", fin, "-o", fdrc};
  if (as_pc) av.push_back("-point_cloud");
  if (!opts.empty() && opts != "-") {
    size_t p = 0;
    while (p <= opts.size()) {
      size_t q = opts.find(',', p);
      if (q == std::string::npos) q = opts.size();
      av.push_back(opts.substr(p, q - p));
      p = q + 1;
    }
  }
  const int rc1 = run_tool(av);
  int rc2 = -1;
  std::string got = "-";
  if (rc1 == 0) {
    rc2 = run_tool({exe_dir() + "/draco_decoder", "-i", fdrc, "-o", fout});
    Bytes g;
    if (rc2 == 0 && read_file(fout, &g)) got = read_fmt(out, g, !as_pc);
  }
  unlink(fin.c_str());
  unlink(fdrc.c_str());
  unlink(fout.c_str());
  return std::to_string(rc1) + " " + std::to_string(rc2) + " | " + read_fmt(in, f, !as_pc) + " | " + got;
}
