// End-to-end codec operations on the public API (Encoder / ExpertEncoder / Decoder).
#include "common.h"
#include "draco/compression/decode.h"
#include "draco/compression/encode.h"
#include "draco/compression/expert_encode.h"
#include "geom_text.h"
#include "meta_text.h"

using namespace draco;

static std::map<std::string, std::string> kvs(const vh::Args &a, size_t from, size_t to) {
  std::map<std::string, std::string> m;
  for (size_t i = from; i < to; ++i) {
    size_t e = a[i].find('=');
    if (e != std::string::npos) m[a[i].substr(0, e)] = a[i].substr(e + 1);
  }
  return m;
}
static float f_of_bits(uint32_t b) {
  float f;
  memcpy(&f, &b, 4);
  return f;
}

// applies the option tokens to an encoder with per-type (Encoder) or per-id (ExpertEncoder) setters
template <class EncT, class KeyFn>
static bool apply_opts(EncT &enc, const std::map<std::string, std::string> &o, KeyFn key, std::string *err) {
  for (auto &kv : o) {
    const std::string &k = kv.first, &v = kv.second;
    if (k == "method") {
      enc.SetEncodingMethod(atoi(v.c_str()));
    } else if (k == "speed") {
      auto l = vh::ilist(v);
      enc.SetSpeedOptions(static_cast<int>(l[0]), static_cast<int>(l[1]));
    } else if (k == "track") {
      enc.SetTrackEncodedProperties(v == "1");
    } else if (k[0] == 'q' && isdigit(k[1])) {
      enc.SetAttributeQuantization(key(atoi(k.c_str() + 1)), atoi(v.c_str()));
    } else if (k[0] == 'x' && isdigit(k[1])) {  // x<key>=bits,rangeBits,originBits...
      auto l = vh::ilist(v);
      std::vector<float> org;
      for (size_t i = 2; i < l.size(); ++i) org.push_back(f_of_bits(static_cast<uint32_t>(l[i])));
      enc.SetAttributeExplicitQuantization(key(atoi(k.c_str() + 1)), static_cast<int>(l[0]),
                                           static_cast<int>(org.size()), org.data(),
                                           f_of_bits(static_cast<uint32_t>(l[1])));
    } else if (k[0] == 'p' && isdigit(k[1])) {
      Status st = enc.SetAttributePredictionScheme(key(atoi(k.c_str() + 1)), atoi(v.c_str()));
      if (!st.ok()) {
        *err = "err-predscheme";
        return false;
      }
    }
  }
  return true;
}

// enc [expert=1] [method=..] [speed=e,d] [q<k>=bits] [x<k>=bits,range,origin..] [p<k>=scheme] [track=1]
//     [submethod=..] [builtin=0|1] [g:<global option>=<int>] -- <geometry tokens>
// k = attribute type for the Encoder API, attribute id for the ExpertEncoder API.
// -> ok <hex> <num_encoded_points> <num_encoded_faces> | err-...
VH_OP(enc) {
  size_t sep = 1;
  while (sep < a.size() && a[sep] != "--") ++sep;
  if (sep >= a.size()) return "bad-op";
  auto o = kvs(a, 1, sep);
  size_t pos = sep + 1;
  bool is_mesh = false;
  std::unique_ptr<PointCloud> pc = vh::parse_geometry(a, pos, &is_mesh);
  if (o.count("meta")) {
    auto gm = vh::parse_geometry_metadata(o["meta"]);
    if (!gm) return "bad-op";
    pc->AddMetadata(std::move(gm));
  }
  EncoderBuffer buf;
  Status st;
  size_t nep = 0, nef = 0;
  std::string err;
  if (o.count("expert")) {
    std::unique_ptr<ExpertEncoder> ee(is_mesh ? new ExpertEncoder(*static_cast<Mesh *>(pc.get()))
                                              : new ExpertEncoder(*pc));
    EncoderOptions eo = EncoderOptions::CreateDefaultOptions();
    for (auto &kv : o)
      if (kv.first.rfind("g:", 0) == 0) eo.SetGlobalInt(kv.first.substr(2), atoi(kv.second.c_str()));
    ee->Reset(eo);
    if (!apply_opts(*ee, o, [](int k) { return k; }, &err)) return err;
    if (o.count("submethod")) ee->SetEncodingSubmethod(atoi(o["submethod"].c_str()));
    if (o.count("builtin")) ee->SetUseBuiltInAttributeCompression(o["builtin"] == "1");
    st = ee->EncodeToBuffer(&buf);
    nep = ee->num_encoded_points();
    nef = ee->num_encoded_faces();
  } else {
    Encoder e;
    if (!apply_opts(e, o, [](int k) { return static_cast<GeometryAttribute::Type>(k); }, &err)) return err;
    if (is_mesh)
      st = e.EncodeMeshToBuffer(*static_cast<Mesh *>(pc.get()), &buf);
    else
      st = e.EncodePointCloudToBuffer(*pc, &buf);
    nep = e.num_encoded_points();
    nef = e.num_encoded_faces();
  }
  if (!st.ok()) return "err-encode";
  return "ok " + vh::hex(buf.data(), buf.size()) + " " + std::to_string(nep) + " " + std::to_string(nef);
}

// one run of the Encoder API (not the ExpertEncoder, which is bound to its geometry) on a caller-supplied object
static std::string enc_with(Encoder &e, const std::vector<std::string> &a) {
  size_t sep = 1;
  while (sep < a.size() && a[sep] != "--") ++sep;
  if (sep >= a.size()) return "bad-op";
  auto o = kvs(a, 1, sep);
  size_t pos = sep + 1;
  bool is_mesh = false;
  std::unique_ptr<PointCloud> pc = vh::parse_geometry(a, pos, &is_mesh);
  std::string err;
  if (!apply_opts(e, o, [](int k) { return static_cast<GeometryAttribute::Type>(k); }, &err)) return err;
  EncoderBuffer buf;
  Status st = is_mesh ? e.EncodeMeshToBuffer(*static_cast<Mesh *>(pc.get()), &buf) : e.EncodePointCloudToBuffer(*pc, &buf);
  if (!st.ok()) return "err-encode";
  return "ok " + vh::hex(buf.data(), buf.size()) + " " + std::to_string(e.num_encoded_points()) + " " +
         std::to_string(e.num_encoded_faces());
}

static std::string decode_bytes(const std::vector<uint8_t> &d, const std::string &skip) {
  DecoderBuffer b;
  b.Init(reinterpret_cast<const char *>(d.data()), d.size());
  Decoder dec;
  for (char c : skip)
    if (c >= '0' && c <= '4') dec.SetSkipAttributeTransform(static_cast<GeometryAttribute::Type>(c - '0'));
  auto t = Decoder::GetEncodedGeometryType(&b);
  if (!t.ok()) return "err";
  if (t.value() == TRIANGULAR_MESH) {
    auto r = dec.DecodeMeshFromBuffer(&b);
    if (!r.ok()) return r.status().code() == Status::UNKNOWN_VERSION ? "err-version" : "err";
    std::unique_ptr<Mesh> m = std::move(r).value();
    return "ok " + std::to_string(static_cast<int64_t>(d.size()) - b.remaining_size()) + " " + vh::dump_geometry(m.get(), m.get()) +
           (m->GetMetadata() ? " meta " + vh::dump_geometry_metadata(*m->GetMetadata()) : std::string());
  }
  if (t.value() == POINT_CLOUD) {
    auto r = dec.DecodePointCloudFromBuffer(&b);
    if (!r.ok()) return r.status().code() == Status::UNKNOWN_VERSION ? "err-version" : "err";
    std::unique_ptr<PointCloud> p = std::move(r).value();
    return "ok " + std::to_string(static_cast<int64_t>(d.size()) - b.remaining_size()) + " " + vh::dump_geometry(p.get(), nullptr) +
           (p->GetMetadata() ? " meta " + vh::dump_geometry_metadata(*p->GetMetadata()) : std::string());
  }
  return "err";
}

// encdech <enc args of A> ;; <enc args of B>: ONE draco::Encoder object encodes geometry A (result dropped), then —
// with B's options applied on top of whatever A left — geometry B; output as `encdec` for B
VH_OP(encdech) {
  size_t cut = 1;
  while (cut < a.size() && a[cut] != ";;") ++cut;
  if (cut >= a.size()) return "bad-op";
  std::vector<std::string> A(a.begin(), a.begin() + cut), B;
  B.push_back(a[0]);
  B.insert(B.end(), a.begin() + cut + 1, a.end());
  Encoder e;
  (void)enc_with(e, A);
  std::string r = enc_with(e, B);
  if (r.rfind("ok ", 0) != 0) return r;
  std::istringstream ss(r);
  std::string okt, hx;
  ss >> okt >> hx;
  auto d = vh::unhex(hx);
  return r + " | " + decode_bytes(d, "-") + " | " + decode_bytes(d, "01234") + " | -";
}

// dec <skip types e.g. 01 or -> <hex>  -> ok <consumed> <geometry> | err | err-version
VH_OP(dec) { return decode_bytes(vh::unhex(a[2]), a[1]); }

// decseq <skip> <hexA> <hexB>: ONE DecoderBuffer object and ONE Decoder object decode stream A first (result dropped),
// then the same objects (DecoderBuffer::Init again) decode stream B  -> as `dec <skip> <hexB>`
VH_OP(decseq) {
  auto da = vh::unhex(a[2]);
  auto db = vh::unhex(a[3]);
  DecoderBuffer b;
  Decoder dec;
  for (char c : a[1])
    if (c >= '0' && c <= '4') dec.SetSkipAttributeTransform(static_cast<GeometryAttribute::Type>(c - '0'));
  auto run = [&](const std::vector<uint8_t> &d) -> std::string {
    b.Init(reinterpret_cast<const char *>(d.data()), d.size());
    auto t = Decoder::GetEncodedGeometryType(&b);
    if (!t.ok()) return "err";
    if (t.value() == TRIANGULAR_MESH) {
      auto r = dec.DecodeMeshFromBuffer(&b);
      if (!r.ok()) return r.status().code() == Status::UNKNOWN_VERSION ? "err-version" : "err";
      std::unique_ptr<Mesh> m = std::move(r).value();
      return "ok " + std::to_string(static_cast<int64_t>(d.size()) - b.remaining_size()) + " " + vh::dump_geometry(m.get(), m.get()) +
             (m->GetMetadata() ? " meta " + vh::dump_geometry_metadata(*m->GetMetadata()) : std::string());
    }
    if (t.value() == POINT_CLOUD) {
      auto r = dec.DecodePointCloudFromBuffer(&b);
      if (!r.ok()) return r.status().code() == Status::UNKNOWN_VERSION ? "err-version" : "err";
      std::unique_ptr<PointCloud> p = std::move(r).value();
      return "ok " + std::to_string(static_cast<int64_t>(d.size()) - b.remaining_size()) + " " + vh::dump_geometry(p.get(), nullptr) +
             (p->GetMetadata() ? " meta " + vh::dump_geometry_metadata(*p->GetMetadata()) : std::string());
    }
    return "err";
  };
  (void)run(da);
  return run(db);
}

// encdec <enc args…>: encode, then decode the produced bytes followed by optional trailing bytes
//   (token trail=<hex>), normally and (token skip=<types>) with attribute transforms skipped:
//   -> ok <hex> <nep> <nef> | <dec result> | <dec result with all transforms skipped> | <dec result with skip=<types>, or ->
VH_OP(encdec) {
  std::string e = op_enc(a);
  if (e.rfind("ok ", 0) != 0) return e;
  std::istringstream ss(e);
  std::string okt, hx;
  ss >> okt >> hx;
  auto d = vh::unhex(hx);
  std::string skip = "";
  for (size_t i = 1; i < a.size() && a[i] != "--"; ++i) {
    if (a[i].rfind("trail=", 0) == 0) {
      auto t = vh::unhex(a[i].substr(6));
      d.insert(d.end(), t.begin(), t.end());
    }
    if (a[i].rfind("skip=", 0) == 0) skip = a[i].substr(5);
  }
  return e + " | " + decode_bytes(d, "-") + " | " + decode_bytes(d, "01234") + " | " +
         (skip.empty() ? std::string("-") : decode_bytes(d, skip));
}
