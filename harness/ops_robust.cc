// Decoder robustness operations (C02 memory safety / status, C03 structural validity of accepted
// geometry, C18 allocation bound).
//
//   rdec [cap=<bytes>] [skip=<types|->] [dump=1] <hex>
//
// The input bytes are placed in two private mappings that are read-only while the decoder runs and
// have an inaccessible guard page on either side: in mapping E the last input byte is the last
// byte before the trailing guard page (an over-read by one byte faults), in mapping S the first
// input byte is the first byte after the leading guard page (an under-read faults). A write to the
// input faults in both. Every decoding entry point of the public API is then run on the bytes:
//
//   e0 Decoder::GetEncodedGeometryType                                   (E)
//   e1 Decoder::DecodeMeshFromBuffer / DecodePointCloudFromBuffer        (E)  by the type e0 returned
//   e2 Decoder::DecodeBufferToGeometry(Mesh *)                           (S)
//   e3 Decoder::DecodeBufferToGeometry(PointCloud *)                     (S)
//   e4 DecodeBufferToGeometry with SetSkipAttributeTransform(skip types) (E)  geometry kind by e0
//   e5 Decoder::DecodePointCloudFromBuffer on a mesh stream              (S)
//   e6 KeyframeAnimationDecoder::Decode                                  (S)
//
// Each call runs inside an allocation-monitor window (when the executable has a monitor) and inside
// try/catch(std::bad_alloc): a request above the cap is refused by the monitor and reported.
// After every call that reports ok the returned geometry is (1) tested for structural validity
// explicitly (C03) and, when valid, (2) read completely through the public accessors.
//
// Output (one line, sections separated by " | "):
//   type=<mesh|pc|err> e1=<st> e2=<st> e3=<st> e4=<st> e5=<st> e6=<st>
//       r1=<consumed>,<points>,<faces>,<atts>,<fnv64 of the dump> valid=<ok|text> input=<same|MODIFIED>
//       mon=<0|1> max=<bytes> peak=<bytes> n=<requests> refused=<bytes> refusedlive=<bytes> at=<entry with the largest request>
//       maxbt=<call stack of the largest request> peakbt=<call stack of the request that set the peak>   (addr2line offsets)
//       declared=<count> declkf=<count read by the keyframe decoder> geo=<points+faces of the largest accepted geometry>
//   [ | <dump of e1 in the `dec` format> | <dump of e4 in the `dec` format> ]      with dump=1
// st: ok | err | err-version | badalloc
#include <dlfcn.h>
#include <sys/mman.h>
#include <unistd.h>

#include <algorithm>
#include <new>

#include "alloc_monitor.h"
#include "common.h"
#include "draco/animation/keyframe_animation.h"
#include "draco/animation/keyframe_animation_decoder.h"
#include "draco/compression/config/compression_shared.h"
#include "draco/compression/decode.h"
#include "draco/core/varint_decoding.h"
#include "draco/metadata/metadata_decoder.h"
#include "geom_text.h"
#include "meta_text.h"

using namespace draco;

extern "C" {
extern uintptr_t vh_guard_lo[4] __attribute__((weak));
extern uintptr_t vh_guard_hi[4] __attribute__((weak));
}

namespace {

// ------------------------------------------------------------------ guarded input
struct Guarded {
  uint8_t *map = nullptr;
  size_t maplen = 0;
  const char *data = nullptr;
  size_t n = 0;
  int slot = -1;
  // end_aligned: data + n == start of the trailing guard page
  Guarded(const std::vector<uint8_t> &src, bool end_aligned, int slot_) : slot(slot_) {
    const size_t pg = static_cast<size_t>(sysconf(_SC_PAGESIZE));
    n = src.size();
    const size_t body = ((n + pg - 1) / pg + (n == 0 ? 1 : 0)) * pg;
    maplen = body + 2 * pg;
    void *m = mmap(nullptr, maplen, PROT_READ | PROT_WRITE, MAP_PRIVATE | MAP_ANONYMOUS, -1, 0);
    if (m == MAP_FAILED) {
      perror("mmap");
      abort();
    }
    map = static_cast<uint8_t *>(m);
    memset(map + pg, 0xA5, body);
    uint8_t *d = end_aligned ? map + pg + body - n : map + pg;
    if (n) memcpy(d, src.data(), n);
    data = reinterpret_cast<const char *>(d);
    mprotect(map, pg, PROT_NONE);
    mprotect(map + pg + body, pg, PROT_NONE);
    mprotect(map + pg, body, PROT_READ);
    if (vh_guard_lo && slot >= 0 && slot < 4) {
      vh_guard_lo[slot] = reinterpret_cast<uintptr_t>(map);
      vh_guard_hi[slot] = reinterpret_cast<uintptr_t>(map) + maplen;
    }
  }
  bool same_as(const std::vector<uint8_t> &src) const { return n == 0 || memcmp(data, src.data(), n) == 0; }
  ~Guarded() {
    if (vh_guard_lo && slot >= 0 && slot < 4) vh_guard_lo[slot] = vh_guard_hi[slot] = 0;
    munmap(map, maplen);
  }
};

// ------------------------------------------------------------------ monitor window
// module-relative return addresses ("+<hex>" inside the executable, resolvable with addr2line; 0 elsewhere)
std::string frames_text(void *const *frames, int n) {
  std::string s;
  for (int i = 0; i < n; ++i) {
    Dl_info info;
    uintptr_t off = 0;
    if (dladdr(frames[i], &info) && info.dli_fbase && info.dli_fname && strstr(info.dli_fname, ".so") == nullptr)
      off = reinterpret_cast<uintptr_t>(frames[i]) - reinterpret_cast<uintptr_t>(info.dli_fbase);
    char b[32];
    snprintf(b, sizeof b, "%s%lx", i ? "," : "", static_cast<unsigned long>(off));
    s += b;
  }
  return s.empty() ? "-" : s;
}

struct Agg {
  bool mon = false;
  uint64_t max = 0, peak = 0, n = 0, refused = 0, refused_live = 0;
  int at = -1;
  std::string max_bt = "-", peak_bt = "-";
  void add(const VhAllocStats &s, int entry) {
    if (s.max_request > max) {
      max = s.max_request;
      at = entry;
      max_bt = frames_text(s.max_frames, s.max_nframes);
    }
    if (s.peak_live > peak) {
      peak = s.peak_live;
      peak_bt = frames_text(s.peak_frames, s.peak_nframes);
    }
    n += s.count;
    if (s.refused && !refused) refused = s.refused;
    if (s.refused_live && !refused_live) refused_live = s.refused_live;
  }
};

template <class F>
std::string guarded_call(Agg &agg, int entry, uint64_t cap, F f) {
  std::string st;
  VhAllocStats s;
  memset(&s, 0, sizeof s);
  const bool mon = vh_alloc_begin != nullptr && vh_alloc_end != nullptr;
  agg.mon = mon;
  if (mon) vh_alloc_begin(cap, 32 * cap);
  try {
    st = f();
  } catch (const std::bad_alloc &) {
    st = "badalloc";
  }
  if (mon) {
    vh_alloc_end(&s);
    agg.add(s, entry);
  }
  return st;
}

std::string status_text(const Status &s) {
  if (s.ok()) return "ok";
  return s.code() == Status::UNKNOWN_VERSION ? "err-version" : "err";
}

// ------------------------------------------------------------------ C03: explicit validity
// Returns "" when the geometry is structurally valid, else a description (no spaces).
std::string validity(const PointCloud &pc, const Mesh *mesh) {
  char msg[256];
  const uint64_t np = pc.num_points();
  if (mesh) {
    for (FaceIndex f(0); f < mesh->num_faces(); ++f)
      for (int c = 0; c < 3; ++c)
        if (mesh->face(f)[c].value() >= np) {
          snprintf(msg, sizeof msg, "face_%u_corner_%d_refers_to_point_%u_of_%llu", f.value(), c,
                   mesh->face(f)[c].value(), static_cast<unsigned long long>(np));
          return msg;
        }
  }
  for (int a = 0; a < pc.num_attributes(); ++a) {
    const PointAttribute *att = pc.attribute(a);
    if (att == nullptr) {
      snprintf(msg, sizeof msg, "attribute_%d_is_null", a);
      return msg;
    }
    const int64_t tl = DataTypeLength(att->data_type());
    if (tl <= 0 || att->num_components() <= 0) {
      snprintf(msg, sizeof msg, "attribute_%d_has_data_type_%d_and_%d_components", a,
               static_cast<int>(att->data_type()), static_cast<int>(att->num_components()));
      return msg;
    }
    const int64_t vb = tl * att->num_components();
    if (att->byte_stride() < vb || att->byte_offset() < 0) {
      snprintf(msg, sizeof msg, "attribute_%d_stride_%lld_smaller_than_value_size_%lld", a,
               static_cast<long long>(att->byte_stride()), static_cast<long long>(vb));
      return msg;
    }
    const uint64_t sz = att->size();
    if (sz > 0) {
      if (att->buffer() == nullptr) {
        snprintf(msg, sizeof msg, "attribute_%d_has_no_buffer", a);
        return msg;
      }
      const unsigned __int128 need = static_cast<unsigned __int128>(att->byte_offset()) +
                                     static_cast<unsigned __int128>(sz - 1) * att->byte_stride() + vb;
      if (static_cast<unsigned __int128>(att->buffer()->data_size()) < need) {
        snprintf(msg, sizeof msg, "attribute_%d_storage_%zu_bytes_for_%llu_values_of_%lld_bytes", a,
                 att->buffer()->data_size(), static_cast<unsigned long long>(sz), static_cast<long long>(vb));
        return msg;
      }
    }
    if (att->is_mapping_identity()) {
      if (sz < np) {
        snprintf(msg, sizeof msg, "attribute_%d_identity_mapped_with_%llu_values_for_%llu_points", a,
                 static_cast<unsigned long long>(sz), static_cast<unsigned long long>(np));
        return msg;
      }
    } else {
      if (att->indices_map_size() < np) {
        snprintf(msg, sizeof msg, "attribute_%d_point_map_has_%zu_entries_for_%llu_points", a,
                 att->indices_map_size(), static_cast<unsigned long long>(np));
        return msg;
      }
      for (PointIndex p(0); p < np; ++p) {
        const uint32_t avi = att->mapped_index(p).value();
        if (avi >= sz) {
          snprintf(msg, sizeof msg, "attribute_%d_type_%d_point_%u_maps_to_value_%u_of_%llu", a,
                   static_cast<int>(att->attribute_type()), p.value(), avi, static_cast<unsigned long long>(sz));
          return msg;
        }
      }
    }
  }
  return "";
}

// reads everything through the public accessors (sanitizers watch); returns a checksum
uint64_t walk(const PointCloud &pc, const Mesh *mesh) {
  uint64_t h = 1469598103934665603ull;
  auto mix = [&h](uint64_t v) { h = (h ^ v) * 1099511628211ull; };
  if (mesh)
    for (FaceIndex f(0); f < mesh->num_faces(); ++f) {
      const Mesh::Face &fc = mesh->face(f);
      mix(fc[0].value());
      mix(fc[1].value());
      mix(fc[2].value());
    }
  std::vector<uint8_t> scratch;
  for (int a = 0; a < pc.num_attributes(); ++a) {
    const PointAttribute *att = pc.attribute(a);
    const size_t stride = static_cast<size_t>(att->byte_stride());
    scratch.assign(stride + 1, 0);
    mix(static_cast<uint64_t>(att->attribute_type()));
    mix(att->unique_id());
    const uint32_t np = pc.num_points();
    for (PointIndex p(0); p < np; ++p) {
      const AttributeValueIndex avi = att->mapped_index(p);
      mix(avi.value());
      att->GetValue(avi, scratch.data());
      const uint8_t *ad = att->GetAddress(avi);
      for (size_t k = 0; k < stride; ++k) mix(static_cast<uint64_t>(scratch[k]) + ad[k]);
      att->GetMappedValue(p, scratch.data());
      mix(scratch[0]);
    }
    // values that no point refers to are still part of the declared storage
    for (AttributeValueIndex v(0); v < static_cast<uint32_t>(att->size()); ++v) {
      att->GetValue(v, scratch.data());
      mix(scratch[0]);
    }
    const AttributeTransformData *td = att->GetAttributeTransformData();
    if (td) mix(static_cast<uint64_t>(td->transform_type()));
  }
  if (pc.GetMetadata()) mix(pc.GetMetadata()->attribute_metadatas().size());
  return h;
}

uint64_t fnv(const std::string &s) {
  uint64_t h = 1469598103934665603ull;
  for (unsigned char c : s) h = (h ^ c) * 1099511628211ull;
  return h;
}

struct Acc {
  std::string invalid;   // first validity violation
  uint64_t geo = 0;      // points + faces of the largest accepted geometry
  uint64_t sink = 0;
  void accepted(const char *entry, const PointCloud &pc, const Mesh *mesh) {
    const uint64_t g = static_cast<uint64_t>(pc.num_points()) + (mesh ? mesh->num_faces() : 0);
    if (g > geo) geo = g;
    std::string v = validity(pc, mesh);
    if (!v.empty()) {
      if (invalid.empty()) invalid = std::string(entry) + ":" + v;
      return;
    }
    sink ^= walk(pc, mesh);
  }
};

std::string dec_text(const PointCloud *pc, const Mesh *mesh, int64_t consumed) {
  return "ok " + std::to_string(consumed) + " " + vh::dump_geometry(pc, mesh) +
         (pc->GetMetadata() ? " meta " + vh::dump_geometry_metadata(*pc->GetMetadata()) : std::string());
}

// ------------------------------------------------------------------ C18: declared element counts
// Conservative parse of the counts a stream may legitimately use to size arrays: number of points
// (point clouds), points + faces (sequential mesh), encoded vertices + faces (Edgebreaker).
// 0 when the stream is rejected before any such count is read.
// `keyframe`: the count KeyframeAnimationDecoder (a sequential point cloud decoder that ignores the method byte) reads.
uint64_t declared_counts(const char *data, size_t n, bool keyframe) {
  DecoderBuffer b;
  b.Init(data, n);
  char magic[5];
  uint8_t major, minor, type, method;
  uint16_t flags;
  if (!b.Decode(magic, 5) || memcmp(magic, "DRACO", 5) != 0) return 0;
  if (!b.Decode(&major) || !b.Decode(&minor) || !b.Decode(&type) || !b.Decode(&method) || !b.Decode(&flags))
    return 0;
  if (type > 1) return 0;
  if (keyframe ? type != 0 : method > 1) return 0;
  const uint8_t max_major = type == 0 ? kDracoPointCloudBitstreamVersionMajor : kDracoMeshBitstreamVersionMajor;
  const uint8_t max_minor = type == 0 ? kDracoPointCloudBitstreamVersionMinor : kDracoMeshBitstreamVersionMinor;
  if (major < 1 || major > max_major || (major == max_major && minor > max_minor)) return 0;
  const uint16_t ver = static_cast<uint16_t>((major << 8) | minor);
  b.set_bitstream_version(ver);
  if (ver >= 0x0103 && (flags & 0x8000)) {
    GeometryMetadata gm;
    MetadataDecoder md;
    if (!md.DecodeGeometryMetadata(&b, &gm)) return 0;
  }
  auto rd = [&](bool fixed, uint32_t *v) { return fixed ? b.Decode(v) : DecodeVarint(v, &b); };
  if (type == 0) {
    int32_t np;
    if (!b.Decode(&np)) return 0;
    if (!keyframe && method == 1 && np < 0) return 0;
    return static_cast<uint32_t>(np);
  }
  if (method == 0) {
    uint32_t nf, np;
    if (!rd(ver < 0x0202, &nf) || !rd(ver < 0x0202, &np)) return 0;
    if (nf > 0xffffffffu / 3) return 0;
    return static_cast<uint64_t>(nf) + np;
  }
  uint8_t traversal;
  if (!b.Decode(&traversal)) return 0;
  uint32_t nnew = 0, nev, nf;
  if (ver < 0x0202 && !rd(ver < 0x0200, &nnew)) return 0;
  if (!rd(ver < 0x0200, &nev) || !rd(ver < 0x0200, &nf)) return 0;
  if (nf > 0xffffffffu / 3 || nev > nf * 3) return 0;
  return static_cast<uint64_t>(nev) + nf;
}

}  // namespace

VH_OP(rdec) {
  uint64_t cap = 1ull << 30;
  std::string skip = "01234";
  bool dump = false;
  std::string hexs;
  for (size_t i = 1; i < a.size(); ++i) {
    if (a[i].rfind("cap=", 0) == 0)
      cap = vh::u64(a[i].substr(4));
    else if (a[i].rfind("skip=", 0) == 0)
      skip = a[i].substr(5);
    else if (a[i] == "dump=1")
      dump = true;
    else
      hexs = a[i];
  }
  if (hexs.empty()) return "bad-op";
  const std::vector<uint8_t> src = vh::unhex(hexs);
  Guarded ge(src, true, 0), gs(src, false, 1);
  Agg agg;
  Acc acc;
  std::string st[7];
  std::string r1 = "-", dump1 = "-", dump4 = "-";
  // geometries are destroyed inside the window that created them, except where a dump is needed
  EncodedGeometryType gt = INVALID_GEOMETRY_TYPE;
  st[0] = guarded_call(agg, 0, cap, [&]() {
    DecoderBuffer b;
    b.Init(ge.data, ge.n);
    auto t = Decoder::GetEncodedGeometryType(&b);
    if (!t.ok()) return status_text(t.status());
    gt = t.value();
    return std::string("ok");
  });
  const bool is_mesh = gt == TRIANGULAR_MESH, is_pc = gt == POINT_CLOUD;
  st[1] = "-";
  if (is_mesh || is_pc) {
    st[1] = guarded_call(agg, 1, cap, [&]() {
      DecoderBuffer b;
      b.Init(ge.data, ge.n);
      Decoder dec;
      std::unique_ptr<PointCloud> pc;
      Mesh *mesh = nullptr;
      if (is_mesh) {
        auto r = dec.DecodeMeshFromBuffer(&b);
        if (!r.ok()) return status_text(r.status());
        std::unique_ptr<Mesh> m = std::move(r).value();
        mesh = m.get();
        pc = std::move(m);
      } else {
        auto r = dec.DecodePointCloudFromBuffer(&b);
        if (!r.ok()) return status_text(r.status());
        pc = std::move(r).value();
      }
      acc.accepted("e1", *pc, mesh);
      const int64_t consumed = static_cast<int64_t>(ge.n) - b.remaining_size();
      const bool valid = acc.invalid.empty();
      std::string d = valid ? dec_text(pc.get(), mesh, consumed) : std::string("INVALID");
      r1 = std::to_string(consumed) + "," + std::to_string(pc->num_points()) + "," +
           std::to_string(mesh ? mesh->num_faces() : 0) + "," + std::to_string(pc->num_attributes()) + "," +
           std::to_string(fnv(d));
      if (dump) dump1 = d;
      return std::string("ok");
    });
  }
  st[2] = guarded_call(agg, 2, cap, [&]() {
    DecoderBuffer b;
    b.Init(gs.data, gs.n);
    Decoder dec;
    Mesh m;
    Status s = dec.DecodeBufferToGeometry(&b, &m);
    if (s.ok()) acc.accepted("e2", m, &m);
    return status_text(s);
  });
  st[3] = guarded_call(agg, 3, cap, [&]() {
    DecoderBuffer b;
    b.Init(gs.data, gs.n);
    Decoder dec;
    PointCloud p;
    Status s = dec.DecodeBufferToGeometry(&b, &p);
    if (s.ok()) acc.accepted("e3", p, nullptr);
    return status_text(s);
  });
  st[4] = "-";
  if (is_mesh || is_pc) {
    st[4] = guarded_call(agg, 4, cap, [&]() {
      DecoderBuffer b;
      b.Init(ge.data, ge.n);
      Decoder dec;
      for (char c : skip)
        if (c >= '0' && c <= '4') dec.SetSkipAttributeTransform(static_cast<GeometryAttribute::Type>(c - '0'));
      std::unique_ptr<PointCloud> pc(is_mesh ? new Mesh() : new PointCloud());
      Mesh *mesh = is_mesh ? static_cast<Mesh *>(pc.get()) : nullptr;
      Status s = is_mesh ? dec.DecodeBufferToGeometry(&b, mesh) : dec.DecodeBufferToGeometry(&b, pc.get());
      if (!s.ok()) {
        if (dump) dump4 = status_text(s);
        return status_text(s);
      }
      const bool before = acc.invalid.empty();
      acc.accepted("e4", *pc, mesh);
      if (dump)
        dump4 = (before && acc.invalid.empty())
                    ? dec_text(pc.get(), mesh, static_cast<int64_t>(ge.n) - b.remaining_size())
                    : std::string("INVALID");
      return std::string("ok");
    });
  }
  st[5] = "-";
  if (is_mesh) {
    st[5] = guarded_call(agg, 5, cap, [&]() {
      DecoderBuffer b;
      b.Init(gs.data, gs.n);
      Decoder dec;
      auto r = dec.DecodePointCloudFromBuffer(&b);
      if (!r.ok()) return status_text(r.status());
      std::unique_ptr<PointCloud> pc = std::move(r).value();
      // "In case the input buffer contains mesh, the returned instance can be down-casted to Mesh"
      acc.accepted("e5", *pc, static_cast<Mesh *>(pc.get()));
      return std::string("ok");
    });
  }
  st[6] = guarded_call(agg, 6, cap, [&]() {
    DecoderBuffer b;
    b.Init(gs.data, gs.n);
    KeyframeAnimationDecoder dec;
    DecoderOptions opt;
    KeyframeAnimation anim;
    Status s = dec.Decode(opt, &b, &anim);
    if (s.ok()) acc.accepted("e6", anim, nullptr);
    return status_text(s);
  });
  if (dump && st[1] != "ok") dump1 = st[1];
  const bool same = ge.same_as(src) && gs.same_as(src);
  const uint64_t declared = declared_counts(gs.data, gs.n, false);
  const uint64_t declared_kf = declared_counts(gs.data, gs.n, true);
  std::string out = std::string("type=") + (is_mesh ? "mesh" : is_pc ? "pc" : st[0]);
  for (int i = 1; i < 7; ++i) out += " e" + std::to_string(i) + "=" + st[i];
  out += " r1=" + r1;
  out += " valid=" + (acc.invalid.empty() ? std::string("ok") : acc.invalid);
  out += std::string(" input=") + (same ? "same" : "MODIFIED");
  out += std::string(" mon=") + (agg.mon ? "1" : "0") + " max=" + std::to_string(agg.max) +
         " peak=" + std::to_string(agg.peak) + " n=" + std::to_string(agg.n) +
         " refused=" + std::to_string(agg.refused) + " refusedlive=" + std::to_string(agg.refused_live) +
         " at=e" + std::to_string(agg.at) + " maxbt=" + agg.max_bt + " peakbt=" + agg.peak_bt;
  out += " declared=" + std::to_string(declared) + " declkf=" + std::to_string(declared_kf) + " geo=" + std::to_string(acc.geo);
  out += " sink=" + std::to_string(acc.sink & 0xff);
  if (dump) out += " | " + dump1 + " | " + dump4;
  return out;
}

// rselftest over|under|write|bigalloc|hang : deliberately violates what rdec relies on, to show that
// the guard pages, the allocation cap and the watchdog report deterministically.
//   over / under / write -> the process dies with SIGSEGV (the engine reports CRASH)
//   bigalloc             -> `badalloc <refused bytes>` (monitor) or `nomonitor`
//   hang                 -> the watchdog ends the process (exit 124)
VH_OP(rselftest) {
  if (a.size() < 2) return "bad-op";
  std::vector<uint8_t> src(100, 7);
  Guarded ge(src, true, 0), gs(src, false, 1);
  volatile uint8_t sink = 0;
  if (a[1] == "over") {
    volatile const char *p = ge.data;
    sink = static_cast<uint8_t>(p[ge.n]);
  } else if (a[1] == "under") {
    volatile const char *p = gs.data;
    sink = static_cast<uint8_t>(p[-1]);
  } else if (a[1] == "write") {
    volatile char *p = const_cast<char *>(ge.data);
    p[3] = 1;
  } else if (a[1] == "bigalloc") {
    Agg agg;
    uint64_t want = 3ull << 30;
    std::string st = guarded_call(agg, 0, 1ull << 30, [&]() {
      std::vector<uint8_t> v(want);
      return std::string(v.empty() ? "empty" : "allocated");
    });
    if (!agg.mon) return "nomonitor";
    return st + " " + std::to_string(agg.refused);
  } else if (a[1] == "hang") {
    for (;;) sink = static_cast<uint8_t>(sink + 1);
  }
  return "survived " + std::to_string(sink);
}

// ------------------------------------------------------------------ tamper hook (C02 "semantic corruption")
// The library (built with -DDRACO_VERIF) weakly refers to draco_verif_tamper(kind, &value) just before an
// Edgebreaker encoder hands a value to its entropy coder (src/draco/core/verif_hooks.h). The harness owns the
// state: per-kind occurrence counters and original values, and at most one (kind, occurrence) whose value is
// replaced.
namespace {
struct TamperState {
  bool active = false;
  int target_kind = -1;
  long target_occ = -1;
  uint32_t value = 0;
  bool hit = false;
  std::vector<std::vector<uint32_t>> seen = std::vector<std::vector<uint32_t>>(8);
};
thread_local TamperState g_tamper;
}  // namespace

extern "C" void draco_verif_tamper(int kind, uint32_t *value) {
  TamperState &t = g_tamper;
  if (!t.active || kind < 0 || kind >= 8) return;
  const long occ = static_cast<long>(t.seen[kind].size());
  t.seen[kind].push_back(*value);
  if (kind == t.target_kind && occ == t.target_occ) {
    *value = t.value;
    t.hit = true;
  }
}

static std::string run_enc_with_tamper(const vh::Args &a, size_t from, int kind, long occ, uint32_t val) {
  auto it = vh::registry().find("enc");
  if (it == vh::registry().end()) return "bad-op";
  vh::Args ea;
  ea.push_back("enc");
  for (size_t i = from; i < a.size(); ++i) ea.push_back(a[i]);
  g_tamper = TamperState();
  g_tamper.active = true;
  g_tamper.target_kind = kind;
  g_tamper.target_occ = occ;
  g_tamper.value = val;
  std::string r;
  try {
    r = it->second(ea);
  } catch (...) {
    g_tamper.active = false;
    throw;
  }
  g_tamper.active = false;
  return r;
}

// tcount <enc args…>  -> ok <hex> | <kind>:<v,v,…> for the 8 kinds (values the encoder handed to the hook, in order)
VH_OP(tcount) {
  std::string r = run_enc_with_tamper(a, 1, -1, -1, 0);
  if (r.rfind("ok ", 0) != 0) return r;
  std::istringstream ss(r);
  std::string okt, hx;
  ss >> okt >> hx;
  std::string out = "ok " + hx + " |";
  for (int k = 0; k < 8; ++k) out += " " + std::to_string(k) + ":" + vh::joinl(g_tamper.seen[k]);
  return out;
}

// tenc <kind> <occurrence> <value> <enc args…> -> ok <hex> <hit 0|1>   (one value replaced before entropy coding)
VH_OP(tenc) {
  if (a.size() < 5) return "bad-op";
  std::string r = run_enc_with_tamper(a, 4, atoi(a[1].c_str()), atol(a[2].c_str()),
                                      static_cast<uint32_t>(vh::u64(a[3])));
  if (r.rfind("ok ", 0) != 0) return r;
  std::istringstream ss(r);
  std::string okt, hx;
  ss >> okt >> hx;
  return "ok " + hx + " " + (g_tamper.hit ? "1" : "0");
}

// ------------------------------------------------------------------ legacy (bitstream 2.0 .. 2.2) kd-tree point clouds
// The current encoder only writes bitstream 2.3; the legacy branches of KdTreeAttributesDecoder (integer method with a
// DynamicIntegerPointsKdTreeDecoder payload, float "quantization" method with a FloatPointsTree payload) are reached
// only by streams assembled by hand: header + one attribute descriptor + method / level / point count + the payload
// produced by the library's own tree encoders.
//   legacykd int   <minor 0..2> <level 0..6> <dim 1..> <bit_length> <coordsCSV>   one uint32 x dim POSITION attribute
//   legacykd float <minor 0..2> <quantization bits> <float32 bit patterns CSV, 3 per point>
//   -> ok <hex>     (the stream decodes on this tree to the same number of points; int: to the same point multiset)
//   -> selfcheck-failed <hex> | err-…
#include "draco/compression/point_cloud/algorithms/float_points_tree_encoder.h"

namespace {
void put_u32(std::vector<uint8_t> *s, uint32_t v) {
  for (int i = 0; i < 4; ++i) s->push_back(static_cast<uint8_t>(v >> (8 * i)));
}
std::vector<uint8_t> legacy_kd_head(int minor, uint32_t np, int data_type, int ncomp) {
  std::vector<uint8_t> s = {'D', 'R', 'A', 'C', 'O', 2, static_cast<uint8_t>(minor), 0, 1, 0, 0};
  put_u32(&s, np);
  s.push_back(1);  // attributes decoders
  s.push_back(1);  // attributes (varint)
  s.push_back(0);  // POSITION
  s.push_back(static_cast<uint8_t>(data_type));
  s.push_back(static_cast<uint8_t>(ncomp));
  s.push_back(0);  // normalized
  s.push_back(0);  // unique id (varint)
  return s;
}
}  // namespace

VH_OP(legacykd) {
  if (a.size() < 5) return "bad-op";
  const int minor = atoi(a[2].c_str());
  if (minor < 0 || minor > 2) return "bad-op";
  std::vector<uint8_t> s;
  uint32_t np = 0;
  std::vector<uint32_t> want;
  uint32_t dim = 3;
  if (a[1] == "int") {
    if (a.size() < 7) return "bad-op";
    const int level = atoi(a[3].c_str());
    dim = static_cast<uint32_t>(vh::u64(a[4]));
    auto coords = vh::ilist(a[6]);
    if (dim == 0 || dim > 255 || coords.size() % dim) return "bad-op";
    np = static_cast<uint32_t>(coords.size() / dim);
    for (auto c : coords) want.push_back(static_cast<uint32_t>(c));
    auto it = vh::registry().find("kdenc");
    if (it == vh::registry().end()) return "err-no-kdenc";
    const std::string payload = it->second({"kdenc", a[3], a[4], a[5], a[6]});
    s = legacy_kd_head(minor, np, DT_UINT32, static_cast<int>(dim));
    s.push_back(1);  // kKdTreeIntegerEncoding
    s.push_back(static_cast<uint8_t>(level));
    put_u32(&s, np);
    auto pb = vh::unhex(payload);
    s.insert(s.end(), pb.begin(), pb.end());
  } else if (a[1] == "float") {
    const int qbits = atoi(a[3].c_str());
    auto bits = vh::ilist(a[4]);
    if (bits.size() % 3) return "bad-op";
    np = static_cast<uint32_t>(bits.size() / 3);
    std::vector<Point3f> pts;
    for (size_t i = 0; i + 2 < bits.size(); i += 3) {
      float f[3];
      for (int j = 0; j < 3; ++j) {
        uint32_t b = static_cast<uint32_t>(bits[i + j]);
        memcpy(&f[j], &b, 4);
      }
      pts.push_back(Point3f(f[0], f[1], f[2]));
    }
    FloatPointsTreeEncoder enc(KDTREE, static_cast<uint32_t>(qbits), 6);
    if (!enc.EncodePointCloud(pts.begin(), pts.end())) return "err-encode";
    s = legacy_kd_head(minor, np, DT_FLOAT32, 3);
    s.push_back(0);  // kKdTreeQuantizationEncoding
    s.push_back(6);  // compression level (not used by the decoder)
    put_u32(&s, np);
    s.insert(s.end(), enc.buffer()->data(), enc.buffer()->data() + enc.buffer()->size());
  } else {
    return "bad-op";
  }
  // self check on this tree
  DecoderBuffer b;
  b.Init(reinterpret_cast<const char *>(s.data()), s.size());
  Decoder dec;
  auto r = dec.DecodePointCloudFromBuffer(&b);
  bool ok = r.ok();
  if (ok) {
    std::unique_ptr<PointCloud> pc = std::move(r).value();
    ok = pc->num_points() == np && pc->num_attributes() == 1 && validity(*pc, nullptr).empty();
    if (ok && a[1] == "int") {
      std::vector<std::vector<uint32_t>> got, exp;
      const PointAttribute *att = pc->attribute(0);
      for (uint32_t p = 0; p < np; ++p) {
        std::vector<uint32_t> v(dim);
        att->GetMappedValue(PointIndex(p), v.data());
        got.push_back(v);
        exp.push_back(std::vector<uint32_t>(want.begin() + p * dim, want.begin() + (p + 1) * dim));
      }
      std::sort(got.begin(), got.end());
      std::sort(exp.begin(), exp.end());
      ok = got == exp;
    }
  }
  return std::string(ok ? "ok " : "selfcheck-failed ") + vh::hex(s);
}
