import DracoModel.Basic
import DracoModel.Varint
import DracoModel.BitBuf
