import DracoModel.Basic
import DracoModel.Varint
import DracoModel.BitBuf
import DracoModel.Proto
