import DracoProofs.GeneratedFuncs
import DracoModel.Geometry
namespace Draco.Generated
open Draco Draco.CInt

theorem DataTypeLength_eq_model (dt : Nat) (h1 : 1 ≤ dt) (h2 : dt ≤ 11) :
    DataTypeLength dt = (dataTypeLength dt : Int) := by
  unfold DataTypeLength dataTypeLength
  have e : wrapI32 (dt : Int) = dt := wrapI32_id _ (by omega) (by omega)
  simp only [e]
  repeat' (first | omega | split)

theorem IntegerVectorToQuantizedOctahedralCoords_eq_model (t : OctaT) (x y z : Int) (hwf : t.WF)
    (hsum : iabs x + iabs y + iabs z = t.center) :
    OctahedronToolBox.IntegerVectorToQuantizedOctahedralCoords (ofOctaT t) x y z = Octa.intVecToCoords t (x, y, z) := by
  have hwf' := hwf
  obtain ⟨h1, h2, h3, h4⟩ := hwf'
  have key : ∀ s tt, Octa.inGrid t (s, tt) →
      OctahedronToolBox.CanonicalizeOctahedralCoords (ofOctaT t) s tt = Octa.canonicalize t (s, tt) :=
    fun s tt hg => CanonicalizeOctahedralCoords_eq_model t s tt hwf hg
  unfold iabs at hsum
  unfold OctahedronToolBox.IntegerVectorToQuantizedOctahedralCoords Octa.intVecToCoords
  have ec : (ofOctaT t).center_value_ = t.center := rfl
  have em : (ofOctaT t).max_value_ = t.maxV := rfl
  simp only [ec, em, cAbs, iabs]
  by_cases hx : x ≥ 0 <;> by_cases hy : y < 0 <;> by_cases hz : z < 0 <;>
    simp only [hx, hy, hz, show (x < 0) = ¬ (x ≥ 0) by simp, if_true, if_false, not_true_eq_false, not_false_eq_true] at hsum ⊢ <;>
    simp (disch := omega) only [wrapI32_id] <;>
    (rw [key _ _ (by unfold Octa.inGrid; dsimp only; omega)])


theorem tdiv_mul_bound_nonneg (x c s : Int) (hs : 0 < s) (hc : 0 ≤ c) (h0 : 0 ≤ x) (h1 : x ≤ s) :
    0 ≤ Int.tdiv (x * c) s ∧ Int.tdiv (x * c) s ≤ c := by
  have hxc : 0 ≤ x * c := Int.mul_nonneg h0 hc
  rw [Int.tdiv_eq_ediv_of_nonneg hxc]
  refine ⟨Int.ediv_nonneg hxc (by omega), ?_⟩
  have : x * c ≤ c * s := by
    rw [Int.mul_comm c s]; exact Int.mul_le_mul_of_nonneg_right h1 hc
  calc x * c / s ≤ c * s / s := Int.ediv_le_ediv hs this
    _ = c := Int.mul_ediv_cancel c (by omega)

theorem tdiv_mul_bound (x c s : Int) (hs : 0 < s) (hc : 0 ≤ c) (h0 : -s ≤ x) (h1 : x ≤ s) :
    -c ≤ Int.tdiv (x * c) s ∧ Int.tdiv (x * c) s ≤ c := by
  by_cases hx : 0 ≤ x
  · have := tdiv_mul_bound_nonneg x c s hs hc hx h1; omega
  · have := tdiv_mul_bound_nonneg (-x) c s hs hc (by omega) (by omega)
    rw [Int.neg_mul, Int.neg_tdiv] at this; omega

theorem mul_bound (x c : Int) (hx : -2^31 < x ∧ x < 2^31) (hc : 0 ≤ c ∧ c < 2^29) :
    -2^63 ≤ x * c ∧ x * c < 2^63 := by
  have key : ∀ a : Int, 0 ≤ a → a < 2^31 → 0 ≤ a * c ∧ a * c ≤ 2^31 * 2^29 := by
    intro a h0 h1
    exact ⟨Int.mul_nonneg h0 hc.1, Int.mul_le_mul (by omega) (by omega) hc.1 (by omega)⟩
  by_cases h : 0 ≤ x
  · have := key x h hx.2; omega
  · have := key (-x) (by omega) (by omega)
    rw [Int.neg_mul] at this; omega

theorem CanonicalizeIntegerVector_eq_model (t : OctaT) (x y z : Int) (hwf : t.WF)
    (hx : -2^31 < x ∧ x < 2^31) (hy : -2^31 < y ∧ y < 2^31) (hz : -2^31 < z ∧ z < 2^31) :
    OctahedronToolBox.CanonicalizeIntegerVector (ofOctaT t) x y z = Octa.canonicalizeIntVec t (x, y, z) := by
  obtain ⟨h1, h2, h3, h4⟩ := hwf
  unfold OctahedronToolBox.CanonicalizeIntegerVector Octa.canonicalizeIntVec
  have ec : (ofOctaT t).center_value_ = t.center := rfl
  simp only [ec]
  have ax : wrapI32 (cAbs x) = iabs x := by unfold cAbs iabs; split <;> exact wrapI32_id _ (by omega) (by omega)
  have ay : wrapI32 (cAbs y) = iabs y := by unfold cAbs iabs; split <;> exact wrapI32_id _ (by omega) (by omega)
  have az : wrapI32 (cAbs z) = iabs z := by unfold cAbs iabs; split <;> exact wrapI32_id _ (by omega) (by omega)
  have bx : 0 ≤ iabs x ∧ iabs x < 2^31 ∧ -iabs x ≤ x ∧ x ≤ iabs x := by unfold iabs; split <;> omega
  have by' : 0 ≤ iabs y ∧ iabs y < 2^31 ∧ -iabs y ≤ y ∧ y ≤ iabs y := by unfold iabs; split <;> omega
  have bz : 0 ≤ iabs z ∧ iabs z < 2^31 := by unfold iabs; split <;> omega
  rw [ax, ay, az]
  have es : wrapI64 (wrapI64 (iabs x + iabs y) + iabs z) = iabs x + iabs y + iabs z := by
    have e1 : wrapI64 (iabs x + iabs y) = iabs x + iabs y := wrapI64_id _ (by omega) (by omega)
    rw [e1, wrapI64_id _ (by omega) (by omega)]
  rw [es]
  generalize hS : iabs x + iabs y + iabs z = S at *
  try dsimp only
  by_cases h0 : S = 0
  · simp only [h0, if_true]
  · simp only [h0, if_false]
    have hS0 : 0 < S := by omega
    have tx := tdiv_mul_bound x t.center S hS0 (by omega) (by omega) (by omega)
    have ty := tdiv_mul_bound y t.center S hS0 (by omega) (by omega) (by omega)
    have mx := mul_bound x t.center hx ⟨by omega, by omega⟩
    have my := mul_bound y t.center hy ⟨by omega, by omega⟩
    rw [wrapI64_id (x * t.center) mx.1 mx.2, wrapI64_id (y * t.center) my.1 my.2]
    generalize hX : Int.tdiv (x * t.center) S = X at *
    generalize hY : Int.tdiv (y * t.center) S = Y at *
    rw [wrapI64_id X (by omega) (by omega), wrapI64_id Y (by omega) (by omega),
      wrapI32_id X (by omega) (by omega), wrapI32_id Y (by omega) (by omega)]
    have aX : wrapI32 (cAbs X) = iabs X := by unfold cAbs iabs; split <;> exact wrapI32_id _ (by omega) (by omega)
    have aY : wrapI32 (cAbs Y) = iabs Y := by unfold cAbs iabs; split <;> exact wrapI32_id _ (by omega) (by omega)
    have bX : 0 ≤ iabs X ∧ iabs X ≤ t.center := by unfold iabs; split <;> omega
    have bY : 0 ≤ iabs Y ∧ iabs Y ≤ t.center := by unfold iabs; split <;> omega
    rw [aX, aY]
    have e1 : wrapI32 (t.center - iabs X) = t.center - iabs X := wrapI32_id _ (by omega) (by omega)
    rw [e1]
    have e2 : wrapI32 (t.center - iabs X - iabs Y) = t.center - iabs X - iabs Y := wrapI32_id _ (by omega) (by omega)
    rw [e2]
    have e3 : wrapI32 (-(t.center - iabs X - iabs Y)) = -(t.center - iabs X - iabs Y) := wrapI32_id _ (by omega) (by omega)
    rw [e3]
    split <;> rfl
end Draco.Generated
