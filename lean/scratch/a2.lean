import DracoProofs.GeneratedCore
import DracoModel.Rabs
import DracoModel.RansSymbol
namespace Draco.Generated
open Draco Draco.CInt

theorem cAnd32_255 (x : Int) : cAnd 32 x 255 = x % 256 := by
  unfold cAnd pat
  have : ((255:Int) % 2^32).toNat = 2^8 - 1 := by decide
  rw [this, Nat.and_two_pow_sub_one_eq_mod]
  omega
theorem cAnd32_127 (x : Int) : cAnd 32 x 127 = x % 128 := by
  unfold cAnd pat
  have : ((127:Int) % 2^32).toNat = 2^7 - 1 := by decide
  rw [this, Nat.and_two_pow_sub_one_eq_mod]
  omega
theorem cAnd64_127 (x : Int) : cAnd 64 x 127 = x % 128 := by
  unfold cAnd pat
  have : ((127:Int) % 2^64).toNat = 2^7 - 1 := by decide
  rw [this, Nat.and_two_pow_sub_one_eq_mod]
  omega
theorem cOr32_128 (a : Int) (h0 : 0 ≤ a) (h1 : a < 128) : cOr 32 a 128 = a + 128 := by
  unfold cOr pat
  have e1 : ((128:Int) % 2^32).toNat = 2^7 * 1 := by decide
  have e2 : (a % 2^32).toNat = a.toNat := by congr 1; omega
  rw [e1, e2, Nat.or_comm, ← Nat.two_pow_add_eq_or_of_lt (by omega)]; omega
theorem cOr_zero (w : Nat) (a : Int) (h0 : 0 ≤ a) (h1 : a < 2^w) : cOr w 0 a = a := by
  unfold cOr pat
  have e2 : (a % 2^w).toNat = a.toNat := by congr 1; exact Int.emod_eq_of_lt h0 h1
  simp [e2]; omega

/-- closed C constant expressions (`1 << 14`, `(1 << 7) - 1`, …) and shifts by literals -/
macro "c_const1" : tactic =>
  `(tactic| ((try simp only [cShl, cShr, Int.reduceToNat, Int.reducePow, Int.reduceMul, Int.reduceSub, Int.reduceAdd] at *);
             (try simp (disch := omega) only [wrapI32_id, wrapI64_id, wrapU32_id, wrapU64_id] at *)))
macro "c_const" : tactic => `(tactic| (c_const1; c_const1; c_const1))

/-- the size class branch of `RAnsSymbolEncoder::EncodeTable` -/
def sizeClass (p : Int) : Option Bool × Int :=
  if p ≥ 2^22 then (some false, 2) else if p < 2^6 then (none, 0) else if p < 2^14 then (none, 1) else (none, 2)

theorem EncodeTable_sizeClass_eq_model (p : Int) (hp : U32 p) :
    RAnsSymbolEncoder.EncodeTable_sizeClass p = sizeClass p := by
  unfold U32 at hp
  unfold RAnsSymbolEncoder.EncodeTable_sizeClass sizeClass
  c_const
  c_eq


/-- the bytes of one non-zero table entry given its number of extra bytes -/
def entryBytes (p k : Nat) : Bytes :=
  ((p * 4 + k) % 256) :: (List.range k).map (fun b => p / 2 ^ (8 * (b + 1) - 2) % 256)

/-- the model's table loop uses exactly the size classes of the source: a non-zero entry `p` fails when the class
    says `return false`, and otherwise emits the first byte `(p << 2) | k` and `k` extra bytes -/
theorem encTableGo_sizeClass (p : Nat) (ps : List Nat) (hp : p ≠ 0) :
    encTableGo (p :: ps) 0 =
      match sizeClass p with
      | (some _, _) => none
      | (none, k) => (encTableGo ps 0).map (fun bs => entryBytes p k.toNat ++ bs) := by
  rw [encTableGo]
  unfold sizeClass
  by_cases h22 : p ≥ 2^22
  · have h' : (p : Int) ≥ 2^22 := by omega
    rw [if_pos h22, if_pos h']
  · have n22 : ¬ ((p : Int) ≥ 2^22) := by omega
    rw [if_neg h22, if_neg hp, if_neg n22]
    by_cases h6 : p < 2^6
    · have h' : (p : Int) < 2^6 := by omega
      rw [if_pos h']
      cases encTableGo ps 0 <;> simp [entryBytes, h6]; omega
    · have n6 : ¬ ((p : Int) < 2^6) := by omega
      rw [if_neg n6]
      by_cases h14 : p < 2^14
      · have h' : (p : Int) < 2^14 := by omega
        rw [if_pos h']
        cases encTableGo ps 0 <;> simp [entryBytes, h6, h14, List.range_succ]
      · have n14 : ¬ ((p : Int) < 2^14) := by omega
        rw [if_neg n14]
        cases encTableGo ps 0 <;> simp [entryBytes, h6, h14, List.range_succ]

/-- `ans_write_end`: the bytes written at `buf[buf_offset ..]` and the returned size are those of `ansWriteEnd` -/
theorem ans_write_end_eq_model (a : Draco.AnsCoder) (hs : a.state < 2^32) (hl : a.out.length + 3 < 2^31) :
    let g := ans_write_end ⟨a.out.length, a.state⟩
    (ansWriteEnd a).map Int.ofNat = a.out.reverse.map Int.ofNat ++ g.2.map Prod.snd ∧
    g.2.map Prod.fst = (List.range g.2.length).map (fun i => ((a.out.length + i : Nat) : Int)) ∧
    g.1 = (ansWriteEnd a).length := by
  dsimp only
  unfold ans_write_end ansWriteEnd mem_put_le16 mem_put_le24 shiftLog ansL
  c_const
  simp only [cAnd32_255]
  have es : wrapU32 ((a.state : Int) - 4096) = (((a.state + 2^32 - 4096) % 2^32 : Nat) : Int) := by
    unfold wrapU32; omega
  rw [es]
  have hs' : (a.state + 2^32 - 4096) % 2^32 < 2^32 := Nat.mod_lt _ (by decide)
  generalize (a.state + 2^32 - 4096) % 2^32 = s at hs' ⊢
  by_cases h6 : s < 2^6
  · have h' : (s : Int) < 64 := by omega
    simp only [h6, h', if_true]
    refine ⟨?_, ?_, ?_⟩
    · simp [wrapU8, wrapU32] <;> omega
    · simp
    · simp <;> omega
  · have n6 : ¬ ((s : Int) < 64) := by omega
    simp only [h6, n6, if_false]
    by_cases h14 : s < 2^14
    · have h' : (s : Int) < 16384 := by omega
      simp only [h14, h', if_true]
      refine ⟨?_, ?_, ?_⟩
      · simp [wrapU8, wrapU32] <;> omega
      · simp [List.range_succ]
      · simp <;> omega
    · have n14 : ¬ ((s : Int) < 16384) := by omega
      simp only [h14, n14, if_false]
      by_cases h22 : s < 2^22
      · have h' : (s : Int) < 4194304 := by omega
        simp only [h22, h', if_true]
        refine ⟨?_, ?_, ?_⟩
        · simp [wrapU8, wrapU32] <;> omega
        · simp [List.range_succ]
        · simp <;> omega
      · have n22 : ¬ ((s : Int) < 4194304) := by omega
        simp only [h22, n22, if_false]
        simp


/-- the model's fuel does not matter once it covers the 7-bit groups of the value -/
theorem wrapU8_id (x : Int) (h1 : 0 ≤ x) (h2 : x < 2^8) : wrapU8 x = x := by unfold wrapU8; omega

theorem encVarintFuel_u32 (f : Nat) : ∀ (g : Nat) (v : Int), 1 ≤ f → f ≤ g + 1 → 0 ≤ v → v < 2^32 → v < 128^f →
    EncodeVarint_u32 f v = some (true, (encVarintFuel g v.toNat).map Int.ofNat) := by
  induction f with
  | zero => intro g v h; omega
  | succ f ih =>
    intro g v _ hg h0 h32 hv
    unfold EncodeVarint_u32
    c_const
    simp only [cAnd32_127]
    have a1 : cOr 32 0 (v % 128) = v % 128 := cOr_zero 32 _ (by omega) (by omega)
    have a2 : wrapU8 (v % 128) = v % 128 := wrapU8_id _ (by omega) (by omega)
    have a3 : cOr 32 (v % 128) 128 = v % 128 + 128 := cOr32_128 _ (by omega) (by omega)
    have a4 : wrapI32 (v % 128 + 128) = v % 128 + 128 := wrapI32_id _ (by omega) (by omega)
    have a5 : wrapU8 (v % 128 + 128) = v % 128 + 128 := wrapU8_id _ (by omega) (by omega)
    simp only [a1, a2, a3, a4, a5]
    by_cases h : v ≥ 128
    · rw [if_pos h]
      have hf : f ≠ 0 := by rintro rfl; omega
      obtain ⟨g', rfl⟩ : ∃ g', g = g' + 1 := ⟨g - 1, by omega⟩
      have hv' : v / 128 < 128 ^ f := by
        rw [Int.pow_succ] at hv; omega
      rw [ih g' (v / 128) (by omega) (by omega) (by omega) (by omega) hv']
      have e1 : (v / 128).toNat = v.toNat / 128 := by omega
      have e2 : v.toNat ≥ 128 := by omega
      simp [encVarintFuel, e1, e2] <;> omega
    · rw [if_neg h]
      have e2 : ¬ v.toNat ≥ 128 := by omega
      cases g <;> simp [encVarintFuel, e2] <;> omega
end Draco.Generated
