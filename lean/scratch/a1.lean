import DracoProofs.GeneratedCore
import DracoModel.Rabs
namespace Draco.Generated
open Draco Draco.CInt

example : wrapU32 (wrapI32 (cShl 1 6)) = 64 := by
  simp only [cShl, cShr, Int.reduceToNat, Int.reducePow, Int.reduceMul]
  simp (disch := omega) only [wrapI32_id, wrapU32_id]

example (x : Int) : cShr x 8 = x / 256 := by
  simp only [cShl, cShr, Int.reduceToNat, Int.reducePow, Int.reduceMul]

theorem cAnd32_255 (x : Int) : cAnd 32 x 255 = x % 256 := by
  unfold cAnd pat
  have : ((255:Int) % 2^32).toNat = 2^8 - 1 := by decide
  rw [this, Nat.and_two_pow_sub_one_eq_mod]
  omega
theorem cAnd32_127 (x : Int) : cAnd 32 x 127 = x % 128 := by
  unfold cAnd pat
  have : ((127:Int) % 2^32).toNat = 2^7 - 1 := by decide
  rw [this, Nat.and_two_pow_sub_one_eq_mod]
  omega
theorem cAnd64_127 (x : Int) : cAnd 64 x 127 = x % 128 := by
  unfold cAnd pat
  have : ((127:Int) % 2^64).toNat = 2^7 - 1 := by decide
  rw [this, Nat.and_two_pow_sub_one_eq_mod]
  omega
theorem cOr32_128 (a : Int) (h0 : 0 ≤ a) (h1 : a < 128) : cOr 32 a 128 = a + 128 := by
  unfold cOr pat
  have e1 : ((128:Int) % 2^32).toNat = 2^7 * 1 := by decide
  have e2 : (a % 2^32).toNat = a.toNat := by congr 1; omega
  rw [e1, e2, Nat.or_comm, ← Nat.two_pow_add_eq_or_of_lt (by omega)]; omega
theorem cOr_zero (w : Nat) (a : Int) (h0 : 0 ≤ a) (h1 : a < 2^w) : cOr w 0 a = a := by
  unfold cOr pat
  have e2 : (a % 2^w).toNat = a.toNat := by congr 1; exact Int.emod_eq_of_lt h0 h1
  simp [e2]; omega
end Draco.Generated
