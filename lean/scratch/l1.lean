import DracoProofs.GeneratedFuncs
namespace Draco.Generated
open Draco Draco.CInt

theorem u32_sub (a b : Int) : wrapI32 (wrapU32 (wrapU32 a - wrapU32 b)) = wrap32 (a - b) := by
  unfold wrapI32 wrapU32 wrap32; omega
theorem u32_add (a b : Int) : wrapI32 (wrapU32 (wrapU32 a + wrapU32 b)) = wrap32 (a + b) := by
  unfold wrapI32 wrapU32 wrap32; omega

theorem legacyDecode_eq_model (t : OctaT) (pred corr : Int × Int) (hwf : t.WF) :
    PredictionSchemeNormalOctahedronDecodingTransform.ComputeOriginalValue (ofOctaT t) pred corr =
      Octa.legacyDecOrig t pred corr := by
  unfold PredictionSchemeNormalOctahedronDecodingTransform.ComputeOriginalValue Octa.legacyDecOrig
  extract_lets gc gp0 ginD gr1 gp1a gp1b gp1 go0 go1a go1b gr2 go2a go2b go2 go3 mc mp0 minD mp1 mo0 mo1 mo2
  have egc : gc = (mc, mc) := rfl
  have ep0 : gp0 = mp0 := by
    simp only [gp0, mp0, egc, mc, u32_sub]
  have ip0 : I32 mp0.1 ∧ I32 mp0.2 := ⟨wrap32_I32 _, wrap32_I32 _⟩
  have einD : ginD = minD := by
    simp only [ginD, minD, ep0]; exact IsInDiamond_eq_model t _ _ hwf
  have er1 : gr1 = Octa.invertDiamond t mp0 := by
    simp only [gr1, ep0]
    exact InvertDiamond_eq_model t _ _ hwf ip0.1 ip0.2
  have ep1 : gp1 = mp1 := by
    simp only [gp1, gp1b, gp1a, mp1, er1, einD, ep0]
    cases minD <;> simp
  have eo0 : go0 = mo0 := by
    simp only [go0, mo0, ep1, u32_add]
  have eo1 : go1b = mo1 := by
    simp only [go1b, go1a, mo1, eo0, PredictionSchemeNormalOctahedronTransformBase.ModMax]
    rw [ModMax_eq_model t _ hwf (by simp only [mo0]; exact wrap32_I32 _),
      ModMax_eq_model t _ hwf (by simp only [mo0]; exact wrap32_I32 _)]
  have io1 : I32 mo1.1 ∧ I32 mo1.2 := by
    have b1 := modMax_bound t mo0.1 hwf (by simp only [mo0]; exact wrap32_I32 _)
    have b2 := modMax_bound t mo0.2 hwf (by simp only [mo0]; exact wrap32_I32 _)
    obtain ⟨h1, h2, h3, h4⟩ := hwf
    simp only [mo1]; unfold I32; omega
  have er2 : gr2 = Octa.invertDiamond t mo1 := by
    simp only [gr2, eo1]
    exact InvertDiamond_eq_model t _ _ hwf io1.1 io1.2
  have eo2 : go2 = mo2 := by
    simp only [go2, go2b, go2a, mo2, er2, einD, eo1]
    cases minD <;> simp
  simp only [go3, eo2, egc, mc, u32_add]


theorem legacyEncode_eq_model (t : OctaT) (orig pred : Int × Int) (hwf : t.WF) (ho : Octa.inGrid t orig) (hg : Octa.inGrid t pred) :
    PredictionSchemeNormalOctahedronEncodingTransform.ComputeCorrection (ofOctaT t) orig pred =
      Octa.legacyEncCorr t orig pred := by
  have hwf' := hwf
  obtain ⟨h1, h2, h3, h4⟩ := hwf'
  have bo0' := Octa.inGrid_inBox t hwf orig ho
  have bp0' := Octa.inGrid_inBox t hwf pred hg
  unfold Octa.inGrid at hg ho
  unfold PredictionSchemeNormalOctahedronEncodingTransform.ComputeCorrection Octa.legacyEncCorr
  extract_lets gc go0 gp0 gr1 go1a go1b gr2 gp1a gp1b gk1 gk1a gk1b gk2 gk2a gk2b mc mo0 mp0 minD mo1 mp1
  have egc : gc = (mc, mc) := rfl
  have eo0 : go0 = mo0 := by
    simp only [go0, mo0, egc, mc]; rw [wrapI32_id _ (by omega) (by omega), wrapI32_id _ (by omega) (by omega)]
  have ep0 : gp0 = mp0 := by
    simp only [gp0, mp0, egc, mc]; rw [wrapI32_id _ (by omega) (by omega), wrapI32_id _ (by omega) (by omega)]
  have bo0 : Octa.InBox t.center mo0 := bo0'
  have bp0 : Octa.InBox t.center mp0 := bp0'
  have bo0u := bo0
  have bp0u := bp0
  unfold Octa.InBox at bo0u bp0u
  have einD : PredictionSchemeNormalOctahedronTransformBase.IsInDiamond (ofOctaT t) gp0.1 gp0.2 = minD := by
    simp only [minD, ep0]; exact IsInDiamond_eq_model t _ _ hwf
  have eo1b : go1b = Octa.invertDiamond t mo0 := by
    simp only [go1b, go1a, gr1, eo0]
    exact InvertDiamond_eq_model t _ _ hwf (by unfold I32; omega) (by unfold I32; omega)
  have ep1b : gp1b = Octa.invertDiamond t mp0 := by
    simp only [gp1b, gp1a, gr2, ep0]
    exact InvertDiamond_eq_model t _ _ hwf (by unfold I32; omega) (by unfold I32; omega)
  have ek2 : gk2b = (Octa.makePositive t (mo0.1 - mp0.1), Octa.makePositive t (mo0.2 - mp0.2)) := by
    simp only [gk2b, gk2a, gk2, eo0, ep0]; exact makePositive_diff t hwf _ _ bo0 bp0
  have ek1 : gk1b = (Octa.makePositive t ((Octa.invertDiamond t mo0).1 - (Octa.invertDiamond t mp0).1),
      Octa.makePositive t ((Octa.invertDiamond t mo0).2 - (Octa.invertDiamond t mp0).2)) := by
    simp only [gk1b, gk1a, gk1, eo1b, ep1b]
    exact makePositive_diff t hwf _ _ (invertDiamond_inBox t hwf mo0 bo0) (invertDiamond_inBox t hwf mp0 bp0)
  rw [einD, ek1, ek2]
  simp only [mo1, mp1]
  cases minD <;> simp
end Draco.Generated
