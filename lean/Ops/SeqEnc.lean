import DracoModel.Proto
import DracoModel.SeqEncoder
import DracoModel.Options
import Ops.Codec
import Ops.Metadata
/- op handler tying the sequential ENCODER model to the C++ encoders (C01/C06/C20):

   seqenc <the option tokens of the harness op `enc`> hex=<stream produced by the C++> -- <geometry>
     -> ok <hex of the model's stream> <rt> <dom> <spec> | fail | bad-op

   The encoder heuristics (`SeqEnc.Choices`) are read back from the C++ stream with the decoder
   model (`choicesOfStream`); everything else — header, metadata, connectivity, descriptors,
   portable values, quantization parameters (executable `Float32` instance), corrections, symbol
   coding, transform data — is computed by the model and must reproduce the C++ bytes exactly.
   <rt> = `rt-ok` when the model decoder applied to the model's stream returns exactly
   `SeqEnc.expected g opts` (the statement of `pointcloud_seq_roundtrip` / `mesh_seq_roundtrip`
   evaluated on this input), else `rt-differs`; followed by `domainOf` (are the theorems' decidable
   hypotheses met?) and the executable specification RoundTripOK of `expected g opts`. -/
namespace Draco.Ops
open Draco Draco.Proto Draco.SeqEnc

/-- the `EncoderOptions` object the harness op `enc` builds from its tokens (harness/ops_codec.cc):
    `g:<name>=<int>` global ints (expert API only), speed, per-key prediction scheme (`p`),
    quantization bits (`q`) and explicit quantization (`x`, applied after `q`: the tokens live in a
    `std::map`), `builtin`.  Keys are attribute ids with `expert=1`, attribute types otherwise. -/
def dracoOptionsOf (opts : List String) : Opt.DracoOptions := Id.run do
  let expert := (kv opts "expert").isSome
  let mut d : Opt.DracoOptions := {}
  let keyVal := fun (t : String) => match t.splitOn "=" with
    | [k, v] => some (k, v)
    | _ => none
  if expert then
    for t in opts do
      if let some (k, v) := keyVal t then
        if k.startsWith "g:" then d := d.setGlobalInt (k.drop 2).toString (intOf v)
  for t in opts do
    if let some (k, v) := keyVal t then
      if k == "method" then d := d.setGlobalInt "encoding_method" (intOf v)
      if k == "speed" then
        if let [e, dd] := intList v then d := d.setSpeed e dd
  for pass in [0, 1, 2] do
    for t in opts do
      if let some (k, v) := keyVal t then
        let c := k.toList.headD ' '
        let rest := String.ofList (k.toList.drop 1)
        if rest.toList.all Char.isDigit && !rest.isEmpty then
          let key := natOf rest
          if pass == 0 && c == 'p' then d := d.setAttributeInt key "prediction_scheme" (intOf v)
          if pass == 1 && c == 'q' then d := d.setAttributeInt key "quantization_bits" (intOf v)
          if pass == 2 && c == 'x' then
            if let bits :: range :: origin := natList v then
              d := ((d.setAttributeInt key "quantization_bits" (bits : Int)).setAttributeFloatVector key
                      "quantization_origin" origin).setAttributeFloat key "quantization_range" range
  if expert then
    if let some v := kv opts "builtin" then
      d := d.setGlobalBool "use_built_in_attribute_compression" (v == "1")
  return d

/-- the options as the sequential encoders see them: `Encoder::CreateExpertEncoderOptions` for the
    type-keyed API, then the per-attribute resolution of `Opt.DracoOptions.resolve` -/
def encOptsOf (opts : List String) (g : Geometry) : EncOpts :=
  let expert := (kv opts "expert").isSome
  let d := dracoOptionsOf opts
  let d := if expert then d else d.toExpert (g.atts.map (·.attType))
  d.resolve (g.atts.map (·.numComponents))

structure StreamChoices where
  pred : List Bool := []
  scheme : List Scheme := []
  conn : Scheme := .tagged

def schemeOfByte (b : Nat) : Scheme := if b == 1 then .raw else .tagged

/-- walks the C++ stream with the decoder model and collects, per attribute, whether a
    prediction scheme is present and which symbol coding scheme was used -/
def choicesOfStream (bs : Bytes) : StreamChoices := Id.run do
  let s0 : DSt := { rest := bs }
  let (oh, s1) := decodeHeader s0
  let some h := oh | return {}
  let s1 := { s1 with version := bsVersion h.major h.minor }
  let s2 : DSt :=
    if h.flags / 32768 % 2 == 1 then (DecM.lift Leaf.decodeGeometryMetadata s1).2 else s1
  let isMesh := h.encoderType == 1
  let mut conn : Scheme := .tagged
  let mut s3 := s2
  let mut numPoints := 0
  if isMesh then
    -- scheme byte of the compressed connectivity: behind the two varints and the method byte
    let (_, a) := DecM.varint 32 s2
    let (_, b) := DecM.varint 32 a
    match b.rest with
    | 0 :: sc :: _ => conn := schemeOfByte sc
    | _ => pure ()
    let (r, s') := decodeSeqConnectivity s2
    s3 := s'
    numPoints := (r.map (·.1)).getD 0
  else
    let (np, s') := DecM.rdI32 s2
    s3 := s'
    numPoints := toUnsigned 32 (np.getD 0)
  let (nd, s4) := DecM.rdU8 s3
  if nd != some 1 then return { conn := conn }
  let (od, s5) := decodeAttDescs s4
  let some descs := od | return { conn := conn }
  let (ot, s6) := DecM.replicateM' descs.length DecM.rdU8 s5
  let some types := ot | return { conn := conn }
  let mut s := s6
  let mut preds : List Bool := []
  let mut schemes : List Scheme := []
  for (d, ty) in descs.zip types do
    if ty == 0 then
      let (_, s') := DecM.bytes (numPoints * dataTypeLength d.dataType * d.numComponents) s
      s := s'
      preds := preds ++ [false]
      schemes := schemes ++ [.tagged]
    else
      let hasPred := match s.rest with
        | m :: _ => m != 254
        | _ => false
      let tail := if hasPred then s.rest.drop 2 else s.rest.drop 1
      let sc := match tail with
        | c :: b :: _ => if c > 0 then schemeOfByte b else .tagged
        | _ => .tagged
      preds := preds ++ [hasPred]
      schemes := schemes ++ [sc]
      let nc := if ty == 3 then 2 else d.numComponents
      let (_, s') := decodeIntegerValues ty numPoints nc s
      s := s'
  return { pred := preds, scheme := schemes, conn := conn }

def choicesOf (sc : StreamChoices) : Choices :=
  { oracle := ProbOracle.float,
    -- ignored by `encodeGeometry`: the model computes the prediction methods from geometry and options
    selectPrediction := fun _ => Generated.PREDICTION_DIFFERENCE,
    attScheme := fun i => sc.scheme.getD i .tagged,
    connScheme := sc.conn }

/-- the decidable part of the theorems' domain (`GeomOK` / `AttOK`), evaluated on the case:
    `dom-ok`, `dom-octa-fails` (the hypothesis `octaEntryOK` on the normals is violated — would be a
    finding about the hypothesis), or `dom-out` (outside the domain, e.g. no points) -/
def domainOf (g : Geometry) (eo : EncOpts) : String :=
  let n := g.numPoints
  let basic := n > 0 && n < 2^31 && g.valid && g.faces.length ≤ 0xffffffff / 3 &&
    (zipIdxFrom 0 g.atts).all fun ia =>
      let a := ia.2
      let o := eo.att ia.1
      a.values.all (· < 256) && a.attType < 5 && a.dataType ≤ 11 && a.numComponents ≤ 255 &&
      a.uniqueId < 2^32 && n * a.numComponents < 2^31 &&
      (match o.explicitQuant with
       | some (org, r) => r < 2^32 && org.all (· < 2^32)
       | none => true)
  if !basic then "dom-out" else
  let octaOk := (zipIdxFrom 0 g.atts).all fun ia =>
    let a := ia.2
    let o := eo.att ia.1
    if encoderType a o == 3 then
      match Octa.init o.quantBits.toNat with
      | some t => (pointRows a n).all fun r => octaEntryOK t (octaRow t r)
      | none => true
    else true
  if octaOk then "dom-ok" else "dom-octa-fails"

def seqencOp (args : List String) : String :=
  match splitOn2 "--" args with
  | [opts, gT] =>
    match Geometry.ofTokens gT with
    | none => "bad-op"
    | some (g, _) =>
      -- the metadata text contains `=`: take the token by its prefix
      let metaTok : Option String := opts.findSome? fun t =>
        if t.startsWith "meta=" then some (t.drop 5).toString else none
      let md : Option GeometryMetadata := metaTok.bind parseGeometryMetadata
      if metaTok.isSome && md.isNone then "bad-op" else
      let ch := choicesOf (choicesOfStream (bytesOfHex ((kv opts "hex").getD "-")))
      let eo := encOptsOf opts g
      match encodeGeometry ch g md eo with
      | none => "fail"
      | some bs =>
        -- the conclusion of pointcloud_seq_roundtrip / mesh_seq_roundtrip on this input
        let exp := expected g eo
        let rt :=
          match decodeGeometry {} { rest := bs } with
          | (some r, st) =>
            if st.rest.isEmpty && r.geometry == exp && r.metadata == md then "rt-ok"
            else "rt-differs"
          | _ => "rt-differs"
        -- RoundTripOK (executable specification) of `expected g opts` w.r.t. the declared transforms
        let req : Spec.QuantReq := quantReq g eo
        let spec :=
          match decodeGeometry { skip := allTypes } { rest := bs } with
          | (some r, _) =>
            let c := Spec.check .sequential req g exp r.geometry
            if c == "ok" then "spec-ok" else if c.startsWith "skip" then "spec-skip" else "spec-violation"
          | _ => "spec-n/a"
        s!"ok {hexOfBytes bs} {rt} {domainOf g eo} {spec}"
  | _ => "bad-op"

def seqEncOps : List (String × (List String → String)) := [("seqenc", seqencOp)]

end Draco.Ops
