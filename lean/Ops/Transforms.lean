import DracoModel.Proto
import DracoModel.Wrap
import DracoModel.Octahedron
/- op handlers for C16 / C07: wrap and octahedral transforms -/
namespace Draco.Ops
open Draco Draco.Proto

def hmod : Nat := 2305843009213693951
@[inline] def mix (h : Nat) (v : Int) : Nat := (h * 1000003 + toUnsigned 32 v) % hmod

/-- encoder bounds come from the data {mn, mx}: min/max of the two -/
def wrapCase (mn mx orig pred : Int) : Option (Int × Int × Int × Int) :=
  match Wrap.init mn mx with
  | none => none
  | some t =>
    let corr := Wrap.encCorr t orig pred
    some (corr, Wrap.decOrig t pred corr, t.minCorr, t.maxCorr)

def wrapOp : List String → String
  | [mn, mx, o, p] =>
    match wrapCase (intOf mn) (intOf mx) (intOf o) (intOf p) with
    | none => "fail"
    | some (c, d, a, b) => s!"{c} {d} {a} {b}"
  | _ => "bad-op"

def wrapDecOp : List String → String
  | [mn, mx, p, c] =>
    match Wrap.init (intOf mn) (intOf mx) with
    | none => "fail"
    | some t => toString (Wrap.decOrig t (intOf p) (intOf c))
  | _ => "bad-op"

def int32Min : Int := -2147483648
def int32Max : Int := 2147483647

def rangeI (a b : Int) : List Int := (List.range (b - a + 1).toNat).map (fun (i : Nat) => a + (i : Int))

def wrapSweepOp : List String → String
  | [base, w] =>
    let base := intOf base
    let w := intOf w
    let (h, viol, bad, n) := (rangeI base (base + w)).foldl (fun acc mn =>
      (rangeI mn (base + w)).foldl (fun acc mx =>
        if mn < int32Min ∨ mx > int32Max then acc else
        let preds := rangeI (mn - 4) (mx + 4) ++ [int32Min, int32Max, 0]
        (rangeI mn mx).foldl (fun acc o =>
          preds.foldl (fun (acc : Nat × Nat × Nat × Nat) p =>
            if p < int32Min ∨ p > int32Max then acc else
            match wrapCase mn mx o p with
            | none => acc
            | some (c, d, a, b) =>
              let (h, viol, bad, n) := acc
              (mix (mix h c) d, if d != o then viol + 1 else viol,
               if c < a ∨ c > b then bad + 1 else bad, n + 1)) acc) acc) acc) (7, 0, 0, 0)
    s!"{h} {viol} {bad} {n}"
  | _ => "bad-op"

def octaOp : List String → String
  | [q, os, ot, ps, pt] =>
    match Octa.init (natOf q) with
    | none => "fail"
    | some t =>
      let orig := (intOf os, intOf ot)
      let pred := (intOf ps, intOf pt)
      let c := Octa.encCorr t orig pred
      let d := Octa.decOrig t pred c
      let canon := Octa.canonicalize t orig == orig
      s!"{c.1} {c.2} {d.1} {d.2} {if canon then 1 else 0}"
  | _ => "bad-op"

def octaDecOp : List String → String
  | [q, ps, pt, cs, ct] =>
    match Octa.init (natOf q) with
    | none => "fail"
    | some t =>
      let d := Octa.decOrig t (intOf ps, intOf pt) (intOf cs, intOf ct)
      s!"{d.1} {d.2}"
  | _ => "bad-op"

def octaSweepOp : List String → String
  | [q] =>
    match Octa.init (natOf q) with
    | none => "fail"
    | some t =>
      let m := t.maxV
      let grid := rangeI 0 m
      let (h, viol, bad, n) := grid.foldl (fun acc os =>
        grid.foldl (fun acc ot =>
          let canon := Octa.canonicalize t (os, ot) == (os, ot)
          grid.foldl (fun acc ps =>
            grid.foldl (fun (acc : Nat × Nat × Nat × Nat) pt =>
              let (h, viol, bad, n) := acc
              let c := Octa.encCorr t (os, ot) (ps, pt)
              let d := Octa.decOrig t (ps, pt) c
              (mix (mix (mix (mix h c.1) c.2) d.1) d.2,
               if canon && d != (os, ot) then viol + 1 else viol,
               if canon && (c.1 < 0 || c.1 > m || c.2 < 0 || c.2 > m) then bad + 1 else bad,
               n + 1)) acc) acc) acc) (7, 0, 0, 0)
      s!"{h} {viol} {bad} {n}"
  | _ => "bad-op"

def f32OfBits (s : String) : Float32 := Float32.ofBits (natOf s).toUInt32

def octaToolOp : List String → String
  | q :: fn :: args =>
    match Octa.init (natOf q) with
    | none => "fail"
    | some t =>
      match fn, args with
      | "canon", [s, u] => let r := Octa.canonicalize t (intOf s, intOf u); s!"{r.1} {r.2}"
      | "intvec", [x, y, z] => let r := Octa.intVecToCoords t (intOf x, intOf y, intOf z); s!"{r.1} {r.2}"
      | "fvec", [a, b, c] =>
        let r := Octa.floatVecToCoords t (f32OfBits a, f32OfBits b, f32OfBits c)
        let (x, y, z) := Octa.coordsToUnitVector t r
        s!"{r.1} {r.2} {x.toBits.toNat} {y.toBits.toNat} {z.toBits.toNat}"
      | "unit", [s, u] =>
        let (x, y, z) := Octa.coordsToUnitVector t (intOf s, intOf u)
        s!"{x.toBits.toNat} {y.toBits.toNat} {z.toBits.toNat}"
      | _, _ => "bad-op"
  | _ => "bad-op"

def transformOps : List (String × (List String → String)) :=
  [("wrap", wrapOp), ("wrapdec", wrapDecOp), ("wrap_sweep", wrapSweepOp), ("octa", octaOp),
   ("octadec", octaDecOp), ("octa_sweep", octaSweepOp), ("octa_tool", octaToolOp)]

end Draco.Ops
