import DracoModel.Proto
import DracoModel.Options
/- op handler tying `DracoModel/Options.lean` to the C++ classes `Options`, `DracoOptions<int>`,
   `EncoderOptions` (harness/ops_options.cc): the same command script on both sides. -/
namespace Draco.Ops
open Draco Draco.Proto Draco.Opt

structure OptState where
  plain : Options := {}
  eo : DracoOptions := {}

def joinNatsOpt (l : List Nat) : String := if l.isEmpty then "-" else ",".intercalate (l.map toString)
def joinIntsOpt (l : List Int) : String := if l.isEmpty then "-" else ",".intercalate (l.map toString)

/-- run one command; returns the new state and the result token -/
def optionsStep (st : OptState) (tok : String) : OptState × String :=
  let (scope, key, t) : Nat × Nat × String :=
    if tok.startsWith "G." then (1, 0, (tok.drop 2).toString)
    else if tok.startsWith "A" then
      match (tok.drop 1).toString.splitOn "." with
      | k :: rest => (2, natOf k, ".".intercalate rest)
      | _ => (0, 0, tok)
    else (0, 0, tok)
  let p := t.splitOn ":"
  let cmd := p.headD ""
  let name := (p.drop 1).headD ""
  let arg := (p.drop 2).headD ""
  -- the Options object the command reads
  let rdOpt : Options := if scope == 0 then st.plain else st.eo.global
  let upd := fun (f : Options → Options) =>
    if scope == 0 then ({ st with plain := f st.plain }, "-")
    else if scope == 1 then ({ st with eo := { st.eo with global := f st.eo.global } }, "-")
    else ({ st with eo := st.eo.modifyAtt key f }, "-")
  if cmd == "speed" then (st, toString st.eo.getSpeed)
  else if cmd == "merge" then ({ st with plain := st.plain.mergeAndReplace st.eo.global }, "-")
  else if cmd == "si" then upd (·.setInt name (intOf arg))
  else if cmd == "sb" then upd (·.setBool name (arg == "1"))
  else if cmd == "sf" then upd (·.setFloat name (natOf arg))
  else if cmd == "ss" then upd (·.setString name (String.ofList ((bytesOfHex arg).map Char.ofNat)))
  else if cmd == "sv" then upd (·.setFloatVector name (natList arg))
  else if cmd == "sw" then upd (·.setIntVector name (intList arg))
  else if cmd == "gi" then
    (st, toString (if scope == 2 then st.eo.getAttributeInt key name (intOf arg) else rdOpt.getInt name (intOf arg)))
  else if cmd == "gb" then
    let d := arg == "1"
    let v := if scope == 2 then
        (match st.eo.findAtt key with
         | some ao => if ao.isSet name then ao.getBool name d else st.eo.global.getBool name d
         | none => st.eo.global.getBool name d)
      else rdOpt.getBool name d
    (st, if v then "1" else "0")
  else if cmd == "gf" then
    (st, toString (if scope == 2 then st.eo.getAttributeFloat key name (natOf arg) else rdOpt.getFloat name (natOf arg)))
  else if cmd == "gs" then
    (st, hexOfBytes ((st.plain.getString name "").toList.map Char.toNat))
  else if cmd == "gv" then
    let n := natOf arg
    let zero := List.replicate n 0
    let r := if scope == 2 then st.eo.getAttributeFloatVector key name n zero else rdOpt.getFloatVector name n zero
    (st, match r with
      | some v => "t" ++ joinNatsOpt v
      | none => "f" ++ joinNatsOpt zero)
  else if cmd == "gw" then
    let n := natOf arg
    let zero : List Int := List.replicate n 0
    (st, match st.plain.getIntVector name n zero with
      | some v => "t" ++ joinIntsOpt v
      | none => "f" ++ joinIntsOpt zero)
  else if cmd == "is" then
    let v := if scope == 2 then st.eo.isAttributeOptionSet key name else rdOpt.isSet name
    (st, if v then "1" else "0")
  else (st, "bad")

def optionsOp (args : List String) : String :=
  let r := args.foldl (fun (acc : OptState × List String) tok =>
    let (st, out) := optionsStep acc.1 tok
    (st, out :: acc.2)) ({}, [])
  " ".intercalate r.2.reverse

def optionsOps : List (String × (List String → String)) := [("options", optionsOp)]

end Draco.Ops
