import DracoModel.Proto
import DracoModel.KdEncoder
import DracoModel.Decoder
import Ops.SeqEnc
/- op handler tying the kd-tree point cloud ENCODER model (lean/DracoModel/KdEncoder.lean) to the C++:

   kdattrenc <the option tokens of the harness op `enc`> hex=<stream produced by the C++> -- <geometry>
     -> ok <hex of the model's stream> <rt> <dom> | fail | bad-op

   Everything — header, metadata, number of points, descriptors, quantization (executable `Float32`
   instance), signed offsets, point vector, bit length, compression level, the tree coder with the
   `std::partition` of libstdc++ and IEEE `zero_prob_raw`, transform data — is computed by the model
   and must reproduce the C++ bytes exactly (`hex=` is only used to recognise kd-tree streams).
   <rt> = `rt-ok` when the model decoder applied to the model's stream returns the attributes of
   `KdEnc.expectedKd g opts` with the per-point value tuples permuted (the conclusion of
   `pointcloud_kd_roundtrip` evaluated on this input), <dom> = are the theorem's decidable
   hypotheses met. -/
namespace Draco.Ops
open Draco Draco.Proto Draco.SeqEnc

/-- lexicographic order on byte tuples -/
def lexLe : List Nat → List Nat → Bool
  | [], _ => true
  | _ :: _, [] => false
  | a :: as, b :: bs => a < b || (a == b && lexLe as bs)

/-- the value bytes of every attribute at point `p`, concatenated (identity maps) -/
def pointTuples (g : Geometry) : List (List Nat) :=
  (List.range g.numPoints).map fun p =>
    g.atts.flatMap fun a => (a.values.drop (p * a.stride)).take a.stride

def sameUpToPointOrder (g e : Geometry) : Bool :=
  g.isMesh == e.isMesh && g.numPoints == e.numPoints && g.faces == e.faces &&
  g.atts.map (fun a => { a with values := [] }) == e.atts.map (fun a => { a with values := [] }) &&
  (pointTuples g).mergeSort lexLe == (pointTuples e).mergeSort lexLe

/-- the decidable hypotheses of `pointcloud_kd_roundtrip` (`KdGeomOK`) -/
def domainOfKd (g : Geometry) (eo : EncOpts) : String :=
  let n := g.numPoints
  let dim := (g.atts.map (·.numComponents)).sum
  let ok := !g.isMesh && n > 0 && n < 2^31 && g.valid && g.atts.length < 2^32 &&
    32 * ((2 * dim + 3) * (n * (32 * dim + 1) + 1)) + 3 < 2^32 &&
    (zipIdxFrom 0 g.atts).all fun ia =>
      let a := ia.2
      let o := eo.att ia.1
      a.values.all (· < 256) && a.attType < 5 && a.numComponents ≤ 255 && a.uniqueId < 2^32 &&
      (KdEnc.kindOf a.dataType).isSome &&
      (match o.explicitQuant with
       | some (org, r) => r < 2^32 && org.all (· < 2^32)
       | none => true)
  if ok then "dom-ok" else "dom-out"

def kdattrencOp (args : List String) : String :=
  match splitOn2 "--" args with
  | [opts, gT] =>
    match Geometry.ofTokens gT with
    | none => "bad-op"
    | some (g, _) =>
      let metaTok : Option String := opts.findSome? fun t =>
        if t.startsWith "meta=" then some (t.drop 5).toString else none
      let md : Option GeometryMetadata := metaTok.bind parseGeometryMetadata
      if metaTok.isSome && md.isNone then "bad-op" else
      let eo := encOptsOf opts g
      match KdEnc.encodeGeometryKd KdEnc.Choices.std g md eo with
      | none => "fail"
      | some bs =>
        let exp := KdEnc.expectedKd g eo
        let rt :=
          match decodeGeometry {} { rest := bs } with
          | (some r, st) =>
            if st.rest.isEmpty && r.metadata == md && sameUpToPointOrder r.geometry exp then "rt-ok"
            else "rt-differs"
          | _ => "rt-differs"
        s!"ok {hexOfBytes bs} {rt} {domainOfKd g eo}"
  | _ => "bad-op"

def kdEncOps : List (String × (List String → String)) := [("kdattrenc", kdattrencOp)]

end Draco.Ops
