import DracoModel.Proto
import DracoModel.SeqDecoder
import DracoModel.Spec
import Ops.Codec
import DracoModel.Animation
/- op handlers of the end-to-end properties that work on a given stream (C10 on legacy / hand-made streams) -/
namespace Draco.Ops
open Draco Draco.Proto

/-- skipchk skip=<types> hex=<stream> -- <impl decode> -- <impl decode, all transforms skipped> -- <impl decode skip=<types>>
    -> <model decode> | <model decode all skipped> | <model decode skip=<types>> | n/a |
       <C10 skip check (all)> | <C10 skip check (subset)>        (same layout as the `e2e` op) -/
def skipchkOp (args : List String) : String :=
  match splitOn2 "--" args with
  | [opts, dT, sT, uT] =>
    let skipS := (kv opts "skip").getD "-"
    let bs := bytesOfHex ((kv opts "hex").getD "-")
    let mdec := decResultText bs (decodeGeometry {} { rest := bs })
    let mall := decResultText bs (decodeGeometry { skip := [0, 1, 2, 3, 4] } { rest := bs })
    let msub := decResultText bs (decodeGeometry { skip := skipOf skipS } { rest := bs })
    let geomOf := fun (t : List String) =>
      match t with
      | "ok" :: _ :: rest => (Geometry.ofTokens rest).map (·.1)
      | _ => none
    let chk := fun (sk : List Nat) (t : List String) =>
      match geomOf dT, geomOf t with
      | some g', some gs => Spec.skipCheck sk g' gs
      | some _, none => "violation: the ordinary decode accepts the stream, the decode with skipped transforms fails"
      | none, _ => "n/a"
    s!"{mdec} | {mall} | {msub} | n/a | {chk [0, 1, 2, 3, 4] sT} | {chk (skipOf skipS) uT}"
  | _ => "bad-op"

/-- animapi <call> …  (see harness/ops_anim.cc): the KeyframeAnimation API calls run on `Anim.empty` -/
def animapiOp (args : List String) : String :=
  let calls : List (Option AnimCall) := args.map fun c =>
    match c.splitOn ":" with
    | ["T", ts] => some (.setTimestamps (natList ts))
    | ["K", dt, nc, data] => some (.addKeyframes (natOf dt) (natOf nc) (natList data))
    | _ => none
  if calls.any (·.isNone) then "bad-op" else
  let (A, rets) := Anim.empty.run (calls.filterMap id)
  let rt := rets.map fun r => match r with
    | .bool b => if b then "1" else "0"
    | .id i => toString i
  let atts := A.atts.map fun a =>
    let d := if a.data.isEmpty then "-" else ".".intercalate (a.data.map toString)
    s!" {a.uniqueId}:{a.attType}:{a.dataType}:{a.numComponents}:{a.size}:{d}"
  s!"{if rt.isEmpty then "-" else ",".intercalate rt} | {A.numFrames} {A.atts.length} |{String.join atts}"

def e2ePropsOps : List (String × (List String → String)) :=
  [("skipchk", skipchkOp), ("animapi", animapiOp)]

end Draco.Ops
