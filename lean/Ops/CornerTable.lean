import DracoModel.Proto
import DracoModel.CornerTable
/- op handlers for C13 -/
namespace Draco.Ops
open Draco Draco.Proto

def facesOfList (l : List Nat) : Faces :=
  let rec go : List Nat → Array (Nat × Nat × Nat) → Array (Nat × Nat × Nat)
    | a :: b :: c :: rest, acc => go rest (acc.push (a, b, c))
    | _, acc => acc
  go l #[]

def ctLine (faces : Faces) : String :=
  match CornerTable.create faces with
  | none => "NULL"
  | some ct => (if ct.consistent faces then "ok" else "BAD-model-checker") ++ " | " ++ ct.dump

def ctOp : List String → String
  | [fl] => ctLine (facesOfList (natList fl))
  | _ => "bad-op"

def hmodS : Nat := 2305843009213693951
def mixs (h : Nat) (s : String) : Nat := s.toList.foldl (fun h c => (h * 1000003 + c.toNat) % hmodS) h

/-- the list of `3*nf` ids encoded by index `idx` (mixed radix, first corner most significant) -/
def idsOfIndex (nf ids idx : Nat) : List Nat :=
  let rec go (k : Nat) (x : Nat) (acc : List Nat) : List Nat :=
    match k with
    | 0 => acc
    | k+1 => go k (x / ids) ((x % ids) :: acc)
  go (3 * nf) idx []

def ctSweepOp : List String → String
  | [nf, ids, stride, offset] =>
    let nf := natOf nf
    let ids := natOf ids
    let stride := natOf stride
    let offset := natOf offset
    let total := ids ^ (3 * nf)
    let count := if offset < total then (total - offset + stride - 1) / stride else 0
    let (h, viol, n, first) := (List.range count).foldl (fun (acc : Nat × Nat × Nat × String) i =>
      let (h, viol, n, first) := acc
      let idx := offset + i * stride
      let faces := facesOfList (idsOfIndex nf ids idx)
      match CornerTable.create faces with
      | none => (mixs h "NULL", viol, n + 1, first)
      | some ct =>
        let ok := ct.consistent faces
        (mixs h ct.dump, if ok then viol else viol + 1, n + 1,
         if !ok && viol == 0 then "BAD:" ++ toString (idsOfIndex nf ids idx) else first)) (7, 0, 0, "-")
    s!"{h} {viol} {n} {first}"
  | _ => "bad-op"

def cornerTableOps : List (String × (List String → String)) := [("ct", ctOp), ("ct_sweep", ctSweepOp)]

end Draco.Ops
