import DracoModel.Proto
import DracoModel.Decoder
import DracoModel.Spec
import Ops.Metadata
/- op handlers for whole-stream decoding -/
namespace Draco.Ops
open Draco Draco.Proto

def skipOf (s : String) : List Nat :=
  s.toList.filterMap fun c => if '0' ≤ c ∧ c ≤ '4' then some (c.toNat - 48) else none

def decResultText (bs : Bytes) (r : Option DecodeResult × DSt) : String :=
  match r with
  | (some res, st) =>
    let md := match res.metadata with
      | some g => " meta " ++ dumpGeometryMetadata g
      | none => ""
    s!"ok {bs.length - st.rest.length} {res.geometry.toText}{md}"
  | (none, st) =>
    match st.status with
    | .unknownVersion => "err-version"
    | .unsupported w => s!"unsupported {w.replace " " "_"}"
    | _ => "err"

def decOp : List String → String
  | [skip, h] =>
    let bs := bytesOfHex h
    decResultText bs (decodeGeometry { skip := skipOf skip } { rest := bs })
  | _ => "bad-op"

def splitOn2 (sep : String) (l : List String) : List (List String) :=
  let rec go (l : List String) (cur : List String) (acc : List (List String)) : List (List String) :=
    match l with
    | [] => (cur.reverse :: acc).reverse
    | t :: rest => if t == sep then go rest [] (cur.reverse :: acc) else go rest (t :: cur) acc
  go l [] []

def clsOf (s : String) : Spec.MethodClass :=
  if s == "kd" then .kdTree else if s == "eb" then .edgebreaker else .sequential

def reqOf (s : String) : Spec.QuantReq :=
  if s == "-" || s.isEmpty then [] else
    (s.splitOn ",").filterMap fun t =>
      match t.splitOn ":" with
      | [u, b] => some (natOf u, natOf b)
      | _ => none

/-- e2e cls=<seq|kd|eb> req=<uid:bits,…|-> skip=<types|-> hex=<stream>
        -- <g> -- <impl decode> -- <impl decode, all transforms skipped> -- <impl decode with skip=<types>, or ->
    -> <model decode> | <model decode all skipped> | <model decode skip=<types>> |
       <RoundTripOK on the implementation's outputs> | <C10 skip check (all)> | <C10 skip check (subset)> -/
def e2eOp (args : List String) : String :=
  match splitOn2 "--" args with
  | [opts, gT, dT, sT, uT] =>
    let cls := clsOf ((kv opts "cls").getD "seq")
    let req := reqOf ((kv opts "req").getD "-")
    let skipS := (kv opts "skip").getD "-"
    let bs := bytesOfHex ((kv opts "hex").getD "-")
    let mdec := decResultText bs (decodeGeometry {} { rest := bs })
    let mall := decResultText bs (decodeGeometry { skip := [0, 1, 2, 3, 4] } { rest := bs })
    let msub := if skipS == "-" then "-" else decResultText bs (decodeGeometry { skip := skipOf skipS } { rest := bs })
    let geomOf := fun (t : List String) =>
      match t with
      | "ok" :: _ :: rest => (Geometry.ofTokens rest).map (·.1)
      | _ => none
    let rt :=
      match Geometry.ofTokens gT, geomOf dT with
      | some (g, _), some g' =>
        match geomOf sT with
        | some gs => Spec.check cls req g g' gs
        | none => "violation: decode with all transforms skipped failed"
      | _, _ => "n/a"
    let skAll :=
      match geomOf dT, geomOf sT with
      | some g', some gs => Spec.skipCheck [0, 1, 2, 3, 4] g' gs
      | _, _ => "n/a"
    let skSub :=
      if skipS == "-" then "n/a" else
      match geomOf dT, geomOf uT with
      | some g', some gs => Spec.skipCheck (skipOf skipS) g' gs
      | some _, none => "violation: decode with skipped transforms failed"
      | _, _ => "n/a"
    s!"{mdec} | {mall} | {msub} | {rt} | {skAll} | {skSub}"
  | _ => "bad-op"

/-- ebtrace <skip> <hex> -> <status> <reached-branch tags of the model, comma separated> -/
def ebtraceOp : List String → String
  | [skip, h] =>
    let bs := bytesOfHex h
    let r := decodeGeometry { skip := skipOf skip } { rest := bs }
    let st := match r with
      | (some _, _) => "ok"
      | (none, s) => match s.status with
        | .unsupported w => "unsupported:" ++ w.replace " " "_"
        | .unknownVersion => "err-version"
        | _ => "err"
    let tags := r.2.tags.reverse.eraseDups
    s!"{st} {if tags.isEmpty then "-" else ",".intercalate tags}"
  | _ => "bad-op"

/-- e2et …: `e2e` followed by ` | trace=<status> <reached-branch tags of the model's plain decode>` -/
def e2etOp (args : List String) : String :=
  match splitOn2 "--" args with
  | opts :: _ =>
    e2eOp args ++ " | trace=" ++ ebtraceOp ["-", (kv opts "hex").getD "-"]
  | _ => "bad-op"

def codecOps : List (String × (List String → String)) :=
  [("dec", decOp), ("e2e", e2eOp), ("ebtrace", ebtraceOp), ("e2et", e2etOp)]

end Draco.Ops
