import DracoModel.Proto
import DracoModel.SeqDecoder
/- op handlers for whole-stream decoding -/
namespace Draco.Ops
open Draco Draco.Proto

def skipOf (s : String) : List Nat :=
  s.toList.filterMap fun c => if '0' ≤ c ∧ c ≤ '4' then some (c.toNat - 48) else none

def decResultText (bs : Bytes) (r : Option DecodeResult × DSt) : String :=
  match r with
  | (some res, st) => s!"ok {bs.length - st.rest.length} {res.geometry.toText}"
  | (none, st) =>
    match st.status with
    | .unknownVersion => "err-version"
    | .unsupported w => s!"unsupported {w.replace " " "_"}"
    | _ => "err"

def decOp : List String → String
  | [skip, h] =>
    let bs := bytesOfHex h
    decResultText bs (decodeGeometry { skip := skipOf skip } { rest := bs })
  | _ => "bad-op"

def codecOps : List (String × (List String → String)) :=
  [("dec", decOp)]

end Draco.Ops
