import DracoModel.Proto
import DracoModel.KdTree
import DracoModel.KdTreeEnc
import Generated.FastDivTab
/- op handlers for the kd-tree point coder (same line formats as harness/ops_kdtree.cc) -/
namespace Draco.Ops
open Draco Draco.Proto

def chunks (n : Nat) : Nat → List Nat → List (List Nat)
  | 0, _ => []
  | fuel+1, l => if l.isEmpty || n == 0 then [] else l.take n :: chunks n fuel (l.drop n)

def kdPointsOf (dim : Nat) (csv : String) : List (List Nat) :=
  let c := natList csv
  (chunks dim c.length c).filter (·.length == dim)

def kdEncBytes (level dim bitLength : Nat) (pts : List (List Nat)) : Bytes :=
  Kd.encodePoints Kd.stdPartition Generated.fastdivTab zeroProbRawFloat level dim bitLength pts

def kdDecText (level dim maxPoints : Nat) (bs : Bytes) : String :=
  match Kd.decodePoints level dim maxPoints { rest := bs } with
  | (some (n, pts), st) => s!"ok {bs.length - st.rest.length} {n} {joinNats pts.flatten}"
  | (none, _) => "F"

/-- kdenc <level> <dim> <bit_length> <coords> -/
def kdencOp : List String → String
  | [level, dim, bl, csv] => hexOfBytes (kdEncBytes (natOf level) (natOf dim) (natOf bl) (kdPointsOf (natOf dim) csv))
  | _ => "bad-op"

/-- kddec <level> <dim> <max_points|-> <hex> -/
def kddecOp : List String → String
  | [level, dim, mp, hex] =>
    kdDecText (natOf level) (natOf dim) (if mp == "-" then 2^32 - 1 else natOf mp) (bytesOfHex hex)
  | _ => "bad-op"

/-- kdrt <level> <dim> <bit_length> <coords> <trailhex> -/
def kdrtOp : List String → String
  | [level, dim, bl, csv, trail] =>
    let pts := kdPointsOf (natOf dim) csv
    let bs := kdEncBytes (natOf level) (natOf dim) (natOf bl) pts
    s!"{hexOfBytes bs} | {kdDecText (natOf level) (natOf dim) pts.length (bs ++ bytesOfHex trail)}"
  | _ => "bad-op"

def kdTreeOps : List (String × (List String → String)) :=
  [("kdenc", kdencOp), ("kddec", kddecOp), ("kdrt", kdrtOp)]

end Draco.Ops
