import DracoModel.Proto
import DracoModel.SymbolCoding
/- op handlers for C08 -/
namespace Draco.Ops
open Draco Draco.Proto

def symsEncode (level method comps syms : String) : Option Bytes :=
  let lv := if level == "-" then 7 else natOf level
  let forced : Option Scheme := if method == "-" then none else if method == "0" then some .tagged else if method == "1" then some .raw else none
  -- an unknown forced method is reported as failure by EncodeSymbols
  if method != "-" && method != "0" && method != "1" then none else
  encodeSymbols lv forced (natOf comps) (natList syms)

def symsDecText (bs : Bytes) (n comps : Nat) : String :=
  match decodeSymbols n comps bs with
  | none => "err"
  | some (l, rest) => s!"ok {bs.length - rest.length} {joinNats (l.take n)}"

def symsEncOp : List String → String
  | [level, method, comps, syms] =>
    match symsEncode level method comps syms with
    | none => "err"
    | some bs => "ok " ++ hexOfBytes bs
  | _ => "bad-op"

def symsDecOp : List String → String
  | [n, comps, h] => symsDecText (bytesOfHex h) (natOf n) (natOf comps)
  | _ => "bad-op"

def symsRtOp : List String → String
  | [level, method, comps, syms, trail] =>
    match symsEncode level method comps syms with
    | none => "err-enc"
    | some bs => s!"{bs.length} " ++ symsDecText (bs ++ bytesOfHex trail) (natList syms).length (natOf comps)
  | _ => "bad-op"

def symsDmgOp : List String → String
  | [level, method, comps, syms, what, a, b, n, comps2] =>
    match symsEncode level method comps syms with
    | none => "err-enc"
    | some bs =>
      let x := natOf a
      let y := natOf b
      let len := bs.length
      let dmg : Bytes :=
        if what == "trunc" then bs.take (x % (len + 1))
        else if len == 0 then bs
        else
          let i := x % len
          let old := bs.getD i 0
          let nw := if what == "flip" then Nat.xor old (2 ^ (y % 8)) else y % 256
          bs.take i ++ [nw] ++ bs.drop (i + 1)
      symsDecText dmg (natOf n) (natOf comps2)
  | _ => "bad-op"

/-- Samples the five hypotheses of `create_complete` (DracoProps.C08) on the binary64 oracle:
    `T` total frequency, `pb` precision bits, `fs` frequencies ≤ T, `A` > 2^pb, `ps` ascending
    table entries.  Answers `ok` or names the first hypothesis that fails. -/
def ransOracleOp : List String → String
  | [t, pb, fs, a, ps] =>
    let T := natOf t
    let P := 2 ^ natOf pb
    let A := natOf a
    let o := ProbOracle.float
    let fl := natList fs
    let pl := natList ps
    if T = 0 ∨ A ≤ P then "bad-op"
    else if o.est 0 T P ≠ 0 then "fail est_zero"
    else if o.est T T P > P then "fail est_full"
    else
      match fl.find? (fun f => 0 < f ∧ f ≤ T ∧ T * o.est f T P > f * P + T) with
      | some f => s!"fail est_le {f}"
      | none =>
        match pl.find? (fun p => o.rescale P A p > p) with
        | some p => s!"fail rescale_le {p}"
        | none =>
          let rs := pl.map (o.rescale P A)
          let sortedIn := (pl.zip (pl.drop 1)).all fun ab => ab.1 ≤ ab.2
          let sortedOut := (rs.zip (rs.drop 1)).all fun ab => ab.1 ≤ ab.2
          if sortedIn && !sortedOut then "fail rescale_mono" else "ok"
  | _ => "bad-op"

def symbolOps : List (String × (List String → String)) :=
  [("syms_enc", symsEncOp), ("syms_dec", symsDecOp), ("syms_rt", symsRtOp), ("syms_dmg", symsDmgOp),
   ("rans_oracle", ransOracleOp)]

end Draco.Ops
