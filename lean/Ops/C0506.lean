import DracoModel.Proto
import DracoModel.VersionGate
/- op handlers of the C05 / C06 checks -/
namespace Draco.Ops
open Draco Draco.Proto

/-- vgate <0 point cloud | 1 mesh> <major> <minor> -> reject | pass
    (the decision table proved about `decodeGeometry` in DracoProps.C05) -/
def vgateOp : List String → String
  | [t, ma, mi] => if gateRejects (t == "1") (natOf ma) (natOf mi) then "reject" else "pass"
  | _ => "bad-op"

def c0506Ops : List (String × (List String → String)) :=
  [("vgate", vgateOp)]

end Draco.Ops
