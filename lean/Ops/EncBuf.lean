import DracoModel.Proto
import DracoModel.EncBuf
/- op handler for the stateful EncoderBuffer (mirrors harness/ops_encbuf.cc)

   buf_seq <item>… [t<hex>]    items r<hex> | v<value> | s<req>:<ops> | n<req>:<ops>, ops = <nbits>.<value>;… or -
   → ok <buffer hex> T | fail
   (the round trip itself is theorem `buffer_items_roundtrip`; the model answers T whenever the writes are accepted) -/
namespace Draco.Ops
open Draco Draco.Proto

def parseBufOps (s : String) : List (Nat × Nat) :=
  if s == "-" || s.isEmpty then [] else
    (s.splitOn ";").filterMap fun e =>
      match e.splitOn "." with
      | [n, v] => some (natOf n, natOf v)
      | _ => none

def parseBufItem (t : String) : Option BufItem :=
  let body := (t.drop 1).toString
  match t.front with
  | 'r' => some (.raw (bytesOfHex body))
  | 'v' => some (.varint (natOf body))
  | 's' | 'n' =>
    match body.splitOn ":" with
    | [req, ops] => some (.region (t.front == 's') (natOf req) (parseBufOps ops))
    | _ => none
  | _ => none

def bufSeqOp (args : List String) : String :=
  let items := (args.filter fun t => t.front != 't').filterMap parseBufItem
  match ({} : EncBuf).runItems items with
  | none => "fail"
  | some b => s!"ok {hexOfBytes b.buffer} T"

def encBufOps : List (String × (List String → String)) := [("buf_seq", bufSeqOp)]

end Draco.Ops
