import DracoModel.Proto
import DracoModel.Quantizer
/- op handlers for C04 / C12 -/
namespace Draco.Ops
open Draco Draco.Proto

def chunk (n : Nat) (l : List Nat) : List (List Nat) :=
  let rec go (fuel : Nat) (l : List Nat) (acc : List (List Nat)) : List (List Nat) :=
    match fuel with
    | 0 => acc.reverse
    | fuel+1 => if l.isEmpty || n == 0 then acc.reverse else go fuel (l.drop n) (l.take n :: acc)
  go (l.length + 1) l []

def qattrOp : List String → String
  | q :: nc :: vals :: rest =>
    let q := intOf q
    let nc := natOf nc
    let rows := chunk nc (natList vals)
    let params : Option (List Nat × Nat) :=
      match rest with
      | [range, mins] =>
        if Quant.isQuantizationValid q then some (natList mins, natOf range) else none
      | _ => if Quant.isQuantizationValid q then Quant.computeParametersBits nc rows else none
    match params with
    | none => "fail"
    | some (mins, range) =>
      let qn := q.toNat
      let ks : List (List Int) := rows.map fun row =>
        (row.zipIdx).map fun (x, c) => Quant.quantizeBits mins range qn c x
      let dec : List Nat := (ks.map fun row =>
        (row.zipIdx).map fun (k, c) => Quant.dequantizeBits mins range qn c k).flatten
      s!"ok {range} {joinNats mins} {joinInts ks.flatten} {joinNats dec}"
  | _ => "bad-op"

def quantOps : List (String × (List String → String)) := [("qattr", qattrOp)]

end Draco.Ops
