import Ops.Codec
/- op handlers for the decoder robustness checks (C02 / C03 / C18) -/
namespace Draco.Ops
open Draco Draco.Proto

def maxAlloc (l : List (String × Nat)) : Nat := l.foldl (fun m e => max m e.2) 0

/-- rdec <skip types|-> <hex>
    -> <decode> | <decode with the transforms of <skip> skipped> | declared=<n> maxalloc=<bytes> nalloc=<events> valid=<0|1|-> -/
def rdecOp : List String → String
  | [skip, h] =>
    let bs := bytesOfHex h
    let r0 := decodeGeometry {} { rest := bs }
    let r1 := decodeGeometry { skip := skipOf skip } { rest := bs }
    let v := match r0.1, r1.1 with
      | some a, some b => if a.geometry.valid && b.geometry.valid then "1" else "0"
      | _, _ => "-"
    s!"{decResultText bs r0} | {decResultText bs r1} | declared={r0.2.declared} maxalloc={maxAlloc r0.2.allocs} nalloc={r0.2.allocs.length} valid={v}"
  | _ => "bad-op"

def robustOps : List (String × (List String → String)) :=
  [("rdec", rdecOp)]

end Draco.Ops
