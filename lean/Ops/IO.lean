import DracoModel.Proto
import DracoModel.IO.Stl
import DracoModel.IO.Ply
import DracoModel.IO.ObjText
import DracoModel.IO.Check
/- op handlers for the file formats (C15); mirrored by harness/ops_io.cc

   stl_rt <geom>             → <file hex> | <decoded>      StlEncoder::EncodeToBuffer, StlDecoder::DecodeFromBuffer
   ply_rt <asMesh> <geom>    → <file hex> | <decoded>      PlyEncoder (Mesh overload iff the geometry is a mesh),
                                                           PlyDecoder into a Mesh (asMesh = 1) or a PointCloud
   obj_rt <asMesh> <geom>    → <file canon> | <decoded>    ObjEncoder / ObjDecoder
   stl_dec <hex> | ply_dec <asMesh> <hex> | obj_dec <asMesh> <hex>   → <decoded>   readers on arbitrary files
   obj_nums <bits,…>         → <bits,…>                    print (`%F`) then `parser::ParseFloat`, per value
   obj_print <bits,…>        → <hex text,…>                the characters `snprintf("%F")` leaves in the 20-byte buffer
   obj_parse <hex text,…>    → <bits>:<consumed> | ?       `parser::ParseFloat` on arbitrary tokens
   io_check <geom>           → flags of the executable C15 checkers of DracoModel/IO/Check.lean (model only)

   <decoded> = canonical geometry text | ERR (the C++ reports failure) | ERR:unsupported | ERR:ub (outside the model).
   <file canon> of an OBJ file: records separated by ';', words by ','; number tokens of v / vt / vn records are
   replaced by the float32 bit pattern `parser::ParseFloat` reads from them ('?' when it fails or leaves characters
   unread) — decimal text is never compared; index triples of f records are compared verbatim.
-/
namespace Draco.Ops
open Draco Draco.IO Draco.Proto

def ioGeomOut (r : Res Geometry) : String :=
  match r with
  | .ok g => g.toText
  | .error .reject => "ERR"
  | .error .unsupported => "ERR:unsupported"
  | .error .ub => "ERR:ub"

def ioStringOfBytes (bs : Bytes) : String := String.ofList (bs.map Char.ofNat)

def objTokBits (t : String) : String :=
  match Obj.f32Codec.parse t with
  | some b => toString b
  | none => "?"

def objLineCanon : Obj.Line String → String
  | .v x y z => s!"v,{objTokBits x},{objTokBits y},{objTokBits z}"
  | .vt u v => s!"vt,{objTokBits u},{objTokBits v}"
  | .vn x y z => s!"vn,{objTokBits x},{objTokBits y},{objTokBits z}"
  | .f cs => "f" ++ String.join (cs.map (fun c => "," ++ Obj.cornerText c))
  | .mtllib n => "mtllib," ++ n
  | .usemtl n => "usemtl," ++ n
  | .o n => "o," ++ n
  | .other t => ",".intercalate (Obj.wordsOf t)

def objCanon (ls : List (Obj.Line String)) : String :=
  if ls.isEmpty then "-" else ";".intercalate (ls.map objLineCanon)

def ioErr2 (e : Err) : String := ioGeomOut (.error e) ++ " | " ++ ioGeomOut (.error e)

def ioB (b : Bool) : String := if b then "T" else "F"

def ioRun : List String → String
  | "stl_rt" :: rest =>
    match Geometry.ofTokens rest with
    | none => "bad-op"
    | some (g, _) =>
      match Stl.encodeE g with
      | .error e => ioErr2 e
      | .ok bs => hexOfBytes bs ++ " | " ++ ioGeomOut (Stl.decodeE bs)
  | "ply_rt" :: am :: rest =>
    match Geometry.ofTokens rest with
    | none => "bad-op"
    | some (g, _) =>
      match Ply.encodeE g with
      | .error e => ioErr2 e
      | .ok bs => hexOfBytes bs ++ " | " ++ ioGeomOut (Ply.decodeE (am == "1") bs)
  | "obj_rt" :: am :: rest =>
    match Geometry.ofTokens rest with
    | none => "bad-op"
    | some (g, _) =>
      match Obj.encodeE Obj.f32Codec g with
      | .error e => ioErr2 e
      | .ok ls =>
        -- decode from the records themselves and, independently, from the re-lexed text
        let d1 := ioGeomOut (Obj.decodeE Obj.f32Codec (am == "1") ls)
        let d2 := ioGeomOut (Obj.decodeE Obj.f32Codec (am == "1") (Obj.lex (Obj.render ls)))
        objCanon ls ++ " | " ++ (if d1 == d2 then d1 else s!"LEXMISMATCH {d1} /// {d2}")
  | ["stl_dec", h] => ioGeomOut (Stl.decodeE (bytesOfHex h))
  | ["ply_dec", am, h] => ioGeomOut (Ply.decodeE (am == "1") (bytesOfHex h))
  | ["obj_dec", am, h] =>
    ioGeomOut (Obj.decodeE Obj.f32Codec (am == "1") (Obj.lex (ioStringOfBytes (bytesOfHex h))))
  | ["obj_nums", l] =>
    ",".intercalate ((natList l).map (fun b => objTokBits (Obj.f32Codec.print b)))
  | ["obj_print", l] =>
    ",".intercalate ((natList l).map (fun b => hexOfBytes ((Obj.fmtF b).toList.map Char.toNat)))
  | ["obj_parse", l] =>
    ",".intercalate ((l.splitOn ",").map (fun h =>
      let cs := (bytesOfHex h).map Char.ofNat
      match Obj.parseFloat cs with
      | some (b, rest) => s!"{b}:{cs.length - rest.length}"
      | none => "?"))
  | "io_check" :: rest =>
    match Geometry.ofTokens rest with
    | none => "bad-op"
    | some (g, _) =>
      let r (b : Nat) : Nat := (Obj.f32Codec.parse (Obj.f32Codec.print b)).getD 0
      s!"valid={ioB g.valid} stl={ioB (checkStl g)} ply={ioB (checkPly g)} objExact={ioB (checkObjMesh exactCodec id g)} objText={ioB (checkObjMesh Obj.f32Codec r g)} objPoints={ioB (checkObjPoints exactCodec g)}"
  | _ => "bad-op"

def ioOps : List (String × (List String → String)) :=
  ["stl_rt", "ply_rt", "obj_rt", "stl_dec", "ply_dec", "obj_dec", "obj_nums", "obj_print", "obj_parse", "io_check"].map fun op =>
    (op, fun args => ioRun (op :: args))

end Draco.Ops
