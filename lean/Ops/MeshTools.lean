import DracoModel.Proto
import DracoModel.Dedup
import DracoModel.Builders
import DracoModel.Cleanup
import DracoModel.Stripifier
import DracoModel.C14Check
import DracoModel.C14Verify
/- op handlers for the mesh building / clean-up utilities (C14); mirrored by harness/ops_meshtools.cc

   dedupv  <geom>                 → geom            PointCloud::DeduplicateAttributeValues
   dedupp  <geom>                 → geom            PointCloud::DeduplicatePointIds
   dedupvp <geom>                 → geom            both
   cleanup <bits> <geom>          → ok geom | err   MeshCleanup::Cleanup, bits: 1 degenerated, 2 duplicate,
                                                    4 unused, 8 manifold
   strips <0|1> <geom>            → ok csv | fail   MeshStripifier (1 = primitive restart 0xFFFFFFFF)
   buildmesh <nf> <na> {<attType> <dt> <nc> <nz> <kinds> <hex>}*      kinds: one char per face, 1 = per-face value
   buildpc <np> <dedup> <na> {<attType> <dt> <nc> <nz> <mode> <hex>}*
   c14check <op…>                 → T/F flags of the C14 checkers on the same input
   c14v <op…> @@ <result…>        → <clause=T|F …> | <model output>
        the clauses of C14 (DracoModel/C14Verify.lean) evaluated on the input of the operation and the
        RESULT tokens, i.e. on what the implementation returned for that op line (first part of the
        harness output); followed by what the model computes for the same op line
-/
namespace Draco.Ops
open Draco Draco.Proto

def geomOf (toks : List String) : Geometry :=
  match Geometry.ofTokens toks with
  | some (g, _) => g
  | none => { isMesh := false, numPoints := 0, faces := [], atts := [] }

def faceValues (stride : Nat) : List Char → Bytes → List FaceValue
  | [], _ => []
  | k :: ks, bs =>
    if k == '1' then FaceValue.perFace (bs.take stride) :: faceValues stride ks (bs.drop stride)
    else
      FaceValue.corners (bs.take stride) ((bs.drop stride).take stride) ((bs.drop (2 * stride)).take stride)
        :: faceValues stride ks (bs.drop (3 * stride))

def meshAtts : Nat → List String → List (AttSpec × List FaceValue)
  | 0, _ => []
  | n + 1, aty :: dt :: nc :: nz :: kinds :: hx :: rest =>
    let s : AttSpec := { attType := natOf aty, dataType := natOf dt, numComponents := natOf nc, normalized := nz == "1" }
    (s, faceValues s.stride (if kinds == "-" then [] else kinds.toList) (bytesOfHex hx)) :: meshAtts n rest
  | _, _ => []

def pcAtts (np : Nat) : Nat → List String → List (AttSpec × List Bytes)
  | 0, _ => []
  | n + 1, aty :: dt :: nc :: nz :: _mode :: hx :: rest =>
    let s : AttSpec := { attType := natOf aty, dataType := natOf dt, numComponents := natOf nc, normalized := nz == "1" }
    (s, chunk s.stride np (bytesOfHex hx)) :: pcAtts np n rest
  | _, _ => []

def optsOf (bits : Nat) : CleanupOpts :=
  { removeDegeneratedFaces := bits % 2 == 1, removeDuplicateFaces := (bits / 2) % 2 == 1,
    removeUnusedAttributes := (bits / 4) % 2 == 1, makeGeometryManifold := (bits / 8) % 2 == 1 }

def b2s (b : Bool) : String := if b then "T" else "F"

def meshToolRun : List String → String
  | "dedupv" :: g => (geomOf g).dedupValues.toText
  | "dedupp" :: g => (geomOf g).dedupPointIds.toText
  | "dedupvp" :: g => (geomOf g).dedupValues.dedupPointIds.toText
  | "cleanup" :: bits :: g =>
    match Cleanup.run (optsOf (natOf bits)) (geomOf g) with
    | none => "err"
    | some r => "ok " ++ r.toText
  | "strips" :: r :: g =>
    match Strips.generate? (r == "1") (geomOf g) with
    | none => "fail"
    | some l => "ok " ++ joinNats l
  | "buildmesh" :: nf :: na :: rest =>
    (buildMesh { numFaces := natOf nf, atts := meshAtts (natOf na) rest }).toText
  | "buildpc" :: np :: dd :: na :: rest =>
    (buildPointCloud { numPoints := natOf np, dedup := dd == "1", atts := pcAtts (natOf np) (natOf na) rest }).toText
  | [] => ""
  | _ => "bad-op"

/-- the C14 checkers on the same inputs; a second flag is the "strict" clause that the code violates
    for unsupported attribute types -/
def meshToolCheck : List String → String
  | "dedupv" :: g => let g := geomOf g
    if g.valid then b2s (C14.checkDedupValues g) ++ b2s (C14.checkDedupValuesNoDupStrict g) else "invalid"
  | "dedupp" :: g => let g := geomOf g
    if g.valid then b2s (C14.checkDedupPointIds g) else "invalid"
  | "dedupvp" :: g => let g := geomOf g
    if g.valid then b2s (C14.checkDedupValues g) ++ b2s (C14.checkDedupPointIds g.dedupValues) else "invalid"
  | "cleanup" :: bits :: g => let g := geomOf g
    if g.valid then b2s (C14.checkCleanup (optsOf (natOf bits)) g) else "invalid"
  | "strips" :: r :: g => let g := geomOf g
    if g.valid then b2s (C14.checkStrips (r == "1") g) else "invalid"
  | "buildmesh" :: nf :: na :: rest =>
    b2s (C14.checkBuildMesh { numFaces := natOf nf, atts := meshAtts (natOf na) rest })
  | "buildpc" :: np :: dd :: na :: rest =>
    let s : PointCloudSpec := { numPoints := natOf np, dedup := dd == "1", atts := pcAtts (natOf np) (natOf na) rest }
    b2s (C14.checkBuildPointCloud s) ++ b2s (C14.checkBuildPointCloudStrict s)
  | [] => ""
  | _ => "bad-op"

/-- result tokens of the implementation → geometry (`none`: error / null / failure marker) -/
def resultGeom : List String → Option Geometry
  | "ok" :: g => some (geomOf g)
  | "mesh" :: g => some (geomOf ("mesh" :: g))
  | "pc" :: g => some (geomOf ("pc" :: g))
  | _ => none

/-- the C14 clauses on (input, implementation's result) -/
def meshToolVerifyFlags (opToks res : List String) : C14.Flags :=
  match opToks with
  | "dedupv" :: g => let g := geomOf g
    match resultGeom res with
    | some g' => if g.valid then C14.verifyDedupValues g g' else [("input-valid", false)]
    | none => [("result", false)]
  | "dedupp" :: g => let g := geomOf g
    match resultGeom res with
    | some g' => if g.valid then C14.verifyDedupPointIds g g' else [("input-valid", false)]
    | none => [("result", false)]
  | "dedupvp" :: g => let g := geomOf g
    match resultGeom res with
    | some g' => if g.valid then C14.verifyDedupBoth g g' else [("input-valid", false)]
    | none => [("result", false)]
  | "cleanup" :: bits :: g => let g := geomOf g
    if !g.valid then [("input-valid", false)]
    else match res with
      | ["err"] => C14.verifyCleanup (optsOf (natOf bits)) g none
      | "ok" :: _ => C14.verifyCleanup (optsOf (natOf bits)) g (resultGeom res)
      | _ => [("result", false)]
  | "strips" :: r :: g => let g := geomOf g
    if !g.valid then [("input-valid", false)]
    else match res with
      | ["fail"] => C14.verifyStrips (r == "1") g none
      | ["ok", l] => C14.verifyStrips (r == "1") g (some (natList l))
      | _ => [("result", false)]
  | "buildmesh" :: nf :: na :: rest =>
    C14.verifyBuildMesh { numFaces := natOf nf, atts := meshAtts (natOf na) rest } (resultGeom res)
  | "buildpc" :: np :: dd :: na :: rest =>
    C14.verifyBuildPointCloud
      { numPoints := natOf np, dedup := dd == "1", atts := pcAtts (natOf np) (natOf na) rest } (resultGeom res)
  | _ => [("op", false)]

def meshToolVerify (toks : List String) : String :=
  let opToks := toks.takeWhile (· != "@@")
  let res := (toks.dropWhile (· != "@@")).drop 1
  (meshToolVerifyFlags opToks res).toText ++ " | " ++ meshToolRun opToks

def meshToolOps : List (String × (List String → String)) :=
  (["dedupv", "dedupp", "dedupvp", "cleanup", "strips", "buildmesh", "buildpc"].map fun op =>
    (op, fun args => meshToolRun (op :: args))) ++ [("c14check", meshToolCheck), ("c14v", meshToolVerify)]

end Draco.Ops
