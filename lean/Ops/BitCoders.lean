import DracoModel.Proto
import DracoModel.BitCoders
import DracoModel.BitBuf
import DracoModel.Rabs
import Generated.FastDivTab
/- op handlers for the C17 binary coders (same line formats as harness/ops_bitcoders.cc) -/
namespace Draco.Ops
open Draco Draco.Proto

def natOfChars (cs : List Char) : Nat := cs.foldl (fun a c => a * 10 + (c.toNat - '0'.toNat)) 0

def parseBitOp (s : String) : BitOp :=
  match s.toList with
  | 'b' :: c :: _ => .bit (c == '1')
  | 'l' :: rest =>
    let nb := rest.takeWhile (· != ':')
    let v := (rest.dropWhile (· != ':')).drop 1
    .lsb32 (natOfChars nb) (natOfChars v)
  | _ => .bit false

def parseBitReq (s : String) : BitReq :=
  match s.toList with
  | 'l' :: rest => .lsb32 (natOfChars (rest.takeWhile (· != ':')))
  | _ => .bit

def splitCsv (s : String) : List String := if s.isEmpty || s == "-" then [] else s.splitOn ","

def fdTab := Generated.fastdivTab

def optStr : Option Nat → String
  | none => "x"
  | some v => toString v

def opBits : BitOp → List Bool
  | .bit b => [b]
  | .lsb32 n v => bitsOf n v

def reqWidth : BitReq → Nat
  | .bit => 1
  | .lsb32 n => n

def runGetBits : List BitReq → BitReader → List String → List String × BitReader
  | [], r, acc => (acc.reverse, r)
  | q :: qs, r, acc =>
    match r.getBits (reqWidth q) with
    | none => runGetBits qs r ("x" :: acc)
    | some (v, r') => runGetBits qs r' (toString v :: acc)

def showVals (pos : Nat) (vs : List String) : String := toString pos ++ ":" ++ ",".intercalate vs

def decodeBitsMode (legacy withSize : Bool) (reqs : List BitReq) (bs : Bytes) : String :=
  let start : Option (Nat × Bytes) :=
    if withSize then readBitRegionSize legacy bs else some (0, bs)
  match start with
  | none => "F"
  | some (size, bs1) =>
    let (vals, r) := runGetBits reqs (BitReader.start bs1) []
    let rest := bs1.drop r.bytesDecoded
    toString (bs.length - rest.length) ++ ":" ++ toString size ++ (if reqs.isEmpty then "" else ",") ++ ",".intercalate vals

def bcModelEnc (kind : String) (ops : List BitOp) : Option Bytes :=
  match kind with
  | "rans" => some (ransBitEncode fdTab zeroProbRawFloat ops)
  | "adapt" => some (adaptiveEncode fdTab floatProbModel ops)
  | "direct" => some (directEncode ops)
  | "folded" => some (foldedRansEncode fdTab zeroProbRawFloat ops)
  | "foldedadapt" => some (foldedEncode (adaptiveEncIface fdTab floatProbModel) ops)
  | "bits0" => some (encBitRegion false (ops.flatMap opBits))
  | "bits1" => some (encBitRegion true (ops.flatMap opBits))
  | _ => none

def bcFin (total : Nat) (r : Option (List String × Bytes)) : String :=
  match r with
  | none => "F"
  | some (vs, rest) => showVals (total - rest.length) vs

def bcModelDec (kind : String) (legacy : Bool) (reqs : List BitReq) (bs : Bytes) : String :=
  let n := bs.length
  match kind with
  | "rans" => bcFin n ((ransBitDecode legacy reqs bs).map fun (v, r) => (v.map toString, r))
  | "adapt" => bcFin n ((adaptiveDecode floatProbModel reqs bs).map fun (v, r) => (v.map toString, r))
  | "direct" => bcFin n ((directDecode reqs bs).map fun (v, r) => (v.map optStr, r))
  | "folded" => bcFin n ((foldedRansDecode legacy reqs bs).map fun (v, r) => (v.map toString, r))
  | "foldedadapt" =>
    bcFin n ((foldedDecode (adaptiveDecIface floatProbModel) reqs bs).map fun (v, r) => (v.map toString, r))
  | "bits0" => decodeBitsMode legacy false reqs bs
  | "bits1" => decodeBitsMode legacy true reqs bs
  | _ => "bad-op"

def bcEncOp : List String → String
  | [kind, ops] =>
    match bcModelEnc kind ((splitCsv ops).map parseBitOp) with
    | none => "bad-op"
    | some bs => hexOfBytes bs
  | _ => "bad-op"

def bcDecOp : List String → String
  | [kind, legacy, h, reqs] => bcModelDec kind (legacy == "1") ((splitCsv reqs).map parseBitReq) (bytesOfHex h)
  | _ => "bad-op"

def bcRtOp (args : List String) : String :=
  match args with
  | kind :: ops :: more =>
    let ops := (splitCsv ops).map parseBitOp
    match bcModelEnc kind ops with
    | none => "bad-op"
    | some bs =>
      let all := bs ++ (match more with | [t] => bytesOfHex t | _ => [])
      toString bs.length ++ " " ++ bcModelDec kind false (ops.map BitOp.req) all
  | _ => "bad-op"

def bcDmgOp : List String → String
  | [kind, ops, what, a, b, legacy, reqs] =>
    match bcModelEnc kind ((splitCsv ops).map parseBitOp) with
    | none => "bad-op"
    | some bs =>
      let x := natOf a
      let y := natOf b
      let n := bs.length
      let dmg : Bytes :=
        if what == "trunc" then bs.take (x % (n + 1))
        else if n == 0 then bs
        else
          let i := x % n
          let old := bs.getD i 0
          let nw := if what == "flip" then Nat.xor old (2 ^ (y % 8)) else y % 256
          bs.take i ++ [nw] ++ bs.drop (i + 1)
      bcModelDec kind (legacy == "1") ((splitCsv reqs).map parseBitReq) dmg
  | _ => "bad-op"

def hmodB : Nat := 2305843009213693951
@[inline] def mixB (h v : Nat) : Nat := (h * 1000003 + v) % hmodB

def ansTailSweepOp : List String → String
  | [lo, hi] =>
    let lo := natOf lo
    let hi := natOf hi
    let (h, bad, n) := (List.range (hi - lo)).foldl (fun (acc : Nat × Nat × Nat) i =>
      let (h, bad, n) := acc
      let s := lo + i
      let tail := ansWriteEnd ⟨s, []⟩
      let h := mixB (tail.foldl mixB h) (0x100 + tail.length)
      let ok := match ansReadInit tail with
        | some d => d.state == s && d.buf.isEmpty
        | none => false
      (h, if ok then bad else bad + 1, n + 1)) (7, 0, 0)
    s!"{h} {bad} {n}"
  | _ => "bad-op"

/-- the model is a function of the ops only: two streams through "one object" are two independent round trips -/
def bcReuseOp : List String → String
  | [kind, o1, o2] =>
    let one := fun (o : String) =>
      let ops := (splitCsv o).map parseBitOp
      match bcModelEnc kind ops with
      | none => "bad-op"
      | some bs => toString bs.length ++ " " ++ bcModelDec kind false (ops.map BitOp.req) bs
    one o1 ++ " | " ++ one o2
  | _ => "bad-op"

def bitCoderOps : List (String × (List String → String)) :=
  [("bc_enc", bcEncOp), ("bc_dec", bcDecOp), ("bc_rt", bcRtOp), ("bc_dmg", bcDmgOp),
   ("ans_tail_sweep", ansTailSweepOp), ("bc_reuse", bcReuseOp)]

end Draco.Ops
