import DracoModel.Proto
import DracoModel.EbEncoder
import DracoModel.EbEncHyps
import DracoModel.Decoder
import DracoModel.Spec
import Ops.SeqEnc
import Ops.Metadata
/- op handler tying the Edgebreaker mesh ENCODER model (lean/DracoModel/EbEnc*.lean) to the C++ (C01/C09):

   ebenc <the option tokens of the harness op `enc`> hex=<stream produced by the C++> -- <geometry>
     -> ok <hex of the model's stream> <num_encoded_points> <num_encoded_faces> <rt> <iso> <counts> <info> <hyp>
      | fail | unsupported <what> | not-edgebreaker | bad-op

   The encoder heuristics (`EbEnc.EbChoices`: tagged / raw symbol scheme per attribute and per valence
   context, crease flags of the constrained multi-parallelogram scheme) are read back from the C++ stream
   with the decoder model (`choicesOfStream`); everything else — header, metadata, traversal coder
   selection, corner table, holes, start faces, symbols, split events, seams, attribute encoders and their
   order, traversal sequences, portable values, quantization parameters (executable `Float32`), prediction
   scheme selection, corrections, orientations, flip bits, symbol coding, transform data — is computed by
   the model and must reproduce the C++ bytes exactly.
   <rt>     `rt-ok`: the model decoder applied to the model's stream (ordinary + all transforms skipped)
            satisfies the executable specification `Spec.checkCore .edgebreaker` w.r.t. the input, returns the
            metadata and consumes the whole stream; `rt-skip`: duplicate unique ids (the specification does
            not apply); otherwise `rt-violation` / `rt-decode-fails`.
   <iso>    `iso-ok`: the decidable predicate `CTIso` holds between the model decoder's corner table on the
            model's stream and the encoder's corner table (corner map given by
            `processed_connectivity_corners_`).
   <counts> `counts-ok`: the numbers of encoded points / faces the encoder model reports equal the decoded
            geometry's.
   <hyp>    (follow-up 4: `hyp-fails:` lists only what is still HYPOTHETICAL — `valueBlockHypsIso` (primed), `processedSize`,
            `ctIsoSide`; what the theorems DERIVE from it — block invariance, `mdIso`, the unprimed
            `valueBlockHyps`, the conclusion, and since follow-up 5 `coverage` (traversal completeness,
            `processed.size = num_faces − NumDegeneratedFaces`) — is evaluated as a check of the theorems: `hyp-derived-fails:`.)
            `hyp-ok`: every named hypothesis of the conditional theorems of DracoProps/C01Eb.lean holds on this
            case (`EbEnc.valueBlockHyps` for every value block: scheme kinds, block invariance under the change of
            mesh data, the decoder's parent attribute, sizes, int32 range, canonical normals, corner counts,
            crease counts; `EbEnc.ctIsoSideOk`; `EbEnc.tvIsoCheck` / `mdIsoCheck`: the decoder's and the encoder's
            mesh data of the block are isomorphic under the corner map of `processed`; `EbEnc.valueBlockHypsIso`:
            the hypotheses of `eb_value_block_conditional_iso` — isomorphic VIEWS, `Hedge`, `OppInvol`, parent, side
            conditions, marked with a prime), and the conclusion of `eb_value_block_conditional` evaluates to
            true (the decoder function on the decoder's mesh data returns the portable values and consumes exactly
            the block); otherwise `hyp-fails:<names>`. -/
namespace Draco.Ops
open Draco Draco.Proto Draco.SeqEnc Draco.EbEnc

def ebOptsOf (opts : List String) (g : Geometry) : EbOpts :=
  let expert := (kv opts "expert").isSome
  let gi := fun (name : String) => if expert then (kv opts ("g:" ++ name)).map intOf else none
  { base := encOptsOf opts g,
    edgebreakerMethod := (gi "edgebreaker_method").getD (-1),
    splitMeshOnSeams := (gi "split_mesh_on_seams").map (· != 0) }

/-- `ExpertEncoder::EncodeMeshToBuffer`: is the Edgebreaker encoder selected? -/
def selectsEdgebreaker (opts : List String) (o : EbOpts) : Bool :=
  let m : Int := match kv opts "method" with
    | some v => intOf v
    | none => -1
  let m := if m == -1 then (if o.base.speed == 10 then 0 else 1) else m
  m == 1

def defaultConnChoices : ConnChoices :=
  { zeroProbRaw := zeroProbRawFloat, oracle := ProbOracle.float, ctxScheme := fun _ => .tagged }

def defaultChoices : EbChoices :=
  { conn := defaultConnChoices, attScheme := fun _ => .tagged, crease := fun _ => #[] }

/-- attribute ids of the integer-family attributes in stream order (independent of the choices) -/
def integerAttributeOrder (g : Geometry) (o : EbOpts) : List Nat :=
  match encodeEdgebreaker defaultChoices g none o with
  | .ok e => e.order.toList.flatMap fun i =>
      ((e.controllers[i]!).encs.toList.filter fun s => s.kind != 0).map (·.attId)
  | .error _ => []

/-- `<prefix><number>[:…]` tags of the decoder model, oldest first -/
def tagOffsets (tags : List String) (pre : String) : List (List String) :=
  tags.reverse.filterMap fun t =>
    if t.startsWith pre then some ((t.drop pre.length).toString.splitOn ":") else none

/-- reads the encoder's free choices back from the C++ stream: walks it with the decoder model and looks at
    the bytes at the positions the decoder's `at:` tags name -/
def ebChoicesOfStream (bs : Bytes) (intAtts : List Nat) : EbChoices :=
  let total := bs.length
  let arr := bs.toArray
  let (_, st) := decodeGeometry {} { rest := bs }
  let tags := st.tags
  -- symbol scheme of every integer-family attribute: behind the method (+ transform) byte and the
  -- `compressed` byte
  let methods := tagOffsets tags "at:method="
  let schemes : List (Nat × Draco.Scheme) := (intAtts.zip methods).map fun (attId, parts) =>
    match parts with
    | [m, rem] =>
      let off := total - natOf rem
      let body := off + (if intOf m == Generated.PREDICTION_NONE then 1 else 2)
      let sc := if arr.getD body 0 > 0 then schemeOfByte (arr.getD (body + 1) 0) else .tagged
      (attId, sc)
    | _ => (attId, .tagged)
  -- crease flags of the constrained multi-parallelogram attributes (in stream order)
  let cmAtts := ((intAtts.zip methods).filter fun (_, parts) =>
    match parts with
    | m :: _ => intOf m == Generated.MESH_PREDICTION_CONSTRAINED_MULTI_PARALLELOGRAM
    | _ => false).map (·.1)
  let creaseOf := fun (rem : Nat) => Id.run do
    let mut rest := bs.drop (total - rem)
    let mut out : Array (Array Bool) := #[]
    for _ in [0:Generated.kMaxNumParallelograms.toNat] do
      match decVarint 32 rest with
      | none => out := out.push #[]
      | some (n, r) =>
        rest := r
        if n == 0 || n > 3 * total * 8 + 64 then out := out.push #[] else
        match ransBitStart false rest with
        | none => out := out.push #[]
        | some (d, r2) =>
          rest := r2
          out := out.push (rabsReadBits d.probZero n d.ans []).1.toArray
    return out
  let creases : List (Nat × Array (Array Bool)) :=
    (cmAtts.zip (tagOffsets tags "at:constrained_mode:")).map fun (attId, parts) =>
      (attId, creaseOf (natOf (parts.headD "0")))
  -- valence contexts
  let ctx : Array Draco.Scheme := Id.run do
    match tagOffsets tags "at:valence_contexts:" with
    | (rem :: _) :: _ =>
      let mut rest := bs.drop (total - natOf rem)
      let mut out : Array Draco.Scheme := #[]
      for _ in [0:6] do
        match decVarint 32 rest with
        | none => out := out.push .tagged
        | some (n, r) =>
          rest := r
          if n == 0 then out := out.push .tagged else
          out := out.push (schemeOfByte (r.headD 0))
          match decodeSymbolsV false n 1 r with
          | some (_, r2) => rest := r2
          | none => pure ()
      return out
    | _ => return #[]
  { conn := { defaultConnChoices with ctxScheme := fun i => ctx.getD i .tagged },
    attScheme := fun i => (schemes.lookup i).getD .tagged,
    crease := fun i => (creases.lookup i).getD #[] }

/-- header, metadata and `DecodeConnectivity` of the decoder model: the corner table it builds -/
def decodeMeshOnly : DecM Eb.Mesh := do
  let h ← decodeHeader
  DecM.setVersion (bsVersion h.major h.minor)
  if h.flags / 32768 % 2 == 1 then
    let _ ← DecM.lift Leaf.decodeGeometryMetadata
  Eb.decodeConnectivity

/-- the decoder's side of the value blocks of the model's stream: for every block of the encoder the number of
    entries, the decoder's mesh data, entry → point map and parent attribute (as `decodeAttributes` builds them from
    the decoded connectivity `mesh`; `decS` = the geometry decoded with every transform skipped, from which the
    portable values of the position attribute are taken) -/
def decoderSides (enc : Encoded) (mesh : Eb.Mesh) (decS : Geometry) (posId : Option Nat) :
    Eb.R (Array (Nat × Eb.MeshData × Eb.SeqOut × Option Eb.Parent)) := do
  let streamAtts : List Nat := enc.order.toList.flatMap fun e => (enc.controllers[e]!).attIds.toList
  let decOf := fun (e : Nat) =>
    let c := enc.controllers[e]!
    let perVertex := c.attDataId < 0 || (enc.conn.atts[c.attDataId.toNat]!).conn.noInteriorSeams
    ({ attDataId := c.attDataId, cornerDecoder := !perVertex, traversalMethod := c.traversalMethod } : Eb.AttDecoder)
  let mut out := #[]
  let mut k := 0
  for b in enc.blocks do
    let dec := decOf b.ctrl
    let seq ← Eb.sequenceOfDecoder mesh dec
    let view := Eb.viewOfDecoder mesh dec
    -- the parent: the position attribute when its block precedes this one
    let mut parent : Option Eb.Parent := none
    match posId with
    | none => pure ()
    | some pid =>
      match (List.range k).find? fun j => (enc.blocks[j]!).attId == pid with
      | none => pure ()
      | some j =>
        let pb := enc.blocks[j]!
        let pdec := decOf pb.ctrl
        let pseq ← Eb.sequenceOfDecoder mesh pdec
        let m ← Eb.pointToValueMap (Eb.viewOfDecoder mesh pdec) mesh.faces mesh.numPoints pseq.v2d
        let di := (streamAtts.idxOf pid)
        let a := decS.atts.getD di default
        let ints := ((leGroups 4 a.values).map (toSigned 32)).toArray
        parent := some { numComponents := a.numComponents, map := m, ints := ints, intsOk := true,
                         floats := #[], floatsOk := false }
    out := out.push (seq.pointIds.size, ({ t := view, d2c := seq.d2c, v2d := seq.v2d } : Eb.MeshData), seq, parent)
    k := k + 1
  pure out

/-- evaluation of the named hypotheses and of the conclusion of `eb_value_block_conditional` on every block -/
def hypsOf (ch : EbChoices) (o : EbOpts) (g : Geometry) (enc : Encoded) (mesh : Eb.Mesh) (decS : Geometry) : String :=
  let posId := (List.range g.atts.length).find? fun i =>
    (g.atts.getD i default).attType == Generated.geometryAttribute_POSITION.toNat
  match decoderSides enc mesh decS posId with
  | .error _ => "hyp-fails:decoderSides"
  | .ok sides =>
    -- per block: (still hypothetical, derived by theorems — evaluated as a sanity check of the theorems)
    let per := (List.range enc.blocks.size).map fun k =>
      let b := enc.blocks[k]!
      let (n, mdD, seqD, parentD) := sides[k]!
      let pointIdsD := seqD.pointIds
      let tagOf := fun (nme : String) => s!"{b.attId}.{nme}"
      -- the conclusion of the value-block theorems
      let comps := (g.atts.getD b.attId default).numComponents
      let concl :=
        match Eb.decodeIntegerValuesEb b.kind n b.nc comps mdD pointIdsD parentD
                { rest := b.bytes ++ [85], version := 514 } with
        | (some (vals, _), st) => vals == b.portable && st.rest == [85]
        | _ => false
      let φ := phiOf enc.conn.processed
      let (psi, back, cback) := buildMaps mdD.t b.md.t φ
      -- HYPOTHESES of `eb_value_block_conditional_iso`: isomorphic views, `Hedge`, `OppInvol`, side conditions
      -- (`decParent'` is kept here: its structural derivation `runs_valueBlock_views_struct` needs table invariants
      -- of the decoder's corner table that are not evaluated separately)
      let hyp := (valueBlockHypsIso ch o.base b mdD.t seqD parentD φ psi back cback).map (· ++ "'") ++
                 (if enc.conn.processed.size == mdD.t.numFaces then [] else ["processedSize"])
      -- DERIVED (theorems: `traversal_mdIso`, `encodeSchemeBlock_iso`, the conclusion): must hold whenever the
      -- hypotheses do
      let derived := (valueBlockHyps ch o.base b n mdD pointIdsD parentD) ++
                     (if tvIsoCheck mdD.t b.md.t φ psi back cback then [] else ["tvIso"]) ++
                     (if mdIsoCheck mdD b.md φ psi then [] else ["mdIso"]) ++
                     (if concl then [] else ["conclusion"])
      (hyp.map tagOf, derived.map tagOf)
    let t := enc.conn.ct
    let side := (if ctIsoSideOk t mesh.numFaces mesh.c2v then [] else ["ctIsoSide"])
    let hyps := per.flatMap (·.1) ++ side
    -- traversal completeness is a THEOREM since follow-up 5 (`Coverage.encodeConnectivity_size`, DracoProofs/EbCoverage.lean):
    -- evaluated as a check of the theorem
    let derived := per.flatMap (·.2) ++
                   (if enc.conn.processed.size == t.numFaces - t.numDegenerated then [] else ["coverage"])
    if !hyps.isEmpty then "hyp-fails:" ++ ",".intercalate hyps
    else if !derived.isEmpty then "hyp-derived-fails:" ++ ",".intercalate derived
    else "hyp-ok"

def errText : Eb.Err → String
  | .fail => "fail"
  | .ub s => "unsupported ub:" ++ s.replace " " "_"
  | .fuel s => "unsupported fuel:" ++ s.replace " " "_"
  | .unsupported s => "unsupported " ++ s.replace " " "_"

def ebencOp (args : List String) : String :=
  match splitOn2 "--" args with
  | [opts, gT] =>
    match Geometry.ofTokens gT with
    | none => "bad-op"
    | some (g, _) =>
      let metaTok : Option String := opts.findSome? fun t =>
        if t.startsWith "meta=" then some (t.drop 5).toString else none
      let md : Option GeometryMetadata := metaTok.bind parseGeometryMetadata
      if metaTok.isSome && md.isNone then "bad-op" else
      if !g.isMesh then "not-edgebreaker" else
      let o := ebOptsOf opts g
      if !selectsEdgebreaker opts o then "not-edgebreaker" else
      if !g.valid || g.numPoints == 0 then "unsupported geometry_outside_the_harness_domain" else
      let cpp := bytesOfHex ((kv opts "hex").getD "-")
      let ch := if cpp.isEmpty then defaultChoices else ebChoicesOfStream cpp (integerAttributeOrder g o)
      match encodeEdgebreaker ch g md o with
      | .error e => errText e
      | .ok enc =>
        let bs := enc.bytes
        let dec := decodeGeometry {} { rest := bs }
        let decS := decodeGeometry { skip := allTypes } { rest := bs }
        let rt :=
          match dec, decS with
          | (some r, st), (some rs, _) =>
            if !st.rest.isEmpty then "rt-trailing-bytes"
            else if r.metadata != md then "rt-metadata-differs"
            else
              let c := Spec.check .edgebreaker (quantReq g o.base) g r.geometry rs.geometry
              if c == "ok" then "rt-ok" else if c.startsWith "skip" then "rt-skip" else "rt-violation"
          | _, _ => "rt-decode-fails"
        let counts :=
          match dec with
          | (some r, _) =>
            if r.geometry.numPoints == enc.numEncodedPoints && r.geometry.faces.length == enc.numEncodedFaces
            then "counts-ok" else s!"counts-differ:{r.geometry.numPoints}/{r.geometry.faces.length}"
          | _ => "counts-n/a"
        let meshD := decodeMeshOnly { rest := bs }
        let iso :=
          match meshD with
          | (some m, _) => if ctIso enc.conn.ct enc.conn.processed m.numFaces m.c2v m.opp then "iso-ok" else "iso-differs"
          | _ => "iso-n/a"
        let hyp :=
          match meshD, decS with
          | (some m, _), (some rs, _) => hypsOf ch o g enc m rs.geometry
          | _, _ => "hyp-n/a"
        let c := enc.conn
        let info := s!"sym={c.symbols.size},split={c.numSplitSymbols},events={c.splits.size},starts={c.startFaces.size}," ++
          s!"attdata={c.atts.size},encoders={enc.controllers.size},schemes=" ++
          "/".intercalate (enc.outs.toList.map fun a => s!"{a.kind}:{a.scheme.method}")
        s!"ok {hexOfBytes bs} {enc.numEncodedPoints} {enc.numEncodedFaces} {rt} {iso} {counts} {info} {hyp}"
  | _ => "bad-op"

def ebEncOps : List (String × (List String → String)) := [("ebenc", ebencOp)]

end Draco.Ops
