import DracoModel.Proto
import DracoModel.EbEncoder
import DracoModel.Decoder
import DracoModel.Spec
import Ops.SeqEnc
import Ops.Metadata
/- op handler tying the Edgebreaker mesh ENCODER model (lean/DracoModel/EbEnc*.lean) to the C++ (C01/C09):

   ebenc <the option tokens of the harness op `enc`> hex=<stream produced by the C++> -- <geometry>
     -> ok <hex of the model's stream> <num_encoded_points> <num_encoded_faces> <rt> <iso> <counts> <info>
      | fail | unsupported <what> | not-edgebreaker | bad-op

   The encoder heuristics (`EbEnc.EbChoices`: tagged / raw symbol scheme per attribute and per valence
   context, crease flags of the constrained multi-parallelogram scheme) are read back from the C++ stream
   with the decoder model (`choicesOfStream`); everything else — header, metadata, traversal coder
   selection, corner table, holes, start faces, symbols, split events, seams, attribute encoders and their
   order, traversal sequences, portable values, quantization parameters (executable `Float32`), prediction
   scheme selection, corrections, orientations, flip bits, symbol coding, transform data — is computed by
   the model and must reproduce the C++ bytes exactly.
   <rt>     `rt-ok`: the model decoder applied to the model's stream (ordinary + all transforms skipped)
            satisfies the executable specification `Spec.checkCore .edgebreaker` w.r.t. the input, returns the
            metadata and consumes the whole stream; `rt-skip`: duplicate unique ids (the specification does
            not apply); otherwise `rt-violation` / `rt-decode-fails`.
   <iso>    `iso-ok`: the decidable predicate `CTIso` holds between the model decoder's corner table on the
            model's stream and the encoder's corner table (corner map given by
            `processed_connectivity_corners_`).
   <counts> `counts-ok`: the numbers of encoded points / faces the encoder model reports equal the decoded
            geometry's. -/
namespace Draco.Ops
open Draco Draco.Proto Draco.SeqEnc Draco.EbEnc

def ebOptsOf (opts : List String) (g : Geometry) : EbOpts :=
  let expert := (kv opts "expert").isSome
  let gi := fun (name : String) => if expert then (kv opts ("g:" ++ name)).map intOf else none
  { base := encOptsOf opts g,
    edgebreakerMethod := (gi "edgebreaker_method").getD (-1),
    splitMeshOnSeams := (gi "split_mesh_on_seams").map (· != 0) }

/-- `ExpertEncoder::EncodeMeshToBuffer`: is the Edgebreaker encoder selected? -/
def selectsEdgebreaker (opts : List String) (o : EbOpts) : Bool :=
  let m : Int := match kv opts "method" with
    | some v => intOf v
    | none => -1
  let m := if m == -1 then (if o.base.speed == 10 then 0 else 1) else m
  m == 1

def defaultConnChoices : ConnChoices :=
  { zeroProbRaw := zeroProbRawFloat, oracle := ProbOracle.float, ctxScheme := fun _ => .tagged }

def defaultChoices : EbChoices :=
  { conn := defaultConnChoices, attScheme := fun _ => .tagged, crease := fun _ => #[] }

/-- attribute ids of the integer-family attributes in stream order (independent of the choices) -/
def integerAttributeOrder (g : Geometry) (o : EbOpts) : List Nat :=
  match encodeEdgebreaker defaultChoices g none o with
  | .ok e => e.order.toList.flatMap fun i =>
      ((e.controllers[i]!).encs.toList.filter fun s => s.kind != 0).map (·.attId)
  | .error _ => []

/-- `<prefix><number>[:…]` tags of the decoder model, oldest first -/
def tagOffsets (tags : List String) (pre : String) : List (List String) :=
  tags.reverse.filterMap fun t =>
    if t.startsWith pre then some ((t.drop pre.length).toString.splitOn ":") else none

/-- reads the encoder's free choices back from the C++ stream: walks it with the decoder model and looks at
    the bytes at the positions the decoder's `at:` tags name -/
def ebChoicesOfStream (bs : Bytes) (intAtts : List Nat) : EbChoices :=
  let total := bs.length
  let arr := bs.toArray
  let (_, st) := decodeGeometry {} { rest := bs }
  let tags := st.tags
  -- symbol scheme of every integer-family attribute: behind the method (+ transform) byte and the
  -- `compressed` byte
  let methods := tagOffsets tags "at:method="
  let schemes : List (Nat × Draco.Scheme) := (intAtts.zip methods).map fun (attId, parts) =>
    match parts with
    | [m, rem] =>
      let off := total - natOf rem
      let body := off + (if intOf m == Generated.PREDICTION_NONE then 1 else 2)
      let sc := if arr.getD body 0 > 0 then schemeOfByte (arr.getD (body + 1) 0) else .tagged
      (attId, sc)
    | _ => (attId, .tagged)
  -- crease flags of the constrained multi-parallelogram attributes (in stream order)
  let cmAtts := ((intAtts.zip methods).filter fun (_, parts) =>
    match parts with
    | m :: _ => intOf m == Generated.MESH_PREDICTION_CONSTRAINED_MULTI_PARALLELOGRAM
    | _ => false).map (·.1)
  let creaseOf := fun (rem : Nat) => Id.run do
    let mut rest := bs.drop (total - rem)
    let mut out : Array (Array Bool) := #[]
    for _ in [0:Generated.kMaxNumParallelograms.toNat] do
      match decVarint 32 rest with
      | none => out := out.push #[]
      | some (n, r) =>
        rest := r
        if n == 0 || n > 3 * total * 8 + 64 then out := out.push #[] else
        match ransBitStart false rest with
        | none => out := out.push #[]
        | some (d, r2) =>
          rest := r2
          out := out.push (rabsReadBits d.probZero n d.ans []).1.toArray
    return out
  let creases : List (Nat × Array (Array Bool)) :=
    (cmAtts.zip (tagOffsets tags "at:constrained_mode:")).map fun (attId, parts) =>
      (attId, creaseOf (natOf (parts.headD "0")))
  -- valence contexts
  let ctx : Array Draco.Scheme := Id.run do
    match tagOffsets tags "at:valence_contexts:" with
    | (rem :: _) :: _ =>
      let mut rest := bs.drop (total - natOf rem)
      let mut out : Array Draco.Scheme := #[]
      for _ in [0:6] do
        match decVarint 32 rest with
        | none => out := out.push .tagged
        | some (n, r) =>
          rest := r
          if n == 0 then out := out.push .tagged else
          out := out.push (schemeOfByte (r.headD 0))
          match decodeSymbolsV false n 1 r with
          | some (_, r2) => rest := r2
          | none => pure ()
      return out
    | _ => return #[]
  { conn := { defaultConnChoices with ctxScheme := fun i => ctx.getD i .tagged },
    attScheme := fun i => (schemes.lookup i).getD .tagged,
    crease := fun i => (creases.lookup i).getD #[] }

/-- header, metadata and `DecodeConnectivity` of the decoder model: the corner table it builds -/
def decodeMeshOnly : DecM Eb.Mesh := do
  let h ← decodeHeader
  DecM.setVersion (bsVersion h.major h.minor)
  if h.flags / 32768 % 2 == 1 then
    let _ ← DecM.lift Leaf.decodeGeometryMetadata
  Eb.decodeConnectivity

def errText : Eb.Err → String
  | .fail => "fail"
  | .ub s => "unsupported ub:" ++ s.replace " " "_"
  | .fuel s => "unsupported fuel:" ++ s.replace " " "_"
  | .unsupported s => "unsupported " ++ s.replace " " "_"

def ebencOp (args : List String) : String :=
  match splitOn2 "--" args with
  | [opts, gT] =>
    match Geometry.ofTokens gT with
    | none => "bad-op"
    | some (g, _) =>
      let metaTok : Option String := opts.findSome? fun t =>
        if t.startsWith "meta=" then some (t.drop 5).toString else none
      let md : Option GeometryMetadata := metaTok.bind parseGeometryMetadata
      if metaTok.isSome && md.isNone then "bad-op" else
      if !g.isMesh then "not-edgebreaker" else
      let o := ebOptsOf opts g
      if !selectsEdgebreaker opts o then "not-edgebreaker" else
      if !g.valid || g.numPoints == 0 then "unsupported geometry_outside_the_harness_domain" else
      let cpp := bytesOfHex ((kv opts "hex").getD "-")
      let ch := if cpp.isEmpty then defaultChoices else ebChoicesOfStream cpp (integerAttributeOrder g o)
      match encodeEdgebreaker ch g md o with
      | .error e => errText e
      | .ok enc =>
        let bs := enc.bytes
        let dec := decodeGeometry {} { rest := bs }
        let decS := decodeGeometry { skip := allTypes } { rest := bs }
        let rt :=
          match dec, decS with
          | (some r, st), (some rs, _) =>
            if !st.rest.isEmpty then "rt-trailing-bytes"
            else if r.metadata != md then "rt-metadata-differs"
            else
              let c := Spec.check .edgebreaker (quantReq g o.base) g r.geometry rs.geometry
              if c == "ok" then "rt-ok" else if c.startsWith "skip" then "rt-skip" else "rt-violation"
          | _, _ => "rt-decode-fails"
        let counts :=
          match dec with
          | (some r, _) =>
            if r.geometry.numPoints == enc.numEncodedPoints && r.geometry.faces.length == enc.numEncodedFaces
            then "counts-ok" else s!"counts-differ:{r.geometry.numPoints}/{r.geometry.faces.length}"
          | _ => "counts-n/a"
        let iso :=
          match decodeMeshOnly { rest := bs } with
          | (some m, _) => if ctIso enc.conn.ct enc.conn.processed m.numFaces m.c2v m.opp then "iso-ok" else "iso-differs"
          | _ => "iso-n/a"
        let c := enc.conn
        let info := s!"sym={c.symbols.size},split={c.numSplitSymbols},events={c.splits.size},starts={c.startFaces.size}," ++
          s!"attdata={c.atts.size},encoders={enc.controllers.size},schemes=" ++
          "/".intercalate (enc.outs.toList.map fun a => s!"{a.kind}:{a.scheme.method}")
        s!"ok {hexOfBytes bs} {enc.numEncodedPoints} {enc.numEncodedFaces} {rt} {iso} {counts} {info}"
  | _ => "bad-op"

def ebEncOps : List (String × (List String → String)) := [("ebenc", ebencOp)]

end Draco.Ops
