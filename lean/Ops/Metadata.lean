import DracoModel.Proto
import DracoModel.Metadata
/- op handlers for C11 + the text form of metadata trees (see harness/meta_text.h) -/
namespace Draco.Ops
open Draco Draco.Proto

def hxOf (b : Bytes) : String := if b.isEmpty then "_" else hexOfBytes b
def unHx (s : String) : Bytes := if s == "_" then [] else bytesOfHex s

mutual
partial def dumpMetadata (m : Metadata) : String :=
  "{" ++ ",".intercalate (m.entries.map fun (n, v) => hxOf n ++ "=" ++ hxOf v) ++ ";" ++
    ",".intercalate (m.subs.map fun (n, s) => hxOf n ++ "=" ++ dumpMetadata s) ++ "}"
end

def dumpGeometryMetadata (g : GeometryMetadata) : String :=
  "G[" ++ ",".intercalate (g.atts.map fun (u, m) => toString u ++ ":" ++ dumpMetadata m) ++ "]" ++ dumpMetadata g.root

/-- recursive descent parser on a character list; fuel = input length -/
def takeUntil (stop : Char → Bool) : List Char → List Char → List Char × List Char
  | [], acc => (acc.reverse, [])
  | c :: cs, acc => if stop c then (acc.reverse, c :: cs) else takeUntil stop cs (c :: acc)

partial def parseNode : List Char → Option (Metadata × List Char)
  | '{' :: cs => parseEntries cs Metadata.empty
  | _ => none
where
  parseEntries (cs : List Char) (m : Metadata) : Option (Metadata × List Char) :=
    match cs with
    | ';' :: rest => parseSubs rest m
    | _ =>
      let (name, r1) := takeUntil (· == '=') cs []
      match r1 with
      | '=' :: r2 =>
        let (val, r3) := takeUntil (fun c => c == ',' || c == ';') r2 []
        let m' := m.addEntry (unHx (String.ofList name)) (unHx (String.ofList val))
        match r3 with
        | ',' :: r4 => parseEntries r4 m'
        | _ => parseEntries r3 m'
      | _ => none
  parseSubs (cs : List Char) (m : Metadata) : Option (Metadata × List Char) :=
    match cs with
    | '}' :: rest => some (m, rest)
    | _ =>
      let (name, r1) := takeUntil (· == '=') cs []
      match r1 with
      | '=' :: r2 =>
        match parseNode r2 with
        | none => none
        | some (s, r3) =>
          let m' := (m.addSub (unHx (String.ofList name)) s).getD m
          match r3 with
          | ',' :: r4 => parseSubs r4 m'
          | _ => parseSubs r3 m'
      | _ => none

partial def parseAttMetas (cs : List Char) (acc : List (Nat × Metadata)) : Option (List (Nat × Metadata) × List Char) :=
  match cs with
  | ']' :: rest => some (acc.reverse, rest)
  | _ =>
    let (uid, r1) := takeUntil (· == ':') cs []
    match r1 with
    | ':' :: r2 =>
      match parseNode r2 with
      | none => none
      | some (m, r3) =>
        let acc' := (natOf (String.ofList uid), m) :: acc
        match r3 with
        | ',' :: r4 => parseAttMetas r4 acc'
        | _ => parseAttMetas r3 acc'
    | _ => none

def parseGeometryMetadata (s : String) : Option GeometryMetadata :=
  match s.toList with
  | 'G' :: '[' :: cs =>
    match parseAttMetas cs [] with
    | none => none
    | some (atts, rest) =>
      match parseNode rest with
      | some (root, _) => some ⟨atts, root⟩
      | none => none
  | _ => none

/-- md <node> [trail] -/
def mdOp (args : List String) : String :=
  match args with
  | t :: more =>
    match parseNode t.toList with
    | none => "bad-op"
    | some (m, _) =>
      if !encodeMetadataStatusFixed m then "0 - | -" else
      let bs := encodeMetadata m
      let all := bs ++ (match more with | [tr] => bytesOfHex tr | _ => [])
      let dec := match decodeMetadataFixed all with
        | none => "err"
        | some (m', rest) => dumpMetadata m' ++ " " ++ toString (all.length - rest.length)
      s!"1 {hexOfBytes bs} | {dec}"
  | _ => "bad-op"

def gmdOp (args : List String) : String :=
  match args with
  | t :: more =>
    match parseGeometryMetadata t with
    | none => "bad-op"
    | some g =>
      if !encodeGeometryMetadataStatusFixed g then "0 - | -" else
      let bs := encodeGeometryMetadata g
      let all := bs ++ (match more with | [tr] => bytesOfHex tr | _ => [])
      let dec := match decodeGeometryMetadataFixed all with
        | none => "err"
        | some (g', rest) => dumpGeometryMetadata g' ++ " " ++ toString (all.length - rest.length)
      s!"1 {hexOfBytes bs} | {dec}"
  | _ => "bad-op"

def mddecOp : List String → String
  | [h] =>
    let bs := bytesOfHex h
    match decodeGeometryMetadataFixed bs with
    | none => "err"
    | some (g, rest) => dumpGeometryMetadata g ++ " " ++ toString (bs.length - rest.length)
  | _ => "bad-op"

def metadataOps : List (String × (List String → String)) := [("md", mdOp), ("gmd", gmdOp), ("mddec", mddecOp)]

end Draco.Ops
