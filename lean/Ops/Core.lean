import DracoModel.Proto
import DracoModel.Varint
import DracoModel.BitBuf
/- op handlers for the C17 primitives -/
namespace Draco.Ops
open Draco Draco.Proto

def varintEnc : List String → String
  | [w, sg, v] =>
    let w := natOf w
    if sg == "1" then hexOfBytes (encVarintSigned w (intOf v))
    else hexOfBytes (encVarint (natOf v % 2^w))
  | _ => "bad-op"

def varintDec : List String → String
  | [w, sg, h] =>
    let w := natOf w
    let bs := bytesOfHex h
    if sg == "1" then
      match decVarintSigned w bs with
      | none => "err"
      | some (v, rest) => s!"ok {v} {bs.length - rest.length}"
    else
      match decVarint w bs with
      | none => "err"
      | some (v, rest) => s!"ok {v} {bs.length - rest.length}"
  | _ => "bad-op"

def coreOps : List (String × (List String → String)) :=
  [("varint_enc", varintEnc), ("varint_dec", varintDec)]

end Draco.Ops
