import DracoProofs.Varint
