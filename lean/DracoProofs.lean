import DracoProofs.Varint
import DracoProofs.Wrap
import DracoProofs.Octahedron
