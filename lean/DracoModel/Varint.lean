import DracoModel.Basic
/-
  Mirrors src/draco/core/varint_encoding.h, varint_decoding.h and the zig-zag helpers of
  src/draco/core/bit_utils.h (ConvertSignedIntToSymbol / ConvertSymbolToSignedInt).
-/
namespace Draco

/-- one byte read: `DecoderBuffer::Decode(uint8_t*)` -/
def readU8 : Rd Nat
  | [] => none
  | b :: rest => some (b, rest)

/-- `DecoderBuffer::Decode(void*, n)` -/
def readBytes (n : Nat) : Rd Bytes := fun bs =>
  if bs.length < n then none else some (bs.take n, bs.drop n)

/-- `DecoderBuffer::Advance(n)` guarded by the callers' `n ≤ remaining` check -/
def skipBytes (n : Nat) : Rd Unit := fun bs =>
  if bs.length < n then none else some ((), bs.drop n)

/-- little endian scalar of `n` bytes -/
def leValue : Bytes → Nat
  | [] => 0
  | b :: rest => b + 256 * leValue rest

def readLE (n : Nat) : Rd Nat := fun bs =>
  match readBytes n bs with
  | none => none
  | some (v, rest) => some (leValue v, rest)

def writeLE : Nat → Nat → Bytes
  | 0, _ => []
  | n+1, v => (v % 256) :: writeLE n (v / 256)

/-- `EncodeVarint` for unsigned types. The value is assumed to fit the type; the width does
    not matter to the encoder. Structural on fuel = number of 7-bit groups. -/
def encVarintFuel : Nat → Nat → Bytes
  | 0, v => [v % 128]
  | f+1, v => if v ≥ 128 then (v % 128 + 128) :: encVarintFuel f (v / 128) else [v]

/-- 10 groups cover 64-bit values (the largest type the code instantiates) -/
def encVarint (v : Nat) : Bytes := encVarintFuel 10 v

/-- `max_depth = sizeof(T) + 1 + (sizeof(T) >> 3)` for a `w`-bit type -/
def varintMaxDepth (w : Nat) : Nat := w / 8 + 1 + (w / 8) / 8

/-- `DecodeVarintUnsigned<T>(depth, …)`: recursion on the remaining depth budget.
    `budget = max_depth − depth + 1` bytes may still be read. The accumulated value is
    truncated to `w` bits by the `<<= 7` of the C++ type. -/
def decVarintAux (w : Nat) : Nat → Rd Nat
  | 0, _ => none
  | _, [] => none
  | b+1, byte :: rest =>
    if byte ≥ 128 then
      match decVarintAux w b rest with
      | none => none
      | some (v, rest') => some (((v * 128) % 2^w) ||| (byte % 128), rest')
    else some (byte, rest)

def decVarint (w : Nat) : Rd Nat := decVarintAux w (varintMaxDepth w)

/-- `ConvertSignedIntToSymbol` for a `w`-bit signed type (result is a `w`-bit pattern) -/
def toSymbol (w : Nat) (x : Int) : Nat :=
  if x ≥ 0 then (x.toNat * 2) % 2^w else (((-(x + 1)).toNat * 2) % 2^w) ||| 1

/-- `ConvertSymbolToSignedInt` -/
def ofSymbol (s : Nat) : Int :=
  if s % 2 = 0 then (s / 2 : Nat) else -((s / 2 : Nat) : Int) - 1

def encVarintSigned (w : Nat) (x : Int) : Bytes := encVarint (toSymbol w x)

def decVarintSigned (w : Nat) : Rd Int := fun bs =>
  match decVarint w bs with
  | none => none
  | some (s, rest) => some (ofSymbol s, rest)

end Draco
