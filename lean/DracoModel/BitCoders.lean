import DracoModel.Rabs
import DracoModel.Varint
/-
  Mirrors src/draco/compression/bit_coders/:
    rans_bit_encoder.cc / rans_bit_decoder.cc                       (RAnsBit…)
    adaptive_rans_bit_encoder.{h,cc} / adaptive_rans_bit_decoder.cc,
    adaptive_rans_bit_coding_shared.h                               (AdaptiveRAnsBit…)
    direct_bit_encoder.{h,cc} / direct_bit_decoder.{h,cc}           (DirectBit…)
    folded_integer_bit_encoder.h / folded_integer_bit_decoder.h     (FoldedBit32…)
    symbol_bit_encoder.cc / symbol_bit_decoder.cc                   (SymbolBit…)
  and the helpers of src/draco/core/bit_utils.h they use.

  An encoder run is a list of `BitOp`s (`EncodeBit(b)` / `EncodeLeastSignificantBits32(n, v)`)
  between `StartEncoding` and `EndEncoding`; `…Encode ops` is what `EndEncoding` appends to the
  target buffer.  A decoder run is `StartDecoding` followed by a list of `BitReq`s
  (`DecodeNextBit()` / `DecodeLeastSignificantBits32(n, &v)`); it works on arbitrary bytes.
  Current bitstream (≥ 2.2) by default; `legacy = true` selects the pre-2.2 branches of the
  decoders (`DRACO_BACKWARDS_COMPATIBILITY_SUPPORTED`).
  Host assumptions: little endian (raw `uint32_t` stores), buffers shorter than 2^31 bytes.
-/
namespace Draco

/-- one encoder call -/
inductive BitOp where
  | bit (b : Bool)
  | lsb32 (nbits value : Nat)
deriving Repr, DecidableEq

/-- one decoder call -/
inductive BitReq where
  | bit
  | lsb32 (nbits : Nat)
deriving Repr, DecidableEq

def BitOp.req : BitOp → BitReq
  | .bit _ => .bit
  | .lsb32 n _ => .lsb32 n

/-- the value the matching decoder call has to return -/
def BitOp.value : BitOp → Nat
  | .bit b => if b then 1 else 0
  | .lsb32 n v => v % 2^n

/-- number of coded bits of an op -/
def BitOp.width : BitOp → Nat
  | .bit _ => 1
  | .lsb32 n _ => n

/-- the calls the C++ contracts allow (`DRACO_DCHECK`s): `0 < nbits ≤ 32`, `value : uint32_t` -/
def BitOp.Valid : BitOp → Prop
  | .bit _ => True
  | .lsb32 n v => 1 ≤ n ∧ n ≤ 32 ∧ v < 2^32

instance (op : BitOp) : Decidable op.Valid := by
  cases op <;> unfold BitOp.Valid <;> infer_instance

/-- bits `n-1, …, 0` of `v`, most significant first -/
def msbBits : Nat → Nat → List Bool
  | 0, _ => []
  | n+1, v => ((v / 2^n) % 2 == 1) :: msbBits n v

/-- `result = (result << 1) + bit` on `uint32_t` -/
def shlAdd32 (acc : Nat) (b : Bool) : Nat := ((acc * 2) % 2^32 + (if b then 1 else 0)) % 2^32

/-! ### bit_utils.h -/

/-- `ReverseBits32` -/
def reverseBits32 (n : Nat) : Nat :=
  let n := ((n >>> 1) &&& 0x55555555) ||| ((n &&& 0x55555555) <<< 1)
  let n := ((n >>> 2) &&& 0x33333333) ||| ((n &&& 0x33333333) <<< 2)
  let n := ((n >>> 4) &&& 0x0F0F0F0F) ||| ((n &&& 0x0F0F0F0F) <<< 4)
  let n := ((n >>> 8) &&& 0x00FF00FF) ||| ((n &&& 0x00FF00FF) <<< 8)
  (n >>> 16) ||| ((n <<< 16) % 2^32)

/-- `CountOneBits32` -/
def countOneBits32 (n : Nat) : Nat :=
  let n := (n + 2^32 - ((n >>> 1) &&& 0x55555555)) % 2^32
  let n := (((n >>> 2) &&& 0x33333333) + (n &&& 0x33333333)) % 2^32
  ((((n + (n >>> 4)) % 2^32 &&& 0xF0F0F0F) * 0x1010101) % 2^32) >>> 24

/-- `CopyBits32(&dst, dst_offset, src, src_offset, nbits)`, returns the new `dst`.
    (`nbits = 0` would shift by 32 — undefined in C++, never requested by the callers.) -/
def copyBits32 (dst dstOff src srcOff nbits : Nat) : Nat :=
  let mask := ((0xFFFFFFFF >>> (32 - nbits)) <<< dstOff) % 2^32
  (dst &&& (mask ^^^ 0xFFFFFFFF)) ||| ((((src >>> srcOff) <<< dstOff) % 2^32) &&& mask)

/-! ### RAnsBitEncoder / RAnsBitDecoder -/

structure RAnsBitEnc where
  /-- `bit_counts_[0]`, `bit_counts_[1]` (`uint64_t`, never wrap in practice) -/
  c0 : Nat
  c1 : Nat
  /-- `bits_`, newest word first -/
  words : List Nat
  /-- `local_bits_` -/
  loc : Nat
  /-- `num_local_bits_` -/
  num : Nat
deriving Repr

/-- `StartEncoding` / `Clear` -/
def RAnsBitEnc.start : RAnsBitEnc := ⟨0, 0, [], 0, 0⟩

/-- `RAnsBitEncoder::EncodeBit` -/
def RAnsBitEnc.encodeBit (e : RAnsBitEnc) (b : Bool) : RAnsBitEnc :=
  let e1 : RAnsBitEnc :=
    if b then { e with c1 := e.c1 + 1, loc := e.loc ||| ((1 <<< e.num) % 2^32) }
    else { e with c0 := e.c0 + 1 }
  if e1.num + 1 = 32 then { e1 with words := e1.loc :: e1.words, num := 0, loc := 0 }
  else { e1 with num := e1.num + 1 }

/-- `RAnsBitEncoder::EncodeLeastSignificantBits32` -/
def RAnsBitEnc.encodeLsb32 (e : RAnsBitEnc) (nbits value : Nat) : RAnsBitEnc :=
  let reversed := reverseBits32 value >>> (32 - nbits)
  let ones := countOneBits32 reversed
  let e : RAnsBitEnc := { e with c0 := e.c0 + (nbits - ones), c1 := e.c1 + ones }
  let remaining := 32 - e.num
  if nbits ≤ remaining then
    let loc := copyBits32 e.loc e.num reversed 0 nbits
    if e.num + nbits = 32 then { e with words := loc :: e.words, loc := 0, num := 0 }
    else { e with loc := loc, num := e.num + nbits }
  else
    let loc := copyBits32 e.loc e.num reversed 0 remaining
    { e with words := loc :: e.words,
             loc := copyBits32 0 0 reversed remaining (nbits - remaining),
             num := nbits - remaining }

def RAnsBitEnc.op (e : RAnsBitEnc) : BitOp → RAnsBitEnc
  | .bit b => e.encodeBit b
  | .lsb32 n v => e.encodeLsb32 n v

/-- the bits in the order `EndEncoding` feeds them to `rabs_write`: local bits from
    `num_local_bits_ - 1` down to 0, then the words newest first, each from bit 31 down -/
def RAnsBitEnc.bitsDesc (e : RAnsBitEnc) : List Bool :=
  msbBits e.num e.loc ++ e.words.flatMap (msbBits 32)

/-- the clamp of `RAnsBitEncoder::EndEncoding` applied to `zero_prob_raw` -/
def clampZeroProb (raw : Nat) : Nat :=
  let zp := if raw < 255 then raw % 256 else 255
  if zp = 0 then 1 else zp

/-- `zero_prob_raw = static_cast<uint32_t>(((bit_counts_[0] / static_cast<double>(total)) * 256.0) + 0.5)`
    — executable default for the oracle parameter `zeroProbRaw` -/
def zeroProbRawFloat (numZeros numTotal : Nat) : Nat :=
  ((Float.ofNat numZeros / Float.ofNat numTotal) * 256.0 + 0.5).toUInt32.toNat

/-- write a list of (bit, p0) pairs with `rabs_write`, in list order -/
def rabsWriteAll (tab : List (Nat × Nat)) (p0 : Nat) (bits : List Bool) (a : AnsCoder) : AnsCoder :=
  bits.foldl (fun a b => rabsWrite tab a b p0) a

/-- `RAnsBitEncoder::EndEncoding`: the bytes appended to the target buffer.
    `zeroProbRaw numZeros total` is the floating point expression `zero_prob_raw`. -/
def RAnsBitEnc.finish (tab : List (Nat × Nat)) (zeroProbRaw : Nat → Nat → Nat)
    (e : RAnsBitEnc) : Bytes :=
  let total := if e.c0 + e.c1 = 0 then 1 else e.c0 + e.c1
  let zp := clampZeroProb (zeroProbRaw e.c0 total)
  let body := ansWriteEnd (rabsWriteAll tab zp e.bitsDesc ansWriteInit)
  zp :: (encVarint (body.length % 2^32) ++ body)

/-- `StartEncoding; ops; EndEncoding` -/
def ransBitEncode (tab : List (Nat × Nat)) (zeroProbRaw : Nat → Nat → Nat)
    (ops : List BitOp) : Bytes :=
  (ops.foldl RAnsBitEnc.op RAnsBitEnc.start).finish tab zeroProbRaw

structure RAnsBitDec where
  /-- `prob_zero_` -/
  probZero : Nat
  ans : AnsDecoder
deriving Repr

/-- size prefix of the rANS coded blocks: `uint32_t` varint, raw `uint32_t` before 2.2 -/
def readSize32 (legacy : Bool) : Rd Nat := if legacy then readLE 4 else decVarint 32

/-- `RAnsBitDecoder::StartDecoding` -/
def ransBitStart (legacy : Bool) : Rd RAnsBitDec := fun bs =>
  match readU8 bs with
  | none => none
  | some (pz, bs1) =>
    match readSize32 legacy bs1 with
    | none => none
    | some (size, bs2) =>
      if size > bs2.length then none else
      match ansReadInit (bs2.take size) with
      | none => none
      | some a => some (⟨pz, a⟩, bs2.drop size)

/-- `RAnsBitDecoder::DecodeNextBit` -/
def RAnsBitDec.nextBit (d : RAnsBitDec) : Bool × RAnsBitDec :=
  let r := rabsRead d.ans d.probZero
  (r.1, { d with ans := r.2 })

/-- the `while (nbits) { result = (result << 1) + DecodeNextBit(); --nbits; }` loop shared by
    the rANS bit decoders -/
def readMsbFirst {δ : Type} (next : δ → Bool × δ) : Nat → Nat → δ → Nat × δ
  | 0, acc, d => (acc, d)
  | n+1, acc, d =>
    let r := next d
    readMsbFirst next n (shlAdd32 acc r.1) r.2

/-- `RAnsBitDecoder::DecodeLeastSignificantBits32` -/
def RAnsBitDec.lsb32 (d : RAnsBitDec) (nbits : Nat) : Nat × RAnsBitDec :=
  readMsbFirst RAnsBitDec.nextBit nbits 0 d

def RAnsBitDec.req (d : RAnsBitDec) : BitReq → Nat × RAnsBitDec
  | .bit => let r := d.nextBit; (if r.1 then 1 else 0, r.2)
  | .lsb32 n => d.lsb32 n

/-- run a list of requests, results in request order (tail recursive) -/
def runReqs {δ α : Type} (step : δ → BitReq → α × δ) : List BitReq → δ → List α → List α × δ
  | [], d, acc => (acc.reverse, d)
  | r :: rs, d, acc => let x := step d r; runReqs step rs x.2 (x.1 :: acc)

/-- `StartDecoding`, then the requests; the reader ends where `StartDecoding` left the
    buffer (`EndDecoding` does nothing) -/
def ransBitDecode (legacy : Bool) (reqs : List BitReq) : Rd (List Nat) := fun bs =>
  match ransBitStart legacy bs with
  | none => none
  | some (d, rest) => some ((runReqs RAnsBitDec.req reqs d []).1, rest)

/-! ### AdaptiveRAnsBitEncoder / AdaptiveRAnsBitDecoder -/

/-- the floating point part of the adaptive coder (adaptive_rans_bit_coding_shared.h):
    `σ` = the `double p0_f`, `p0 = clamp_probability`, `update = update_probability` -/
structure ProbModel where
  σ : Type
  init : σ
  p0 : σ → Nat
  update : σ → Bool → σ

/-- `clamp_probability(double p)` -/
def clampProbabilityFloat (p : Float) : Nat :=
  let pInt := (p * 256.0 + 0.5).toUInt32.toNat
  let pInt := if pInt = 256 then 255 else pInt
  let pInt := if pInt = 0 then 1 else pInt
  pInt % 256

/-- `update_probability(double old_p, bool bit)`: `old_p * w0 + (!bit) * w1`,
    `w0 = 127/128`, `w1 = 1/128` -/
def updateProbabilityFloat (p : Float) (bit : Bool) : Float :=
  p * ((128.0 - 1.0) / 128.0) + (if bit then 0.0 else 1.0) * (1.0 / 128.0)

/-- executable default: IEEE double arithmetic as in the C++ -/
def floatProbModel : ProbModel := ⟨Float, 0.5, clampProbabilityFloat, updateProbabilityFloat⟩

/-- `AdaptiveRAnsBitEncoder`: `bits_`, newest first -/
abbrev AdaptiveEnc := List Bool

/-- `AdaptiveRAnsBitEncoder::EncodeLeastSignificantBits32`: bits `nbits-1 … 0` of `value` -/
def AdaptiveEnc.op (e : AdaptiveEnc) : BitOp → AdaptiveEnc
  | .bit b => b :: e
  | .lsb32 n v => (msbBits n v).reverse ++ e

/-- the forward pass of `EndEncoding`: `p0s`, newest first, paired with the bits -/
def adaptiveP0s (pm : ProbModel) : List Bool → pm.σ → List (Bool × Nat) → List (Bool × Nat)
  | [], _, acc => acc
  | b :: bs, s, acc => adaptiveP0s pm bs (pm.update s b) ((b, pm.p0 s) :: acc)

/-- `AdaptiveRAnsBitEncoder::EndEncoding` -/
def AdaptiveEnc.finish (tab : List (Nat × Nat)) (pm : ProbModel) (e : AdaptiveEnc) : Bytes :=
  let pairs := adaptiveP0s pm e.reverse pm.init []
  let a := pairs.foldl (fun a bp => rabsWrite tab a bp.1 bp.2) ansWriteInit
  let body := ansWriteEnd a
  writeLE 4 (body.length % 2^32) ++ body

def adaptiveEncode (tab : List (Nat × Nat)) (pm : ProbModel) (ops : List BitOp) : Bytes :=
  AdaptiveEnc.finish tab pm (ops.foldl AdaptiveEnc.op [])

structure AdaptiveDec (pm : ProbModel) where
  /-- `p0_f_` -/
  p : pm.σ
  ans : AnsDecoder

/-- `AdaptiveRAnsBitDecoder::StartDecoding` (no version branch: always a raw `uint32_t`) -/
def adaptiveStart (pm : ProbModel) : Rd (AdaptiveDec pm) := fun bs =>
  match readLE 4 bs with
  | none => none
  | some (size, bs1) =>
    if size > bs1.length then none else
    match ansReadInit (bs1.take size) with
    | none => none
    | some a => some (⟨pm.init, a⟩, bs1.drop size)

/-- `AdaptiveRAnsBitDecoder::DecodeNextBit` -/
def AdaptiveDec.nextBit {pm : ProbModel} (d : AdaptiveDec pm) : Bool × AdaptiveDec pm :=
  let r := rabsRead d.ans (pm.p0 d.p)
  (r.1, ⟨pm.update d.p r.1, r.2⟩)

def AdaptiveDec.req {pm : ProbModel} (d : AdaptiveDec pm) : BitReq → Nat × AdaptiveDec pm
  | .bit => let r := d.nextBit; (if r.1 then 1 else 0, r.2)
  | .lsb32 n => readMsbFirst AdaptiveDec.nextBit n 0 d

def adaptiveDecode (pm : ProbModel) (reqs : List BitReq) : Rd (List Nat) := fun bs =>
  match adaptiveStart pm bs with
  | none => none
  | some (d, rest) => some ((runReqs AdaptiveDec.req reqs d []).1, rest)

/-! ### DirectBitEncoder / DirectBitDecoder -/

structure DirectEnc where
  /-- `bits_`, newest first -/
  words : List Nat
  loc : Nat
  num : Nat
deriving Repr

def DirectEnc.start : DirectEnc := ⟨[], 0, 0⟩

/-- `DirectBitEncoder::EncodeBit` -/
def DirectEnc.encodeBit (e : DirectEnc) (b : Bool) : DirectEnc :=
  let loc := if b then e.loc ||| ((1 <<< (31 - e.num)) % 2^32) else e.loc
  if e.num + 1 = 32 then ⟨loc :: e.words, 0, 0⟩ else ⟨e.words, loc, e.num + 1⟩

/-- `DirectBitEncoder::EncodeLeastSignificantBits32` -/
def DirectEnc.encodeLsb32 (e : DirectEnc) (nbits value : Nat) : DirectEnc :=
  let remaining := 32 - e.num
  let value := (value <<< (32 - nbits)) % 2^32
  if nbits ≤ remaining then
    let value := value >>> e.num
    let loc := e.loc ||| value
    if e.num + nbits = 32 then ⟨loc :: e.words, 0, 0⟩ else ⟨e.words, loc, e.num + nbits⟩
  else
    let value := value >>> (32 - nbits)
    let num := nbits - remaining
    let valueL := value >>> num
    let loc := e.loc ||| valueL
    ⟨loc :: e.words, (value <<< (32 - num)) % 2^32, num⟩

def DirectEnc.op (e : DirectEnc) : BitOp → DirectEnc
  | .bit b => e.encodeBit b
  | .lsb32 n v => e.encodeLsb32 n v

/-- `DirectBitEncoder::EndEncoding`: pushes `local_bits_` unconditionally, then a raw
    `uint32_t` byte count and the words in host (little endian) byte order -/
def DirectEnc.finish (e : DirectEnc) : Bytes :=
  let ws := (e.loc :: e.words).reverse
  writeLE 4 ((ws.length % 2^32 * 4) % 2^32) ++ ws.flatMap (writeLE 4)

def directEncode (ops : List BitOp) : Bytes := (ops.foldl DirectEnc.op DirectEnc.start).finish

structure DirectDec where
  /-- `[pos_, bits_.end())` -/
  pos : List Nat
  /-- `num_used_bits_` -/
  used : Nat
deriving Repr

/-- `n` little endian `uint32_t`s -/
def readWords32 : Nat → Bytes → List Nat
  | 0, _ => []
  | n+1, bs => leValue (bs.take 4) :: readWords32 n (bs.drop 4)

/-- `DirectBitDecoder::StartDecoding` -/
def directStart : Rd DirectDec := fun bs =>
  match readLE 4 bs with
  | none => none
  | some (size, bs1) =>
    if size = 0 ∨ size % 4 ≠ 0 then none
    else if size > bs1.length then none
    else some (⟨readWords32 (size / 4) bs1, 0⟩, bs1.drop size)

/-- `DirectBitDecoder::DecodeNextBit` -/
def DirectDec.nextBit (d : DirectDec) : Bool × DirectDec :=
  match d.pos with
  | [] => (false, d)
  | w :: r =>
    let bit := (w &&& ((1 <<< (31 - d.used)) % 2^32)) != 0
    if d.used + 1 = 32 then (bit, ⟨r, 0⟩) else (bit, ⟨d.pos, d.used + 1⟩)

/-- `DirectBitDecoder::DecodeLeastSignificantBits32`; `none` = returns false (`*value`
    untouched, state unchanged) -/
def DirectDec.lsb32 (d : DirectDec) (nbits : Nat) : Option Nat × DirectDec :=
  let remaining := 32 - d.used
  if nbits ≤ remaining then
    match d.pos with
    | [] => (none, d)
    | w :: r =>
      let v := ((w <<< d.used) % 2^32) >>> (32 - nbits)
      if d.used + nbits = 32 then (some v, ⟨r, 0⟩) else (some v, ⟨d.pos, d.used + nbits⟩)
  else
    match d.pos with
    | w :: w1 :: r =>
      let valueL := (w <<< d.used) % 2^32
      let num := nbits - remaining
      let valueR := w1 >>> (32 - num)
      (some ((valueL >>> (32 - num - remaining)) ||| valueR), ⟨w1 :: r, num⟩)
    | _ => (none, d)

def DirectDec.req (d : DirectDec) : BitReq → Option Nat × DirectDec
  | .bit => let r := d.nextBit; (some (if r.1 then 1 else 0), r.2)
  | .lsb32 n => d.lsb32 n

/-- `none` inside the list = that call returned false -/
def directDecode (reqs : List BitReq) : Rd (List (Option Nat)) := fun bs =>
  match directStart bs with
  | none => none
  | some (d, rest) => some ((runReqs DirectDec.req reqs d []).1, rest)

/-! ### FoldedBit32Encoder<BitEncoderT> / FoldedBit32Decoder<BitDecoderT> -/

/-- what the template needs of `BitEncoderT` -/
structure BitEncIface (ε : Type) where
  start : ε
  bit : ε → Bool → ε
  finish : ε → Bytes

/-- what the template needs of `BitDecoderT` -/
structure BitDecIface (δ : Type) where
  start : Rd δ
  next : δ → Bool × δ

structure FoldedEnc (ε : Type) where
  /-- `folded_number_encoders_[0..32)` -/
  nums : List ε
  /-- `bit_encoder_` -/
  bitEnc : ε

def FoldedEnc.start {ε} (I : BitEncIface ε) : FoldedEnc ε := ⟨List.replicate 32 I.start, I.start⟩

/-- `folded_number_encoders_[i].EncodeBit(bit_i)` for `i < nbits` -/
def foldedPut {ε} (I : BitEncIface ε) : List ε → List Bool → List ε
  | es, [] => es
  | [], _ :: _ => []
  | e :: es, b :: bs => I.bit e b :: foldedPut I es bs

def FoldedEnc.op {ε} (I : BitEncIface ε) (e : FoldedEnc ε) : BitOp → FoldedEnc ε
  | .bit b => { e with bitEnc := I.bit e.bitEnc b }
  | .lsb32 n v => { e with nums := foldedPut I e.nums (msbBits n v) }

/-- `FoldedBit32Encoder::EndEncoding` -/
def FoldedEnc.finish {ε} (I : BitEncIface ε) (e : FoldedEnc ε) : Bytes :=
  e.nums.flatMap I.finish ++ I.finish e.bitEnc

def foldedEncode {ε} (I : BitEncIface ε) (ops : List BitOp) : Bytes :=
  FoldedEnc.finish I (ops.foldl (FoldedEnc.op I) (FoldedEnc.start I))

structure FoldedDec (δ : Type) where
  nums : List δ
  bitDec : δ

/-- `n` consecutive `StartDecoding` calls -/
def startMany {δ} (start : Rd δ) : Nat → Rd (List δ)
  | 0, bs => some ([], bs)
  | n+1, bs =>
    match start bs with
    | none => none
    | some (d, bs1) =>
      match startMany start n bs1 with
      | none => none
      | some (ds, bs2) => some (d :: ds, bs2)

/-- `FoldedBit32Decoder::StartDecoding` -/
def foldedStart {δ} (I : BitDecIface δ) : Rd (FoldedDec δ) := fun bs =>
  match startMany I.start 32 bs with
  | none => none
  | some (ds, bs1) =>
    match I.start bs1 with
    | none => none
    | some (d, bs2) => some (⟨ds, d⟩, bs2)

/-- the loop of `FoldedBit32Decoder::DecodeLeastSignificantBits32`: one bit from each of the
    first `nbits` decoders (`nbits > 32` would index past the array; the model stops) -/
def foldedGet {δ} (I : BitDecIface δ) : List δ → Nat → Nat → Nat × List δ
  | ds, 0, acc => (acc, ds)
  | [], _+1, acc => (acc, [])
  | d :: ds, n+1, acc =>
    let r := I.next d
    let x := foldedGet I ds n (shlAdd32 acc r.1)
    (x.1, r.2 :: x.2)

def FoldedDec.req {δ} (I : BitDecIface δ) (d : FoldedDec δ) : BitReq → Nat × FoldedDec δ
  | .bit => let r := I.next d.bitDec; (if r.1 then 1 else 0, { d with bitDec := r.2 })
  | .lsb32 n => let x := foldedGet I d.nums n 0; (x.1, { d with nums := x.2 })

def foldedDecode {δ} (I : BitDecIface δ) (reqs : List BitReq) : Rd (List Nat) := fun bs =>
  match foldedStart I bs with
  | none => none
  | some (d, rest) => some ((runReqs (FoldedDec.req I) reqs d []).1, rest)

/-- `RAnsBitEncoder` as `BitEncoderT` -/
def ransBitEncIface (tab : List (Nat × Nat)) (zeroProbRaw : Nat → Nat → Nat) :
    BitEncIface RAnsBitEnc :=
  ⟨RAnsBitEnc.start, RAnsBitEnc.encodeBit, RAnsBitEnc.finish tab zeroProbRaw⟩

/-- `RAnsBitDecoder` as `BitDecoderT` -/
def ransBitDecIface (legacy : Bool) : BitDecIface RAnsBitDec :=
  ⟨ransBitStart legacy, RAnsBitDec.nextBit⟩

/-- `AdaptiveRAnsBitEncoder` as `BitEncoderT` -/
def adaptiveEncIface (tab : List (Nat × Nat)) (pm : ProbModel) : BitEncIface AdaptiveEnc :=
  ⟨[], fun e b => b :: e, AdaptiveEnc.finish tab pm⟩

def adaptiveDecIface (pm : ProbModel) : BitDecIface (AdaptiveDec pm) :=
  ⟨adaptiveStart pm, AdaptiveDec.nextBit⟩

/-- `FoldedBit32Encoder<RAnsBitEncoder>` -/
def foldedRansEncode (tab : List (Nat × Nat)) (zeroProbRaw : Nat → Nat → Nat)
    (ops : List BitOp) : Bytes := foldedEncode (ransBitEncIface tab zeroProbRaw) ops

/-- `FoldedBit32Decoder<RAnsBitDecoder>` -/
def foldedRansDecode (legacy : Bool) (reqs : List BitReq) : Rd (List Nat) :=
  foldedDecode (ransBitDecIface legacy) reqs

/-! ### SymbolBitEncoder / SymbolBitDecoder (over the symbol coder of
    compression/entropy/symbol_encoding.cc, a parameter here) -/

/-- `value <<= 32 - nbits; value >>= 32 - nbits;` on `uint32_t` -/
def keepLow32 (nbits value : Nat) : Nat := ((value <<< (32 - nbits)) % 2^32) >>> (32 - nbits)

/-- `SymbolBitEncoder`: `symbols_`, newest first -/
def symbolBitOp (e : List Nat) : BitOp → List Nat
  | .bit b => keepLow32 1 (if b then 1 else 0) :: e
  | .lsb32 n v => keepLow32 n v :: e

/-- `SymbolBitEncoder::EndEncoding`; `encSymbols syms` = what
    `EncodeSymbols(syms, n, 1, nullptr, buffer)` appends -/
def symbolBitEncode (encSymbols : List Nat → Bytes) (ops : List BitOp) : Bytes :=
  let syms := (ops.foldl symbolBitOp []).reverse
  writeLE 4 (syms.length % 2^32) ++ encSymbols syms

/-- `SymbolBitDecoder::StartDecoding`; `decSymbols n` = `DecodeSymbols(n, 1, buffer, out)`.
    The state is the list of symbols not yet handed out (the C++ reverses and pops). -/
def symbolBitStart (decSymbols : Nat → Rd (List Nat)) : Rd (List Nat) := fun bs =>
  match readLE 4 bs with
  | none => none
  | some (size, bs1) => decSymbols size bs1

/-- `SymbolBitDecoder::DecodeLeastSignificantBits32`.  `none`: `symbols_` is empty — the C++
    calls `back()` / `pop_back()` on an empty vector (undefined behaviour, only a
    `DRACO_DCHECK` guards it). -/
def symbolBitReq (d : List Nat) : BitReq → Option Nat × List Nat
  | .bit =>
    match d with
    | [] => (none, [])
    | s :: r => (some (if keepLow32 1 s = 1 then 1 else 0), r)
  | .lsb32 n =>
    match d with
    | [] => (none, [])
    | s :: r => (some (keepLow32 n s), r)

def symbolBitDecode (decSymbols : Nat → Rd (List Nat)) (reqs : List BitReq) :
    Rd (List (Option Nat)) := fun bs =>
  match symbolBitStart decSymbols bs with
  | none => none
  | some (d, rest) => some ((runReqs symbolBitReq reqs d []).1, rest)

end Draco
