import DracoModel.Basic
import DracoModel.Varint
/-
  The instrumented decoder monad used by all full-stream decoder models.

  state:  remaining input, allocation log (one event per C++ resize/assign/new[] whose size
          depends on the stream), declared element counts, bitstream version
  result: `some a` or `none` (the C++ function returned false / a non-ok Status); the state is
          kept on failure too, so that the allocation log of a rejected stream is observable (C18).
-/
namespace Draco

inductive Status where
  | ok | error | unknownVersion | unsupported (what : String)
deriving Repr, BEq, DecidableEq

structure DSt where
  rest : Bytes
  /-- (site, bytes requested) -/
  allocs : List (String × Nat) := []
  /-- sum of element counts a stream may legitimately declare (points, faces, …) -/
  declared : Nat := 0
  /-- DRACO_BITSTREAM_VERSION(major, minor) = major * 256 + minor -/
  version : Nat := 0
  status : Status := .ok
  /-- reached-branch tags (diagnostics for generator coverage; newest first) -/
  tags : List String := []
deriving Repr

abbrev DecM (α : Type) := DSt → Option α × DSt

namespace DecM
@[inline] def ret {α} (a : α) : DecM α := fun s => (some a, s)
@[inline] def andThen {α β} (m : DecM α) (f : α → DecM β) : DecM β := fun s =>
  match m s with
  | (none, s') => (none, s')
  | (some a, s') => f a s'
instance : Monad DecM where
  pure := DecM.ret
  bind := DecM.andThen

/-- the C++ function returns false -/
@[inline] def fail {α} : DecM α := fun s =>
  (none, if s.status == .ok then { s with status := .error } else s)
@[inline] def failWith {α} (st : Status) : DecM α := fun s => (none, { s with status := st })
@[inline] def require (c : Bool) : DecM Unit := if c then ret () else fail
@[inline] def lift {α} (r : Rd α) : DecM α := fun s =>
  match r s.rest with
  | none => (none, if s.status == .ok then { s with status := .error } else s)
  | some (a, rest) => (some a, { s with rest := rest })
@[inline] def remaining : DecM Nat := fun s => (some s.rest.length, s)
@[inline] def version : DecM Nat := fun s => (some s.version, s)
@[inline] def setVersion (v : Nat) : DecM Unit := fun s => (some (), { s with version := v })
/-- record an allocation of `n` bytes at `site` -/
@[inline] def alloc (site : String) (n : Nat) : DecM Unit := fun s =>
  (some (), { s with allocs := (site, n) :: s.allocs })
/-- record that a decoder branch was reached -/
@[inline] def tag (t : String) : DecM Unit := fun s => (some (), { s with tags := t :: s.tags })
@[inline] def declare (n : Nat) : DecM Unit := fun s => (some (), { s with declared := s.declared + n })
@[inline] def ofOption {α} : Option α → DecM α
  | some a => ret a
  | none => fail

def rdU8 : DecM Nat := lift readU8
def rdU16 : DecM Nat := lift (readLE 2)
def rdU32 : DecM Nat := lift (readLE 4)
def rdI8 : DecM Int := do let v ← rdU8; pure (toSigned 8 v)
def rdI32 : DecM Int := do let v ← rdU32; pure (toSigned 32 v)
def varint (w : Nat) : DecM Nat := lift (decVarint w)
def bytes (n : Nat) : DecM Bytes := lift (readBytes n)

/-- monadic map over a list (structural) -/
def mapM' {α β} (f : α → DecM β) : List α → DecM (List β)
  | [] => pure []
  | a :: as => do
    let b ← f a
    let bs ← mapM' f as
    pure (b :: bs)

/-- repeat `n` times collecting results in order -/
def replicateM' {α} (n : Nat) (f : DecM α) : DecM (List α) := mapM' (fun _ => f) (List.replicate n ())

end DecM
end Draco
