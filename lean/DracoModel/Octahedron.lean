import DracoModel.Basic
import DracoModel.Varint
/-
  DracoModel.Octahedron — octahedral normal coding (integer part + executable float part).

  Mirrors
    src/draco/compression/attributes/normal_compression_utils.h           (OctahedronToolBox)
    src/draco/compression/attributes/prediction_schemes/
      prediction_scheme_normal_octahedron_transform_base.h
      prediction_scheme_normal_octahedron_encoding_transform.h            (legacy, non canonicalized)
      prediction_scheme_normal_octahedron_decoding_transform.h            (legacy, non canonicalized)
      prediction_scheme_normal_octahedron_canonicalized_transform_base.h
      prediction_scheme_normal_octahedron_canonicalized_encoding_transform.h
      prediction_scheme_normal_octahedron_canonicalized_decoding_transform.h

  Points are `Int × Int` (`VectorD<int32_t,2>`).  `uint32_t` arithmetic is written with `u32`
  (reduction mod 2^32) after every operation, the conversion back to `int32_t` with `s32`;
  signed `int32_t` operations are exact `Int` operations — each definition states the input range
  in which the C++ has no signed overflow (outside it the C++ is undefined behaviour).
-/
namespace Draco

/-- value of a `uint32_t` expression: reduction mod 2^32 (result in `[0, 2^32)`) -/
def u32 (x : Int) : Int := x % 2^32

/-- `uint32_t → int32_t` conversion of a pattern in `[0, 2^32)` -/
def s32 (u : Int) : Int := if u < 2^31 then u else u - 2^32

/-- C++ `int32_t / 2` (truncation toward zero) -/
def tdiv2 (x : Int) : Int := Int.tdiv x 2

/-- `std::abs` on `int32_t` (undefined for `INT_MIN` in C++) -/
def iabs (x : Int) : Int := if x < 0 then -x else x

/-- The integer state of `OctahedronToolBox` after `SetQuantizationBits(q)`. -/
structure OctaT where
  /-- `quantization_bits_` -/
  q : Nat
  /-- `max_quantized_value_ = 2^q − 1` -/
  maxQ : Int
  /-- `max_value_ = 2^q − 2` -/
  maxV : Int
  /-- `center_value_ = 2^(q−1) − 1` -/
  center : Int
deriving Repr, DecidableEq

namespace Octa

/-- `OctahedronToolBox::SetQuantizationBits` (integer fields). -/
def init (q : Nat) : Option OctaT :=
  if q < 2 ∨ q > 30 then none
  else
    let maxQ : Int := 2^q - 1
    let maxV : Int := maxQ - 1
    some { q := q, maxQ := maxQ, maxV := maxV, center := maxV / 2 }

/-- A tool box with an arbitrary center value `c` (`max_value_ = 2c`,
    `max_quantized_value_ = 2c+1`).  Every `init q` has this shape with `c = 2^(q−1) − 1`
    (`DracoProofs.Octahedron.init_eq_ofCenter`); the theorems are stated for every `c ≥ 1`. -/
def ofCenter (c : Int) : OctaT := { q := 0, maxQ := 2 * c + 1, maxV := 2 * c, center := c }

/-- The shape of every initialised tool box: `max_value_ = 2c`, `max_quantized_value_ = 2c+1`,
    `1 ≤ c < 2^29` (`c = 2^(q−1) − 1`, `2 ≤ q ≤ 30`).  (Specification predicate.) -/
def _root_.Draco.OctaT.WF (t : OctaT) : Prop :=
  t.maxV = 2 * t.center ∧ t.maxQ = 2 * t.center + 1 ∧ 1 ≤ t.center ∧ t.center < 2^29

/-- the point lies in the square `[0, max_value_]²` (specification predicate) -/
def inGrid (t : OctaT) (p : Int × Int) : Prop :=
  0 ≤ p.1 ∧ p.1 ≤ t.maxV ∧ 0 ≤ p.2 ∧ p.2 ≤ t.maxV

/-! ### OctahedronToolBox: integer functions -/

/-- `OctahedronToolBox::CanonicalizeOctahedralCoords` -/
def canonicalize (t : OctaT) (p : Int × Int) : Int × Int :=
  let s := p.1
  let tt := p.2
  if (s = 0 ∧ tt = 0) ∨ (s = 0 ∧ tt = t.maxV) ∨ (s = t.maxV ∧ tt = 0) then (t.maxV, t.maxV)
  else if s = 0 ∧ tt > t.center then (s, t.center - (tt - t.center))
  else if s = t.maxV ∧ tt < t.center then (s, t.center + (t.center - tt))
  else if tt = t.maxV ∧ s < t.center then (t.center + (t.center - s), tt)
  else if tt = 0 ∧ s > t.center then (t.center - (s - t.center), tt)
  else (s, tt)

/-- a point is canonical when `CanonicalizeOctahedralCoords` leaves it unchanged: it is the
    unique representative of its direction (specification predicate; explicit form in
    `DracoProofs.Octahedron.canonical_iff`) -/
def canonical (t : OctaT) (p : Int × Int) : Prop := canonicalize t p = p

instance (t : OctaT) (p : Int × Int) : Decidable (canonical t p) := by
  unfold canonical; infer_instance
instance (t : OctaT) (p : Int × Int) : Decidable (inGrid t p) := by
  unfold inGrid; infer_instance

/-- `OctahedronToolBox::IntegerVectorToQuantizedOctahedralCoords`.
    Precondition in C++ (DCHECK only): `|x|+|y|+|z| = center_value_`. -/
def intVecToCoords (t : OctaT) (v : Int × Int × Int) : Int × Int :=
  let x := v.1
  let y := v.2.1
  let z := v.2.2
  if x ≥ 0 then
    canonicalize t (y + t.center, z + t.center)
  else
    let s := if y < 0 then iabs z else t.maxV - iabs z
    let tt := if z < 0 then iabs y else t.maxV - iabs y
    canonicalize t (s, tt)

/-- `OctahedronToolBox::CanonicalizeIntegerVector<int32_t>`: products and the division are done
    in `int64_t` (`/` truncates toward zero). -/
def canonicalizeIntVec (t : OctaT) (v : Int × Int × Int) : Int × Int × Int :=
  let x := v.1
  let y := v.2.1
  let z := v.2.2
  let absSum := iabs x + iabs y + iabs z
  if absSum = 0 then (t.center, y, z)
  else
    let x' := Int.tdiv (x * t.center) absSum
    let y' := Int.tdiv (y * t.center) absSum
    let z' := if z ≥ 0 then t.center - iabs x' - iabs y' else -(t.center - iabs x' - iabs y')
    (x', y', z')

/-- `OctahedronToolBox::IsInDiamond`: the sum of the absolute values is formed in `uint32_t` and
    compared with `center_value_` (converted to unsigned, it is non-negative). -/
def isInDiamond (t : OctaT) (s tt : Int) : Bool :=
  u32 (u32 (iabs s) + u32 (iabs tt)) ≤ t.center

/-- `OctahedronToolBox::InvertDiamond`, step by step as written: sign selection on `int32_t`,
    the reflection in `uint32_t`, conversion back to `int32_t`, then `/= 2` truncating toward
    zero. -/
def invertDiamond (t : OctaT) (p : Int × Int) : Int × Int :=
  let s := p.1
  let tt := p.2
  let signs : Int × Int :=
    if s ≥ 0 ∧ tt ≥ 0 then (1, 1)
    else if s ≤ 0 ∧ tt ≤ 0 then (-1, -1)
    else (if s > 0 then 1 else -1, if tt > 0 then 1 else -1)
  let signS := signs.1
  let signT := signs.2
  let cornerS := u32 (signS * t.center)
  let cornerT := u32 (signT * t.center)
  let us := u32 s
  let ut := u32 tt
  let us := u32 (u32 (us + us) - cornerS)
  let ut := u32 (u32 (ut + ut) - cornerT)
  let sw : Int × Int :=
    if signS * signT ≥ 0 then (u32 (-ut), u32 (-us)) else (ut, us)
  let us := u32 (sw.1 + cornerS)
  let ut := u32 (sw.2 + cornerT)
  (tdiv2 (s32 us), tdiv2 (s32 ut))

/-- `OctahedronToolBox::InvertDirection` (no overflow for `|s|,|t| < 2^31`) -/
def invertDirection (t : OctaT) (p : Int × Int) : Int × Int :=
  invertDiamond t (-p.1, -p.2)

/-- `OctahedronToolBox::ModMax` (no overflow: the subtraction is applied to a positive, the
    addition to a negative value) -/
def modMax (t : OctaT) (x : Int) : Int :=
  if x > t.center then x - t.maxQ
  else if x < -t.center then x + t.maxQ
  else x

/-- `OctahedronToolBox::MakePositive` -/
def makePositive (t : OctaT) (x : Int) : Int :=
  if x < 0 then x + t.maxQ else x

/-! ### canonicalized transform base -/

/-- `PredictionSchemeNormalOctahedronCanonicalizedTransformBase::GetRotationCount` -/
def rotationCount (p : Int × Int) : Nat :=
  let sx := p.1
  let sy := p.2
  if sx = 0 then
    if sy = 0 then 0 else if sy > 0 then 3 else 1
  else if sx > 0 then
    if sy ≥ 0 then 2 else 1
  else
    if sy ≤ 0 then 0 else 3

/-- `…CanonicalizedTransformBase::RotatePoint` -/
def rotatePoint (p : Int × Int) (r : Nat) : Int × Int :=
  match r with
  | 1 => (p.2, -p.1)
  | 2 => (-p.1, -p.2)
  | 3 => (-p.2, p.1)
  | _ => p

/-- `…CanonicalizedTransformBase::IsInBottomLeft` -/
def isInBottomLeft (p : Int × Int) : Bool :=
  if p.1 = 0 ∧ p.2 = 0 then true else (p.1 < 0 ∧ p.2 ≤ 0)

/-! ### canonicalized encoding / decoding transform -/

/-- `PredictionSchemeNormalOctahedronCanonicalizedEncodingTransform::ComputeCorrection`.
    No signed overflow for `orig`, `pred` in the grid `[0, 2c]²` (DCHECKed by the C++). -/
def encCorr (t : OctaT) (orig pred : Int × Int) : Int × Int :=
  let c := t.center
  let orig : Int × Int := (orig.1 - c, orig.2 - c)
  let pred : Int × Int := (pred.1 - c, pred.2 - c)
  let inD := isInDiamond t pred.1 pred.2
  let orig := if !inD then invertDiamond t orig else orig
  let pred := if !inD then invertDiamond t pred else pred
  let inBL := isInBottomLeft pred
  let rc := rotationCount pred
  let orig := if !inBL then rotatePoint orig rc else orig
  let pred := if !inBL then rotatePoint pred rc else pred
  (makePositive t (orig.1 - pred.1), makePositive t (orig.2 - pred.2))

/-- `PredictionSchemeNormalOctahedronCanonicalizedDecodingTransform::ComputeOriginalValue`.
    `AddAsUnsigned` is the `uint32_t` sum converted back (`wrap32`).  For `pred` in the grid
    there is no signed overflow for any 32-bit correction. -/
def decOrig (t : OctaT) (pred corr : Int × Int) : Int × Int :=
  let c := t.center
  let pred : Int × Int := (pred.1 - c, pred.2 - c)
  let inD := isInDiamond t pred.1 pred.2
  let pred := if !inD then invertDiamond t pred else pred
  let inBL := isInBottomLeft pred
  let rc := rotationCount pred
  let pred := if !inBL then rotatePoint pred rc else pred
  let orig : Int × Int :=
    (modMax t (wrap32 (pred.1 + corr.1)), modMax t (wrap32 (pred.2 + corr.2)))
  let orig := if !inBL then rotatePoint orig ((4 - rc) % 4) else orig
  let orig := if !inD then invertDiamond t orig else orig
  (orig.1 + c, orig.2 + c)

/-! ### legacy (non canonicalized) transform, bitstream < 2.2 on the decoder side -/

/-- `PredictionSchemeNormalOctahedronEncodingTransform::ComputeCorrection` -/
def legacyEncCorr (t : OctaT) (orig pred : Int × Int) : Int × Int :=
  let c := t.center
  let orig : Int × Int := (orig.1 - c, orig.2 - c)
  let pred : Int × Int := (pred.1 - c, pred.2 - c)
  let inD := isInDiamond t pred.1 pred.2
  let orig := if !inD then invertDiamond t orig else orig
  let pred := if !inD then invertDiamond t pred else pred
  (makePositive t (orig.1 - pred.1), makePositive t (orig.2 - pred.2))

/-- `PredictionSchemeNormalOctahedronDecodingTransform::ComputeOriginalValue`: the three vector
    additions/subtractions are done in `uint32_t` and converted back (`wrap32`). -/
def legacyDecOrig (t : OctaT) (pred corr : Int × Int) : Int × Int :=
  let c := t.center
  let pred : Int × Int := (wrap32 (pred.1 - c), wrap32 (pred.2 - c))
  let inD := isInDiamond t pred.1 pred.2
  let pred := if !inD then invertDiamond t pred else pred
  let orig : Int × Int := (wrap32 (pred.1 + corr.1), wrap32 (pred.2 + corr.2))
  let orig : Int × Int := (modMax t orig.1, modMax t orig.2)
  let orig := if !inD then invertDiamond t orig else orig
  (wrap32 (orig.1 + c), wrap32 (orig.2 + c))

/-! ### transform data -/

/-- `MostSignificantBit(uint32_t n)`, `n ≠ 0` -/
def msb (n : Nat) : Nat := Nat.log2 n

/-- `PredictionSchemeNormalOctahedronTransformBase::set_max_quantized_value` (argument is an
    `int32_t`; `% 2` on a negative odd number is `−1 ≠ 0`; the conversion to `uint32_t` for
    `MostSignificantBit` makes every negative value fail with `q = 32`). -/
def setMaxQuantizedValue (mq : Int) : Option OctaT :=
  if mq % 2 = 0 then none
  else init (msb (toUnsigned 32 mq) + 1)

/-- `…CanonicalizedEncodingTransform::EncodeTransformData`: `max_quantized_value`,
    `center_value` as raw little-endian int32 -/
def encodeTransformData (t : OctaT) : Bytes :=
  writeLE 4 (toUnsigned 32 t.maxQ) ++ writeLE 4 (toUnsigned 32 t.center)

/-- `…CanonicalizedDecodingTransform::DecodeTransformData` (the decoded `center_value` is
    ignored; the range check on `quantization_bits()` is already part of `init`). -/
def decodeTransformData : Rd OctaT := fun bs =>
  match readLE 4 bs with
  | none => none
  | some (a, r1) =>
    match readLE 4 r1 with
    | none => none
    | some (_, r2) =>
      match setMaxQuantizedValue (toSigned 32 a) with
      | none => none
      | some t => some (t, r2)

/-- legacy `PredictionSchemeNormalOctahedronEncodingTransform::EncodeTransformData` -/
def legacyEncodeTransformData (t : OctaT) : Bytes := writeLE 4 (toUnsigned 32 t.maxQ)

/-- legacy `PredictionSchemeNormalOctahedronDecodingTransform::DecodeTransformData`;
    `pre22` = `bitstream_version() < 2.2` (then a `center_value` follows and is ignored). -/
def legacyDecodeTransformData (pre22 : Bool) : Rd OctaT := fun bs =>
  match readLE 4 bs with
  | none => none
  | some (a, r1) =>
    let r2? : Option Bytes :=
      if pre22 then (match readLE 4 r1 with | none => none | some (_, r) => some r) else some r1
    match r2? with
    | none => none
    | some r2 =>
      match setMaxQuantizedValue (toSigned 32 a) with
      | none => none
      | some t => some (t, r2)

/-! ### float part (executable only; never used in proofs) -/

/-- the integer tail of `FloatVectorToQuantizedOctahedralCoords`: given the two rounded
    coordinates `i0`, `i1` and the sign of the third scaled coordinate, builds `int_vec`
    (third coordinate by subtraction, the negative-remainder repair, sign). -/
def fixIntVec (t : OctaT) (i0 i1 : Int) (zNeg : Bool) : Int × Int × Int :=
  let i2 := t.center - iabs i0 - iabs i1
  let r : Int × Int :=
    if i2 < 0 then ((if i1 > 0 then i1 + i2 else i1 - i2), 0) else (i1, i2)
  let i2 := if zNeg then r.2 * -1 else r.2
  (i0, r.1, i2)

/-- the float expressions of `FloatVectorToQuantizedOctahedralCoords<float>` (all in `double`):
    returns the two rounded coordinates `floor(scaled·center + 0.5)` and `scaled[2] < 0`.
    (`abs_sum > 0.0` since the `fix:` commit for tiny normals; it was `> 1e-6` in the pinned tree.)
    `static_cast<int32_t>` is modelled by the saturating `Float.toInt32` (identical in range;
    out of range / NaN is UB in C++ and only reachable for non-finite input). -/
def floatVecRound (t : OctaT) (v : Float32 × Float32 × Float32) : Int × Int × Bool :=
  let x : Float := v.1.toFloat
  let y : Float := v.2.1.toFloat
  let z : Float := v.2.2.toFloat
  let absSum : Float := x.abs + y.abs + z.abs
  let sv : Float × Float × Float :=
    if absSum > 0.0 then
      let scale : Float := 1.0 / absSum
      (x * scale, y * scale, z * scale)
    else (1.0, 0.0, 0.0)
  let c : Float := Float.ofInt t.center
  let i0 : Int := (Float.floor (sv.1 * c + 0.5)).toInt32.toInt
  let i1 : Int := (Float.floor (sv.2.1 * c + 0.5)).toInt32.toInt
  (i0, i1, sv.2.2 < 0)

/-- `OctahedronToolBox::FloatVectorToQuantizedOctahedralCoords<float>` -/
def floatVecToCoords (t : OctaT) (v : Float32 × Float32 × Float32) : Int × Int :=
  let r := floatVecRound t v
  intVecToCoords t (fixIntVec t r.1 r.2.1 r.2.2)

/-- `dequantization_scale_ = 2.f / max_value_` (`int32_t → float` conversion, float division) -/
def dequantScale (t : OctaT) : Float32 := (2.0 : Float32) / Float32.ofInt t.maxV

/-- `OctahedronToolBox::OctahedralCoordsToUnitVector` (all `float`; the comparison
    `norm_squared < 1e-6` is done in `double`) -/
def scaledCoordsToUnitVector (sS tS : Float32) : Float32 × Float32 × Float32 :=
  let y := sS
  let z := tS
  let x : Float32 := 1.0 - y.abs - z.abs
  let xOff : Float32 := -x
  let xOff : Float32 := if xOff < 0 then 0 else xOff
  let y := y + (if y < 0 then xOff else -xOff)
  let z := z + (if z < 0 then xOff else -xOff)
  let n2 : Float32 := x * x + y * y + z * z
  if n2.toFloat < 1e-6 then (0, 0, 0)
  else
    let d : Float32 := 1.0 / n2.sqrt
    (x * d, y * d, z * d)

/-- `OctahedronToolBox::QuantizedOctahedralCoordsToUnitVector` -/
def coordsToUnitVector (t : OctaT) (p : Int × Int) : Float32 × Float32 × Float32 :=
  let sc := dequantScale t
  scaledCoordsToUnitVector (Float32.ofInt p.1 * sc - 1.0) (Float32.ofInt p.2 * sc - 1.0)

end Octa
end Draco
