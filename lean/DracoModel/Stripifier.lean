import DracoModel.Dedup
import DracoModel.Cleanup
import DracoModel.CornerTable
/-
  DracoModel.Stripifier — src/draco/mesh/mesh_stripifier.{h,cc}
  (`MeshStripifier::GenerateTriangleStripsWithPrimitiveRestart`,
  `GenerateTriangleStripsWithDegenerateTriangles`, `Prepare`, `FindLongestStripFromFace`,
  `GenerateStripsFromCorner`, `StoreStrip`, `GetOppositeCorner`).

  The stripifier reads the mesh through `CornerToPointId(ci) = faces[ci / 3][ci % 3]` and the
  corner table of the position attribute through `Opposite` (everything else — `Next`,
  `Previous`, `Face`, `FirstCorner`, `SwingLeft` — is index arithmetic on top of it).  The
  algorithm is therefore modelled over an arbitrary opposite-corner table
  `opp : Array (Option Nat)` (`none` = `kInvalidCornerIndex`); `Strips.generate` instantiates it
  with `CornerTable.create` of the position-index faces
  (`CreateCornerTableFromPositionAttribute`, DracoModel/CornerTable.lean).

  The `while (!is_face_visited_[fi])` loop marks a new face in every iteration, so
  `numFaces + 1` iterations always suffice (fuel; `growLoop_fuel_adequate` in
  DracoProofs/StripsFuel.lean: more fuel gives the same state).
  `GenerateStripsFromCorner` resets the visited flags of the candidate strip before it returns; the
  model works on a copy of the flags instead (`stripFromCorner` takes `visited` by value).
-/
namespace Draco
namespace Strips

/-- the value used as primitive restart index by `Strips.generate true` / recognised by
    `Strips.triangles true` (the C++ takes it as a parameter; point ids are `< 2^32 - 1`) -/
def restartIndex : Nat := 2 ^ 32 - 1

structure Ctx where
  faces : Array Face
  opp : Array (Option Nat)

/-- `Mesh::CornerToPointId` on a valid corner -/
def Ctx.pt (cx : Ctx) (c : Nat) : Nat :=
  let f := cx.faces.getD (c / 3) (0, 0, 0)
  if c % 3 = 0 then f.1 else if c % 3 = 1 then f.2.1 else f.2.2

/-- `MeshStripifier::GetOppositeCorner` -/
def Ctx.getOpp (cx : Ctx) (ci : Nat) : Option Nat :=
  match oget cx.opp ci with
  | none => none
  | some o =>
    if cx.pt (nextC ci) ≠ cx.pt (prevC o) then none
    else if cx.pt (prevC ci) ≠ cx.pt (nextC o) then none
    else some o

/-- state of the `while (!is_face_visited_[fi])` loop of `GenerateStripsFromCorner` -/
structure Grow where
  visited : Array Bool
  /-- `strip_faces_[local_strip_id]` -/
  strip : Array Nat
  numAdded : Nat
  startCi : Nat

/-- `while (!is_face_visited_[fi]) { … }` with `fi = Face(ci)`; `back` = `pass == 1` -/
def growLoop (cx : Ctx) (back : Bool) : Nat → Nat → Grow → Grow
  | 0, _, st => st
  | fuel + 1, ci, st =>
    let fi := ci / 3
    if st.visited.getD fi true then st
    else
      let n := st.numAdded + 1
      let st1 : Grow := { st with visited := st.visited.setIfInBounds fi true, strip := st.strip.push fi, numAdded := n }
      let step : Nat × Nat :=
        if n > 1 then
          if n % 2 = 1 then (nextC ci, st1.startCi)
          else (prevC ci, if back then ci else st1.startCi)
        else (ci, st1.startCi)
      let st2 := { st1 with startCi := step.2 }
      match cx.getOpp step.1 with
      | none => st2
      | some o => growLoop cx back fuel o st2

/-- `MeshStripifier::GenerateStripsFromCorner(local_strip_id, ci)`: the strip faces and the start
    corner.  `visited` is returned unchanged by the C++ (all strip faces are reset at the end;
    they were unvisited before), so it is only an input here. -/
def stripFromCorner (cx : Ctx) (visited : Array Bool) (ci : Nat) : Array Nat × Nat :=
  let fuel := cx.faces.size + 1
  -- pass 0
  let g0 := growLoop cx false fuel ci { visited, strip := #[], numAdded := 0, startCi := ci }
  -- pass 1
  if (cx.getOpp (prevC ci)).isNone then (g0.strip, g0.startCi)
  else
    -- ci = SwingLeft(Next(start_ci))
    match (oget cx.opp (nextC (nextC ci))).map nextC with
    | none => (g0.strip, g0.startCi)
    | some c1 =>
      let g1 := growLoop cx true fuel c1 { g0 with numAdded := 0 }
      if g1.numAdded % 2 = 1 then (g1.strip.pop, g1.startCi) else (g1.strip, g1.startCi)

/-- `FindLongestStripFromFace(fi)`: the selected strip (faces, start corner); `none` when all three
    candidate strips are empty (`longest_strip_id == -1`, impossible for an unvisited face) -/
def longestStrip (cx : Ctx) (visited : Array Bool) (fi : Nat) : Option (Array Nat × Nat) :=
  let s0 := stripFromCorner cx visited (3 * fi)
  let s1 := stripFromCorner cx visited (3 * fi + 1)
  let s2 := stripFromCorner cx visited (3 * fi + 2)
  let best : Option (Array Nat × Nat) := if s0.1.size > 0 then some s0 else none
  let best := if s1.1.size > (best.map (·.1.size)).getD 0 then some s1 else best
  let best := if s2.1.size > (best.map (·.1.size)).getD 0 then some s2 else best
  best

structure Out where
  visited : Array Bool
  /-- reversed output stream -/
  out : List Nat
  numStrips : Nat
  numEncodedFaces : Nat
  lastPoint : Nat

/-- `StoreStrip`: loop `for (i = 0; i < num_strip_faces; ++i)`; `ci = none` can only be reached
    after the last face (the C++ would index with an invalid face otherwise) -/
def storeLoop (cx : Ctx) : Nat → Nat → Option Nat → Out → Out
  | 0, _, _, st => st
  | _ + 1, _, none, st => st
  | k + 1, i, some ci, st =>
    let st := { st with visited := st.visited.setIfInBounds (ci / 3) true, numEncodedFaces := st.numEncodedFaces + 1 }
    if i = 0 then
      let l := cx.pt (prevC ci)
      let st := { st with out := l :: cx.pt (nextC ci) :: cx.pt ci :: st.out, lastPoint := l }
      storeLoop cx k (i + 1) (oget cx.opp ci) st
    else
      let l := cx.pt ci
      let st := { st with out := l :: st.out, lastPoint := l }
      let c := if i % 2 = 1 then prevC ci else nextC ci
      storeLoop cx k (i + 1) (oget cx.opp c) st

def storeStrip (cx : Ctx) (strip : Array Nat × Nat) (st : Out) : Out :=
  storeLoop cx strip.1.size 0 (some strip.2) { st with numStrips := st.numStrips + 1 }

/-- body of the face loop of both generators -/
def faceStep (cx : Ctx) (restart : Bool) (st : Out) (fi : Nat) : Out :=
  if st.visited.getD fi true then st
  else
    match longestStrip cx st.visited fi with
    | none => st   -- unreachable: the strip from corner `3 fi` contains `fi`
    | some strip =>
      let st :=
        if st.numStrips > 0 then
          if restart then { st with out := restartIndex :: st.out }
          else
            let s := cx.pt strip.2
            let st := { st with out := s :: st.lastPoint :: st.out, numEncodedFaces := st.numEncodedFaces + 2 }
            if st.numEncodedFaces % 2 = 1 then
              { st with out := s :: st.out, numEncodedFaces := st.numEncodedFaces + 1 }
            else st
        else st
      storeStrip cx strip st

/-- both generators over an arbitrary opposite table -/
def generateWith (opp : Array (Option Nat)) (restart : Bool) (faces : List Face) : List Nat :=
  let cx : Ctx := { faces := faces.toArray, opp }
  let st := (List.range faces.length).foldl (faceStep cx restart)
    { visited := Array.replicate faces.length false, out := [], numStrips := 0, numEncodedFaces := 0,
      lastPoint := 2 ^ 32 - 1 }
  st.out.reverse

/-- `CreateCornerTableFromPositionAttribute(mesh)->opposite_corners_`; `none` = `Prepare` fails -/
def positionOpp (g : Geometry) : Option (Array (Option Nat)) :=
  match g.positionAtt with
  | none => none
  | some pos =>
    let ma := pos.mapArray
    match CornerTable.create (g.faces.map fun f => (idxOf ma f.1, idxOf ma f.2.1, idxOf ma f.2.2)).toArray with
    | none => none
    | some ct => some ct.oppositeCorners

/-- `GenerateTriangleStripsWithPrimitiveRestart(mesh, restartIndex, out)` (`restart = true`) /
    `GenerateTriangleStripsWithDegenerateTriangles(mesh, out)` (`restart = false`);
    `none` = the function returns `false` (no position attribute) -/
def generate? (restart : Bool) (g : Geometry) : Option (List Nat) :=
  (positionOpp g).map fun opp => generateWith opp restart g.faces

/-- the index stream (empty when the C++ returns `false`) -/
def generate (restart : Bool) (g : Geometry) : List Nat := (generate? restart g).getD []

/-! ### how a consumer reads a strip -/

/-- triangles of one strip `v0 v1 v2 …`, `odd` = parity of the index of the next triangle:
    triangle `i` is `(v_i, v_{i+1}, v_{i+2})` for even `i` and `(v_{i+1}, v_i, v_{i+2})` for odd `i`
    (OpenGL `GL_TRIANGLE_STRIP`) -/
def stripTriangles : Bool → List Nat → List Face
  | odd, a :: b :: c :: rest =>
    (if odd then (b, a, c) else (a, b, c)) :: stripTriangles (!odd) (b :: c :: rest)
  | _, _ => []

/-- split at every restart index -/
def splitRestart : List Nat → List (List Nat)
  | [] => [[]]
  | x :: xs =>
    match splitRestart xs with
    | [] => [[]]   -- unreachable
    | s :: ss => if x = restartIndex then [] :: s :: ss else (x :: s) :: ss

def isDegenerateTriangle (f : Face) : Bool := f.1 == f.2.1 || f.1 == f.2.2 || f.2.1 == f.2.2

/-- The triangles a consumer draws for an index stream.
    `restart = true`: the stream is cut at every `restartIndex`, each piece is a strip whose
    parity starts afresh.  `restart = false`: one strip; zero-area (degenerate) triangles are
    discarded, as by the GPU. -/
def triangles (restart : Bool) (s : List Nat) : List Face :=
  if restart then (splitRestart s).flatMap (stripTriangles false)
  else (stripTriangles false s).filter (!isDegenerateTriangle ·)

end Strips
end Draco
