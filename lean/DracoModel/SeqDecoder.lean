import DracoModel.DecM
import DracoModel.Geometry
import DracoModel.Adapters
import DracoModel.SymbolLegacy
/-
  Sequential attribute decoding and the sequential point-cloud / mesh decoders:
    compression/point_cloud/point_cloud_decoder.cc        (header, version gate, metadata flag)
    compression/attributes/attributes_decoder.cc          (attribute descriptors)
    compression/attributes/sequential_attribute_decoders_controller.cc
    compression/attributes/sequential_{,integer_,quantization_,normal_}attribute_decoder.cc
    compression/attributes/prediction_schemes/prediction_scheme_delta_decoder.h + transforms
    compression/point_cloud/point_cloud_sequential_decoder.cc
    compression/mesh/mesh_sequential_decoder.cc
-/
namespace Draco
open DecM

def bsVersion (major minor : Nat) : Nat := major * 256 + minor

/-- allocation events of `RAnsSymbolDecoder<…>::Create` (bitstream ≥ 2.0) with precision `pb` on the
    bytes `bs`: `probability_table_.resize(num_symbols_)` (uint32) once the count has passed the
    plausibility test, then — when the table has been read and is not empty —
    `rans_build_look_up_table`: `lut_table_.resize(rans_precision)` (uint32) and
    `probability_table_.resize(num_symbols)` (`rans_sym`, 8 bytes) -/
def ransCreateAllocs (pb : Nat) (bs : Bytes) : List (String × Nat) :=
  match decVarint 32 bs with
  | none => []
  | some (n, rest) =>
    if n / 64 > rest.length then [] else
    ("rans_symbol_decoder.probability_table", 4 * n) ::
      (match decTableGo n n [] rest with
       | none => []
       | some (probs, _) =>
         if probs.isEmpty then []
         else [("rans_decoder.lut_table", 4 * 2 ^ pb), ("rans_decoder.probability_table", 8 * n)])

/-- allocation events of `DecodeSymbols(num_values, …)` on the bytes `bs`: the symbol decoder of the
    tagged scheme (5-bit tags) or of the raw scheme (`bit length` byte) -/
def symbolAllocs (numValues : Nat) (bs : Bytes) : List (String × Nat) :=
  if numValues = 0 then [] else
  match bs with
  | [] => []
  | scheme :: rest =>
    if scheme = 0 then ransCreateAllocs (ransPrecisionBits 5) rest
    else if scheme = 1 then
      match rest with
      | [] => []
      | b :: rest' => if 1 ≤ b ∧ b ≤ 18 then ransCreateAllocs (ransPrecisionBits b) rest' else []
    else []

/-- `DecodeSymbols` with its allocation events logged (the values come from the pure adapter).
    Not used by the decoders below (their `lift (Leaf.decodeSymbols …)` steps are referred to by the
    round-trip proofs); the events are bounded separately, see `DracoProps.C18.symbol_tables_bounded`. -/
def decodeSymbolsM (numValues numComponents : Nat) : DecM (List Nat) := fun s =>
  lift (Leaf.decodeSymbols numValues numComponents)
    { s with allocs := (symbolAllocs numValues s.rest).reverse ++ s.allocs }

/-- decoder options: attribute types whose transform is skipped (`SetSkipAttributeTransform`) -/
structure DecOpts where
  skip : List Nat := []

structure Header where
  major : Nat
  minor : Nat
  encoderType : Nat
  encoderMethod : Nat
  flags : Nat
deriving Repr

/-- `PointCloudDecoder::DecodeHeader` -/
def decodeHeader : DecM Header := do
  let magic ← bytes 5
  require (magic == [68, 82, 65, 67, 79])   -- "DRACO"
  let major ← rdU8
  let minor ← rdU8
  let et ← rdU8
  let em ← rdU8
  let flags ← rdU16
  pure ⟨major, minor, et, em, flags⟩

structure AttDesc where
  attType : Nat
  dataType : Nat
  numComponents : Nat
  normalized : Bool
  uniqueId : Nat
deriving Repr

/-- `AttributesDecoder::DecodeAttributesDecoderData` -/
def decodeAttDescs : DecM (List AttDesc) := do
  let ver ← version
  let n ← if ver < bsVersion 2 0 then rdU32 else varint 32
  require (n != 0)
  let rem ← remaining
  require (n ≤ 5 * rem)
  alloc "attributes_decoder.point_attribute_ids" (4 * n)
  replicateM' n (do
    let t ← rdU8
    let dt ← rdU8
    let nc ← rdU8
    let nz ← rdU8
    require (t < Generated.geometryAttribute_NAMED_ATTRIBUTES_COUNT.toNat)
    require (dt != 0 && dt < Generated.DT_TYPES_COUNT.toNat)
    require (nc != 0)
    let uid ← if ver < bsVersion 1 3 then rdU16 else varint 32
    pure ⟨t, dt, nc, nz > 0, uid⟩)

/-- values of consecutive little-endian byte groups of width `n` (zero extended) -/
def leGroupsAux (n : Nat) : Nat → Bytes → List Nat → List Nat
  | 0, _, acc => acc.reverse
  | fuel+1, bs, acc =>
    if bs.isEmpty || n == 0 then acc.reverse
    else leGroupsAux n fuel (bs.drop n) (leValue (bs.take n) :: acc)

def leGroups (n : Nat) (bs : Bytes) : List Nat := leGroupsAux n (bs.length + 1) bs []

/-- `AttributeQuantizationTransform::InverseTransformAttribute`: component `c` of every entry
    uses `mins[c]` -/
def dequantAll (range bits : Nat) (mins : List Nat) : List Int → List Nat → List Bytes → List Bytes
  | [], _, acc => acc.reverse
  | v :: vs, ms, acc =>
    let (m, ms') := match ms with
      | m :: ms' => (m, ms')
      | [] => (mins.headD 0, mins.drop 1)
    dequantAll range bits mins vs ms' (writeLE 4 (Leaf.dequant range bits m v) :: acc)

/-- `AttributeOctahedronTransform::InverseTransformAttribute` -/
def octaAll (q : Nat) : List Int → List Bytes → List Bytes
  | a :: b :: vs, acc =>
    let (x, y, z) := Leaf.octaToUnit q a b
    octaAll q vs ((writeLE 4 x ++ writeLE 4 y ++ writeLE 4 z) :: acc)
  | _, acc => acc.reverse

/-- `PredictionSchemeDeltaDecoder::ComputeOriginalValues` over entries of `nc` components:
    `dec pred corr` is the transform's `ComputeOriginalValue` on one entry -/
def deltaDecode (dec : List Int → List Int → List Int) (nc : Nat) (corr : List Int) : List Int :=
  let rec go (fuel : Nat) (prev : List Int) (rest : List Int) (acc : List (List Int)) : List (List Int) :=
    match fuel with
    | 0 => acc.reverse
    | fuel+1 =>
      if rest.isEmpty then acc.reverse else
        let o := dec prev (rest.take nc)
        go fuel o (rest.drop nc) (o :: acc)
  (go (corr.length + 1) (List.replicate nc 0) corr []).flatten

/-- the integer prediction transform selected by `CreateIntPredictionScheme` + its stream data -/
inductive IntTransform where
  | wrap (t : Leaf.WrapT)
  | octaCanon (c : OctaT)

/-- `SequentialIntegerAttributeDecoder::DecodeIntegerValues` after the prediction scheme has been
    created, for every bitstream version (symbol decoding of streams < 2.0 reads raw counts; the
    non-canonicalized octahedron transform of streams < 2.2).  `sel`: 0 no scheme, 1 delta + wrap,
    2 delta + legacy octahedron, 3 delta + canonicalized octahedron. -/
def integerValuesTail (sel numEntries nc : Nat) : DecM (List Int) := do
  let ver ← version
  require (nc > 0)
  let numValues := numEntries * nc
  alloc "integer_decoder.portable_attribute" (4 * numValues)
  require (numEntries > 0)
  -- the model keeps the values in lists: it does not follow streams that declare more than 2^24 values
  if numValues > 2 ^ 24 then failWith (.unsupported "declared number of values beyond the model's limit") else
  let compressed ← rdU8
  let raw : List Nat ←
    if compressed > 0 then lift (decodeSymbolsV (ver < bsVersion 2 0) numValues nc)
    else do
      let numBytes ← rdU8
      if numBytes == 4 then
        let b ← bytes (4 * numValues)
        pure (leGroups 4 b)
      else
        require (numBytes * numValues ≤ 4 * numValues)
        let rem ← remaining
        require (numBytes * numValues ≤ rem)
        if numBytes == 0 then pure (List.replicate numValues 0) else
        let b ← bytes (numBytes * numValues)
        pure (leGroups numBytes b)
  let vals : List Int :=
    if sel == 2 || sel == 3 then raw.map (toSigned 32) else raw.map ofSymbol
  let octaDelta := fun (dec : Int × Int → Int × Int → Int × Int) =>
    deltaDecode (fun p cr =>
      match p, cr with
      | [p0, p1], [c0, c1] => let (a, b) := dec (p0, p1) (c0, c1); [a, b]
      | _, _ => cr) nc vals
  match sel with
  | 1 =>
    let t ← lift Wrap.decodeTransformData
    pure (deltaDecode (fun p c => List.zipWith (Leaf.wrapDec t) p c) nc vals)
  | 2 =>
    let c ← lift (Octa.legacyDecodeTransformData (ver < bsVersion 2 2))
    pure (octaDelta (Octa.legacyDecOrig c))
  | 3 =>
    let c ← lift Octa.decodeTransformData
    pure (octaDelta (Leaf.octaDec c))
  | _ => pure vals

/-- what `SequentialIntegerAttributeDecoder::DecodeValues/DecodeIntegerValues` leave in the
    portable attribute: `numEntries * nc` int32 values.
    `kind`: 1 integer, 2 quantization, 3 normals (decides which transforms exist);
    `nc`: number of value components (2 for normals) -/
def decodeIntegerValues (kind : Nat) (numEntries nc : Nat) : DecM (List Int) := do
  let ver ← version
  if ver < bsVersion 2 0 then failWith (.unsupported "attribute decoders of bitstream < 2.0") else
  let method ← rdI8
  require (decide (Generated.PREDICTION_NONE ≤ method) && decide (method < Generated.NUM_PREDICTION_SCHEMES))
  -- 0 none, 1 wrap, 3 canonicalized octahedron, 2 legacy octahedron
  let mut transformSel : Nat := 0
  if method != Generated.PREDICTION_NONE then
    let tt ← rdI8
    require (decide (Generated.PREDICTION_TRANSFORM_NONE ≤ tt) && decide (tt < 4))
    if kind == 3 then
      if tt == Generated.PREDICTION_TRANSFORM_NORMAL_OCTAHEDRON_CANONICALIZED then transformSel := 3
      else if tt == Generated.PREDICTION_TRANSFORM_NORMAL_OCTAHEDRON then transformSel := 2
    else if tt == Generated.PREDICTION_TRANSFORM_WRAP then transformSel := 1
  if transformSel == 2 then integerValuesTail 2 numEntries nc else
  require (nc > 0)
  let numValues := numEntries * nc
  alloc "integer_decoder.portable_attribute" (4 * numValues)
  -- `GetPortableAttributeData()` is nullptr for an attribute without entries: decoding fails
  require (numEntries > 0)
  let compressed ← rdU8
  let raw : List Nat ←
    if compressed > 0 then lift (Leaf.decodeSymbols numValues nc)
    else do
      let numBytes ← rdU8
      if numBytes == 4 then
        let b ← bytes (4 * numValues)
        pure (leGroups 4 b)
      else
        require (numBytes * numValues ≤ 4 * numValues)
        let rem ← remaining
        require (numBytes * numValues ≤ rem)
        if numBytes == 0 then pure (List.replicate numValues 0) else
        let b ← bytes (numBytes * numValues)
        pure (leGroups numBytes b)
  -- ConvertSymbolsToSignedInts unless the scheme's corrections are positive (octahedron)
  let vals : List Int :=
    if transformSel == 3 then raw.map (toSigned 32) else raw.map ofSymbol
  match transformSel with
  | 1 =>
    let minV ← rdI32
    let maxV ← rdI32
    require (decide (minV ≤ maxV))
    let t ← ofOption (Leaf.wrapInit minV maxV)
    if numValues > 0 then
      pure (deltaDecode (fun p c => List.zipWith (Leaf.wrapDec t) p c) nc vals)
    else pure vals
  | 3 =>
    let maxQ ← rdI32
    let _center ← rdI32
    let c ← ofOption (Leaf.octaInit maxQ)
    if numValues > 0 then
      pure (deltaDecode (fun p cr =>
        match p, cr with
        | [p0, p1], [c0, c1] => let (a, b) := Leaf.octaDec c (p0, p1) (c0, c1); [a, b]
        | _, _ => cr) nc vals)
    else pure vals
  | _ => pure vals

/-- little endian bytes of the low `n` bytes of an int32 value (`static_cast<T>`) -/
def intToLE (n : Nat) (v : Int) : Bytes := writeLE n (toUnsigned 32 v)

/-- per-attribute state between the decoding phases of the controller -/
structure SeqAttState where
  desc : AttDesc
  decoderType : Nat
  /-- raw bytes for the generic decoder -/
  rawValues : Bytes := []
  /-- portable int32 values (integer / quantization / normal decoders) -/
  portable : List Int := []
  transform : TransformData := .none

def AttDesc.toAttribute (d : AttDesc) (numValues : Nat) (values : Bytes) : Attribute :=
  { attType := d.attType, dataType := d.dataType, numComponents := d.numComponents,
    normalized := d.normalized, uniqueId := d.uniqueId, numValues := numValues, map := none,
    values := values }

/-- `SequentialAttributeDecodersController`: descriptors, decoder types, portable attributes,
    transform data, inverse transforms; for `numPoints` points in linear order. -/
def decodeSequentialAttributes (opts : DecOpts) (numPoints : Nat) : DecM (List Attribute) := do
  let descs ← decodeAttDescs
  alloc "controller.sequential_decoders" (8 * descs.length)
  -- decoder types + Init
  let states ← mapM' (fun (d : AttDesc) => do
      let dt ← rdU8
      require (dt ≤ 3)
      if dt == 2 then require (d.dataType == Generated.DT_FLOAT32.toNat)
      if dt == 3 then require (d.numComponents == 3 && d.dataType == Generated.DT_FLOAT32.toNat)
      pure ({ desc := d, decoderType := dt } : SeqAttState)) descs
  -- LinearSequencer::GenerateSequence
  require (numPoints < 2^31)
  alloc "linear_sequencer.point_ids" (4 * numPoints)
  -- DecodePortableAttributes
  let states ← mapM' (fun (s : SeqAttState) => do
      let stride := dataTypeLength s.desc.dataType * s.desc.numComponents
      alloc "attribute.Reset" (numPoints * stride)
      if s.decoderType == 0 then
        -- SequentialAttributeDecoder::DecodeValues: entry by entry
        let b ← bytes (numPoints * stride)
        pure { s with rawValues := b }
      else
        let nc := if s.decoderType == 3 then 2 else s.desc.numComponents
        let vals ← decodeIntegerValues s.decoderType numPoints nc
        pure { s with portable := vals }) states
  -- DecodeDataNeededByPortableTransforms
  let states ← mapM' (fun (s : SeqAttState) => do
      if s.decoderType == 2 then
        let mins ← replicateM' s.desc.numComponents rdU32
        let range ← rdU32
        let bits ← rdU8
        require (1 ≤ bits && bits ≤ 30)
        pure { s with transform := .quantization bits mins range }
      else if s.decoderType == 3 then
        let bits ← rdU8
        pure { s with transform := .octahedron bits }
      else pure s) states
  -- TransformAttributesToOriginalFormat
  mapM' (fun (s : SeqAttState) => do
      let d := s.desc
      if s.decoderType == 0 then
        pure (d.toAttribute numPoints s.rawValues)
      else if opts.skip.contains d.attType then
        -- attribute()->CopyFrom(*portable_attribute)
        let nc := if s.decoderType == 3 then 2 else d.numComponents
        pure { attType := d.attType, dataType := Generated.DT_INT32.toNat, numComponents := nc,
               normalized := false, uniqueId := d.uniqueId, numValues := numPoints, map := none,
               values := (s.portable.map (intToLE 4)).flatten, transform := s.transform }
      else
        match s.decoderType with
        | 1 =>
          -- SequentialIntegerAttributeDecoder::StoreValues
          let len := dataTypeLength d.dataType
          require (d.dataType ≥ 1 && d.dataType ≤ 6)
          pure (d.toAttribute numPoints (s.portable.map (intToLE len)).flatten)
        | 2 =>
          match s.transform with
          | .quantization bits mins range =>
            pure (d.toAttribute numPoints (dequantAll range bits.toNat mins s.portable mins []).flatten)
          | _ => fail
        | _ =>
          match s.transform with
          | .octahedron bits =>
            require (2 ≤ bits && bits ≤ 30)
            pure (d.toAttribute numPoints (octaAll bits.toNat s.portable []).flatten)
          | _ => fail) states

/-- method / transform bytes of `SequentialIntegerAttributeDecoder::DecodeValues` and the scheme
    `CreateIntPredictionScheme` yields without mesh data (0 none, 1 delta+wrap, 2 delta+legacy
    octahedron, 3 delta+canonicalized octahedron) -/
def decodeSchemeSelection (kind : Nat) : DecM Nat := do
  let method ← rdI8
  require (decide (Generated.PREDICTION_NONE ≤ method) && decide (method < Generated.NUM_PREDICTION_SCHEMES))
  if method == Generated.PREDICTION_NONE then pure 0 else
  let tt ← rdI8
  require (decide (Generated.PREDICTION_TRANSFORM_NONE ≤ tt) && decide (tt < 4))
  if kind == 3 then
    if tt == Generated.PREDICTION_TRANSFORM_NORMAL_OCTAHEDRON_CANONICALIZED then pure 3
    else if tt == Generated.PREDICTION_TRANSFORM_NORMAL_OCTAHEDRON then pure 2
    else pure 0
  else if tt == Generated.PREDICTION_TRANSFORM_WRAP then pure 1
  else pure 0

/-- `AttributeQuantizationTransform::DecodeParameters` / `AttributeOctahedronTransform::DecodeParameters` -/
def decodeTransformParams (decoderType numComponents : Nat) : DecM TransformData := do
  if decoderType == 2 then
    let mins ← replicateM' numComponents rdU32
    let range ← rdU32
    let bits ← rdU8
    require (1 ≤ bits && bits ≤ 30)
    pure (.quantization bits mins range)
  else if decoderType == 3 then
    let bits ← rdU8
    pure (.octahedron bits)
  else pure .none

/-- the public form of a decoded attribute (`TransformAttributesToOriginalFormat` or the copy of the
    portable attribute when the transform is skipped); `mp` = point → value map -/
def finishSeqAttribute (opts : DecOpts) (s : SeqAttState) (numValues : Nat) (mp : Option (List Nat)) : DecM Attribute := do
  let d := s.desc
  if s.decoderType == 0 then
    pure { d.toAttribute numValues s.rawValues with map := mp }
  else if opts.skip.contains d.attType then
    let nc := if s.decoderType == 3 then 2 else d.numComponents
    pure { attType := d.attType, dataType := Generated.DT_INT32.toNat, numComponents := nc,
           normalized := false, uniqueId := d.uniqueId, numValues := numValues, map := mp,
           values := (s.portable.map (intToLE 4)).flatten, transform := s.transform }
  else
    match s.decoderType with
    | 1 =>
      let len := dataTypeLength d.dataType
      pure { d.toAttribute numValues (s.portable.map (intToLE len)).flatten with map := mp }
    | 2 =>
      match s.transform with
      | .quantization bits mins range =>
        pure { d.toAttribute numValues (dequantAll range bits.toNat mins s.portable mins []).flatten with map := mp }
      | _ => fail
    | _ =>
      match s.transform with
      | .octahedron bits =>
        pure { d.toAttribute numValues (octaAll bits.toNat s.portable []).flatten with map := mp }
      | _ => fail

/-- `StoreValues` of the integer / quantization / normal decoder can fail: unsupported data type,
    octahedral quantization bits outside 2..30 -/
def storeValuesCheck (s : SeqAttState) : DecM Unit := do
  if s.decoderType == 1 then require (s.desc.dataType ≥ 1 && s.desc.dataType ≤ 6)
  else if s.decoderType == 3 then
    match s.transform with
    | .octahedron bits => require (2 ≤ bits && bits ≤ 30)
    | _ => fail

/-- `SequentialAttributeDecodersController` for bitstreams < 2.0 over a linear sequence: the
    transform parameters precede the integer values of each attribute and the values are stored in
    their final form while they are decoded (`DecodeValues` calls `StoreValues`);
    `DecodeDataNeededByPortableTransform` reads nothing and `TransformAttributeToOriginalFormat`
    does nothing (the skip option still replaces the attribute by its portable form). -/
def decodeSequentialAttributesLegacy (opts : DecOpts) (numPoints : Nat) : DecM (List Attribute) := do
  let descs ← decodeAttDescs
  alloc "controller.sequential_decoders" (8 * descs.length)
  let states ← mapM' (fun (d : AttDesc) => do
      let dt ← rdU8
      require (dt ≤ 3)
      if dt == 2 then require (d.dataType == Generated.DT_FLOAT32.toNat)
      if dt == 3 then require (d.numComponents == 3 && d.dataType == Generated.DT_FLOAT32.toNat)
      pure ({ desc := d, decoderType := dt } : SeqAttState)) descs
  require (numPoints < 2^31)
  alloc "linear_sequencer.point_ids" (4 * numPoints)
  let states ← mapM' (fun (s : SeqAttState) => do
      let stride := dataTypeLength s.desc.dataType * s.desc.numComponents
      alloc "attribute.Reset" (numPoints * stride)
      if s.decoderType == 0 then
        let b ← bytes (numPoints * stride)
        pure { s with rawValues := b }
      else
        let nc := if s.decoderType == 3 then 2 else s.desc.numComponents
        let sel ← decodeSchemeSelection s.decoderType
        let tr ← decodeTransformParams s.decoderType s.desc.numComponents
        let vals ← integerValuesTail sel numPoints nc
        let s' := { s with portable := vals, transform := tr }
        storeValuesCheck s'
        pure s') states
  mapM' (fun (s : SeqAttState) => finishSeqAttribute opts s numPoints none) states

/-- the controller for the bitstream version of the stream -/
def decodeSequentialAttributesV (opts : DecOpts) (numPoints : Nat) : DecM (List Attribute) := do
  let ver ← version
  if ver < bsVersion 2 0 then decodeSequentialAttributesLegacy opts numPoints
  else decodeSequentialAttributes opts numPoints

/-- `PointCloudDecoder::DecodePointAttributes` for decoders whose attribute decoders are all
    sequential controllers over the same linear sequence -/
def decodePointAttributesSeq (opts : DecOpts) (numPoints : Nat) : DecM (List Attribute) := do
  let numDecoders ← rdU8
  -- all DecodeAttributesDecoderData first, then all DecodeAttributes: with more than one
  -- decoder the two phases interleave differently from a simple loop
  if numDecoders == 0 then pure []
  else if numDecoders == 1 then decodeSequentialAttributesV opts numPoints
  else failWith (.unsupported "more than one sequential attributes decoder")

/-- `MeshSequentialDecoder::DecodeAndDecompressIndices` on the decoded symbols -/
def decompressIndices (syms : List Nat) : Option (List Nat) :=
  let rec go (syms : List Nat) (last : Int) (acc : List Nat) : Option (List Nat) :=
    match syms with
    | [] => some acc.reverse
    | s :: rest =>
      let d : Int := (s / 2 : Nat)
      if s % 2 == 1 then
        if d > last then none else
          let v := last - d
          go rest v (v.toNat :: acc)
      else
        if d > 2^31 - 1 - last then none else
          let v := last + d
          go rest v (v.toNat :: acc)
  go syms 0 []

/-- `MeshSequentialDecoder::DecodeConnectivity`; returns (numPoints, faces) -/
def decodeSeqConnectivity : DecM (Nat × List (Nat × Nat × Nat)) := do
  let ver ← version
  let legacy := ver < bsVersion 2 2
  let numFaces ← if legacy then rdU32 else varint 32
  let numPoints ← if legacy then rdU32 else varint 32
  require (numFaces ≤ 0xffffffff / 3)
  declare (numFaces + numPoints)
  let method ← rdU8
  -- the plausibility bound applies to the raw index methods only (since the `fix:` commit 44c247f)
  let rem ← remaining
  if method != 0 then require (numFaces ≤ rem / 3)
  alloc "mesh.faces" (12 * numFaces)
  let idx ←
    if method == 0 then do
      alloc "mesh_sequential.indices_buffer" (12 * numFaces)
      let syms ← lift (Leaf.decodeSymbols (numFaces * 3) 1)
      ofOption (decompressIndices syms)
    else if numPoints < 256 then replicateM' (3 * numFaces) rdU8
    else if numPoints < 2^16 then replicateM' (3 * numFaces) rdU16
    else if numPoints < 2^21 && !legacy then replicateM' (3 * numFaces) (varint 32)
    else replicateM' (3 * numFaces) rdU32
  -- every face must refer to existing points (since the `fix:` commit for F6)
  require (idx.all (· < numPoints))
  pure (numPoints, triples idx)

structure DecodeResult where
  geometry : Geometry
  metadata : Option GeometryMetadata

/-- `Decoder::DecodeBufferToGeometry`; the sequential methods (encoder_method 0) are decoded here,
    `eb` decodes the body of an Edgebreaker mesh stream (encoder_method 1 on meshes), `kd` is
    `PointCloudKdTreeDecoder`'s `DecodeGeometryData` + `DecodePointAttributes` (encoder_method 1 on point
    clouds); the complete decoder `decodeGeometry` is assembled in DracoModel/Decoder.lean -/
def decodeStreamWith (eb kd : DecOpts → DecM Geometry) (opts : DecOpts) : DecM DecodeResult := do
  let h ← decodeHeader
  -- Decoder::GetEncodedGeometryType
  require (h.encoderType < 2)
  let isMesh := h.encoderType == 1
  let maxMajor := if isMesh then Generated.kDracoMeshBitstreamVersionMajor.toNat else Generated.kDracoPointCloudBitstreamVersionMajor.toNat
  let maxMinor := if isMesh then Generated.kDracoMeshBitstreamVersionMinor.toNat else Generated.kDracoPointCloudBitstreamVersionMinor.toNat
  -- CreatePointCloudDecoder / CreateMeshDecoder
  require (h.encoderMethod ≤ 1)
  if h.major < 1 || h.major > maxMajor then failWith .unknownVersion else
  if h.major == maxMajor && h.minor > maxMinor then failWith .unknownVersion else
  setVersion (bsVersion h.major h.minor)
  let ver := bsVersion h.major h.minor
  let md ← if ver ≥ bsVersion 1 3 && h.flags / 32768 % 2 == 1 then (do let g ← lift Leaf.decodeGeometryMetadata; pure (some g)) else pure none
  if h.encoderMethod != 0 && isMesh then (do let g ← eb opts; pure ⟨g, md⟩) else
  if h.encoderMethod != 0 then (do let g ← kd opts; pure ⟨g, md⟩) else
  if isMesh then
    let (numPoints, faces) ← decodeSeqConnectivity
    let atts ← decodePointAttributesSeq opts numPoints
    pure ⟨{ isMesh := true, numPoints := numPoints, faces := faces, atts := atts }, md⟩
  else
    let np ← rdI32
    -- set_num_points(int32 → uint32)
    let numPoints := toUnsigned 32 np
    declare numPoints
    let atts ← decodePointAttributesSeq opts numPoints
    pure ⟨{ isMesh := false, numPoints := numPoints, faces := [], atts := atts }, md⟩

end Draco
