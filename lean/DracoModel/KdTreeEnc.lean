import DracoModel.KdTree
/-
  Mirrors src/draco/compression/point_cloud/algorithms/dynamic_integer_points_kd_tree_encoder.h
  (`DynamicIntegerPointsKdTreeEncoder<level>`, levels 0..6).

  The encoder works in place on the random access range `[begin, end)`: every tuple on its
  stack is a sub-range, split by `std::partition`.  The model's frames carry the points of the
  range as a list; `part` is `std::partition` (its result order is unspecified by the standard;
  `stdPartition` is the algorithm of libstdc++ for bidirectional iterators, which the
  `PointDVector` iterators select).  As for the decoder, a frame carries `base_stack_[stack_pos]`
  and `levels_stack_[stack_pos]` instead of `stack_pos` (see `DracoModel/KdTree.lean`).

  The calls on the four bit encoders are recorded as events, in program order; the bytes are
  assembled by `encodePoints`.
-/
namespace Draco
namespace Kd

/-- the four bit encoders of the policy -/
inductive Which where
  | num | rem | axis | half
deriving Repr, DecidableEq

/-- one call on one of the bit encoders -/
abbrev Ev := Which × BitOp

/-- one `EncodingStatus` with `base_stack_[stack_pos]`, `levels_stack_[stack_pos]` -/
structure EFrame where
  pts : List (List Nat)
  lastAxis : Nat
  base : List Nat
  levels : List Nat
deriving Repr

/-- `std::partition` with `Splitter(axis, value)` as a function of the range -/
abbrev Partition := (List Nat → Bool) → List (List Nat) → List (List Nat) × List (List Nat)

/-- `deviations_[i]` before the `max`: the number of points below the split value -/
def countBelow (pts : List (List Nat)) (i split : Nat) : Nat :=
  (pts.filter fun p => p.getD i 0 < split).length

/-- the two loops of `GetAndEncodeAxis` for 64 or more points: `(max_value, best_axis)` after
    axes `0 … dim` -/
def bestAxisLoop (P : Params) (pts : List (List Nat)) (base levels : List Nat) :
    List Nat → Nat × Nat → Nat × Nat
  | [], mb => mb
  | i :: is, mb =>
    let nrb := P.bitLength - levels.getD i 0
    let dev :=
      if nrb > 0 then
        let c := countBelow pts i ((base.getD i 0 + 2 ^ (nrb - 1)) % 2^32)
        max (pts.length - c) c
      else 0
    bestAxisLoop P pts base levels is (if nrb ≠ 0 ∧ mb.1 < dev then (dev, i) else mb)

def bestAxis (P : Params) (pts : List (List Nat)) (base levels : List Nat) : Nat :=
  (bestAxisLoop P pts base levels (List.range P.dim) (0, 0)).2

/-- `GetAndEncodeAxis`: the axis and the call on `axis_encoder_` -/
def encAxis (P : Params) (pts : List (List Nat)) (base levels : List Nat) (lastAxis : Nat) :
    Nat × List Ev :=
  if !P.selectAxis then (incMod lastAxis P.dim, [])
  else if pts.length < 64 then (minLevelAxis levels P.dim, [])
  else
    let b := bestAxis P pts base levels
    (b, [(.axis, .lsb32 4 b)])

/-- the `for j` loop of the fast path for one point -/
def leafEvents (P : Params) (levels : List Nat) (p : List Nat) : List Nat → List Ev
  | [] => []
  | a :: axes =>
    let nrb := P.bitLength - levels.getD a 0
    if nrb = 0 then leafEvents P levels p axes
    else (.rem, .lsb32 nrb (p.getD a 0)) :: leafEvents P levels p axes

/-- the calls on `half_encoder_` and `numbers_encoder_` for halves of `first` and `second`
    points -/
def splitEvents (n first second : Nat) : List Ev :=
  let left := decide (first < second)
  -- `num_remaining_points / 2 - first_half` resp. `- second_half`: the smaller half is at most
  -- `n / 2`, no `uint32_t` wrap
  (if first ≠ second then [(Which.half, BitOp.bit left)] else []) ++
    [(.num, .lsb32 (Nat.log2 n) (n / 2 - (if left then first else second)))]

/-- the split part of the loop body: `std::partition`, the two encoder calls, the pushes -/
def encSplit (part : Partition) (P : Params) (fr : EFrame) (axis : Nat) (evA : List Ev) :
    TreeStack.Step EFrame Ev Unit :=
  let level := fr.levels.getD axis 0
  let modifier := 2 ^ (P.bitLength - level - 1)
  let base2 := fr.base.set axis ((fr.base.getD axis 0 + modifier) % 2^32)
  let lr := part (fun p => p.getD axis 0 < base2.getD axis 0) fr.pts
  let levels2 := fr.levels.set axis (level + 1)
  .split (evA ++ splitEvents fr.pts.length lr.1.length lr.2.length)
    (if lr.1.isEmpty then none else some ⟨lr.1, axis, fr.base, levels2⟩)
    (if lr.2.isEmpty then none else some ⟨lr.2, axis, base2, levels2⟩) ()

/-- the loop body once the axis is known -/
def encNodeAt (part : Partition) (P : Params) (fr : EFrame) (axis : Nat) (evA : List Ev) :
    TreeStack.Step EFrame Ev Unit :=
  if P.bitLength - fr.levels.getD axis 0 = 0 then .leaf evA ()
  else if fr.pts.length ≤ 2 then
    .leaf (evA ++ fr.pts.flatMap fun p => leafEvents P fr.levels p (axesFrom axis P.dim P.dim)) ()
  else encSplit part P fr axis evA

/-- body of the `while (!status_stack.empty())` loop of `EncodeInternal` (it cannot fail) -/
def encNode (part : Partition) (P : Params) (fr : EFrame) (_ : Unit) :
    Option (TreeStack.Step EFrame Ev Unit) :=
  let ax := encAxis P fr.pts fr.base fr.levels fr.lastAxis
  some (encNodeAt part P fr ax.1 ax.2)

/-- iteration budget, as for the decoder -/
def encFuel (P : Params) (n : Nat) : Nat := n * (P.bitLength * P.dim + 1) + 1

/-- `EncodeInternal(begin, end)`: the calls on the bit encoders in program order -/
def encodeInternal (part : Partition) (P : Params) (pts : List (List Nat)) : List Ev :=
  let zero := List.replicate P.dim 0
  match TreeStack.run (encNode part P) (encFuel P pts.length) [⟨pts, 0, zero, zero⟩] () [] with
  | none => []
  | some (acc, _) => acc.reverse

/-- the calls made on one of the encoders -/
def opsOf (w : Which) (evs : List Ev) : List BitOp :=
  evs.filterMap fun e => if e.1 = w then some e.2 else none

/-- `Policy::NumbersEncoder` for the compression level -/
def encodeNumbers (tab : List (Nat × Nat)) (zeroProbRaw : Nat → Nat → Nat) (level : Nat)
    (ops : List BitOp) : Bytes :=
  if level < 2 then directEncode ops
  else if level < 4 then ransBitEncode tab zeroProbRaw ops
  else foldedRansEncode tab zeroProbRaw ops

/-- `DynamicIntegerPointsKdTreeEncoder<level>::EncodePoints(begin, end, bit_length, buffer)`:
    the bytes appended to the buffer.  `tab`, `zeroProbRaw`: see `DracoModel/BitCoders.lean`. -/
def encodePoints (part : Partition) (tab : List (Nat × Nat)) (zeroProbRaw : Nat → Nat → Nat)
    (level dim bitLength : Nat) (pts : List (List Nat)) : Bytes :=
  let hdr := writeLE 4 bitLength ++ writeLE 4 (pts.length % 2^32)
  if pts.length % 2^32 = 0 then hdr else
  let P : Params := ⟨dim, bitLength, level == 6, pts.length⟩
  let evs := encodeInternal part P pts
  hdr ++ (encodeNumbers tab zeroProbRaw level (opsOf .num evs) ++
    (directEncode (opsOf .rem evs) ++ (directEncode (opsOf .axis evs) ++ directEncode (opsOf .half evs))))

/-! ### `std::partition` of libstdc++ (bidirectional iterators) -/

/-- `while (true) { find first failing from the left; find last satisfying from the right;
    iter_swap; ++first }` on the range as a list: `(satisfying part, failing part)` in the
    order the elements have in the array afterwards -/
def stdPartitionAux {α} (p : α → Bool) : Nat → List α → List α × List α
  | 0, l => (l.filter p, l.filter fun x => !p x)
  | fuel+1, l =>
    let pre := l.takeWhile p
    match l.dropWhile p with
    | [] => (pre, [])
    | x :: mid =>
      let r := mid.reverse
      let tailFail := r.takeWhile fun y => !p y
      match r.dropWhile fun y => !p y with
      | [] => (pre, x :: mid)
      | y :: mid1r =>
        let rec1 := stdPartitionAux p fuel mid1r.reverse
        (pre ++ y :: rec1.1, rec1.2 ++ x :: tailFail.reverse)

def stdPartition : Partition := fun p l => stdPartitionAux p l.length l

end Kd
end Draco
