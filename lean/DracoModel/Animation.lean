import Generated.Constants
/-
  `KeyframeAnimation` (src/draco/animation/keyframe_animation.{h,cc}) as the attribute-list state
  machine it is: a `PointCloud` (src/draco/point_cloud/point_cloud.cc) whose points are the
  frames, attribute 0 the timestamps and every further attribute one keyframe track.

  Only the part of `PointCloud` the class touches is modelled: `attributes_`, `num_points_`,
  `named_attribute_index_`, `SetAttribute`, `AddAttribute`, `GetAttribute(Id)ByUniqueId`.

  Payloads are lists of raw components (`Nat`: the bit pattern of one `T` value / one `float`);
  they are stored and compared, never interpreted.

  Ranges.  The frame counts travel through `int32_t` (`num_frames()`, `set_num_frames`),
  `uint32_t` (`num_points_`) and `size_t` (`vector::size()`); attribute ids through `int`.
  The model uses unbounded naturals for them and is the C++ behaviour for
      `timestamp.size() < 2^31`, `data.size() / num_components < 2^31`, fewer than `2^31` tracks.
  Two narrowings are reachable with small inputs and are written out:
    * `PointAttribute::Init` takes the component count as `int8_t` and stores it in a
      `uint8_t`: the stored count is `num_components % 256`                 (`AnimAttr.init`);
    * `num_components * num_frames()` is a `uint32_t` product: `% 2^32`     (`Anim.addKeyframes`).
-/
namespace Draco

/-- `GeometryAttribute::GENERIC` -/
def animGeneric : Nat := Generated.geometryAttribute_GENERIC.toNat

/-- `DT_FLOAT32` -/
def animFloat32 : Nat := Generated.DT_FLOAT32.toNat

/-- the fields of a `PointAttribute` the animation class sets or reads.
    `size` is `PointAttribute::size()` (`num_unique_entries_`); `data` the components stored by the
    `SetAttributeValue` loop (identity mapping, entry `i` = frame `i`). -/
structure AnimAttr where
  uniqueId : Nat
  attType : Nat
  dataType : Nat
  numComponents : Nat
  normalized : Bool
  size : Nat
  data : List Nat
deriving Repr, BEq, DecidableEq, Inhabited

/-- `PointAttribute::Init(attribute_type, int8_t num_components, data_type, normalized,
    num_attribute_values)` followed by the caller's copy loop that leaves `data` in the buffer.
    The `uint32_t` component count of the caller is narrowed to `int8_t` and stored in the
    `uint8_t num_components_`: `nc % 256` (no change for `nc < 256`); `Reset` then derives the
    entry size / byte stride from the STORED count.
    `unique_id_` of a fresh `GeometryAttribute` is 0. -/
def AnimAttr.init (attType nc dt : Nat) (normalized : Bool) (numValues : Nat) (data : List Nat) :
    AnimAttr :=
  { uniqueId := 0, attType := attType, dataType := dt, numComponents := nc % 256,
    normalized := normalized, size := numValues, data := data }

/-- what a `std::vector<std::unique_ptr<PointAttribute>>::resize` puts into new slots: a null
    pointer. Only a placeholder here — the animation API never creates such a slot
    (`SetAttribute` is only called with `att_id = 0` or `att_id = attributes_.size()`; closed
    forms `Anim.setAttribute_zero_atts`, `Anim.setAttribute_length_atts` in
    DracoProofs/Animation.lean). -/
def AnimAttr.null : AnimAttr :=
  { uniqueId := 0, attType := 0, dataType := 0, numComponents := 0, normalized := false,
    size := 0, data := [] }

/-- `PointCloud`: `attributes_`, `num_points_` (= `num_frames()`), and `named_attribute_index_`
    as the list of `(attribute_type, att_id)` pushes in program order. -/
structure Anim where
  atts : List AnimAttr
  numFrames : Nat
  namedIndex : List (Nat × Nat) := []
deriving Repr, BEq, DecidableEq, Inhabited

/-- `KeyframeAnimation::KeyframeAnimation()` / `PointCloud::PointCloud()` -/
def Anim.empty : Anim := { atts := [], numFrames := 0, namedIndex := [] }

/-- `PointCloud::num_attributes` -/
def Anim.numAttributes (A : Anim) : Nat := A.atts.length

/-- `PointCloud::SetAttribute(att_id, pa)`: resize when `size ≤ att_id`, push `att_id` to the
    named index of the attribute's type (again on every call — replacing attribute 0 leaves two
    entries `0`), `pa->set_unique_id(att_id)`, store at `att_id`.
    (`unique_id` is `uint32_t`, `att_id` is `int`: no wrap for `att_id < 2^31`.) -/
def Anim.setAttribute (A : Anim) (i : Nat) (a : AnimAttr) : Anim :=
  let atts := if A.atts.length ≤ i
    then A.atts ++ List.replicate (i + 1 - A.atts.length) AnimAttr.null else A.atts
  { A with
    atts := atts.set i { a with uniqueId := i }
    namedIndex :=
      if a.attType < Generated.geometryAttribute_NAMED_ATTRIBUTES_COUNT.toNat
      then A.namedIndex ++ [(a.attType, i)] else A.namedIndex }

/-- `PointCloud::AddAttribute(std::unique_ptr<PointAttribute>)`:
    `SetAttribute(size, pa); return size - 1` (the new size) -/
def Anim.addAttribute (A : Anim) (a : AnimAttr) : Anim × Int :=
  let A' := A.setAttribute A.atts.length a
  (A', ((A'.atts.length - 1 : Nat) : Int))

/-- `PointCloud::GetAttributeIdByUniqueId`: first index, in index order, whose attribute carries
    the unique id; `-1` if there is none -/
def Anim.getAttributeIdByUniqueId (A : Anim) (uid : Nat) : Int :=
  match A.atts.findIdx? (fun a => a.uniqueId == uid) with
  | some i => (i : Int)
  | none => -1

/-- `PointCloud::GetAttributeByUniqueId` (`none` = `nullptr`); also
    `KeyframeAnimation::keyframes(animation_id)` -/
def Anim.getByUniqueId (A : Anim) (uid : Nat) : Option AnimAttr :=
  let id := A.getAttributeIdByUniqueId uid
  if id = -1 then none else A.atts[id.toNat]?

/-- `KeyframeAnimation::timestamps()` = `GetAttributeByUniqueId(kTimestampId)`, `kTimestampId = 0` -/
def Anim.timestamps (A : Anim) : Option AnimAttr := A.getByUniqueId 0

/-- `timestamps()->size()` as used by `SetTimestamps`. The C++ dereferences the pointer without
    a null check; the `none` case (undefined behaviour in C++) is given the value 0 here and is
    unreachable: `SetTimestamps` evaluates it only when `num_attributes() > 0`, and in every
    state reachable through the API attribute 0 then carries unique id 0
    (`Draco.C20.reachable_uid_eq_index`), so the lookup returns attribute 0. -/
def Anim.timestampsSize (A : Anim) : Nat :=
  match A.timestamps with
  | some a => a.size
  | none => 0

/-- `KeyframeAnimation::SetTimestamps(timestamp)`; `ts` are the float bit patterns.
    As written: with attributes present it fails if the timestamp attribute has entries, then
    if the frame counts differ; without attributes it sets the frame count. An empty `ts`
    leaves `size() == 0`, so the call can be repeated. State unchanged on `false`. -/
def Anim.setTimestamps (A : Anim) (ts : List Nat) : Anim × Bool :=
  let numFrames := ts.length
  let tsAtt := AnimAttr.init animGeneric 1 animFloat32 false numFrames ts
  if A.numAttributes > 0 then
    if A.timestampsSize ≠ 0 then (A, false)
    else if numFrames ≠ A.numFrames then (A, false)
    else (A.setAttribute 0 tsAtt, true)
  else
    ({ A with numFrames := numFrames }.setAttribute 0 tsAtt, true)

/-- the copy loop of `AddKeyframes`: for `i < num_frames`, `SetAttributeValue(i, &data[i * nc])`
    copies one entry = `stride` components (the STORED component count) starting at component
    `i * nc` of the caller's vector. With `stride = nc` and `data.length = nc * n` this is
    `data` (`copyEntries_self`). Reads past the end of the vector (possible only after one of
    the two narrowings) are undefined behaviour in C++ and come out as missing components here.
    The C++ copies `DataTypeLength(data_type) * stride` BYTES; the model works on components,
    i.e. assumes `sizeof(T) == DataTypeLength(data_type)`, which the C++ leaves to the caller
    (its TODO). -/
def copyEntries (nc stride : Nat) : Nat → List Nat → List Nat
  | 0, _ => []
  | n+1, data => data.take stride ++ copyEntries nc stride n (data.drop nc)

/-- `KeyframeAnimation::AddKeyframes<T>(data_type, num_components, data)`.
    As written: `num_components == 0` → -1; without attributes a 0-entry placeholder attribute is
    added at id 0 and the frame count set to `data.size() / num_components` BEFORE the size
    check (both stay if the check fails); the check compares `data.size()` with the `uint32_t`
    product `num_components * num_frames()`; then the track with `num_frames()` entries is
    added and its attribute index returned. -/
def Anim.addKeyframes (A : Anim) (dt nc : Nat) (data : List Nat) : Anim × Int :=
  if nc = 0 then (A, -1) else
  let A1 :=
    if A.numAttributes = 0 then
      let tmp := AnimAttr.init animGeneric nc dt false 0 []
      { (A.addAttribute tmp).1 with numFrames := data.length / nc }
    else A
  if data.length ≠ (nc * A1.numFrames) % 2^32 then (A1, -1)
  else
    A1.addAttribute
      (AnimAttr.init animGeneric nc dt false A1.numFrames
        (copyEntries nc (nc % 256) A1.numFrames data))

/-- `KeyframeAnimation::num_animations` (`num_attributes() - 1` as `int32_t`) -/
def Anim.numAnimations (A : Anim) : Int := (A.atts.length : Int) - 1

/-- one call of the public API of `KeyframeAnimation` -/
inductive AnimCall where
  | setTimestamps (ts : List Nat)
  | addKeyframes (dt nc : Nat) (data : List Nat)
deriving Repr, BEq, DecidableEq

/-- what the call returned -/
inductive AnimRet where
  | bool (b : Bool)
  | id (i : Int)
deriving Repr, BEq, DecidableEq

/-- perform one API call -/
def Anim.step (A : Anim) : AnimCall → Anim × AnimRet
  | .setTimestamps ts => let r := A.setTimestamps ts; (r.1, .bool r.2)
  | .addKeyframes dt nc data => let r := A.addKeyframes dt nc data; (r.1, .id r.2)

/-- perform a sequence of API calls (failed ones included); returns the final animation and the
    results in call order -/
def Anim.run (A : Anim) : List AnimCall → Anim × List AnimRet
  | [] => (A, [])
  | c :: cs =>
    let r := A.step c
    let rs := r.1.run cs
    (rs.1, r.2 :: rs.2)

end Draco
