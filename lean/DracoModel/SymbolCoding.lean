import DracoModel.RansSymbol
import DracoModel.BitBuf
/-
  Mirrors src/draco/compression/entropy/symbol_encoding.cc (`EncodeSymbols`,
  `ComputeBitLengths`, `EncodeTaggedSymbols`, `EncodeRawSymbols`, `EncodeRawSymbolsInternal`),
  symbol_decoding.cc (`DecodeSymbols`, `DecodeTaggedSymbols`, `DecodeRawSymbols`,
  `DecodeRawSymbolsInternal`) and the part of shannon_entropy.cc that drives the choice of the
  scheme.  Decoder: bitstream version ≥ 2.0 (varint sizes), i.e. the current format.

  Inputs on which the C++ encoder has no defined behaviour are mapped to `none`
  (see `encodeSymbolsWith`).
-/
namespace Draco

/-- `SymbolCodingMethod` -/
inductive Scheme where
  | tagged  -- SYMBOL_CODING_TAGGED = 0
  | raw     -- SYMBOL_CODING_RAW = 1
deriving Repr, DecidableEq

def Scheme.toByte : Scheme → Nat
  | .tagged => 0
  | .raw => 1

/-- `MostSignificantBit(n) + 1` for `n > 0`, and 1 for `n = 0` (the callers' guard) -/
def bitLength (n : Nat) : Nat := if n > 0 then Nat.log2 n + 1 else 1

/-- consecutive chunks of `c` entries (the last one may be shorter); fuel = length -/
def chunksOf (c : Nat) : Nat → List Nat → List (List Nat)
  | 0, _ => []
  | f+1, l => if l.isEmpty then [] else l.take c :: chunksOf c f (l.drop c)

/-- tail recursive version of `chunksOf`; `chunksOfTR_eq` in DracoProofs.Tagged -/
def chunksOfTR (c : Nat) : Nat → List Nat → List (List Nat) → List (List Nat)
  | 0, _, acc => acc.reverse
  | f+1, l, acc => if l.isEmpty then acc.reverse else chunksOfTR c f (l.drop c) (l.take c :: acc)

def listMax (l : List Nat) : Nat := l.foldl max 0

/-- histogram with `size` bins: `++frequencies[s]` for every `s` -/
def countFreqs (size : Nat) (syms : List Nat) : Array Nat :=
  syms.foldl (fun a s => a.modify s (· + 1)) (Array.replicate size 0)

/-! ### encoder -/

/-- `EncodeTaggedSymbols<RAnsSymbolEncoder>`: `groups` are the `num_components` sized chunks of
    the input, `bitLengths` their bit lengths (from `ComputeBitLengths`).
    Layout: table of the 5-bit tag coder (rANS precision 12 bits), the rANS coded tags, then
    the values, `bit_length` bits each, as one bit sequence without size prefix.
    `none`:
    * a bit length above 32 (cannot occur for uint32 symbols). Since the `fix:` commit the tag
      histogram has 33 entries (bit lengths 1..32); in the pinned tree it had 32 and a symbol
      ≥ 2^31 wrote past it;
    * `Create` returns false — the C++ *ignores* this result and goes on with an unfinished
      table; not observed for the floating point oracle (see the header of DracoProps.C08). -/
def encodeTaggedSymbols (o : ProbOracle) (groups : List (List Nat)) (bitLengths : List Nat) :
    Option Bytes :=
  if bitLengths.any (· ≥ 33) then none else
  match ransSymbolEncoderCreate o (ransPrecisionBits 5) (countFreqs 33 bitLengths).toList with
  | none => none
  | some (probs, tbl) =>
    match encodeRans (ransPrecisionBits 5) probs bitLengths with
    | none => none
    | some tags =>
      let valueBits := (groups.zip bitLengths).flatMap fun gb => gb.1.flatMap (bitsOf gb.2)
      some (tbl ++ tags ++ packBits valueBits)

/-- `EncodeRawSymbolsInternal<RAnsSymbolEncoder<bitLen>>`.
    `none`: `Create` returns false (ignored by the C++, see `encodeTaggedSymbols`). -/
def encodeRawSymbolsInternal (o : ProbOracle) (bitLen : Nat) (syms : List Nat) (maxValue : Nat) :
    Option Bytes :=
  let pb := ransPrecisionBits bitLen
  match ransSymbolEncoderCreate o pb (countFreqs (maxValue + 1) syms).toList with
  | none => none
  | some (probs, tbl) =>
    match encodeRans pb probs syms with
    | none => none
    | some body => some (tbl ++ body)

/-- the compression level adjustment and clamp of `EncodeRawSymbols` -/
def rawBitLength (numUnique level : Nat) : Nat :=
  let b := bitLength numUnique
  let b' := if level < 4 then b - 2 else if level < 6 then b - 1
            else if level > 9 then b + 2 else if level > 7 then b + 1 else b
  min (max 1 b') 18

/-- `EncodeRawSymbols<RAnsSymbolEncoder>` (after the scheme byte): `none` when there are more
    than 2^18 - 1 unique symbols (`unique_symbols_bit_length > kMaxRawEncodingBitLength`). -/
def encodeRawSymbols (o : ProbOracle) (level : Nat) (syms : List Nat) (maxValue numUnique : Nat) :
    Option Bytes :=
  if bitLength numUnique > 18 then none else
  let b := rawBitLength numUnique level
  match encodeRawSymbolsInternal o b syms maxValue with
  | none => none
  | some bs => some (b :: bs)

/-- `EncodeSymbols` with the scheme given explicitly (`symbol_encoding_method` option) and
    compression level `level` (`symbol_encoding_compression_level`, default 7).
    Result = the bytes appended to `target_buffer`; `none` = `return false`, or an input on which
    the C++ has no defined result:
    * `num_values` is not a multiple of `num_components`: `ComputeBitLengths` reads
      `symbols[i + j]` past the end of the array;
    * a symbol ≥ 2^32 (not a uint32), or ≥ 2^31 with the raw scheme requested (reported as
      failure since the `fix:` commits; in the pinned tree `ComputeShannonEntropy(…, int
      max_value, …)` was called for every input with a histogram of `max_value + 1` entries,
      finding F2). -/
def encodeSymbolsWith (o : ProbOracle) (choice : Scheme) (level numComponents : Nat)
    (syms : List Nat) : Option Bytes :=
  if syms.isEmpty then some [] else
  let comps := if numComponents = 0 then 1 else numComponents
  if syms.length % comps ≠ 0 then none else
  let maxValue := listMax syms
  if maxValue ≥ 2 ^ 32 then none else
  match choice with
  | .tagged =>
    let groups := chunksOfTR comps syms.length syms []
    match encodeTaggedSymbols o groups (groups.map fun g => bitLength (listMax g)) with
    | none => none
    | some bs => some (Scheme.toByte .tagged :: bs)
  | .raw =>
    -- since the `fix:` commit: explicitly requested raw coding reports failure for symbols ≥ 2^31
    if maxValue ≥ 2 ^ 31 then none else
    let numUnique := ((countFreqs (maxValue + 1) syms).toList.filter (· > 0)).length
    match encodeRawSymbols o level syms maxValue numUnique with
    | none => none
    | some bs => some (Scheme.toByte .raw :: bs)

/-! ### choice of the scheme (floating point, best effort) -/

/-- `ComputeShannonEntropy`: `freqs` = histogram in ascending symbol order, `n` = num_symbols -/
def shannonEntropyBits (freqs : List Nat) (n : Nat) : Nat :=
  let nd := n.toFloat
  let total : Float := freqs.foldl
    (fun acc f => if f > 0 then acc + f.toFloat * Float.log2 (f.toFloat / nd) else acc) 0.0
  (-total).toUInt64.toNat

/-- `ApproximateRAnsFrequencyTableBits` -/
def approxTableBits (maxValue numUnique : Nat) : Nat :=
  8 * numUnique + 8 * (numUnique + (maxValue - numUnique) / 64)

/-- the automatic selection of `EncodeSymbols` (no `symbol_encoding_method` option) -/
def chooseScheme (numComponents : Nat) (syms : List Nat) : Scheme :=
  let comps := if numComponents = 0 then 1 else numComponents
  let groups := chunksOfTR comps syms.length syms []
  let bitLengths := groups.map fun g => bitLength (listMax g)
  let maxValue := listMax syms
  let blFreqs := (countFreqs 33 bitLengths).toList
  let blUnique := (blFreqs.filter (· > 0)).length
  let taggedBits := shannonEntropyBits blFreqs bitLengths.length
    + approxTableBits blUnique blUnique + sumNat bitLengths * comps
  -- since the `fix:` commit the raw estimate (a histogram of maxValue + 1 entries) is computed only
  -- when the raw scheme can be selected
  if bitLength maxValue > 18 then .tagged else
  let freqs := (countFreqs (maxValue + 1) syms).toList
  let numUnique := (freqs.filter (· > 0)).length
  let rawBits := approxTableBits maxValue numUnique + shannonEntropyBits freqs syms.length
  if taggedBits < rawBits then .tagged else .raw

/-- `EncodeSymbols(symbols, num_values, num_components, options, target_buffer)` with the
    binary64 oracle: `forced` = option `symbol_encoding_method`, `level` = option
    `symbol_encoding_compression_level` (7 when unset). -/
def encodeSymbols (level : Nat) (forced : Option Scheme) (numComponents : Nat) (syms : List Nat) :
    Option Bytes :=
  let choice := match forced with
    | some s => s
    | none => chooseScheme numComponents syms
  encodeSymbolsWith ProbOracle.float choice level numComponents syms

/-! ### decoder -/

/-- `num_components` × `DecodeLeastSignificantBits32(bit_length, &val)`; values are consed
    onto `acc` -/
def readTaggedValues (bitLen : Nat) : Nat → BitReader → List Nat → Option (List Nat × BitReader)
  | 0, r, acc => some (acc, r)
  | c+1, r, acc =>
    match r.getBits bitLen with
    | none => none
    | some (v, r') => readTaggedValues bitLen c r' (v :: acc)

/-- the main loop of `DecodeTaggedSymbols`, one round per group -/
def decodeTaggedLoop (pb : Nat) (t : RansDecTable) (comps : Nat) :
    Nat → RansSt → BitReader → List Nat → Option (List Nat × BitReader)
  | 0, _, r, acc => some (acc.reverse, r)
  | g+1, st, r, acc =>
    let d := ransRead pb t st
    match readTaggedValues d.1 comps r acc with
    | none => none
    | some (acc', r') => decodeTaggedLoop pb t comps g d.2 r' acc'

/-- `DecodeTaggedSymbols<RAnsSymbolDecoder>`; `before` = bytes already consumed from the
    `DecoderBuffer` (see `ransReadInit`).
    The loop `for (i = 0; i < num_values; i += num_components)` runs `⌈num_values/num_components⌉`
    times and writes `num_components` values each time: when `num_values` is not a multiple of
    `num_components` the C++ writes past `out_values[num_values - 1]`; the model returns all
    values written.  `num_components = 0` makes the C++ loop forever: `none`. -/
def decodeTaggedSymbols (before : Bytes) (numValues numComponents : Nat) : Rd (List Nat) := fun bs =>
  match ransSymbolDecoderCreate (ransPrecisionBits 5) bs with
  | none => none
  | some (t, rest1) =>
    match ransStartDecoding (ransPrecisionBits 5) (before ++ consumedOf bs rest1) rest1 with
    | none => none
    | some (st, rest2) =>
      if t.probs.size = 0 then none
      else if numComponents = 0 then none
      else
        let groups := (numValues + numComponents - 1) / numComponents
        match decodeTaggedLoop (ransPrecisionBits 5) t numComponents groups st
                (BitReader.start rest2) [] with
        | none => none
        | some (vals, r) => some (vals, rest2.drop r.bytesDecoded)

/-- `DecodeRawSymbolsInternal<RAnsSymbolDecoder<bitLen>>` -/
def decodeRawSymbolsInternal (before : Bytes) (bitLen numValues : Nat) : Rd (List Nat) := fun bs =>
  let pb := ransPrecisionBits bitLen
  match ransSymbolDecoderCreate pb bs with
  | none => none
  | some (t, rest1) =>
    if t.probs.size = 0 then none
    else decodeRans pb t (before ++ consumedOf bs rest1) numValues rest1

/-- `DecodeRawSymbols<RAnsSymbolDecoder>` -/
def decodeRawSymbols (before : Bytes) (numValues : Nat) : Rd (List Nat) := fun bs =>
  match bs with
  | [] => none
  | b :: rest =>
    if 1 ≤ b ∧ b ≤ 18 then decodeRawSymbolsInternal (before ++ [b]) b numValues rest
    else none

/-- `DecodeSymbols(num_values, num_components, src_buffer, out_values)` -/
def decodeSymbols (numValues numComponents : Nat) : Rd (List Nat) := fun bs =>
  if numValues = 0 then some ([], bs)
  else
    match bs with
    | [] => none
    | scheme :: rest =>
      if scheme = 0 then decodeTaggedSymbols [scheme] numValues numComponents rest
      else if scheme = 1 then decodeRawSymbols [scheme] numValues rest
      else none

end Draco
