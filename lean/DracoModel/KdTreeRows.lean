import DracoModel.KdTree
import DracoModel.SeqDecoder
/-
  The `AttributeTuple`s and the `PointAttributeVectorOutputIterator` of
  compression/attributes/kd_tree_attributes_decoder.cc, shared by the current (2.3) and the legacy
  (< 2.3) branches of `KdTreeAttributesDecoder`.
-/
namespace Draco
namespace Kd

/-- one `AttributeTuple` of `DecodePortableAttributes` -/
structure KdAtt where
  desc : AttDesc
  /-- 0: UINT8/16/32 decoded in place; 1: INT8/16/32 (`min_signed_values_`);
      2: FLOAT32 (decoded into a `DT_UINT32` portable attribute) -/
  kind : Nat
  /-- `offset_dimensionality` -/
  offset : Nat
  /-- `data_size` = `DataTypeLength` of the target attribute -/
  dataSize : Nat
deriving Repr

/-- `PointAttributeVectorOutputIterator::operator=(const std::vector<uint32_t>&)` for one
    attribute: components `offset … offset + num_components` of the point, each cut to
    `data_size` bytes (`memcpy` of the low bytes; 4-byte types are copied whole) -/
def attRow (ka : KdAtt) (p : List Nat) : List Nat :=
  ((p.drop ka.offset).take ka.desc.numComponents).map (· % 2 ^ (8 * ka.dataSize))

end Kd
end Draco
