import DracoModel.Geometry
import DracoModel.Quantizer
import DracoModel.Octahedron
/-
  The specification relation of C01 (`RoundTripOK`) as an executable, decidable check, evaluated by
  the driver on the implementation's outputs (and on the model's):

    g      the geometry given to the encoder
    g'     the geometry returned by the ordinary decode
    gs     the geometry returned by the decode with every attribute transform skipped — it carries
           the *declared* quantization of each attribute (bits, origin, range / octahedral bits)

  * same attribute set matched by unique id with equal descriptors;
  * per attribute, every point's value in g' is `T(value in g)` where T = identity for attributes
    without a declared transform and `dequant ∘ quant` / `octa-decode ∘ octa-encode` with the
    declared parameters otherwise; attributes not requested to be quantized must not carry a transform;
  * sequential methods: same number of points, same point order, same faces in the same order;
    kd-tree: same multiset of per-point value tuples;
    Edgebreaker: same multiset of triangles (per-corner value tuples, orientation kept, rotation
    ignored) after omitting input triangles that use one position entry twice.
-/
namespace Draco.Spec
open Draco

inductive MethodClass where
  | sequential | kdTree | edgebreaker
deriving Repr, BEq

def chunkBytes (n : Nat) (bs : Bytes) : Array Bytes :=
  let rec go (fuel : Nat) (bs : Bytes) (acc : Array Bytes) : Array Bytes :=
    match fuel with
    | 0 => acc
    | fuel+1 => if bs.isEmpty || n == 0 then acc else go fuel (bs.drop n) (acc.push (bs.take n))
  go (bs.length + 1) bs #[]

/-- value rows of an attribute indexed by attribute value index -/
def rows (a : Attribute) : Array Bytes := chunkBytes a.stride a.values

/-- attribute value index of point `p` -/
def valueIndex (_a : Attribute) (mp : Option (Array Nat)) (p : Nat) : Nat :=
  match mp with
  | none => p
  | some m => m.getD p 0

def f32s (row : Bytes) : List Nat := (chunkBytes 4 row).toList.map leValue

/-- the declared transform applied to one original value row -/
def expectedRow (tr : TransformData) (row : Bytes) : Bytes :=
  match tr with
  | .none => row
  | .quantization bits mins range =>
    let q := bits.toNat
    ((f32s row).zipIdx.map fun (x, c) =>
      writeLE 4 (Quant.dequantizeBits mins range q c (Quant.quantizeBits mins range q c x))).flatten
  | .octahedron bits =>
    match Octa.init bits.toNat, f32s row with
    | some t, [a, b, c] =>
      let f := fun (n : Nat) => Float32.ofBits n.toUInt32
      let st := Octa.floatVecToCoords t (f a, f b, f c)
      let (x, y, z) := Octa.coordsToUnitVector t st
      writeLE 4 x.toBits.toNat ++ writeLE 4 y.toBits.toNat ++ writeLE 4 z.toBits.toNat
    | _, _ => row

structure AttView where
  att : Attribute
  rws : Array Bytes
  mp : Option (Array Nat)

def view (a : Attribute) : AttView := ⟨a, rows a, a.map.map List.toArray⟩
def AttView.pointRow (v : AttView) (p : Nat) : Bytes := v.rws.getD (valueIndex v.att v.mp p) []

def lexLe : List Nat → List Nat → Bool
  | [], _ => true
  | _ :: _, [] => false
  | a :: as, b :: bs => if a < b then true else if a > b then false else lexLe as bs

def sortRows (l : List (List Nat)) : List (List Nat) := l.mergeSort lexLe

/-- smallest rotation of a triangle given as three corner tuples (orientation preserved) -/
def canonTri (a b c : List Nat) : List Nat :=
  let sep := [1000000]   -- corner separator (bytes are < 256)
  let r1 := a ++ sep ++ b ++ sep ++ c
  let r2 := b ++ sep ++ c ++ sep ++ a
  let r3 := c ++ sep ++ a ++ sep ++ b
  let m := if lexLe r1 r2 then r1 else r2
  if lexLe m r3 then m else r3

/-- multiset inclusion of sorted lists -/
def subMultiset : List (List Nat) → List (List Nat) → Bool
  | [], _ => true
  | _ :: _, [] => false
  | a :: as, b :: bs =>
    if a == b then subMultiset as bs
    else if lexLe b a then subMultiset (a :: as) bs
    else false
termination_by l r => l.length + r.length

/-- requested quantization: unique id ↦ bits (attributes not listed must be reproduced bit-exactly) -/
abbrev QuantReq := List (Nat × Nat)

def findAtt (g : Geometry) (uid : Nat) : Option Attribute := g.atts.find? (·.uniqueId == uid)

/-- the diagnosis: the same relation as `checkCore`, evaluated imperatively and explaining the first
    difference found (used by `check` only when `checkCore` rejects) -/
def checkDiag (cls : MethodClass) (req : QuantReq) (g g' gs : Geometry) : String := Id.run do
  if g.atts.length != g'.atts.length then return s!"violation: {g'.atts.length} attributes decoded, {g.atts.length} encoded"
  -- unique ids must be distinct for matching by id to make sense
  let uids := g.atts.map (·.uniqueId)
  if uids.eraseDups.length != uids.length then return "skip: duplicate unique ids in the input"
  let mut origViews : Array AttView := #[]
  let mut decViews : Array AttView := #[]
  let mut trs : Array TransformData := #[]
  -- the skipped decode is matched to the ordinary decode by attribute index (its unique ids are
  -- the subject of C10, not of this relation)
  let skipOf := fun (uid : Nat) =>
    match g'.atts.findIdx? (·.uniqueId == uid) with
    | some i => gs.atts[i]?
    | none => none
  for a in g.atts do
    match findAtt g' a.uniqueId, skipOf a.uniqueId with
    | some d, some s =>
      if d.attType != a.attType || d.dataType != a.dataType || d.numComponents != a.numComponents || d.normalized != a.normalized then
        return s!"violation: descriptor of attribute uid {a.uniqueId} changed"
      let wantQ := req.lookup a.uniqueId
      match s.transform, wantQ with
      | .none, some b => return s!"violation: attribute uid {a.uniqueId} was to be quantized to {b} bits but the stream declares no transform"
      | .quantization bits _ _, some b =>
        if bits != (b : Int) then return s!"violation: attribute uid {a.uniqueId} declares {bits} quantization bits, {b} requested"
      | .octahedron bits, some b =>
        if bits != (b : Int) then return s!"violation: attribute uid {a.uniqueId} declares {bits} octahedral bits, {b} requested"
      | .none, none => pure ()
      | _, none => return s!"violation: attribute uid {a.uniqueId} was not to be quantized but the stream declares a transform"
      origViews := origViews.push (view a)
      decViews := decViews.push (view d)
      trs := trs.push s.transform
    | _, _ => return s!"violation: attribute uid {a.uniqueId} missing after decoding"
  let nA := origViews.size
  let expTuple := fun (p : Nat) => Id.run do
    let mut t : List Nat := []
    for i in [0:nA] do
      t := t ++ [2000000] ++ expectedRow (trs.getD i .none) ((origViews.getD i (view default)).pointRow p)
    return t
  let decTuple := fun (p : Nat) => Id.run do
    let mut t : List Nat := []
    for i in [0:nA] do
      t := t ++ [2000000] ++ (decViews.getD i (view default)).pointRow p
    return t
  match cls with
  | .sequential =>
    if g.numPoints != g'.numPoints then return s!"violation: {g'.numPoints} points decoded, {g.numPoints} encoded"
    if g.faces != g'.faces then return "violation: faces differ (sequential methods keep face order and point ids)"
    for p in [0:g.numPoints] do
      if expTuple p != decTuple p then return s!"violation: point {p} decodes to different values"
    return "ok"
  | .kdTree =>
    if g.numPoints != g'.numPoints then return s!"violation: {g'.numPoints} points decoded, {g.numPoints} encoded"
    let e := sortRows ((List.range g.numPoints).map expTuple)
    let d := sortRows ((List.range g'.numPoints).map decTuple)
    if e != d then return "violation: multiset of points differs" else return "ok"
  | .edgebreaker =>
    -- omit input triangles that use one position entry twice
    let pos := g.atts.find? (·.attType == 0)
    let posIdx := fun (p : Nat) => match pos with
      | some a => valueIndex a (a.map.map List.toArray) p
      | none => p
    let posView := pos.map fun a => a.map.map List.toArray
    let pidx := fun (p : Nat) => match pos, posView with
      | some a, some m => valueIndex a m p
      | _, _ => posIdx p
    -- triangles that use one position entry twice may be omitted (they are when the corner table
    -- is built from positions; with a single connectivity only repeated point ids are dropped)
    let nondeg := g.faces.filter fun (a, b, c) => pidx a != pidx b && pidx b != pidx c && pidx a != pidx c
    let all := sortRows (g.faces.map fun (a, b, c) => canonTri (expTuple a) (expTuple b) (expTuple c))
    let req := sortRows (nondeg.map fun (a, b, c) => canonTri (expTuple a) (expTuple b) (expTuple c))
    let d := sortRows (g'.faces.map fun (a, b, c) => canonTri (decTuple a) (decTuple b) (decTuple c))
    if !subMultiset req d then return s!"violation: a non-degenerate input triangle is missing ({g'.faces.length} faces decoded, {nondeg.length} non-degenerate of {g.faces.length} encoded)"
    if !subMultiset d all then return s!"violation: a decoded triangle is not an input triangle ({g'.faces.length} faces decoded, {g.faces.length} encoded)"
    return "ok"

/-! ### the relation RoundTripOK as a Boolean function (`checkCore`) -/

/-- one input attribute matched (by unique id) with its decoded counterpart and the transform the
    stream declares for it -/
structure Matched where
  orig : AttView
  dec : AttView
  tr : TransformData

/-- declared transform vs. requested quantization: a requested quantization must be declared with
    the requested bit count, an attribute that was not to be quantized must not carry a transform -/
def transformOk : TransformData → Option Nat → Bool
  | .none, some _ => false
  | .quantization bits _ _, some b => bits == (b : Int)
  | .octahedron bits, some b => bits == (b : Int)
  | .none, none => true
  | _, none => false

/-- the attribute of the transform-skipped decode that corresponds to unique id `uid` of the ordinary
    decode (matched by attribute index) -/
def skipOf (g' gs : Geometry) (uid : Nat) : Option Attribute :=
  match g'.atts.findIdx? (·.uniqueId == uid) with
  | some i => gs.atts[i]?
  | none => none

def matchOne (req : QuantReq) (g' gs : Geometry) (a : Attribute) : Option Matched :=
  match findAtt g' a.uniqueId, skipOf g' gs a.uniqueId with
  | some d, some s =>
    if d.attType != a.attType || d.dataType != a.dataType || d.numComponents != a.numComponents ||
        d.normalized != a.normalized then none
    else if !transformOk s.transform (req.lookup a.uniqueId) then none
    else some ⟨view a, view d, s.transform⟩
  | _, _ => none

def collect {α : Type} : List (Option α) → Option (List α)
  | [] => some []
  | none :: _ => none
  | some a :: rest =>
    match collect rest with
    | none => none
    | some as => some (a :: as)

/-- expected values of point `p`: per attribute a separator and the declared transform applied to the
    point's original value row -/
def expTupleL (ms : List Matched) (p : Nat) : List Nat :=
  ms.flatMap fun m => [2000000] ++ expectedRow m.tr (m.orig.pointRow p)

/-- decoded values of point `p` -/
def decTupleL (ms : List Matched) (p : Nat) : List Nat :=
  ms.flatMap fun m => [2000000] ++ m.dec.pointRow p

/-- **RoundTripOK** (see the header of this file) as a Boolean function of the input `g`, the ordinary
    decode `g'` and the transform-skipped decode `gs`.  Inputs with duplicate unique ids are not
    accepted (matching by id is meaningless for them). -/
def checkCore (cls : MethodClass) (req : QuantReq) (g g' gs : Geometry) : Bool :=
  g.atts.length == g'.atts.length &&
  (let uids := g.atts.map (·.uniqueId); uids.eraseDups.length == uids.length) &&
  match collect (g.atts.map (matchOne req g' gs)) with
  | none => false
  | some ms =>
    match cls with
    | .sequential =>
      g.numPoints == g'.numPoints && g.faces == g'.faces &&
        (List.range g.numPoints).all fun p => expTupleL ms p == decTupleL ms p
    | .kdTree =>
      g.numPoints == g'.numPoints &&
        sortRows ((List.range g.numPoints).map (expTupleL ms)) ==
          sortRows ((List.range g'.numPoints).map (decTupleL ms))
    | .edgebreaker =>
      let pos := g.atts.find? (·.attType == 0)
      let pidx := fun (p : Nat) => match pos with
        | some a => valueIndex a (a.map.map List.toArray) p
        | none => p
      let nondeg := g.faces.filter fun (a, b, c) => pidx a != pidx b && pidx b != pidx c && pidx a != pidx c
      let all := sortRows (g.faces.map fun (a, b, c) => canonTri (expTupleL ms a) (expTupleL ms b) (expTupleL ms c))
      let reqT := sortRows (nondeg.map fun (a, b, c) => canonTri (expTupleL ms a) (expTupleL ms b) (expTupleL ms c))
      let d := sortRows (g'.faces.map fun (a, b, c) => canonTri (decTupleL ms a) (decTupleL ms b) (decTupleL ms c))
      subMultiset reqT d && subMultiset d all

/-- the check evaluated by the driver: `"ok"` exactly when `checkCore` accepts
    (`DracoProofs.SpecCheck.check_ok_iff`), otherwise the diagnosis -/
def check (cls : MethodClass) (req : QuantReq) (g g' gs : Geometry) : String :=
  if checkCore cls req g g' gs then "ok"
  else
    let d := checkDiag cls req g g' gs
    if d == "ok" then "violation: RoundTripOK (checkCore) rejects the decoded geometry" else d

/-- C10: applying the described transform to the values exposed by the skipped decode reproduces
    the ordinary decode bit for bit; untransformed attributes and connectivity are identical.
    `skipped`: attribute types whose transform was skipped. -/
def skipCheck (skipped : List Nat) (g' gs : Geometry) : String := Id.run do
  if g'.numPoints != gs.numPoints then return "violation: number of points differs between ordinary and skipped decode"
  if g'.faces != gs.faces then return "violation: connectivity differs between ordinary and skipped decode"
  if g'.atts.length != gs.atts.length then return "violation: attribute count differs"
  for (d, s) in g'.atts.zip gs.atts do
    if d.uniqueId != s.uniqueId then return s!"violation: unique id {d.uniqueId} became {s.uniqueId} under skip"
    if d.attType != s.attType then return "violation: attribute type changed under skip"
    if d.map != s.map then return s!"violation: point mapping of uid {d.uniqueId} differs under skip"
    match s.transform with
    | .none =>
      -- an attribute without transform is either untouched, or (integer attributes whose type was
      -- skipped) exposed as its portable int32 form, whose narrowing cast reproduces the ordinary decode
      if d != s then
        let len := dataTypeLength d.dataType
        let narrowed := ((chunkBytes 4 s.values).toList.map fun b => b.take len).flatten
        let okPortable := skipped.contains d.attType && s.dataType == 5 && d.dataType ≥ 1 && d.dataType ≤ 6 &&
          s.numComponents == d.numComponents && s.numValues == d.numValues && s.normalized == false &&
          narrowed == d.values.take narrowed.length && narrowed.length == d.numValues * d.stride
        if !okPortable then return s!"violation: untransformed attribute uid {d.uniqueId} differs under skip"
    | .quantization bits mins range =>
      if !skipped.contains d.attType then return s!"violation: attribute uid {d.uniqueId} left untransformed although its type was not skipped"
      if (s.dataType != 5 && s.dataType != 6) || s.numComponents != d.numComponents then return "violation: skipped quantized attribute is not a 32-bit integer attribute with the original component count"
      let ks := (chunkBytes 4 s.values).toList.map fun b => toSigned 32 (leValue b)
      let nc := d.numComponents
      let vals := (ks.zipIdx.map fun (k, i) => writeLE 4 (Quant.dequantizeBits mins range bits.toNat (i % nc) k)).flatten
      if vals != d.values.take vals.length || d.numValues != s.numValues then
        return s!"violation: applying the described quantization to the skipped values of uid {d.uniqueId} does not reproduce the ordinary decode"
    | .octahedron bits =>
      if !skipped.contains d.attType then return s!"violation: attribute uid {d.uniqueId} left untransformed although its type was not skipped"
      match Octa.init bits.toNat with
      | none => return "violation: invalid octahedral bits in transform data"
      | some t =>
        let ks := (chunkBytes 4 s.values).toList.map fun b => toSigned 32 (leValue b)
        let rec go (l : List Int) (acc : List Bytes) (fuel : Nat) : List Bytes :=
          match fuel, l with
          | fuel+1, a :: b :: rest =>
            let (x, y, z) := Octa.coordsToUnitVector t (a, b)
            go rest ((writeLE 4 x.toBits.toNat ++ writeLE 4 y.toBits.toNat ++ writeLE 4 z.toBits.toNat) :: acc) fuel
          | _, _ => acc.reverse
        let vals := (go ks [] (ks.length + 1)).flatten
        if vals != d.values.take vals.length || d.numValues != s.numValues then
          return s!"violation: applying the described octahedral transform to the skipped values of uid {d.uniqueId} does not reproduce the ordinary decode"
  return "ok"

end Draco.Spec
