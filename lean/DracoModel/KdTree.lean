import DracoModel.BitCoders
import DracoModel.DecM
import DracoModel.TreeStack
/-
  Mirrors src/draco/compression/point_cloud/algorithms/dynamic_integer_points_kd_tree_decoder.h
  (`DynamicIntegerPointsKdTreeDecoder<level>`, levels 0..6).

  A point is the list of its `dimension_` coordinates (`uint32_t` each).

  C++ state of `DecodeInternal`: `status_stack` (tuples `{num_remaining_points, last_axis,
  stack_pos}`) and the two arrays `base_stack_` / `levels_stack_` indexed by `stack_pos`.  While
  the tuple on top of the stack (position `p`) is processed the code writes `base_stack_[p+1]`,
  `levels_stack_[p]` (the `+= 1` on the split axis, *before* the first child is pushed with the
  same `p`) and `levels_stack_[p+1]`; the two children are pushed with positions `p` (first
  half) and `p+1` (second half, on top).  Hence the positions on the status stack are strictly
  decreasing from top to bottom and no iteration writes an entry that a tuple further down will
  read.  The functional state of a tuple therefore is the pair `(base, levels)` it will find at
  its position when it is popped; the model's frames carry that pair instead of `stack_pos`.
  (`stack_pos + 1 ≤ Σ levels ≤ 32·dimension`, the size the arrays are constructed with, because
  every split increments one level that was below `bit_length_ ≤ 32`.)

  The four bit decoders are a parameter (`Src`): `DracoProofs/KdTree*.lean` reasons about the
  tree coding independently of the entropy coder, `coders` below instantiates the policies
  `DynamicIntegerPointsKdTreeDecoderCompressionPolicy<0..6>`.
-/
namespace Draco
namespace Kd

/-- `DRACO_INCREMENT_MOD(I, M)` = `(I == M-1) ? 0 : I+1` (for `M ≥ 1`) -/
def incMod (i m : Nat) : Nat := if i + 1 = m then 0 else i + 1

/-- what `DecodeInternal` needs of the four bit decoders; `σ` is their joint state -/
structure Src (σ : Type) where
  /-- `DecodeNumber(nbits, &number)` with `number` preset to 0 (the return value of
      `DecodeLeastSignificantBits32` is ignored) -/
  number : σ → Nat → Nat × σ
  /-- `remaining_bits_decoder_.DecodeLeastSignificantBits32(nbits, &v)`; `none` = false -/
  remBits : σ → Nat → Option Nat × σ
  /-- `axis_decoder_.DecodeLeastSignificantBits32(4, &best_axis)` with `best_axis` preset to 0 -/
  axis : σ → Nat × σ
  /-- `half_decoder_.DecodeNextBit()` -/
  half : σ → Bool × σ

/-- template / member constants of one decoder run -/
structure Params where
  /-- `dimension_` -/
  dim : Nat
  /-- `bit_length_` -/
  bitLength : Nat
  /-- `Policy::select_axis` (level 6) -/
  selectAxis : Bool
  /-- `num_points_` = the `num_points` argument of `DecodeInternal` -/
  numPoints : Nat
deriving Repr

/-- one `DecodingStatus` together with `base_stack_[stack_pos]`, `levels_stack_[stack_pos]` -/
structure Frame where
  n : Nat
  lastAxis : Nat
  base : List Nat
  levels : List Nat
deriving Repr, BEq, DecidableEq

/-- threaded state: the bit decoders and `num_decoded_points_` -/
structure St (σ : Type) where
  src : σ
  decoded : Nat

/-- the loop of `GetAxis` for fewer than 64 points: the first axis of minimal level -/
def minLevelAxis (levels : List Nat) (dim : Nat) : Nat :=
  (List.range' 1 (dim - 1)).foldl
    (fun best axis => if levels.getD best 0 > levels.getD axis 0 then axis else best) 0

/-- `GetAxis` -/
def getAxis {σ} (S : Src σ) (P : Params) (s : σ) (n : Nat) (levels : List Nat) (lastAxis : Nat) :
    Nat × σ :=
  if !P.selectAxis then (incMod lastAxis P.dim, s)
  else if n < 64 then (minLevelAxis levels P.dim, s)
  else S.axis s

/-- `axes_[0] = axis; axes_[i] = DRACO_INCREMENT_MOD(axes_[i-1], dimension_)` -/
def axesFrom (axis dim : Nat) : Nat → List Nat
  | 0 => []
  | k+1 => axis :: axesFrom (incMod axis dim) dim k

/-- the `for j` loop of the fast path: one point, coordinate by coordinate in `axes_` order.
    `p` is `p_` (every coordinate is overwritten because `axes_` is a full cycle). -/
def leafPoint {σ} (S : Src σ) (P : Params) (base levels : List Nat) :
    List Nat → List Nat → σ → Option (List Nat × σ)
  | [], p, s => some (p, s)
  | a :: axes, p, s =>
    let nrb := P.bitLength - levels.getD a 0
    if nrb = 0 then leafPoint S P base levels axes (p.set a (base.getD a 0 ||| 0)) s
    else
      match S.remBits s nrb with
      | (none, _) => none
      | (some v, s1) => leafPoint S P base levels axes (p.set a (base.getD a 0 ||| v)) s1

/-- the `for i < num_remaining_points` loop of the fast path -/
def leafPoints {σ} (S : Src σ) (P : Params) (base levels axes : List Nat) :
    Nat → σ → Option (List (List Nat) × σ)
  | 0, s => some ([], s)
  | k+1, s =>
    match leafPoint S P base levels axes (List.replicate P.dim 0) s with
    | none => none
    | some (p, s1) =>
      match leafPoints S P base levels axes k s1 with
      | none => none
      | some (ps, s2) => some (p :: ps, s2)

/-- the pushes at the end of the loop body: `levels_stack_[stack_pos][axis] += 1`, copy to
    `stack_pos + 1`, `first_half` tuple (if non-empty), `second_half` tuple (if non-empty) -/
def pushChildren {σ} (P : Params) (fr : Frame) (axis first second : Nat) (st : St σ) :
    TreeStack.Step Frame (List Nat) (St σ) :=
  let level := fr.levels.getD axis 0
  -- levels never exceed `bit_length_`, so the `uint32_t` difference does not wrap
  let modifier := 2 ^ (P.bitLength - level - 1)
  let base2 := fr.base.set axis ((fr.base.getD axis 0 + modifier) % 2^32)
  let levels2 := fr.levels.set axis (level + 1)
  .split [] (if first ≠ 0 then some ⟨first, axis, fr.base, levels2⟩ else none)
            (if second ≠ 0 then some ⟨second, axis, base2, levels2⟩ else none) st

/-- the split part of the loop body: `DecodeNumber`, the halves, the optional swap -/
def splitNode {σ} (S : Src σ) (P : Params) (fr : Frame) (axis : Nat) (s : σ) (decoded : Nat) :
    Option (TreeStack.Step Frame (List Nat) (St σ)) :=
  let nm := S.number s (Nat.log2 fr.n)     -- `MostSignificantBit(num_remaining_points)`
  if fr.n / 2 < nm.1 then none else
  let first := fr.n / 2 - nm.1
  let second := fr.n - first
  if first ≠ second then
    let hb := S.half nm.2
    if hb.1 then some (pushChildren P fr axis first second ⟨hb.2, decoded⟩)
    else some (pushChildren P fr axis second first ⟨hb.2, decoded⟩)
  else some (pushChildren P fr axis first second ⟨nm.2, decoded⟩)

/-- the loop body once the axis is known -/
def nodeAt {σ} (S : Src σ) (P : Params) (fr : Frame) (axis : Nat) (s : σ) (decoded : Nat) :
    Option (TreeStack.Step Frame (List Nat) (St σ)) :=
  if axis ≥ P.dim then none
  -- `(bit_length_ - level) == 0`: levels never exceed `bit_length_` (they start at 0 and grow by
  -- one only when different from it), so the `uint32_t` difference does not wrap and is the
  -- truncated difference
  else if P.bitLength - fr.levels.getD axis 0 = 0 then
    some (.leaf (List.replicate fr.n fr.base) ⟨s, decoded + fr.n⟩)
  else if fr.n ≤ 2 then
    match leafPoints S P fr.base fr.levels (axesFrom axis P.dim P.dim) fr.n s with
    | none => none
    | some (pts, s1) => some (.leaf pts ⟨s1, decoded + fr.n⟩)
  else if decoded > P.numPoints then none
  else splitNode S P fr axis s decoded

/-- body of the `while (!status_stack.empty())` loop of `DecodeInternal`; `none` = `return false` -/
def node {σ} (S : Src σ) (P : Params) (fr : Frame) (st : St σ) :
    Option (TreeStack.Step Frame (List Nat) (St σ)) :=
  if fr.n > P.numPoints then none else
  let ax := getAxis S P st.src fr.n fr.levels fr.lastAxis
  nodeAt S P fr ax.1 ax.2 st.decoded

/-- `while (!status_stack.empty())`; the stack top is the list head; `acc` = the points written
    so far, newest first -/
def run {σ} (S : Src σ) (P : Params) :
    Nat → List Frame → St σ → List (List Nat) → Option (List (List Nat) × St σ) :=
  TreeStack.run (node S P)

/-- enough iterations: every tuple holds at least one point and a split leaves the children
    one level further down, so at most `n · (bit_length_ · dimension_ + 1)` tuples are popped
    (`DracoProofs/KdTreeStack.lean`) -/
def runFuel (P : Params) : Nat := P.numPoints * (P.bitLength * P.dim + 1) + 1

/-- `DecodeInternal(num_points, oit)`: the points in the order they are written, and the
    final state -/
def decodeInternal {σ} (S : Src σ) (P : Params) (s : σ) : Option (List (List Nat) × St σ) :=
  let zero := List.replicate P.dim 0
  match run S P (runFuel P) [⟨P.numPoints, 0, zero, zero⟩] ⟨s, 0⟩ [] with
  | none => none
  | some (acc, st) => some (acc.reverse, st)

/-! ### the same function by structural recursion on the tree -/

/-- the subtree of one tuple: second half first (it is pushed last);
    `run` = `tree`: `DracoProofs/KdTreeStack.lean` -/
def tree {σ} (S : Src σ) (P : Params) : Nat → Frame → St σ → Option (List (List Nat) × St σ) :=
  TreeStack.tree (node S P)

/-! ### the policies -/

/-- `Policy::NumbersDecoder`: `DirectBitDecoder` (levels 0, 1), `RAnsBitDecoder` (2, 3),
    `FoldedBit32Decoder<RAnsBitDecoder>` (4, 5, 6) -/
inductive NumDec where
  | direct (d : DirectDec)
  | rans (d : RAnsBitDec)
  | folded (d : FoldedDec RAnsBitDec)

/-- `numbers_decoder_`, `remaining_bits_decoder_`, `axis_decoder_`, `half_decoder_`; the last
    three are `DirectBitDecoder`s at every level -/
structure Coders where
  num : NumDec
  rem : DirectDec
  axis : DirectDec
  half : DirectDec

/-- a `DirectBitDecoder::DecodeLeastSignificantBits32` whose result is ignored: the preset 0
    stays when it returns false -/
def directOr0 (d : DirectDec) (n : Nat) : Nat × DirectDec :=
  match d.lsb32 n with
  | (some v, d1) => (v, d1)
  | (none, d1) => (0, d1)

def NumDec.number (legacy : Bool) : NumDec → Nat → Nat × NumDec
  | .direct d, n => let r := directOr0 d n; (r.1, .direct r.2)
  | .rans d, n => let r := d.lsb32 n; (r.1, .rans r.2)
  | .folded d, n => let r := FoldedDec.req (ransBitDecIface legacy) d (.lsb32 n); (r.1, .folded r.2)

def coders (legacy : Bool) : Src Coders where
  number c n := let r := c.num.number legacy n; (r.1, { c with num := r.2 })
  remBits c n := let r := c.rem.lsb32 n; (r.1, { c with rem := r.2 })
  axis c := let r := directOr0 c.axis 4; (r.1, { c with axis := r.2 })
  half c := let r := c.half.nextBit; (r.1, { c with half := r.2 })

open DecM in
/-- `DirectBitDecoder::StartDecoding` with the `bits_.resize` it performs -/
def startDirect : DecM DirectDec := do
  let d ← lift directStart
  alloc "direct_bit_decoder.bits" (4 * d.pos.length)
  pure d

open DecM in
/-- `numbers_decoder_.StartDecoding(buffer)` for compression level `level ≤ 6` -/
def startNumbers (legacy : Bool) (level : Nat) : DecM NumDec :=
  if level < 2 then do let d ← startDirect; pure (.direct d)
  else if level < 4 then do let d ← lift (ransBitStart legacy); pure (.rans d)
  else do let d ← lift (foldedStart (ransBitDecIface legacy)); pure (.folded d)

open DecM in
/-- `DynamicIntegerPointsKdTreeDecoder<level>::DecodePoints(buffer, oit, oit_max_points)` on a
    current (≥ 2.2) bitstream: `(num_decoded_points(), points written)`.
    The rANS based decoders keep reading from the ranges handed to them at `StartDecoding`;
    the buffer position after `DecodePoints` is the one after the fourth `StartDecoding`. -/
def decodePoints (level dim maxPoints : Nat) : DecM (Nat × List (List Nat)) := do
  let bitLength ← rdU32
  require (bitLength ≤ 32)
  let numPoints ← rdU32
  if numPoints = 0 then pure (0, []) else
  require (numPoints ≤ maxPoints)
  let num ← startNumbers false level
  let rem ← startDirect
  let axis ← startDirect
  let half ← startDirect
  let P : Params := ⟨dim, bitLength, level == 6, numPoints⟩
  match decodeInternal (coders false) P ⟨num, rem, axis, half⟩ with
  | none => fail
  | some (pts, st) => pure (st.decoded, pts)

open DecM in
/-- `DecodePoints` for every bitstream version: `legacy` = bitstream < 2.2, where
    `RAnsBitDecoder::StartDecoding` reads its section size as a fixed `uint32_t` instead of a varint
    (the only version dependence of the tree coder).  `decodePoints = decodePointsL false`. -/
def decodePointsL (legacy : Bool) (level dim maxPoints : Nat) : DecM (Nat × List (List Nat)) := do
  let bitLength ← rdU32
  require (bitLength ≤ 32)
  let numPoints ← rdU32
  if numPoints = 0 then pure (0, []) else
  require (numPoints ≤ maxPoints)
  let num ← startNumbers legacy level
  let rem ← startDirect
  let axis ← startDirect
  let half ← startDirect
  let P : Params := ⟨dim, bitLength, level == 6, numPoints⟩
  match decodeInternal (coders legacy) P ⟨num, rem, axis, half⟩ with
  | none => fail
  | some (pts, st) => pure (st.decoded, pts)

end Kd
end Draco
