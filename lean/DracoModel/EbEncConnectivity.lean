import DracoModel.CornerTable
import DracoModel.EbConnectivity
import DracoModel.SymbolCoding
import Generated.FastDivTab
/-
  Connectivity part of the Edgebreaker mesh ENCODER, bitstream 2.2:
    compression/mesh/mesh_edgebreaker_encoder.cc            (InitializeEncoder)
    compression/mesh/mesh_edgebreaker_encoder_impl.cc       (Init, EncodeConnectivity,
        EncodeConnectivityFromCorner, FindHoles, FindInitFaceConfiguration, EncodeHole,
        CheckAndStoreTopologySplitEvent, EncodeSplitData, GetRightCorner / GetLeftCorner,
        IsRightFaceVisited / IsLeftFaceVisited, InitAttributeData,
        EncodeAttributeConnectivitiesOnFace, processed_connectivity_corners_)
    compression/mesh/mesh_edgebreaker_traversal_encoder.h         (standard traversal coder)
    compression/mesh/mesh_edgebreaker_traversal_valence_encoder.h (valence traversal coder)
    mesh/mesh_misc_functions.cc     (CreateCornerTableFromPositionAttribute / …FromAllAttributes)
    mesh/mesh_attribute_corner_table.cc  (InitFromAttribute, RecomputeVertices<true>)
    mesh/corner_table.cc            (Valence; `CornerTable::Create` is DracoModel/CornerTable.lean)

  Index conventions are those of the decoder model (DracoModel/EbTable.lean): indices are `Nat`,
  `kInvalid…Index` and the `-1` entries of the encoder's `int` maps are `inv`; every array access
  goes through `rd` / `wr` (`Err.ub` = the C++ would index out of range).  `Err.fail` = the C++
  returns a non-ok status.

  Heuristics that do not influence decodability are parameters (`ConnChoices`): the `double`
  expression of `RAnsBitEncoder::EndEncoding`, the oracle of `RAnsSymbolEncoder::Create` and the
  tagged / raw decision of `EncodeSymbols` for the six valence contexts.
-/
namespace Draco.EbEnc
open Draco
open Draco.Eb hiding nextC prevC

/-! ### the corner table of the encoder -/

/-- `CornerTable` in the array form of the decoder model -/
structure CT where
  /-- `corner_to_vertex_map_` -/
  c2v : Array Nat
  /-- `opposite_corners_` -/
  opp : Array Nat
  /-- `vertex_corners_` -/
  vc : Array Nat
  /-- `NumDegeneratedFaces()` -/
  numDegenerated : Nat
  /-- `NumIsolatedVertices()` -/
  numIsolated : Nat
deriving Inhabited

def CT.ofTable (t : Draco.CornerTable) : CT :=
  { c2v := t.cornerToVertex
    opp := t.oppositeCorners.map fun o => o.getD inv
    vc := t.vertexCorners.map fun o => o.getD inv
    numDegenerated := t.numDegeneratedFaces
    numIsolated := t.numIsolatedVertices }

def CT.numCorners (t : CT) : Nat := t.c2v.size
def CT.numFaces (t : CT) : Nat := t.c2v.size / 3
def CT.numVertices (t : CT) : Nat := t.vc.size

/-- the base table as a `TView` (what traversers and prediction schemes work on) -/
def CT.view (t : CT) : TView :=
  { c2v := t.c2v, opp := t.opp, seam := #[], lm := t.vc, isAtt := false, numFaces := t.numFaces }

/-- `CornerTable::Face` -/
@[inline] def faceOf (c : Nat) : Nat := if c == inv then inv else c / 3

/-- `CornerTable::IsDegenerated(face)` -/
def isDegenerated (t : CT) (f : Nat) : R Bool := do
  if f == inv then return true
  let v0 ← vertex t.c2v (3 * f)
  let v1 ← vertex t.c2v (3 * f + 1)
  let v2 ← vertex t.c2v (3 * f + 2)
  pure (v0 == v1 || v0 == v2 || v1 == v2)

/-- `CornerTable::Valence(v)` = `ConfidentValence`: the number of steps of the
    `VertexRingIterator` -/
def valenceOf (t : CT) (v : Nat) : R Nat := do
  let start ← leftMost t.vc v
  let mut c := start
  let mut left := true
  let mut n := 0
  let mut fin := false
  for _ in [0:t.numCorners + 2] do
    if c == inv then
      fin := true
      break
    n := n + 1
    if left then
      c ← swingLeft t.opp c
      if c == inv then
        c := start
        left := false
      else if c == start then
        c := inv
    else
      c ← swingRight t.opp c
  if !fin then throw (.fuel "CornerTable::Valence")
  pure n

/-! ### choices -/

/-- decisions of the connectivity encoder that every decoder undoes without knowing how they
    were taken -/
structure ConnChoices where
  /-- `zero_prob_raw` of `RAnsBitEncoder::EndEncoding` (a `double` expression) -/
  zeroProbRaw : Nat → Nat → Nat
  /-- the `double` expressions of `RAnsSymbolEncoder::Create` -/
  oracle : ProbOracle
  /-- tagged / raw scheme chosen by `EncodeSymbols` for valence context `i` -/
  ctxScheme : Nat → Draco.Scheme

/-- `RAnsBitEncoder::EndEncoding(&buffer)` -/
def finishBits (ch : ConnChoices) (e : RAnsBitEnc) : Bytes :=
  e.finish Generated.fastdivTab ch.zeroProbRaw

/-! ### attribute connectivity (`MeshAttributeCornerTable::InitFromAttribute`) -/

/-- `RecomputeVerticesInternal<true>` (the attribute entry map it also fills is not used by the
    encoder) on the seam flags; same loop as the second half of `Eb.buildAttConn` -/
def recomputeVertices (t : CT) (edgeSeam vertSeam : Array Bool) : R (Array Nat × Array Nat) := do
  let nc := t.numCorners
  let mut c2v := Array.replicate nc inv
  let mut lm : Array Nat := Array.mkEmpty t.vc.size
  let attOpp := fun (c : Nat) => do
    if c == inv then pure inv
    else if (← rdB "IsCornerOppositeToSeamEdge" edgeSeam c) then pure inv
    else rd "CornerTable::Opposite" t.opp c
  for v in [0:t.vc.size] do
    let c := t.vc[v]!
    if c == inv then continue
    let mut firstVertId := lm.size
    let mut firstC := c
    if (← rdB "is_vertex_on_seam_" vertSeam v) then
      let mut actC := Eb.nextC (← attOpp (Eb.nextC firstC))
      let mut fin := false
      for _ in [0:nc + 1] do
        if actC == inv then
          fin := true
          break
        firstC := actC
        actC := Eb.nextC (← attOpp (Eb.nextC actC))
        if actC == c then throw .fail
      if !fin then throw (.fuel "RecomputeVertices: swing left")
    c2v ← wr "corner_to_vertex_map_" c2v firstC firstVertId
    lm := lm.push firstC
    let mut actC ← swingRight t.opp firstC
    let mut fin := false
    for _ in [0:nc + 1] do
      if actC == inv || actC == firstC then
        fin := true
        break
      if (← rdB "IsCornerOppositeToSeamEdge" edgeSeam (Eb.nextC actC)) then
        firstVertId := lm.size
        lm := lm.push actC
      c2v ← wr "corner_to_vertex_map_" c2v actC firstVertId
      actC ← swingRight t.opp actC
    if !fin then throw (.fuel "RecomputeVertices: swing right")
  pure (c2v, lm)

/-- `MeshAttributeCornerTable::InitFromAttribute(mesh, table, att)`;
    `cornerValue c` = `att->mapped_index(mesh->CornerToPointId(c))` -/
def initFromAttribute (t : CT) (cornerValue : Array Nat) : R AttConn := do
  let nc := t.numCorners
  let mut edgeSeam := Array.replicate nc false
  let mut vertSeam := Array.replicate t.vc.size false
  let mut noInterior := true
  for c in [0:nc] do
    if (← isDegenerated t (c / 3)) then continue
    let oppC ← opposite t.opp c
    if oppC == inv then
      edgeSeam ← wrB "is_edge_on_seam_" edgeSeam c true
      vertSeam ← wrB "is_vertex_on_seam_" vertSeam (← vertex t.c2v (Eb.nextC c)) true
      vertSeam ← wrB "is_vertex_on_seam_" vertSeam (← vertex t.c2v (Eb.prevC c)) true
      continue
    if oppC < c then continue
    let mut actC := c
    let mut actSibling := oppC
    for _ in [0:2] do
      actC := Eb.nextC actC
      actSibling := Eb.prevC actSibling
      let a ← rd "att->mapped_index(mesh->CornerToPointId(c))" cornerValue actC
      let b ← rd "att->mapped_index(mesh->CornerToPointId(c))" cornerValue actSibling
      if a != b then
        noInterior := false
        edgeSeam ← wrB "is_edge_on_seam_" edgeSeam c true
        edgeSeam ← wrB "is_edge_on_seam_" edgeSeam oppC true
        vertSeam ← wrB "is_vertex_on_seam_" vertSeam (← vertex t.c2v (Eb.nextC c)) true
        vertSeam ← wrB "is_vertex_on_seam_" vertSeam (← vertex t.c2v (Eb.prevC c)) true
        vertSeam ← wrB "is_vertex_on_seam_" vertSeam (← vertex t.c2v (Eb.nextC oppC)) true
        vertSeam ← wrB "is_vertex_on_seam_" vertSeam (← vertex t.c2v (Eb.prevC oppC)) true
        break
  let (c2v, lm) ← recomputeVertices t edgeSeam vertSeam
  pure { edgeSeam, vertSeam, c2v, lm, noInteriorSeams := noInterior }

/-- `attribute_data_[i]` as far as the connectivity encoder fills it -/
structure AttData where
  /-- `attribute_index` -/
  attIndex : Nat
  /-- `connectivity_data` -/
  conn : AttConn
deriving Inhabited

/-! ### holes -/

/-- the `while (Opposite(corner) != invalid) corner = Next(Opposite(corner))` walk used by
    `FindHoles` and `EncodeHole` -/
def walkToBoundary (t : CT) (c : Nat) : R Nat := do
  let mut c := c
  let mut fin := false
  for _ in [0:t.numCorners + 1] do
    let o ← opposite t.opp c
    if o == inv then
      fin := true
      break
    c := Eb.nextC o
  if !fin then throw (.fuel "open boundary walk")
  pure c

/-- `FindHoles`: `vertex_hole_id_` (`inv` = −1) and the number of holes (`visited_holes_.size()`) -/
def findHoles (t : CT) : R (Array Nat × Nat) := do
  let nc := t.numCorners
  let mut holeId := Array.replicate t.vc.size inv
  let mut numHoles := 0
  for i in [0:nc] do
    if (← isDegenerated t (i / 3)) then continue
    if (← opposite t.opp i) == inv then
      let mut bv ← vertex t.c2v (Eb.nextC i)
      if (← rd "vertex_hole_id_" holeId bv) != inv then continue
      let boundaryId := numHoles
      numHoles := numHoles + 1
      let mut c := i
      let mut fin := false
      for _ in [0:nc + 1] do
        if (← rd "vertex_hole_id_" holeId bv) != inv then
          fin := true
          break
        holeId ← wr "vertex_hole_id_" holeId bv boundaryId
        c ← walkToBoundary t (Eb.nextC c)
        bv ← vertex t.c2v (Eb.nextC c)
      if !fin then throw (.fuel "FindHoles: boundary loop")
  pure (holeId, numHoles)

/-- `EncodeHole(start_corner_id, encode_first_vertex)`: marks the vertices of the hole in
    `visited_vertex_ids_` and the hole in `visited_holes_` -/
def encodeHole (t : CT) (holeId : Array Nat) (vv vh : Array Bool) (startCorner : Nat)
    (encodeFirst : Bool) : R (Array Bool × Array Bool) := do
  let mut vv := vv
  let mut c ← walkToBoundary t (Eb.prevC startCorner)
  let startVertex ← vertex t.c2v startCorner
  if encodeFirst then
    vv ← wrB "visited_vertex_ids_" vv startVertex true
  let vh ← wrB "visited_holes_" vh (← rd "vertex_hole_id_" holeId startVertex) true
  let mut act ← vertex t.c2v (Eb.prevC c)
  let mut fin := false
  for _ in [0:t.numCorners + 1] do
    if act == startVertex then
      fin := true
      break
    vv ← wrB "visited_vertex_ids_" vv act true
    c ← walkToBoundary t (Eb.nextC c)
    act ← vertex t.c2v (Eb.prevC c)
  if !fin then throw (.fuel "EncodeHole: boundary loop")
  pure (vv, vh)

/-- `FindInitFaceConfiguration(face_id, &corner)`: (interior configuration?, corner) -/
def findInitFaceConfiguration (t : CT) (holeId : Array Nat) (f : Nat) : R (Bool × Nat) := do
  let mut c := 3 * f
  for _ in [0:3] do
    if (← opposite t.opp c) == inv then return (false, c)
    if (← rd "vertex_hole_id_" holeId (← vertex t.c2v c)) != inv then
      let mut right := c
      let mut fin := false
      for _ in [0:t.numCorners + 1] do
        if right == inv then
          fin := true
          break
        c := right
        right ← swingRight t.opp right
      if !fin then throw (.fuel "FindInitFaceConfiguration: swing right")
      return (false, Eb.prevC c)
    c := Eb.nextC c
  pure (true, c)

/-! ### valence traversal encoder -/

/-- `MeshEdgebreakerTraversalValenceEncoder` (beyond the members of the standard encoder) -/
structure ValEnc where
  /-- `corner_to_vertex_map_` (own copy, rewritten at split symbols) -/
  c2v : Array Nat
  /-- `vertex_valences_` -/
  valences : Array Int
  /-- `prev_symbol_` (−1 at the start) -/
  prevSymbol : Int := -1
  /-- `context_symbols_` -/
  ctx : Array (Array Nat) := Array.replicate 6 #[]
deriving Inhabited

/-- `MeshEdgebreakerTraversalValenceEncoder::Init` -/
def ValEnc.init (t : CT) : R ValEnc := do
  let mut vals : Array Int := Array.mkEmpty t.vc.size
  for v in [0:t.vc.size] do
    vals := vals.push ((← valenceOf t v) : Nat)
  pure { c2v := t.c2v, valences := vals }

/-- `edge_breaker_topology_to_symbol_id` -/
def topologyToSymbol (s : Nat) : Nat := (Generated.edgebreakerTopologyToSymbol.getD s 5).toNat

/-- `MeshEdgebreakerTraversalValenceEncoder::EncodeSymbol(symbol)` after
    `NewCornerReached(lastCorner)`; `visitedFaces` = `IsFaceEncoded` -/
def ValEnc.encodeSymbol (t : CT) (visitedFaces : Array Bool) (e : ValEnc) (lastCorner symbol : Nat) :
    R ValEnc := do
  let ⟨c2v0, vals0, prevSymbol, ctx0⟩ := e
  let mut c2v := c2v0
  let mut vals := vals0
  let mut ctx := ctx0
  let next := Eb.nextC lastCorner
  let prev := Eb.prevC lastCorner
  let sub := fun (vals : Array Int) (v : Nat) (k : Int) => do
    wrI "vertex_valences_" vals v ((← rdI "vertex_valences_" vals v) - k)
  let vNext ← rd "corner_to_vertex_map_" c2v next
  let vPrev ← rd "corner_to_vertex_map_" c2v prev
  let vLast ← rd "corner_to_vertex_map_" c2v lastCorner
  let activeValence ← rdI "vertex_valences_" vals vNext
  if symbol == topoC || symbol == topoS then
    vals ← sub vals vNext 1
    vals ← sub vals vPrev 1
    if symbol == topoS then
      -- faces on the left side of the split vertex
      let mut numLeft : Nat := 0
      let mut actC ← opposite t.opp prev
      let mut fin := false
      for _ in [0:t.numCorners + 1] do
        if actC == inv then
          fin := true
          break
        if (← rdB "IsFaceEncoded" visitedFaces (actC / 3)) then
          fin := true
          break
        numLeft := numLeft + 1
        actC ← opposite t.opp (Eb.nextC actC)
      if !fin then throw (.fuel "valence encoder: left faces")
      vals ← wrI "vertex_valences_" vals vLast ((numLeft : Int) + 1)
      -- a new vertex for the right side
      let newVert := vals.size
      let mut numRight : Nat := 0
      actC ← opposite t.opp next
      fin := false
      for _ in [0:t.numCorners + 1] do
        if actC == inv then
          fin := true
          break
        if (← rdB "IsFaceEncoded" visitedFaces (actC / 3)) then
          fin := true
          break
        numRight := numRight + 1
        c2v ← wr "corner_to_vertex_map_" c2v (Eb.nextC actC) newVert
        actC ← opposite t.opp (Eb.prevC actC)
      if !fin then throw (.fuel "valence encoder: right faces")
      vals := vals.push ((numRight : Int) + 1)
  else if symbol == topoR then
    vals ← sub vals vLast 1
    vals ← sub vals vNext 1
    vals ← sub vals vPrev 2
  else if symbol == topoL then
    vals ← sub vals vLast 1
    vals ← sub vals vNext 2
    vals ← sub vals vPrev 1
  else if symbol == topoE then
    vals ← sub vals vLast 2
    vals ← sub vals vNext 2
    vals ← sub vals vPrev 2
  if prevSymbol != -1 then
    let clamped : Int := if activeValence < 2 then 2 else if activeValence > 7 then 7 else activeValence
    let context := (clamped - 2).toNat
    ctx := ctx.modify context (·.push (topologyToSymbol prevSymbol.toNat))
  pure { c2v, valences := vals, prevSymbol := symbol, ctx }

/-! ### EncodeConnectivity -/

/-- the attribute seam bits: `EncodeAttributeConnectivitiesOnFace(ci)` for the corners of `processed` (already in the
    decoder's order of the faces); `edgeSeams[i]` = `is_edge_on_seam_` of attribute data `i`.  Result: the bit
    encoders and the bits themselves, per attribute data, in encoding (= decoding) order. -/
def encodeSeamBits (t : CT) (processed : Array Nat) (edgeSeams : Array (Array Bool)) :
    R (Array RAnsBitEnc × Array (Array Bool)) := do
  let mut seamEnc : Array RAnsBitEnc := Array.replicate edgeSeams.size RAnsBitEnc.start
  let mut seamBits : Array (Array Bool) := Array.replicate edgeSeams.size #[]
  if !edgeSeams.isEmpty then
    let mut visitedFaces := Array.replicate t.numFaces false
    for ci in processed do
      -- EncodeAttributeConnectivitiesOnFace(ci)
      visitedFaces ← wrB "visited_faces_" visitedFaces (faceOf ci) true
      for c in [ci, Eb.nextC ci, Eb.prevC ci] do
        let oppC ← opposite t.opp c
        if oppC == inv then continue
        if (← rdB "visited_faces_" visitedFaces (oppC / 3)) then continue
        for i in [0:edgeSeams.size] do
          let isSeam ← rdB "IsCornerOppositeToSeamEdge" (edgeSeams[i]!) c
          seamEnc := seamEnc.modify i (·.encodeBit isSeam)
          seamBits := seamBits.modify i (·.push isSeam)
  pure (seamEnc, seamBits)

/-- what `EncodeConnectivity` leaves behind -/
structure ConnEnc where
  /-- the corner table the mesh was encoded with -/
  ct : CT
  /-- the bytes appended to the encoder's buffer by `EncodeConnectivity` -/
  bytes : Bytes
  /-- `processed_connectivity_corners_` in its final order (= the decoder's face order) -/
  processed : Array Nat
  /-- `attribute_data_` -/
  atts : Array AttData
  /-- the traversal symbols in encoding order -/
  symbols : Array Nat
  /-- start face configurations in encoding order -/
  startFaces : Array Bool
  /-- `topology_split_event_data_` -/
  splits : Array TopoSplit
  numSplitSymbols : Nat
  /-- seam bits per attribute data in encoding order -/
  seamBits : Array (Array Bool)
  /-- `vertex_hole_id_` -/
  holeId : Array Nat
deriving Inhabited

/-- `edge_breaker_topology_bit_pattern_length` -/
def patternLength (s : Nat) : Nat := (Generated.edgebreakerBitPatternLength.getD s 0).toNat

/-- `MeshEdgebreakerTraversalEncoder::EncodeTraversalSymbols`: the symbols in reverse order,
    `bit_pattern_length` bits each, as a bit sequence with size prefix -/
def encodeTraversalSymbols (symbols : Array Nat) : Bytes :=
  encBitRegion true (symbols.toList.reverse.flatMap fun s => bitsOf (patternLength s) s)

/-- `EncodeSplitData` -/
def encodeSplitData (splits : Array TopoSplit) : Bytes :=
  let n := splits.size
  let head := encVarint (n % 2 ^ 32)
  if n == 0 then head else
  let ids := (splits.toList.foldl (fun (acc : Bytes × Nat) (e : TopoSplit) =>
      (acc.1 ++ encVarint ((e.source + 2 ^ 32 - acc.2) % 2 ^ 32) ++ encVarint ((e.source + 2 ^ 32 - e.split) % 2 ^ 32),
       e.source)) ([], 0)).1
  head ++ ids ++ encBitRegion false (splits.toList.flatMap fun e => bitsOf 1 e.edge)

/-- `MeshEdgebreakerEncoderImpl::EncodeConnectivity` with the standard (`valence = false`) or the
    valence traversal encoder.
    `faces`: flat `mesh->face(f)[k]` (point ids); `posFaces`: the faces handed to
    `CornerTable::Create` (position value indices, or point ids for `use_single_connectivity_`);
    `attCornerValues`: for every non-position attribute (in attribute order, empty for
    `use_single_connectivity_`) its attribute id and `att->mapped_index(CornerToPointId(c))`. -/
def encodeConnectivity (ch : ConnChoices) (valence : Bool) (posFaces : Faces)
    (attCornerValues : Array (Nat × Array Nat)) : R ConnEnc := do
  let some table := CornerTable.create posFaces | throw (.ub "CornerTable::Create outside its domain")
  let t := CT.ofTable table
  let numFacesAll := t.numFaces
  if numFacesAll == t.numDegenerated then throw .fail       -- "All triangles are degenerate."
  let nc := t.numCorners
  let nv := t.numVertices
  let head := encVarint ((nv - t.numIsolated) % 2 ^ 32) ++ encVarint ((numFacesAll - t.numDegenerated) % 2 ^ 32)
  let mut visitedFaces := Array.replicate numFacesAll false
  let mut visitedVerts := Array.replicate nv false
  let (holeId, numHoles) ← findHoles t
  let mut visitedHoles := Array.replicate numHoles false
  -- InitAttributeData
  let mut atts : Array AttData := Array.mkEmpty attCornerValues.size
  for (attIndex, cv) in attCornerValues do
    atts := atts.push { attIndex, conn := ← initFromAttribute t cv }
  let numAttData := atts.size % 256
  -- traversal_encoder_.Init / Start
  let mut val : ValEnc ← if valence then ValEnc.init t else pure { c2v := #[], valences := #[] }
  let mut symbols : Array Nat := Array.mkEmpty numFacesAll
  let mut startFace := RAnsBitEnc.start
  let mut startFaces : Array Bool := #[]
  let mut processed : Array Nat := Array.mkEmpty numFacesAll
  let mut initFaceCorners : Array Nat := #[]
  let mut splits : Array TopoSplit := #[]
  let mut faceToSplit := Array.replicate numFacesAll inv
  let mut lastSymbolId : Int := -1
  let mut numSplitSymbols := 0
  for cId in [0:nc] do
    let faceId := cId / 3
    if (← rdB "visited_faces_" visitedFaces faceId) then continue
    if (← isDegenerated t faceId) then continue
    let (interior, startCorner) ← findInitFaceConfiguration t holeId faceId
    startFace := startFace.encodeBit interior
    startFaces := startFaces.push interior
    -- corner the component is traversed from (`inv`: nothing to traverse)
    let mut from_ := inv
    if interior then
      let vertId ← vertex t.c2v startCorner
      let nextVert ← vertex t.c2v (Eb.nextC startCorner)
      let prevVert ← vertex t.c2v (Eb.prevC startCorner)
      visitedVerts ← wrB "visited_vertex_ids_" visitedVerts vertId true
      visitedVerts ← wrB "visited_vertex_ids_" visitedVerts nextVert true
      visitedVerts ← wrB "visited_vertex_ids_" visitedVerts prevVert true
      visitedFaces ← wrB "visited_faces_" visitedFaces faceId true
      initFaceCorners := initFaceCorners.push (Eb.nextC startCorner)
      let oppId ← opposite t.opp (Eb.nextC startCorner)
      let oppFace := faceOf oppId
      if oppFace != inv && !(← rdB "visited_faces_" visitedFaces oppFace) then from_ := oppId
    else
      let (vv, vh) ← encodeHole t holeId visitedVerts visitedHoles (Eb.nextC startCorner) true
      visitedVerts := vv
      visitedHoles := vh
      from_ := startCorner
    if from_ == inv then continue
    -- EncodeConnectivityFromCorner(from_)
    let mut stack : Array Nat := #[from_]
    let mut finS := false
    for _ in [0:4 * numFacesAll + 16] do
      if stack.isEmpty then
        finS := true
        break
      let mut cornerId := stack.back!
      if cornerId == inv then
        stack := stack.pop
        continue
      if (← rdB "visited_faces_" visitedFaces (cornerId / 3)) then
        stack := stack.pop
        continue
      let mut numVisited := 0
      for _ in [0:numFacesAll] do
        if numVisited ≥ numFacesAll then break
        numVisited := numVisited + 1
        lastSymbolId := lastSymbolId + 1
        let face := faceOf cornerId
        visitedFaces ← wrB "visited_faces_" visitedFaces face true
        processed := processed.push cornerId
        let lastCorner := cornerId            -- traversal_encoder_.NewCornerReached
        let vertId ← vertex t.c2v cornerId
        let onBoundary := (← rd "vertex_hole_id_" holeId vertId) != inv
        if !(← rdB "visited_vertex_ids_" visitedVerts vertId) then
          visitedVerts ← wrB "visited_vertex_ids_" visitedVerts vertId true
          if !onBoundary then
            symbols := symbols.push topoC
            if valence then val ← val.encodeSymbol t visitedFaces lastCorner topoC
            cornerId ← opposite t.opp (Eb.nextC cornerId)
            continue
        let rightCorner ← opposite t.opp (Eb.nextC cornerId)
        let leftCorner ← opposite t.opp (Eb.prevC cornerId)
        let rightFace := faceOf rightCorner
        let leftFace := faceOf leftCorner
        let rightVisited ← if rightCorner != inv then rdB "visited_faces_" visitedFaces rightFace else pure true
        let leftVisited ← if leftCorner != inv then rdB "visited_faces_" visitedFaces leftFace else pure true
        let symId := toUnsigned 32 lastSymbolId
        if rightVisited then
          if rightFace != inv then
            let s ← rd "face_to_split_symbol_map_" faceToSplit rightFace
            if s != inv then splits := splits.push ⟨symId, s, 1⟩
          if leftVisited then
            if leftFace != inv then
              let s ← rd "face_to_split_symbol_map_" faceToSplit leftFace
              if s != inv then splits := splits.push ⟨symId, s, 0⟩
            symbols := symbols.push topoE
            if valence then val ← val.encodeSymbol t visitedFaces lastCorner topoE
            stack := stack.pop
            break
          else
            symbols := symbols.push topoR
            if valence then val ← val.encodeSymbol t visitedFaces lastCorner topoR
            cornerId := leftCorner
        else
          if leftVisited then
            if leftFace != inv then
              let s ← rd "face_to_split_symbol_map_" faceToSplit leftFace
              if s != inv then splits := splits.push ⟨symId, s, 0⟩
            symbols := symbols.push topoL
            if valence then val ← val.encodeSymbol t visitedFaces lastCorner topoL
            cornerId := rightCorner
          else
            symbols := symbols.push topoS
            if valence then val ← val.encodeSymbol t visitedFaces lastCorner topoS
            numSplitSymbols := numSplitSymbols + 1
            if onBoundary then
              let hole ← rd "vertex_hole_id_" holeId vertId
              if !(← rdB "visited_holes_" visitedHoles hole) then
                let (vv, vh) ← encodeHole t holeId visitedVerts visitedHoles cornerId false
                visitedVerts := vv
                visitedHoles := vh
            faceToSplit ← wr "face_to_split_symbol_map_" faceToSplit face symId
            stack := stack.set! (stack.size - 1) leftCorner
            stack := stack.push rightCorner
            break
    if !finS then throw (.fuel "EncodeConnectivityFromCorner: stack loop")
  -- the decoder's order of the faces
  processed := processed.reverse ++ initFaceCorners
  -- attribute seams
  let (seamEnc, seamBits) ← encodeSeamBits t processed (atts.map fun a => a.conn.edgeSeam)
  -- traversal_encoder_.Done()
  let startFaceBytes := finishBits ch startFace
  let seamBytes := seamEnc.toList.flatMap (finishBits ch)
  let mut traversal : Bytes := []
  if valence then
    let mut ctxBytes : Bytes := []
    for i in [0:val.ctx.size] do
      let syms := (val.ctx[i]!).toList
      ctxBytes := ctxBytes ++ encVarint (syms.length % 2 ^ 32)
      if !syms.isEmpty then
        -- EncodeSymbols(…, 1, nullptr, …): default compression level
        match encodeSymbolsWith ch.oracle (ch.ctxScheme i) 7 1 syms with
        | none => throw .fail     -- (the C++ ignores the result of EncodeSymbols here; symbols are < 5)
        | some bs => ctxBytes := ctxBytes ++ bs
    traversal := startFaceBytes ++ seamBytes ++ ctxBytes
  else
    traversal := encodeTraversalSymbols symbols ++ startFaceBytes ++ seamBytes
  let bytes := head ++ [numAttData] ++ encVarint (symbols.size % 2 ^ 32) ++ encVarint (numSplitSymbols % 2 ^ 32)
    ++ encodeSplitData splits ++ traversal
  pure { ct := t, bytes, processed, atts, symbols, startFaces, splits, numSplitSymbols, seamBits, holeId }

end Draco.EbEnc
