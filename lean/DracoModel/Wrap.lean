import DracoModel.Basic
import DracoModel.Varint
/-
  DracoModel.Wrap — the "wrap" prediction-correction transform for `int32_t` data.

  Mirrors
    src/draco/compression/attributes/prediction_schemes/
      prediction_scheme_wrap_transform_base.h      (PredictionSchemeWrapTransformBase<int32_t>)
      prediction_scheme_wrap_encoding_transform.h  (PredictionSchemeWrapEncodingTransform<int32_t,int32_t>)
      prediction_scheme_wrap_decoding_transform.h  (PredictionSchemeWrapDecodingTransform<int32_t,int32_t>)

  All values are `Int`; every place where the C++ arithmetic is performed in `uint32_t` (and
  therefore wraps) carries an explicit `wrap32`.  Signed `int32_t` operations whose overflow
  would be undefined behaviour are written with `wrap32` too when they can overflow for *some*
  32-bit input (what g++ produces), and without it when they provably cannot (noted at the spot).
-/
namespace Draco

/-- The state of `PredictionSchemeWrapTransformBase<int32_t>` after a successful
    `InitCorrectionBounds()` (`num_components_` is not part of the arithmetic). -/
structure WrapT where
  /-- `min_value_` -/
  minV : Int
  /-- `max_value_` -/
  maxV : Int
  /-- `max_dif_` -/
  maxDif : Int
  /-- `max_correction_` -/
  maxCorr : Int
  /-- `min_correction_` -/
  minCorr : Int
deriving Repr, DecidableEq

namespace Wrap

/-- `PredictionSchemeWrapTransformBase::InitCorrectionBounds` after `set_min_value(minV)`,
    `set_max_value(maxV)`.  `dif` is formed in `int64_t`, so it is exact for int32 inputs.
    Failure condition: `dif < 0 || dif >= std::numeric_limits<int32_t>::max()`.
    `max_dif_ = 1 + dif ≤ 2^31 − 1` fits; `max_dif_ / 2` is a division of a positive number
    (truncation = floor); `(max_dif_ & 1) == 0` is the parity test. -/
def init (minV maxV : Int) : Option WrapT :=
  let dif := maxV - minV
  if dif < 0 ∨ dif ≥ 2^31 - 1 then none
  else
    let maxDif := 1 + dif
    let maxCorr := maxDif / 2
    let minCorr := -maxCorr
    let maxCorr := if maxDif % 2 = 0 then maxCorr - 1 else maxCorr
    some { minV := minV, maxV := maxV, maxDif := maxDif, maxCorr := maxCorr, minCorr := minCorr }

/-- `ClampPredictedValue`, one component. -/
def clamp (t : WrapT) (p : Int) : Int :=
  if p > t.maxV then t.maxV else if p < t.minV then t.minV else p

/-- `PredictionSchemeWrapEncodingTransform::ComputeCorrection`, one component.
    (The C++ re-clamps the whole predicted vector in every loop iteration; clamping is
    idempotent, so that quirk has no effect on the values.)
    `original − clamped` is an `int32_t` subtraction: it cannot overflow when `orig` lies in
    `[minV, maxV]` (then `|orig − clamp| ≤ maxV − minV < 2^31 − 1`); outside that range it would
    be UB in C++ and is modelled as two's complement wrap.  The following `± max_dif` cannot
    overflow: it is applied to a negative (resp. positive) value only. -/
def encCorr (t : WrapT) (orig pred : Int) : Int :=
  let corr := wrap32 (orig - clamp t pred)
  if corr < t.minCorr then corr + t.maxDif
  else if corr > t.maxCorr then corr - t.maxDif
  else corr

/-- `PredictionSchemeWrapDecodingTransform::ComputeOriginalValue`, one component, as it was
    written in the pinned tree **before** the `fix:` commit (finding F1): the sum was formed in
    `uint32_t` and cast back to `int32_t` (`wrap32`) *before* it was compared with
    `max_value_` / `min_value_`. Kept as the historical model for `wrap_counterexample`. -/
def decOrigUnfixed (t : WrapT) (pred corr : Int) : Int :=
  let o := wrap32 (clamp t pred + corr)
  if o > t.maxV then o - t.maxDif
  else if o < t.minV then o + t.maxDif
  else o

/-- `PredictionSchemeWrapDecodingTransform::ComputeOriginalValue`, one component, as written
    (after the `fix:` commit for F1): the sum is formed in `int64_t` (exact for two int32
    operands), compared and un-wrapped there, and only then converted to `int32_t`:
    ```
      int64_t value = static_cast<int64_t>(predicted_vals[i]) + static_cast<int64_t>(corr_vals[i]);
      if (value > this->max_value())      value -= this->max_dif();
      else if (value < this->min_value()) value += this->max_dif();
      out_original_vals[i] = static_cast<DataTypeT>(static_cast<uint32_t>(value));
    ```
    The final cast (`wrap32`) is the identity for every correction produced by the encoder; it
    only matters for corrupt streams. -/
def decOrig (t : WrapT) (pred corr : Int) : Int :=
  let v := clamp t pred + corr
  let v := if v > t.maxV then v - t.maxDif
           else if v < t.minV then v + t.maxDif
           else v
  wrap32 v

/-- alias kept for the proofs that were written against the proposed repair -/
abbrev decOrigFixed := decOrig

/-- `ComputeCorrection` on a whole entry of `num_components` values. -/
def encCorrV (t : WrapT) (orig pred : List Int) : List Int := List.zipWith (encCorr t) orig pred
/-- `ComputeOriginalValue` on a whole entry (as written). -/
def decOrigV (t : WrapT) (pred corr : List Int) : List Int := List.zipWith (decOrig t) pred corr
/-- pre-fix `ComputeOriginalValue` on a whole entry. -/
def decOrigUnfixedV (t : WrapT) (pred corr : List Int) : List Int := List.zipWith (decOrigUnfixed t) pred corr
/-- repaired `ComputeOriginalValue` on a whole entry. -/
def decOrigFixedV (t : WrapT) (pred corr : List Int) : List Int :=
  List.zipWith (decOrigFixed t) pred corr

/-- the bounds computed by `PredictionSchemeWrapEncodingTransform::Init`: minimum and maximum of
    the original data (all components together).  `none` for `size == 0` (the C++ then leaves the
    zero-initialised state) -/
def dataBounds : List Int → Option (Int × Int)
  | [] => none
  | x :: xs => some (xs.foldl (fun (mn, mx) v => if v < mn then (v, mx) else if v > mx then (mn, v) else (mn, mx)) (x, x))

/-- `PredictionSchemeWrapEncodingTransform::EncodeTransformData`: `min_value_`, `max_value_` as
    raw little-endian int32. -/
def encodeTransformData (t : WrapT) : Bytes :=
  writeLE 4 (toUnsigned 32 t.minV) ++ writeLE 4 (toUnsigned 32 t.maxV)

/-- `PredictionSchemeWrapDecodingTransform::DecodeTransformData`. -/
def decodeTransformData : Rd WrapT := fun bs =>
  match readLE 4 bs with
  | none => none
  | some (a, r1) =>
    match readLE 4 r1 with
    | none => none
    | some (b, r2) =>
      let minV := toSigned 32 a
      let maxV := toSigned 32 b
      if minV > maxV then none
      else match init minV maxV with
        | none => none
        | some t => some (t, r2)

end Wrap
end Draco
