import DracoModel.SymbolCoding
/-
  Symbol decoding of bitstreams < 2.0 (compression/entropy/rans_symbol_decoder.h, the
  `DRACO_BACKWARDS_COMPATIBILITY_SUPPORTED` branches): `num_symbols_` is a raw `uint32_t` and the
  size of the rANS data a raw `uint64_t` instead of varints; everything else is shared with
  DracoModel/SymbolCoding.lean.  `legacy = false` is definitionally the current decoder.
-/
namespace Draco

/-- table part of `RAnsSymbolDecoder::Create` -/
def decodeTableV (legacy : Bool) : Rd (List Nat) := fun bs =>
  if !legacy then decodeTable bs else
  match readLE 4 bs with
  | none => none
  | some (n, rest) =>
    if n / 64 > rest.length then none
    else decTableGo n n [] rest

/-- `RAnsSymbolDecoder::Create` -/
def ransSymbolDecoderCreateV (legacy : Bool) (pb : Nat) : Rd RansDecTable := fun bs =>
  match decodeTableV legacy bs with
  | none => none
  | some (probs, rest) =>
    if probs.isEmpty then some (⟨#[], #[], #[]⟩, rest)
    else
      match ransBuildLookup pb probs with
      | none => none
      | some t => some (t, rest)

/-- `RAnsSymbolDecoder::StartDecoding` -/
def ransStartDecodingV (legacy : Bool) (pb : Nat) (before : Bytes) : Rd RansSt := fun bs =>
  if !legacy then ransStartDecoding pb before bs else
  match readLE 8 bs with
  | none => none
  | some (len, rest) =>
    if len > rest.length then none
    else
      match ransReadInit pb (before ++ consumedOf bs rest) (rest.take len) with
      | none => none
      | some st => some (st, rest.drop len)

/-- `DecodeTaggedSymbols` -/
def decodeTaggedSymbolsV (legacy : Bool) (before : Bytes) (numValues numComponents : Nat) : Rd (List Nat) := fun bs =>
  match ransSymbolDecoderCreateV legacy (ransPrecisionBits 5) bs with
  | none => none
  | some (t, rest1) =>
    match ransStartDecodingV legacy (ransPrecisionBits 5) (before ++ consumedOf bs rest1) rest1 with
    | none => none
    | some (st, rest2) =>
      if t.probs.size = 0 then none
      else if numComponents = 0 then none
      else
        let groups := (numValues + numComponents - 1) / numComponents
        match decodeTaggedLoop (ransPrecisionBits 5) t numComponents groups st
                (BitReader.start rest2) [] with
        | none => none
        | some (vals, r) => some (vals, rest2.drop r.bytesDecoded)

/-- `DecodeRawSymbols` -/
def decodeRawSymbolsV (legacy : Bool) (before : Bytes) (numValues : Nat) : Rd (List Nat) := fun bs =>
  match bs with
  | [] => none
  | b :: rest =>
    if 1 ≤ b ∧ b ≤ 18 then
      let pb := ransPrecisionBits b
      match ransSymbolDecoderCreateV legacy pb rest with
      | none => none
      | some (t, rest1) =>
        if t.probs.size = 0 then none
        else
          match ransStartDecodingV legacy pb (before ++ [b] ++ consumedOf rest rest1) rest1 with
          | none => none
          | some (st, rest2) => some (ransReadNTR pb t numValues st [], rest2)
    else none

/-- `DecodeSymbols` for a buffer of bitstream version < 2.0 (`legacy`) or ≥ 2.0 -/
def decodeSymbolsV (legacy : Bool) (numValues numComponents : Nat) : Rd (List Nat) := fun bs =>
  if !legacy then decodeSymbols numValues numComponents bs else
  if numValues = 0 then some ([], bs)
  else
    match bs with
    | [] => none
    | scheme :: rest =>
      if scheme = 0 then decodeTaggedSymbolsV true [scheme] numValues numComponents rest
      else if scheme = 1 then decodeRawSymbolsV true [scheme] numValues rest
      else none

end Draco
