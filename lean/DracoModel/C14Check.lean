import DracoModel.Dedup
import DracoModel.Builders
import DracoModel.Cleanup
import DracoModel.Stripifier
/-
  DracoModel.C14Check — executable per-case checkers of the clauses of property C14.
  Each checker recomputes the expected result from the INPUT with an independent, naive
  specification (quadratic list code) and compares it with what the model of the C++ produced.
-/
namespace Draco
namespace C14

/-- no two equal elements (naive) -/
def nodupB {α : Type} [BEq α] : List α → Bool
  | [] => true
  | x :: xs => !xs.contains x && nodupB xs

/-- same elements with the same multiplicities (naive) -/
def sameMultiset {α : Type} [BEq α] (l1 l2 : List α) : Bool := l1.isPerm l2

/-! ### clauses about DeduplicateAttributeValues -/

/-- every point sees the same bytes in every attribute, `describes` is unchanged, structure kept -/
def checkDedupValuesPreserves (g : Geometry) : Bool :=
  let g' := g.dedupValues
  g'.valid && g'.isMesh == g.isMesh && g'.numPoints == g.numPoints && g'.faces == g.faces &&
  (List.range g.numPoints).all (fun p => g'.pointTuple p == g.pointTuple p) &&
  describes g' == describes g

/-- no two byte-equal value entries remain in the attributes the C++ supports -/
def checkDedupValuesNoDup (g : Geometry) : Bool :=
  g.numPoints == 0 || g.dedupValues.atts.all fun a => !a.dedupSupported || nodupB a.entries

/-- the clause as stated in C14 (for EVERY attribute type): false of the code for
    64-bit component types and for more than four components -/
def checkDedupValuesNoDupStrict (g : Geometry) : Bool :=
  g.numPoints == 0 || g.dedupValues.atts.all fun a => nodupB a.entries

def checkDedupValuesIdem (g : Geometry) : Bool := g.dedupValues.dedupValues == g.dedupValues

def checkDedupValues (g : Geometry) : Bool :=
  checkDedupValuesPreserves g && checkDedupValuesNoDup g && checkDedupValuesIdem g

/-! ### clauses about DeduplicatePointIds -/

def checkDedupPointIdsPreserves (g : Geometry) : Bool :=
  let g' := g.dedupPointIds
  g'.valid && g'.isMesh == g.isMesh &&
  (if g.isMesh then describes g' == describes g
   else
     -- a point cloud: the same SET of points, and no more points than before
     (describes g).all (fun t => (describes g').contains t) &&
     (describes g').all (fun t => (describes g).contains t) && g'.numPoints ≤ g.numPoints) &&
  -- attribute values untouched
  g'.atts.map (·.entries) == g.atts.map (·.entries)

/-- no two points with the same tuple of value indices -/
def checkDedupPointIdsNoDup (g : Geometry) : Bool :=
  let g' := g.dedupPointIds
  nodupB ((List.range g'.numPoints).map g'.pointKey)

def checkDedupPointIdsIdem (g : Geometry) : Bool := g.dedupPointIds.dedupPointIds == g.dedupPointIds

def checkDedupPointIds (g : Geometry) : Bool :=
  checkDedupPointIdsPreserves g && checkDedupPointIdsNoDup g && checkDedupPointIdsIdem g

/-! ### MeshCleanup -/

def rotTriB : List (List Bytes) → List (List Bytes)
  | [x, y, z] => [y, z, x]
  | t => t

/-- equal up to the choice of the first corner -/
def triRotB (t' t : List (List Bytes)) : Bool := t' == t || t' == rotTriB t || t' == rotTriB (rotTriB t)

def allRot : List (List (List Bytes)) → List (List (List Bytes)) → Bool
  | [], [] => true
  | a :: as, b :: bs => triRotB a b && allRot as bs
  | _, _ => false

/-- rotation of a face with the smallest point id first, as the C++ compares faces -/
def minFirst (f : Face) : Face :=
  if f.1 ≤ f.2.1 ∧ f.1 ≤ f.2.2 then f
  else if f.2.1 ≤ f.2.2 ∧ f.2.1 ≤ f.1 then (f.2.1, f.2.2, f.1)
  else (f.2.2, f.1, f.2.1)

/-- naive specification of the faces that survive: drop faces with a repeated position index,
    then drop every face whose `minFirst` form occurred earlier -/
def expectedSurvivors (o : CleanupOpts) (g : Geometry) : List Face :=
  match g.positionAtt with
  | none => g.faces
  | some pos =>
    let fs1 := if o.removeDegeneratedFaces then
        g.faces.filter fun f =>
          pos.mappedIndex f.1 != pos.mappedIndex f.2.1 && pos.mappedIndex f.1 != pos.mappedIndex f.2.2 &&
          pos.mappedIndex f.2.1 != pos.mappedIndex f.2.2
      else g.faces
    if o.removeDuplicateFaces then
      (fs1.zipIdx.filter fun (f, i) => !((fs1.take i).map minFirst).contains (minFirst f)).map (·.1)
    else fs1

def triangleOfB (g : Geometry) (f : Face) : List (List Bytes) :=
  [g.pointTuple f.1, g.pointTuple f.2.1, g.pointTuple f.2.2]

/-- all points are face corners and all values are referenced by a point -/
def nothingUnused (g : Geometry) : Bool :=
  let cs := Cleanup.corners g.faces
  (List.range g.numPoints).all (fun p => cs.contains p) &&
  g.atts.all fun a =>
    let used := (List.range g.numPoints).map a.mappedIndex
    (List.range a.numValues).all fun v => used.contains v

def checkCleanup (o : CleanupOpts) (g : Geometry) : Bool :=
  let nothing := !o.removeDegeneratedFaces && !o.removeUnusedAttributes && !o.removeDuplicateFaces &&
    !o.makeGeometryManifold
  match Cleanup.run o g with
  | none => !nothing && g.positionAtt.isNone
  | some g' =>
    (nothing || g.positionAtt.isSome) && g'.valid && g'.isMesh == g.isMesh &&
    allRot (describes g') ((expectedSurvivors o g).map (triangleOfB g)) &&
    (o.removeDuplicateFaces || describes g' == (expectedSurvivors o g).map (triangleOfB g)) &&
    (!o.removeUnusedAttributes || nothing || nothingUnused g') &&
    (o.removeUnusedAttributes || (g'.numPoints == g.numPoints && g'.atts == g.atts))

/-! ### MeshStripifier -/

def lexLt (a b : Face) : Bool :=
  a.1 < b.1 || (a.1 == b.1 && (a.2.1 < b.2.1 || (a.2.1 == b.2.1 && a.2.2 < b.2.2)))

/-- the lexicographically smallest rotation: a rotation-invariant normal form of an oriented triangle -/
def minRot (f : Face) : Face :=
  let r1 : Face := (f.2.1, f.2.2, f.1)
  let r2 : Face := (f.2.2, f.1, f.2.1)
  let m := if lexLt r1 f then r1 else f
  if lexLt r2 m then r2 else m

/-- the triangles read back from the strip are the faces of the mesh (with the face's
    orientation, as a multiset); in the degenerate-triangle mode zero-area faces are lost on both
    sides, as documented -/
def checkStrips (restart : Bool) (g : Geometry) : Bool :=
  match Strips.generate? restart g with
  | none => (Strips.positionOpp g).isNone
  | some s =>
    let expected := if restart then g.faces else g.faces.filter (!Strips.isDegenerateTriangle ·)
    sameMultiset ((Strips.triangles restart s).map minRot) (expected.map minRot)

/-! ### builders -/

def _root_.Draco.MeshSpec.wellFormed (s : MeshSpec) : Bool :=
  s.atts.all fun (a, vals) => vals.length == s.numFaces && a.numComponents ≥ 1 && dataTypeLength a.dataType ≥ 1

/-- the triangles handed to the builder -/
def _root_.Draco.MeshSpec.triangles (s : MeshSpec) : List (List (List Bytes)) :=
  (List.range s.numFaces).map fun f =>
    let corner (k : Nat) : List Bytes := s.atts.map fun (a, vals) =>
      match vals.getD f (.perFace []) with
      | .corners v0 v1 v2 => fitBytes a.stride (if k = 0 then v0 else if k = 1 then v1 else v2)
      | .perFace v => fitBytes a.stride v
    [corner 0, corner 1, corner 2]

def checkBuildMesh (s : MeshSpec) : Bool :=
  !s.wellFormed ||
  (let g := buildMesh s
   g.valid && g.isMesh && describes g == s.triangles &&
   (s.numFaces == 0 || g.atts.all fun a => !a.dedupSupported || nodupB a.entries) &&
   nodupB ((List.range g.numPoints).map g.pointKey) &&
   -- all attributes of supported types: no two points carry the same bytes in every attribute
   (!(g.atts.all (·.dedupSupported)) || nodupB ((List.range g.numPoints).map g.pointTuple)))

def _root_.Draco.PointCloudSpec.wellFormed (s : PointCloudSpec) : Bool :=
  s.atts.all fun (a, vals) => vals.length == s.numPoints && a.numComponents ≥ 1 && dataTypeLength a.dataType ≥ 1

def _root_.Draco.PointCloudSpec.points (s : PointCloudSpec) : List (List (List Bytes)) :=
  (List.range s.numPoints).map fun p => [s.atts.map fun (a, vals) => fitBytes a.stride (vals.getD p [])]

def checkBuildPointCloud (s : PointCloudSpec) : Bool :=
  !s.wellFormed ||
  (let g := buildPointCloud s
   g.valid && !g.isMesh &&
   (if s.dedup then
      s.points.all (fun t => (describes g).contains t) && (describes g).all (fun t => s.points.contains t) &&
      nodupB ((List.range g.numPoints).map g.pointKey) &&
      (s.numPoints == 0 || g.atts.all fun a => !a.dedupSupported || nodupB a.entries) &&
      (!(g.atts.all (·.dedupSupported)) || nodupB (describes g))
    else describes g == s.points))

/-- the clause "no two identical points" for EVERY attribute type: false of the code as soon as
    one attribute has an unsupported type (its identity mapping blocks `DeduplicatePointIds`) -/
def checkBuildPointCloudStrict (s : PointCloudSpec) : Bool :=
  !s.wellFormed || !s.dedup || nodupB (describes (buildPointCloud s))

end C14
end Draco
