import DracoModel.EbEncoder
import DracoModel.EbDecoder
/-
  Executable (Bool) forms of the hypotheses of the conditional round-trip theorems about the Edgebreaker
  encoder model (DracoProps/C01Eb.lean: `eb_value_block_conditional`, `eb_ctiso_sound`).  The op `ebenc`
  evaluates them on every generated case (`hyp-ok`); DracoProofs/EbHyps.lean proves that each checker implies
  the Prop-level hypothesis it stands for.
-/
namespace Draco.EbEnc
open Draco
open Draco.Eb hiding iabs nextC prevC

/-- the (encoder kind, scheme) pairs `createScheme` produces -/
def schemeKindOk (kind : Nat) : PScheme → Bool
  | .none | .delta => true
  | .geometricNormal => kind == 3
  | .geometricNormalWrap => false
  | _ => kind != 3

def int32All (a : Array Int) : Bool := a.toList.all fun x => decide (-2 ^ 31 ≤ x) && decide (x < 2 ^ 31)

/-- normals: two components, valid quantization bits, every entry a canonical point of the grid -/
def normalsOk (o : SeqEnc.EncOpts) (attId nc n : Nat) (portable : Array Int) : Bool :=
  nc == 2 &&
  match Octa.init (o.att attId).quantBits.toNat with
  | none => false
  | some t => (List.range n).all fun p =>
      decide (Octa.inGrid t (portable.getD (2 * p) 0, portable.getD (2 * p + 1) 0)) &&
      decide (Octa.canonical t (portable.getD (2 * p) 0, portable.getD (2 * p + 1) 0))

/-- the crease flags a constrained multi-parallelogram run on `md` produces pass the decoder's
    `num_flags ≤ num_corners` check (`true` when the run fails: nothing to check) -/
def creaseCountOk (ch : EbChoices) (attId nc : Nat) (md : MeshData) (portable : Array Int) : Bool :=
  match wrapInitOf portable with
  | none => true
  | some wt =>
    match constrainedMultiEncode md wt nc (ch.crease attId) portable with
    | .ok (_, isCrease) => isCrease.all fun fl => decide (fl.size ≤ 3 * md.t.numFaces)
    | .error _ => true

def resEq {α : Type} [DecidableEq α] : R α → R α → Bool
  | .ok a, .ok b => decide (a = b)
  | .error a, .error b => decide (a = b)
  | _, _ => false

/-- two position sources deliver the same position for every entry -/
def posAgree (a b : PosSource) : Bool :=
  a.pointIds.size == b.pointIds.size &&
  (List.range a.pointIds.size).all fun i => resEq (a.get i) (b.get i)

/-- `DecParentOK` -/
def decParentOk (s : PScheme) (parentD : Option Parent) (pointIdsD : Array Nat) (posE : PosSource) : Bool :=
  !s.needsParent ||
  match parentD with
  | none => false
  | some q => q.numComponents == 3 && q.intsOk &&
      posAgree posE { pointIds := pointIdsD, map := q.map, values := q.ints }

/-- all hypotheses of `eb_value_block_conditional` for one value block of the encoder (`b`) against the
    decoder's mesh data `mdD`, entry → point map `pointIdsD` and parent attribute `parentD`; `n` = number of
    entries.  Result: the names of the hypotheses that FAIL. -/
def valueBlockHyps (ch : EbChoices) (o : SeqEnc.EncOpts) (b : ValueBlock) (n : Nat) (mdD : MeshData)
    (pointIdsD : Array Nat) (parentD : Option Parent) : List String :=
  let s := effectiveScheme b.scheme b.portable
  let bad (c : Bool) (name : String) : List String := if c then [] else [name]
  bad (b.numValues != 0) "numValues" ++
  bad (schemeKindOk b.kind b.scheme) "schemeKind" ++
  (match encParentSource s b.pointIds b.parent with
   | .ok posE =>
     bad (resEq (encodeSchemeBlock ch o b.attId b.kind b.nc s b.md posE b.portable)
                (encodeSchemeBlock ch o b.attId b.kind b.nc s mdD posE b.portable)) "blockInvariant" ++
     bad (decParentOk s parentD pointIdsD posE) "decParent"
   | .error _ => []) ++
  bad (decide (0 < b.nc) && decide (0 < n) && b.portable.size == n * b.nc && mdD.d2c.size == n &&
       decide (n * b.nc < 2 ^ 32)) "sizes" ++
  bad (int32All b.portable) "int32" ++
  bad (b.kind != 3 || normalsOk o b.attId b.nc n b.portable) "normals" ++
  bad (decide (3 * mdD.t.numFaces + 3 < 2 ^ 31) && decide (n ≤ 3 * mdD.t.numFaces)) "corners" ++
  bad (!(b.scheme == .constrainedMulti) || creaseCountOk ch b.attId b.nc mdD b.portable) "creaseCount"

/-- side conditions of `ctIso_sound` -/
def ctIsoSideOk (t : CT) (numFaces : Nat) (dc2v : Array Nat) : Bool :=
  decide (t.numCorners ≤ inv) && decide (t.numVertices ≤ inv) &&
  (List.range (3 * numFaces)).all fun d => dc2v[d]! != inv

/-! ### isomorphism of table views / mesh data (`TVIso`, `MDIso` of DracoProofs/EbMDIso.lean), executable -/

/-- the corner map recorded in `processed_connectivity_corners_` (the expression inside `ctIso`) -/
def phiOf (processed : Array Nat) (d : Nat) : Nat :=
  let c := processed[d / 3]!
  if d % 3 == 0 then c else if d % 3 == 1 then Eb.nextC c else Eb.prevC c

/-- a corner map extended by `inv ↦ inv` -/
def extOf (φ : Nat → Nat) (c : Nat) : Nat := if c = inv then inv else φ c

/-- candidate maps for the check: decoder vertex → encoder vertex, its inverse, and the inverse of the corner
    map (arbitrary arrays as far as soundness is concerned: `tvIsoCheck` verifies what it needs about them) -/
def buildMaps (d e : TView) (φ : Nat → Nat) : Array Nat × Array Nat × Array Nat := Id.run do
  let mut psi := Array.replicate d.numVertices 0
  let mut back := Array.replicate e.numVertices 0
  let mut cback := Array.replicate (3 * e.numFaces) 0
  for c in [0:3 * d.numFaces] do
    cback := cback.setIfInBounds (φ c) c
    match d.vertex c, e.vertex (φ c) with
    | .ok v, .ok w =>
      psi := psi.setIfInBounds v w
      back := back.setIfInBounds w v
    | _, _ => pure ()
  pure (psi, back, cback)

/-- every field of `TVIso d e φ (psi[·]!)`, corner by corner -/
def tvIsoCheck (d e : TView) (φ : Nat → Nat) (psi back cback : Array Nat) : Bool :=
  d.isAtt == e.isAtt &&
  decide (3 * d.numFaces ≤ inv) && decide (3 * e.numFaces ≤ inv) && decide (d.c2v.size ≤ inv) && decide (e.c2v.size ≤ inv) &&
  (List.range (3 * d.numFaces)).all fun c =>
    decide (φ c < 3 * e.numFaces) && cback[φ c]! == c && φ (Eb.nextC c) == Eb.nextC (φ c) &&
    (match d.opposite c with
     | .ok o => (o == inv || decide (o < 3 * d.numFaces)) && resEq (e.opposite (φ c)) (.ok (extOf φ o))
     | .error _ => false) &&
    (match d.vertex c with
     | .ok v => decide (v < d.numVertices) && resEq (e.vertex (φ c)) (.ok psi[v]!) && decide (psi[v]! < e.numVertices) &&
         back[psi[v]!]! == v &&
         (match d.isOnBoundary v, e.isOnBoundary psi[v]! with
          | .ok b, .ok b' => b == b'
          | _, _ => false)
     | .error _ => false)

/-- the remaining fields of `MDIso d e φ (psi[·]!)` -/
def mdIsoCheck (d e : MeshData) (φ : Nat → Nat) (psi : Array Nat) : Bool :=
  e.d2c.size == d.d2c.size &&
  ((List.range d.d2c.size).all fun p => decide (d.d2c[p]! < 3 * d.t.numFaces) && e.d2c[p]! == φ d.d2c[p]!) &&
  (List.range (3 * d.t.numFaces)).all fun c =>
    match d.t.vertex c with
    | .ok v => decide (v < d.v2d.size) && decide (psi[v]! < e.v2d.size) && d.v2d[v]! == e.v2d[psi[v]!]!
    | .error _ => false

/-- `OppInvol`: `Opposite` of the view is an involution where it is defined -/
def oppInvolCheck (t : TView) : Bool :=
  (List.range (3 * t.numFaces)).all fun c =>
    match t.opposite c with
    | .ok o => o == inv || resEq (t.opposite o) (.ok c)
    | .error _ => true

/-- `Hedge`: the corner opposite an edge lies in a face that has the two vertices of the edge -/
def hedgeCheck (t : TView) : Bool :=
  (List.range (3 * t.numFaces)).all fun c =>
    match t.opposite c with
    | .ok o => o == inv ||
        (resEq (t.vertex (Eb.nextC o)) (t.vertex (Eb.prevC c)) && resEq (t.vertex (Eb.prevC o)) (t.vertex (Eb.nextC c)))
    | .error _ => true

/-- the hypotheses of `eb_value_block_conditional_iso` for the value block `b` of the encoder against the decoder's
    view `viewD`, its sequence `seqD` and parent `parentD`: isomorphism of the VIEWS under the corner map `φ`
    (candidate maps `psi`, `back`, `cback`), the two structural properties of the decoder's view, and the side
    conditions of the block.  (Block invariance and the isomorphism of the sequences are no longer hypotheses: they
    follow from `traversal_mdIso` and `encodeSchemeBlock_iso`.)  Result: the names of the hypotheses that FAIL. -/
def valueBlockHypsIso (ch : EbChoices) (o : SeqEnc.EncOpts) (b : ValueBlock) (viewD : TView) (seqD : SeqOut)
    (parentD : Option Parent) (φ : Nat → Nat) (psi back cback : Array Nat) : List String :=
  let s := effectiveScheme b.scheme b.portable
  let n := seqD.pointIds.size
  let mdD : MeshData := { t := viewD, d2c := seqD.d2c, v2d := seqD.v2d }
  let bad (c : Bool) (name : String) : List String := if c then [] else [name]
  bad (tvIsoCheck viewD b.md.t φ psi back cback) "tvIso" ++
  bad (hedgeCheck viewD) "hedge" ++
  bad (oppInvolCheck viewD) "oppInvol" ++
  bad (b.numValues != 0) "numValues" ++
  bad (schemeKindOk b.kind b.scheme) "schemeKind" ++
  (match encParentSource s b.pointIds b.parent with
   | .ok posE => bad (decParentOk s parentD seqD.pointIds posE) "decParent"
   | .error _ => []) ++
  bad (decide (0 < b.nc) && decide (0 < n) && b.portable.size == n * b.nc && mdD.d2c.size == n &&
       decide (n * b.nc < 2 ^ 32)) "sizes" ++
  bad (int32All b.portable) "int32" ++
  bad (b.kind != 3 || normalsOk o b.attId b.nc n b.portable) "normals" ++
  bad (decide (3 * viewD.numFaces + 3 < 2 ^ 31) && decide (n ≤ 3 * viewD.numFaces)) "corners" ++
  bad (!(b.scheme == .constrainedMulti) || creaseCountOk ch b.attId b.nc mdD b.portable) "creaseCount"

end Draco.EbEnc
