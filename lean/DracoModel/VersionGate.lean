import DracoModel.SeqDecoder
/-
  The version check of `PointCloudDecoder::Decode` (compression/point_cloud/point_cloud_decoder.cc,
  DRACO_BACKWARDS_COMPATIBILITY_SUPPORTED branch) as a decision table, separate from the decoder
  model so that the driver can print it (op `vgate`) and DracoProps.C05 can tie it to
  `decodeGeometry`.
-/
namespace Draco

/-- newest supported (major, minor) per geometry type: mesh / point cloud -/
def maxVersion (isMesh : Bool) : Nat × Nat :=
  if isMesh then (Generated.kDracoMeshBitstreamVersionMajor.toNat, Generated.kDracoMeshBitstreamVersionMinor.toNat)
  else (Generated.kDracoPointCloudBitstreamVersionMajor.toNat, Generated.kDracoPointCloudBitstreamVersionMinor.toNat)

/-- `true` = the stream is rejected with `Status::UNKNOWN_VERSION`:
    `version_major_ < 1 || version_major_ > max_major || (version_major_ == max_major && version_minor_ > max_minor)` -/
def gateRejects (isMesh : Bool) (major minor : Nat) : Bool :=
  major < 1 || major > (maxVersion isMesh).1 || (major == (maxVersion isMesh).1 && minor > (maxVersion isMesh).2)

/-- (major, minor) is lexicographically newer than the newest supported version of that geometry type -/
def newerThanSupported (isMesh : Bool) (major minor : Nat) : Bool :=
  major > (maxVersion isMesh).1 || (major == (maxVersion isMesh).1 && minor > (maxVersion isMesh).2)

end Draco
