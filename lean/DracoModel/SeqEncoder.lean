import DracoModel.SeqDecoder
/-
  The sequential ENCODERS (encoder_method 0) for point clouds and meshes:
    compression/point_cloud/point_cloud_encoder.cc            (Encode, EncodeHeader, EncodeMetadata,
                                                               EncodePointAttributes, GenerateAttributesEncoders,
                                                               RearrangeAttributesEncoders)
    compression/point_cloud/point_cloud_sequential_encoder.cc (EncodeGeometryData, GenerateAttributesEncoder)
    compression/mesh/mesh_sequential_encoder.cc               (EncodeConnectivity, CompressAndEncodeIndices)
    compression/attributes/attributes_encoder.cc              (EncodeAttributesEncoderData)
    compression/attributes/sequential_attribute_encoders_controller.cc
    compression/attributes/sequential_{,integer_,quantization_,normal_}attribute_encoder.cc
    compression/attributes/prediction_schemes/prediction_scheme_delta_encoder.h + encoding transforms
    compression/attributes/linear_sequencer.h                 (point ids 0 … n-1)

  Result `none` = the C++ returns a non-ok status, or the input is outside the domain on which
  the C++ has a defined result (noted at each spot).

  Heuristics that do not influence decodability are parameters (`Choices`): the result of
  `SelectPredictionMethod`, the tagged/raw decision of `EncodeSymbols` (Shannon entropy estimate in
  `double`) and the two `double` expressions of `RAnsSymbolEncoder::Create` (`ProbOracle`).
-/
namespace Draco.SeqEnc
open Draco

/-! ### options and choices -/

/-- the per-attribute options read by the sequential encoders -/
structure AttOpts where
  /-- `GetAttributeInt(att_id, "quantization_bits", -1)` -/
  quantBits : Int := -1
  /-- `quantization_origin` and `quantization_range` (both set): float32 bit patterns -/
  explicitQuant : Option (List Nat × Nat) := none
  /-- option `prediction_scheme` when set -/
  prediction : Option Int := none
deriving Repr, Inhabited

/-- `EncoderOptions` as far as the sequential encoders read them -/
structure EncOpts where
  /-- `GetSpeed()` -/
  speed : Int := 5
  /-- global `use_built_in_attribute_compression` (default true) -/
  builtin : Bool := true
  /-- global `compress_connectivity` (default false) -/
  compressConnectivity : Bool := false
  /-- attribute options by attribute id -/
  atts : List AttOpts := []
deriving Repr, Inhabited

def EncOpts.att (o : EncOpts) (i : Nat) : AttOpts := o.atts.getD i {}

/-- decisions of the encoder that every decoder undoes without knowing how they were taken -/
structure Choices where
  /-- the `double` expressions of `RAnsSymbolEncoder::Create` -/
  oracle : ProbOracle
  /-- INTERNAL: the result of `SelectPredictionMethod(att_id, encoder)` per attribute as seen by the
      per-attribute functions below. It is NOT a free choice of the whole-stream encoder:
      `encodeGeometry` overwrites it with `selectPredictionMethod` computed from geometry and options
      (`Choices.resolved`), so a caller's value is ignored (`encodeGeometry_ignores_selectPrediction`).
      The genuinely `double`-driven choices are the other three fields. -/
  selectPrediction : Nat → Int
  /-- tagged / raw scheme chosen by `EncodeSymbols` for the values of attribute `att_id` -/
  attScheme : Nat → Scheme
  /-- … and for the compressed connectivity -/
  connScheme : Scheme

/-- `SetSymbolEncodingCompressionLevel(&options, 10 - GetSpeed())`: levels outside 0..10 are
    not stored and `EncodeSymbols` falls back to its default 7 -/
def symbolLevel (speed : Int) : Nat :=
  let l := 10 - speed
  if 0 ≤ l ∧ l ≤ 10 then l.toNat else 7

/-! ### attribute values in point order (`LinearSequencer`: point ids 0 … n-1) -/

/-- `GetValue(AttributeValueIndex idx)`: `stride` bytes -/
def valueAt (vals : Array Nat) (stride idx : Nat) : Bytes :=
  (vals.extract (idx * stride) (idx * stride + stride)).toList

/-- `attribute->GetValue(attribute->mapped_index(PointIndex(p)))` for `p = 0 … numPoints-1`.
    (A point map shorter than the number of points is outside the domain: `Geometry.valid`.) -/
def pointRows (a : Attribute) (numPoints : Nat) : List Bytes :=
  let vals := a.values.toArray
  match a.map with
  | none => (List.range numPoints).map (valueAt vals a.stride)
  | some m => (m.take numPoints).map (valueAt vals a.stride)

/-- `Option` sequence -/
def allSome {α : Type} : List (Option α) → Option (List α)
  | [] => some []
  | none :: _ => none
  | some a :: rest =>
    match allSome rest with
    | none => none
    | some as => some (a :: as)

/-- signed integral data types (DT_INT8, DT_INT16, DT_INT32) -/
def isSignedType (dt : Nat) : Bool := dt == 1 || dt == 3 || dt == 5

/-- `ConvertComponentValue<T, int32_t>` for an integral `T` of at most 32 bits given by its
    little endian bytes: the value, or `none` when it does not fit (`uint32_t` above `INT32_MAX`) -/
def convertComponent (dt : Nat) (b : Bytes) : Option Int :=
  let u := leValue b
  if isSignedType dt then some (toSigned (8 * b.length) u)
  else if u > 2^31 - 1 then none else some (u : Int)

/-- `ConvertValue<int32_t>(att_id, out)`: `nc` components of `len` bytes -/
def convertRow (dt len : Nat) : Nat → Bytes → Option (List Int)
  | 0, _ => some []
  | nc+1, row =>
    match convertComponent dt (row.take len), convertRow dt len nc (row.drop len) with
    | some v, some vs => some (v :: vs)
    | _, _ => none

/-- the `nc` float32 bit patterns of one value -/
def rowF32s : Nat → Bytes → List Nat
  | 0, _ => []
  | nc+1, row => leValue (row.take 4) :: rowF32s nc (row.drop 4)

/-! ### portable attributes (`TransformAttributeToPortableFormat` / `PrepareValues`) -/

/-- `SequentialIntegerAttributeEncoder::PrepareValues`: every component converted to `int32_t` -/
def integerPortable (a : Attribute) (rows : List Bytes) : Option (List Int) :=
  match allSome (rows.map (convertRow a.dataType (dataTypeLength a.dataType) a.numComponents)) with
  | none => none
  | some vs => some vs.flatten

/-- one row of `AttributeQuantizationTransform::GeneratePortableAttribute` -/
def quantizeRow (mins : List Nat) (range q : Nat) : Nat → List Nat → List Int
  | _, [] => []
  | c, x :: xs => Quant.quantizeBits mins range q c x :: quantizeRow mins range q (c+1) xs

/-- `AttributeQuantizationTransform::GeneratePortableAttribute(attribute, point_ids, …)` -/
def quantizedPortable (mins : List Nat) (range q nc : Nat) (rows : List Bytes) : List Int :=
  (rows.map fun row => quantizeRow mins range q 0 (rowF32s nc row)).flatten

/-- `SequentialQuantizationAttributeEncoder::Init`: explicit parameters when both options are
    set (`GetAttributeVector` fills at most `num_components` values of a zero initialised
    vector), otherwise `ComputeParameters` over all attribute values in value-index order.
    Result: (min bit patterns, range bit pattern, bits). -/
def quantizationParams (a : Attribute) (o : AttOpts) : Option (List Nat × Nat × Nat) :=
  if o.quantBits < 1 then none else
  if !Quant.isQuantizationValid o.quantBits then none else
  match o.explicitQuant with
  | some (origin, range) =>
    let org := origin.take a.numComponents
    some (org ++ List.replicate (a.numComponents - org.length) 0, range, o.quantBits.toNat)
  | none =>
    let vals := a.values.toArray
    let rows := (List.range a.numValues).map fun i => rowF32s a.numComponents (valueAt vals a.stride i)
    match Quant.computeParametersBits a.numComponents rows with
    | none => none
    | some (mins, range) => some (mins, range, o.quantBits.toNat)

/-- one value of `AttributeOctahedronTransform::GeneratePortableAttribute` -/
def octaRow (t : OctaT) (row : Bytes) : List Int :=
  match rowF32s 3 row with
  | [x, y, z] =>
    let f := fun (n : Nat) => Float32.ofBits n.toUInt32
    let st := Octa.floatVecToCoords t (f x, f y, f z)
    [st.1, st.2]
  | _ => []

def octaPortable (t : OctaT) (rows : List Bytes) : List Int := (rows.map (octaRow t)).flatten

/-! ### prediction (`PredictionSchemeDeltaEncoder`) -/

/-- entries of `nc` values; fuel = length -/
def entriesOf (nc : Nat) : Nat → List Int → List (List Int)
  | 0, _ => []
  | f+1, l => if l.isEmpty then [] else l.take nc :: entriesOf nc f (l.drop nc)

/-- `PredictionSchemeDeltaEncoder::ComputeCorrectionValues`: `out[i] = enc(in[i], in[i-1])`,
    `out[0] = enc(in[0], 0…0)` (the C++ runs from the back because it may work in place) -/
def deltaEncode (enc : List Int → List Int → List Int) : List Int → List (List Int) → List (List Int)
  | _, [] => []
  | prev, e :: es => enc e prev :: deltaEncode enc e es

/-- `ComputeCorrection` of the canonicalized octahedron transform on one entry -/
def octaEnc (t : OctaT) (orig pred : List Int) : List Int :=
  match orig, pred with
  | [o0, o1], [p0, p1] => let c := Octa.encCorr t (o0, o1) (p0, p1); [c.1, c.2]
  | _, _ => orig

/-- does the attribute end up with a (delta) prediction scheme?
    Integer and quantization encoders (`SequentialIntegerAttributeEncoder::Init`):
    `GetPredictionMethodFromOptions` (unset / -1 ↦ `PREDICTION_UNDEFINED`, other values outside
    `[0, NUM_PREDICTION_SCHEMES)` ↦ `PREDICTION_NONE`), `CreatePredictionSchemeForEncoder`
    replaces UNDEFINED by `SelectPredictionMethod`, returns nullptr for NONE, and — the sequential
    encoders have no corner table, so every mesh scheme fails to be created — the delta encoder
    for everything else.
    Normal encoder (`SequentialNormalAttributeEncoder::CreateIntPredictionScheme`): option or
    `SelectPredictionMethod`; GEOMETRIC_NORMAL and DIFFERENCE give the delta encoder, anything
    else nullptr. -/
def predictionEnabledSel (sel : Int) (o : AttOpts) (kind : Nat) : Bool :=
  if kind == 3 then
    let pm := o.prediction.getD sel
    pm == Generated.MESH_PREDICTION_GEOMETRIC_NORMAL || pm == Generated.PREDICTION_DIFFERENCE
  else
    let p := o.prediction.getD (-1)
    let m := if p == -1 then sel
             else if p < 0 || p ≥ Generated.NUM_PREDICTION_SCHEMES then Generated.PREDICTION_NONE else p
    m != Generated.PREDICTION_NONE

/-- … with the result of `SelectPredictionMethod` taken from `ch.selectPrediction` -/
def predictionEnabled (ch : Choices) (o : AttOpts) (i kind : Nat) : Bool :=
  predictionEnabledSel (ch.selectPrediction i) o kind

/-- the raw (`use_built_in_attribute_compression = false`) path of `EncodeValues`:
    `num_bytes = 1 + msb(OR of all values) / 8`, then the low `num_bytes` bytes of every value -/
def rawNumBytes (syms : List Nat) : Nat :=
  let masked := syms.foldl (· ||| ·) 0
  1 + (if masked != 0 then Nat.log2 masked else 0) / 8

def encodeRawValues (syms : List Nat) : Bytes :=
  let nb := rawNumBytes syms
  0 :: nb :: (syms.map (writeLE nb)).flatten

/-- the tail of `EncodeValues`: `EncodeSymbols` (byte 1) or the raw bytes (byte 0) -/
def encodeSymbolBody (ch : Choices) (level : Nat) (builtin : Bool) (i nc : Nat) (syms : List Nat) :
    Option Bytes :=
  if builtin then
    match encodeSymbolsWith ch.oracle (ch.attScheme i) level nc syms with
    | none => none
    | some bs => some (1 :: bs)
  else some (encodeRawValues syms)

/-- `SequentialIntegerAttributeEncoder::EncodeValues` for the portable values `portable`
    (`numEntries * nc` int32 values), `kind` = 1 integer, 2 quantization, 3 normals.
    `numValues` = `attribute()->size()` of the ORIGINAL attribute: nothing at all is written when it
    is 0.  `none`: `EncodeSymbols` fails, or there are no entries while a prediction scheme exists
    (the C++ reads `in_data[0]` of an empty array). -/
def encodeIntegerValues (ch : Choices) (level : Nat) (builtin : Bool) (i kind nc : Nat)
    (pred : Bool) (octa : Option OctaT) (numValues : Nat) (portable : List Int) : Option Bytes :=
  if numValues == 0 then some [] else
  -- since the `fix:` commit: value ranges the wrap transform cannot represent drop the prediction
  let pred := pred && (match Wrap.dataBounds portable with
    | none => true
    | some (mn, mx) => decide (mx - mn < 2^31 - 1))
  if !pred then
    -- ConvertSignedIntsToSymbols on the portable values
    match encodeSymbolBody ch level builtin i nc (portable.map (toSymbol 32)) with
    | none => none
    | some body => some (toUnsigned 8 Generated.PREDICTION_NONE :: body)
  else
    let entries := entriesOf nc portable.length portable
    let zeros : List Int := List.replicate nc 0
    if kind == 3 then
      match octa with
      | none => none
      | some t =>
        if portable.isEmpty then none else
        let corr := (deltaEncode (octaEnc t) zeros entries).flatten
        -- AreCorrectionsPositive: the corrections are stored as they are
        match encodeSymbolBody ch level builtin i nc (corr.map (toUnsigned 32)) with
        | none => none
        | some body =>
          some (toUnsigned 8 Generated.PREDICTION_DIFFERENCE ::
                toUnsigned 8 Generated.PREDICTION_TRANSFORM_NORMAL_OCTAHEDRON_CANONICALIZED ::
                (body ++ Octa.encodeTransformData t))
    else
      -- PredictionSchemeWrapEncodingTransform::Init: bounds of all values
      match Wrap.dataBounds portable with
      | none => none
      | some (mn, mx) =>
        match Wrap.init mn mx with
        | none => none
        | some t =>
          let corr := (deltaEncode (Wrap.encCorrV t) zeros entries).flatten
          match encodeSymbolBody ch level builtin i nc (corr.map (toSymbol 32)) with
          | none => none
          | some body =>
            some (toUnsigned 8 Generated.PREDICTION_DIFFERENCE ::
                  toUnsigned 8 Generated.PREDICTION_TRANSFORM_WRAP ::
                  (body ++ Wrap.encodeTransformData t))

/-! ### one attribute -/

/-- what one `SequentialAttributeEncoder` contributes -/
structure AttEnc where
  desc : AttDesc
  /-- `GetUniqueId()`: 0 generic, 1 integer, 2 quantization, 3 normals -/
  encType : Nat
  /-- generic encoder: the value bytes in point order -/
  raw : Bytes := []
  /-- the portable attribute (int32 values) -/
  portable : List Int := []
  /-- attribute transform parameters -/
  transform : TransformData := .none
  /-- bytes written by `EncodePortableAttribute` -/
  valueBytes : Bytes
  /-- bytes written by `EncodeDataNeededByPortableTransform` -/
  transformBytes : Bytes := []

def descOf (a : Attribute) : AttDesc :=
  { attType := a.attType, dataType := a.dataType, numComponents := a.numComponents,
    normalized := a.normalized, uniqueId := a.uniqueId }

/-- `SequentialAttributeEncodersController::CreateSequentialEncoder` -/
def encoderType (a : Attribute) (o : AttOpts) : Nat :=
  if 1 ≤ a.dataType ∧ a.dataType ≤ 6 then 1
  else if a.dataType = Generated.DT_FLOAT32.toNat ∧ o.quantBits > 0 then
    (if a.attType = Generated.geometryAttribute_NORMAL.toNat then 3 else 2)
  else 0

/-- `Init`, `TransformAttributeToPortableFormat`, `EncodePortableAttribute`,
    `EncodeDataNeededByPortableTransform` of the sequential encoder of attribute `i` -/
def encodeAttribute (ch : Choices) (opts : EncOpts) (numPoints : Nat) (i : Nat) (a : Attribute) :
    Option AttEnc :=
  let o := opts.att i
  let rows := pointRows a numPoints
  let level := symbolLevel opts.speed
  match encoderType a o with
  | 0 =>
    -- SequentialAttributeEncoder::EncodeValues: the raw values entry by entry
    some { desc := descOf a, encType := 0, raw := rows.flatten, valueBytes := rows.flatten }
  | 1 =>
    match integerPortable a rows with
    | none => none
    | some portable =>
      match encodeIntegerValues ch level opts.builtin i 1 a.numComponents
              (predictionEnabled ch o i 1) none a.numValues portable with
      | none => none
      | some vb => some { desc := descOf a, encType := 1, portable := portable, valueBytes := vb }
  | 2 =>
    match quantizationParams a o with
    | none => none
    | some (mins, range, q) =>
      let portable := quantizedPortable mins range q a.numComponents rows
      match encodeIntegerValues ch level opts.builtin i 2 a.numComponents
              (predictionEnabled ch o i 2) none a.numValues portable with
      | none => none
      | some vb =>
        -- AttributeQuantizationTransform::EncodeParameters
        some { desc := descOf a, encType := 2, portable := portable,
               transform := .quantization q mins range, valueBytes := vb,
               transformBytes := mins.flatMap (writeLE 4) ++ writeLE 4 range ++ [q % 256] }
  | _ =>
    -- SequentialNormalAttributeEncoder::Init
    if a.numComponents != 3 then none else
    if o.quantBits < 1 then none else
    let q := o.quantBits.toNat
    -- AttributeOctahedronTransform::GeneratePortableAttribute: SetQuantizationBits may fail
    match Octa.init q with
    | none => none
    | some t =>
      let portable := octaPortable t rows
      -- the prediction transform is constructed from max_value = (1 << q) - 1
      match encodeIntegerValues ch level opts.builtin i 3 2
              (predictionEnabled ch o i 3) (Octa.setMaxQuantizedValue (2^q - 1)) a.numValues portable with
      | none => none
      | some vb =>
        -- AttributeOctahedronTransform::EncodeParameters
        some { desc := descOf a, encType := 3, portable := portable, transform := .octahedron q,
               valueBytes := vb, transformBytes := [q % 256] }

/-! ### the attributes encoder (`SequentialAttributeEncodersController`) -/

/-- one attribute of `AttributesEncoder::EncodeAttributesEncoderData` -/
def descBytes (d : AttDesc) : Bytes :=
  [d.attType % 256, d.dataType % 256, d.numComponents % 256, if d.normalized then 1 else 0]
    ++ encVarint d.uniqueId

def zipIdxFrom {α : Type} : Nat → List α → List (Nat × α)
  | _, [] => []
  | i, a :: as => (i, a) :: zipIdxFrom (i+1) as

/-- `EncodeAttributesEncoderData` followed by `EncodeAttributes` of the single
    `SequentialAttributeEncodersController` that holds all attributes.
    (`RearrangeAttributesEncoders` keeps the order: the delta scheme has no parent attributes.) -/
def encodeSequentialAttributes (ch : Choices) (opts : EncOpts) (numPoints : Nat)
    (atts : List Attribute) : Option (Bytes × List AttEnc) :=
  match allSome ((zipIdxFrom 0 atts).map fun ia => encodeAttribute ch opts numPoints ia.1 ia.2) with
  | none => none
  | some encs =>
    some (encVarint atts.length ++ encs.flatMap (fun e => descBytes e.desc) ++ encs.map (·.encType)
          ++ encs.flatMap (·.valueBytes) ++ encs.flatMap (·.transformBytes), encs)

/-- `PointCloudEncoder::EncodePointAttributes`: the number of attribute encoders (0 without
    attributes, else the one sequential controller) and its data -/
def encodePointAttributes (ch : Choices) (opts : EncOpts) (numPoints : Nat) (atts : List Attribute) :
    Option (Bytes × List AttEnc) :=
  if atts.isEmpty then some ([0], []) else
  match encodeSequentialAttributes ch opts numPoints atts with
  | none => none
  | some (bs, encs) => some (1 :: bs, encs)

/-! ### connectivity of the sequential mesh encoder -/

def flattenFaces (faces : List (Nat × Nat × Nat)) : List Nat :=
  faces.flatMap fun f => [f.1, f.2.1, f.2.2]

/-- the symbols of `CompressAndEncodeIndices`: `(|diff| << 1) | (diff < 0)` of consecutive
    indices, `int32_t` differences (no overflow for indices below 2^31) -/
def indexSymbols : Int → List Nat → List Nat
  | _, [] => []
  | last, v :: rest =>
    let d : Int := (v : Int) - last
    ((2 * d.natAbs + (if d < 0 then 1 else 0)) % 2^32) :: indexSymbols v rest

/-- `MeshSequentialEncoder::EncodeConnectivity`.
    `none`: `EncodeSymbols` fails — its result is IGNORED by `CompressAndEncodeIndices`, which
    then leaves a truncated block (only possible with ≥ 2^18 distinct symbols in the raw scheme). -/
def encodeConnectivity (ch : Choices) (opts : EncOpts) (numPoints : Nat)
    (faces : List (Nat × Nat × Nat)) : Option Bytes :=
  let idx := flattenFaces faces
  let head := encVarint (faces.length % 2^32) ++ encVarint (numPoints % 2^32)
  if opts.compressConnectivity then
    -- options == nullptr: default compression level 7
    match encodeSymbolsWith ch.oracle ch.connScheme 7 1 (indexSymbols 0 idx) with
    | none => none
    | some bs => some (head ++ 0 :: bs)
  else
    let body :=
      if numPoints < 256 then idx.map (· % 256)
      else if numPoints < 2^16 then idx.flatMap (writeLE 2)
      else if numPoints < 2^21 then idx.flatMap (fun v => encVarint (v % 2^32))
      else idx.flatMap (writeLE 4)
    some (head ++ 1 :: body)

/-! ### whole stream -/

/-- `PointCloudEncoder::EncodeHeader` -/
def encodeHeader (isMesh hasMetadata : Bool) : Bytes :=
  [68, 82, 65, 67, 79] ++
  [(if isMesh then Generated.kDracoMeshBitstreamVersionMajor else Generated.kDracoPointCloudBitstreamVersionMajor).toNat,
   (if isMesh then Generated.kDracoMeshBitstreamVersionMinor else Generated.kDracoPointCloudBitstreamVersionMinor).toNat,
   if isMesh then 1 else 0, 0] ++
  writeLE 2 (if hasMetadata then Generated.METADATA_FLAG_MASK.toNat else 0)

/-- `PointCloudEncoder::EncodeMetadata`: fails when `EncodeGeometryMetadata` reports failure
    (current code: `encodeGeometryMetadataStatusFixed`) -/
def encodeMetadataPart : Option GeometryMetadata → Option Bytes
  | none => some []
  | some m => if encodeGeometryMetadataStatusFixed m then some (encodeGeometryMetadata m) else none

/-! ### prediction method selection (pure integer / option logic) -/

/-- `IsDataTypeIntegral` -/
def isIntegralType (dt : Nat) : Bool := (1 ≤ dt && dt ≤ 8) || dt == 11

/-- `PointCloud::GetNamedAttributeId(type)`: the first attribute of that type -/
def namedAttributeId (atts : List Attribute) (t : Nat) : Option Nat :=
  atts.findIdx? fun a => a.attType == t

/-- `SelectPredictionMethod(att_id, options, encoder)` (prediction_scheme_encoder_factory.cc):
    speed ≥ 10 → DIFFERENCE; point clouds → DIFFERENCE; meshes: the texture-coordinate predictor for
    quantized 2-component TEX_COORD attributes when the position attribute is integral or quantized to
    ≤ 21 bits with `2·pos_bits + uv_bits < 64` and speed < 4, the geometric normal predictor for NORMAL
    attributes at speed < 4 when positions are integral or quantized, else DIFFERENCE at speed ≥ 8,
    PARALLELOGRAM at speed ≥ 2 or fewer than 40 points, else CONSTRAINED_MULTI_PARALLELOGRAM.
    (Same function as `EbEnc.selectPredictionMethod` for meshes: `selectPredictionMethod_eq_eb`.) -/
def selectPredictionMethod (isMesh : Bool) (o : EncOpts) (atts : List Attribute) (numPoints attId : Nat) : Int :=
  if o.speed ≥ 10 then Generated.PREDICTION_DIFFERENCE else
  if !isMesh then Generated.PREDICTION_DIFFERENCE else
  let a := atts.getD attId default
  let attQuant := (o.att attId).quantBits
  let posId := namedAttributeId atts Generated.geometryAttribute_POSITION.toNat
  let texCase : Bool :=
    attQuant != -1 && a.attType == Generated.geometryAttribute_TEX_COORD.toNat && a.numComponents == 2 &&
    (match posId with
     | none => false
     | some pid =>
       let pa := atts.getD pid default
       let valid := if isIntegralType pa.dataType then true else
         let pq := (o.att pid).quantBits
         decide (pq > 0) && decide (pq ≤ 21) && decide (2 * pq + attQuant < 64)
       valid && decide (o.speed < 4))
  if texCase then Generated.MESH_PREDICTION_TEX_COORDS_PORTABLE else
  if a.attType == Generated.geometryAttribute_NORMAL.toNat then
    (if o.speed < 4 then
      match posId with
      | none => Generated.PREDICTION_DIFFERENCE
      | some pid =>
        if isIntegralType (atts.getD pid default).dataType || (o.att pid).quantBits > 0 then
          Generated.MESH_PREDICTION_GEOMETRIC_NORMAL
        else Generated.PREDICTION_DIFFERENCE
     else Generated.PREDICTION_DIFFERENCE)
  else if o.speed ≥ 8 then Generated.PREDICTION_DIFFERENCE
  else if o.speed ≥ 2 || numPoints < 40 then Generated.MESH_PREDICTION_PARALLELOGRAM
  else Generated.MESH_PREDICTION_CONSTRAINED_MULTI_PARALLELOGRAM

/-- the choices with `selectPrediction` computed by the model from geometry and options -/
def Choices.resolved (ch : Choices) (g : Geometry) (opts : EncOpts) : Choices :=
  { ch with selectPrediction := selectPredictionMethod g.isMesh opts g.atts g.numPoints }

/-- `PointCloudEncoder::Encode` of `PointCloudSequentialEncoder` / `MeshSequentialEncoder` for given
    results of `SelectPredictionMethod` (`ch.selectPrediction`);
    also returns the per-attribute encoder states (used to state what the decoder returns). -/
def encodeGeometryCore (ch : Choices) (g : Geometry) (md : Option GeometryMetadata) (opts : EncOpts) :
    Option (Bytes × List AttEnc) :=
  match encodeMetadataPart md with
  | none => none
  | some mdBytes =>
    let geomData : Option Bytes :=
      if g.isMesh then encodeConnectivity ch opts g.numPoints g.faces
      -- PointCloudSequentialEncoder::EncodeGeometryData: int32_t num_points
      else some (writeLE 4 (g.numPoints % 2^32))
    match geomData with
    | none => none
    | some gd =>
      match encodePointAttributes ch opts g.numPoints g.atts with
      | none => none
      | some (ab, encs) =>
        some (encodeHeader g.isMesh md.isSome ++ mdBytes ++ gd ++ ab, encs)

/-- `PointCloudEncoder::Encode` of the sequential encoders: the prediction methods are computed from
    geometry and options (`Choices.resolved`), only the `double`-driven decisions come from `ch` -/
def encodeGeometryFull (ch : Choices) (g : Geometry) (md : Option GeometryMetadata) (opts : EncOpts) :
    Option (Bytes × List AttEnc) :=
  encodeGeometryCore (ch.resolved g opts) g md opts

/-- the bytes of the encoded geometry -/
def encodeGeometry (ch : Choices) (g : Geometry) (md : Option GeometryMetadata) (opts : EncOpts) :
    Option Bytes :=
  (encodeGeometryFull ch g md opts).map (·.1)

/-! ### what the decoder is expected to return -/

/-- the attribute the sequential decoder reconstructs from the encoder state `e`: identity for the
    generic and integer encoders, `dequantize ∘ quantize` / `octahedral decode ∘ encode` (the very
    expressions of the decoder applied to the portable values) for the lossy ones; identity point
    map, one value per point -/
def expectedAttribute (numPoints : Nat) (a : Attribute) (e : AttEnc) : Attribute :=
  let values : Bytes :=
    match e.encType with
    | 0 => e.raw
    | 1 => (pointRows a numPoints).flatten
    | 2 =>
      (match e.transform with
       | .quantization bits mins range => (dequantAll range bits.toNat mins e.portable mins []).flatten
       | _ => [])
    | _ =>
      (match e.transform with
       | .octahedron bits => (octaAll bits.toNat e.portable []).flatten
       | _ => [])
  (descOf a).toAttribute numPoints values

/-- the geometry the decoder returns: same points in the same order, same faces in the same order -/
def expectedGeometry (g : Geometry) (encs : List AttEnc) : Geometry :=
  { isMesh := g.isMesh, numPoints := g.numPoints, faces := if g.isMesh then g.faces else [],
    atts := List.zipWith (expectedAttribute g.numPoints) g.atts encs }

/-- the attribute the decoder returns, computed from the input and the options alone (no choices, no
    stream): identity for attributes coded by the generic and integer encoders,
    `dequantize (quantize x)` with the parameters of `quantizationParams` for quantized attributes,
    `octahedral decode (octahedral encode x)` for normals — by the same (float oracle) expressions
    as the encoder and the decoder use -/
def expectedAttributeOf (opts : EncOpts) (numPoints i : Nat) (a : Attribute) : Attribute :=
  let o := opts.att i
  let rows := pointRows a numPoints
  let values : Bytes :=
    match encoderType a o with
    | 0 => rows.flatten
    | 1 => rows.flatten
    | 2 =>
      (match quantizationParams a o with
       | some (mins, range, q) =>
         (dequantAll range q mins (quantizedPortable mins range q a.numComponents rows) mins []).flatten
       | none => [])
    | _ =>
      (match Octa.init o.quantBits.toNat with
       | some t => (octaAll o.quantBits.toNat (octaPortable t rows) []).flatten
       | none => [])
  (descOf a).toAttribute numPoints values

/-- `expected g opts`: what decoding the encoded `g` must return — same points in the same order,
    same faces in the same order, every attribute with identity point map and
    `expectedAttributeOf` values -/
def expected (g : Geometry) (opts : EncOpts) : Geometry :=
  { isMesh := g.isMesh, numPoints := g.numPoints, faces := if g.isMesh then g.faces else [],
    atts := (zipIdxFrom 0 g.atts).map fun ia => expectedAttributeOf opts g.numPoints ia.1 ia.2 }

/-- what a decode with `SetSkipAttributeTransform` for the attribute types `skip` returns for the
    encoder state `e`: attributes of the integer-family encoders whose type is skipped come back as
    their portable attribute (int32 values, transform data attached, `CopyFrom(*portable_attribute)`),
    everything else as in the ordinary decode -/
def expectedAttributeSkip (skip : List Nat) (numPoints : Nat) (a : Attribute) (e : AttEnc) : Attribute :=
  if e.encType != 0 && skip.contains a.attType then
    { attType := a.attType, dataType := Generated.DT_INT32.toNat,
      numComponents := if e.encType == 3 then 2 else a.numComponents, normalized := false,
      uniqueId := a.uniqueId, numValues := numPoints, map := none,
      values := (e.portable.map (intToLE 4)).flatten, transform := e.transform }
  else expectedAttribute numPoints a e

def expectedGeometrySkip (skip : List Nat) (g : Geometry) (encs : List AttEnc) : Geometry :=
  { isMesh := g.isMesh, numPoints := g.numPoints, faces := if g.isMesh then g.faces else [],
    atts := List.zipWith (expectedAttributeSkip skip g.numPoints) g.atts encs }

/-- the portable (int32) values and the transform data of attribute `i`, from input and options alone -/
def portableOf (opts : EncOpts) (numPoints i : Nat) (a : Attribute) : List Int × TransformData :=
  let o := opts.att i
  let rows := pointRows a numPoints
  match encoderType a o with
  | 0 => ([], .none)
  | 1 => ((integerPortable a rows).getD [], .none)
  | 2 =>
    (match quantizationParams a o with
     | some (mins, range, q) => (quantizedPortable mins range q a.numComponents rows, .quantization q mins range)
     | none => ([], .none))
  | _ =>
    (match Octa.init o.quantBits.toNat with
     | some t => (octaPortable t rows, .octahedron o.quantBits.toNat)
     | none => ([], .none))

/-- choice-free form of `expectedAttributeSkip` -/
def expectedSkipAttributeOf (skip : List Nat) (opts : EncOpts) (numPoints i : Nat) (a : Attribute) : Attribute :=
  let ty := encoderType a (opts.att i)
  if ty != 0 && skip.contains a.attType then
    { attType := a.attType, dataType := Generated.DT_INT32.toNat,
      numComponents := if ty == 3 then 2 else a.numComponents, normalized := false,
      uniqueId := a.uniqueId, numValues := numPoints, map := none,
      values := ((portableOf opts numPoints i a).1.map (intToLE 4)).flatten,
      transform := (portableOf opts numPoints i a).2 }
  else expectedAttributeOf opts numPoints i a

/-- `expectedSkip S g opts`: what decoding the encoded `g` with the attribute transforms of the types
    in `S` skipped must return -/
def expectedSkip (skip : List Nat) (g : Geometry) (opts : EncOpts) : Geometry :=
  { isMesh := g.isMesh, numPoints := g.numPoints, faces := if g.isMesh then g.faces else [],
    atts := (zipIdxFrom 0 g.atts).map fun ia => expectedSkipAttributeOf skip opts g.numPoints ia.1 ia.2 }

/-- what the application (or `Spec.skipCheck`) does with an attribute whose transform was skipped:
    reinterpret the values as int32 and apply the inverse transform described by the attached
    transform data (`InverseTransformAttribute`; for plain integer attributes the narrowing cast of
    `StoreValues` to the original data type `dt`) -/
def applySkippedTransform (dt : Nat) (s : Attribute) : Bytes :=
  let portable := (leGroups 4 s.values).map (toSigned 32)
  match s.transform with
  | .none => (portable.map (intToLE (dataTypeLength dt))).flatten
  | .quantization bits mins range => (dequantAll range bits.toNat mins portable mins []).flatten
  | .octahedron bits => (octaAll bits.toNat portable []).flatten

/-- `InverseTransformAttribute` of the quantization transform on the quantized values of one point -/
def dequantRow (range bits : Nat) (mins : List Nat) (ks : List Int) : Bytes :=
  (List.zipWith (fun m k => writeLE 4 (Leaf.dequant range bits m k)) mins ks).flatten

/-- `InverseTransformAttribute` of the octahedron transform on the coordinates of one point -/
def octaRowDecode (q : Nat) (st : List Int) : Bytes :=
  match st with
  | [a, b] =>
    let xyz := Leaf.octaToUnit q a b
    writeLE 4 xyz.1 ++ writeLE 4 xyz.2.1 ++ writeLE 4 xyz.2.2
  | _ => []

/-- what encode + decode do to the value row of ONE point of attribute `i`: nothing (generic and
    integer encoders), `dequantize ∘ quantize`, or `octahedral decode ∘ encode` -/
def transformRow (opts : EncOpts) (i : Nat) (a : Attribute) (row : Bytes) : Bytes :=
  let o := opts.att i
  match encoderType a o with
  | 0 => row
  | 1 => row
  | 2 =>
    (match quantizationParams a o with
     | some (mins, range, q) =>
       dequantRow range q mins (quantizeRow mins range q 0 (rowF32s a.numComponents row))
     | none => [])
  | _ =>
    (match Octa.init o.quantBits.toNat with
     | some t => octaRowDecode o.quantBits.toNat (octaRow t row)
     | none => [])

/-- the quantization request of the options in the form `Spec.check` takes it: unique id ↦ bits for
    the attributes that go through the quantization or the normal encoder -/
def quantReq (g : Geometry) (opts : EncOpts) : List (Nat × Nat) :=
  (zipIdxFrom 0 g.atts).filterMap fun ia =>
    if encoderType ia.2 (opts.att ia.1) ≥ 2 then some (ia.2.uniqueId, (opts.att ia.1).quantBits.toNat)
    else none

/-- all attribute types: the skip set of the "all transforms skipped" decode -/
def allTypes : List Nat := [0, 1, 2, 3, 4]

/-- the prediction scheme bytes at the head of the value block of attribute `i` — prediction method and,
    with a prediction scheme, the transform type — computed from geometry and options ALONE (no choices,
    no stream): empty for the generic encoder and for an attribute without values; `PREDICTION_NONE`
    when the resolved method is NONE or the value range cannot be represented by the wrap transform
    (fix 8ef32e0); else `PREDICTION_DIFFERENCE` with the wrap (integer / quantization) or the
    canonicalized octahedron (normals) transform -/
def schemePrefix (kind : Nat) (pred : Bool) (portable : List Int) : Bytes :=
  let pred' := pred && (match Wrap.dataBounds portable with
    | none => true
    | some (mn, mx) => decide (mx - mn < 2^31 - 1))
  if pred' then
    [toUnsigned 8 Generated.PREDICTION_DIFFERENCE,
     toUnsigned 8 (if kind == 3 then Generated.PREDICTION_TRANSFORM_NORMAL_OCTAHEDRON_CANONICALIZED
                   else Generated.PREDICTION_TRANSFORM_WRAP)]
  else [toUnsigned 8 Generated.PREDICTION_NONE]

def schemeBytesOf (g : Geometry) (opts : EncOpts) (i : Nat) (a : Attribute) : Bytes :=
  let kind := encoderType a (opts.att i)
  if kind == 0 || a.numValues == 0 then [] else
  schemePrefix kind
    (predictionEnabledSel (selectPredictionMethod g.isMesh opts g.atts g.numPoints i) (opts.att i) kind)
    (portableOf opts g.numPoints i a).1

/-- float oracle hypothesis for one normal: the first rounded coordinate computed by
    `FloatVectorToQuantizedOctahedralCoords` has magnitude at most `center_value_` (holds for every
    input as far as tested — the driver op `seqenc` evaluates it on every case; it cannot be proved
    in Lean, where the float operations are opaque) -/
def octaRowOK (t : OctaT) (row : Bytes) : Bool :=
  match rowF32s 3 row with
  | [x, y, z] =>
    decide (iabs (Octa.floatVecRound t (Float32.ofBits x.toUInt32, Float32.ofBits y.toUInt32,
      Float32.ofBits z.toUInt32)).1 ≤ t.center)
  | _ => true

/-- output-level form of the hypothesis on normals (weaker than `octaRowOK`, which implies it —
    `octaRow_entry`): the octahedral coordinates the encoder computed for this normal are a canonical
    point of the grid `[0, max_value_]²` -/
def octaEntryOK (t : OctaT) (e : List Int) : Bool :=
  match e with
  | [a, b] => decide (Octa.inGrid t (a, b)) && decide (Octa.canonical t (a, b))
  | _ => false

end Draco.SeqEnc
