import DracoModel.Basic
/-
  DracoModel.CornerTable — mirrors src/draco/mesh/corner_table.{h,cc}
  (`CornerTable::Create/Init`, `ComputeOppositeCorners`, `BreakNonManifoldEdges`,
  `ComputeVertexCorners`, the accessors) and the walk of
  src/draco/mesh/corner_table_iterators.h (`VertexCornersIterator`).
  `CreateCornerTableFromPositionAttribute / …FromAllAttributes`
  (src/draco/mesh/mesh_misc_functions.cc) only map every face through
  `att->mapped_index(face[j])` resp. `face[j].value()` and call `CornerTable::Create`; the
  input of the model is that face list.

  Representation
  * corner / vertex / face indices are `Nat`; `kInvalidCornerIndex`, `kInvalidVertexIndex`,
    `kInvalidFaceIndex` (0xFFFFFFFF) are `none`.  `opposite_corners_` and `vertex_corners_`
    are `Array (Option Nat)`, `corner_to_vertex_map_` is `Array Nat` (never invalid after
    `Init`).
  * Reads outside an array (undefined behaviour in the C++, never happening for tables built
    by `create`) return `none` / `0`; writes outside are dropped.
  * `ComputeOppositeCorners`: the C++ keeps, for every vertex, a fixed-capacity segment of one
    flat `vertex_edges` array whose used slots always form a prefix of the segment (insertion
    writes the first unused slot, removal shifts the tail one slot down).  The capacity (number
    of corners on the vertex) can never be exceeded because each corner inserts at most one
    half-edge, into the segment of the vertex of its `Next` corner.  The model keeps the used
    prefix of every segment as a `List (sink × corner)` in slot order (`Buckets`); the scan /
    remove / insert operations act on the same entries in the same order.  This restructuring
    is validated against the library on exhaustive / random inputs (see `CornerTableCheck`).
  * Loops: `for` loops over corners/faces are folds over `List.range`; the `while`/`do-while`
    loops take fuel `numCorners + 1`.  Fuel adequacy: see `DracoProofs/CornerTableFuel.lean`.
-/
namespace Draco

/-! ### index helpers -/

/-- `CornerTable::Next` on a valid corner: `LocalIndex(++corner) ? corner : corner - 3`. -/
@[inline] def nextC (c : Nat) : Nat := if (c + 1) % 3 ≠ 0 then c + 1 else c + 1 - 3

/-- `CornerTable::Previous` on a valid corner: `LocalIndex(corner) ? corner - 1 : corner + 2`. -/
@[inline] def prevC (c : Nat) : Nat := if c % 3 ≠ 0 then c - 1 else c + 2

/-- read of an index array; invalid and out of range are `none` -/
@[inline] def oget (a : Array (Option Nat)) (i : Nat) : Option Nat := a.getD i none

/-- read of `corner_to_vertex_map_` -/
@[inline] def vget (a : Array Nat) (i : Nat) : Nat := a.getD i 0

/-- `SwingLeft` = `Next(Opposite(Next(c)))` on the raw opposite table, `c` valid -/
@[inline] def swingLeftA (opp : Array (Option Nat)) (c : Nat) : Option Nat :=
  (oget opp (nextC c)).map nextC

/-- `SwingRight` = `Previous(Opposite(Previous(c)))` on the raw opposite table, `c` valid -/
@[inline] def swingRightA (opp : Array (Option Nat)) (c : Nat) : Option Nat :=
  (oget opp (prevC c)).map prevC

/-- `f` applied `k` times -/
def iter {α : Type} (f : α → α) : Nat → α → α
  | 0, a => a
  | k + 1, a => iter f k (f a)

/-- `CornerTable::IsDegenerated(face)` for a valid face, on a raw corner→vertex map -/
@[inline] def isDegenA (ctv : Array Nat) (f : Nat) : Bool :=
  let v0 := vget ctv (3 * f)
  let v1 := vget ctv (3 * f + 1)
  let v2 := vget ctv (3 * f + 2)
  v0 == v1 || v0 == v2 || v1 == v2

/-! ### input -/

abbrev Faces := Array (Nat × Nat × Nat)

/-- vertex id given in the input for corner `c` (`faces[c / 3][c % 3]`) -/
def inputVertex (faces : Faces) (c : Nat) : Nat :=
  match faces[c / 3]? with
  | none => 0
  | some (a, b, d) => if c % 3 = 0 then a else if c % 3 = 1 then b else d

/-- the input face has a repeated vertex id -/
def faceDegenerate (faces : Faces) (f : Nat) : Bool :=
  match faces[f]? with
  | none => true
  | some (a, b, d) => a == b || a == d || b == d

/-- first loop of `CornerTable::Init`: `corner_to_vertex_map_[3 fi + i] = faces[fi][i]` -/
def initCtv (faces : Faces) : Array Nat :=
  Array.ofFn (n := 3 * faces.size) fun i => inputVertex faces i.val

/-- `num_corners_on_vertices.size()` after the counting loop of `ComputeOppositeCorners`:
    largest vertex id + 1 (0 without corners) -/
def numVerticesOf (ctv : Array Nat) : Nat := ctv.foldl (fun m v => max m (v + 1)) 0

/-! ### ComputeOppositeCorners -/

/-- used prefix of every vertex' segment of `vertex_edges`: `(sink_vert, edge_corner)` -/
abbrev Buckets := Array (List (Nat × Nat))

/-- scan of the sink vertex' segment: first entry whose sink is `src` and whose edge corner is
    not on the vertex `tip` (mirrored faces are not connected); the entry is removed, the rest
    keeps its order (the C++ shifts the tail one slot down). -/
def takeMatch (ctv : Array Nat) (src tip : Nat) :
    List (Nat × Nat) → Option (Nat × List (Nat × Nat))
  | [] => none
  | (s, e) :: rest =>
    if s = src ∧ vget ctv e ≠ tip then some (e, rest)
    else
      match takeMatch ctv src tip rest with
      | none => none
      | some (r, l) => some (r, (s, e) :: l)

structure HEState where
  buckets : Buckets
  opp : Array (Option Nat)

/-- body of the main loop of `ComputeOppositeCorners` for one corner of a non-degenerate face -/
def cocCorner (ctv : Array Nat) (st : HEState) (c : Nat) : HEState :=
  let tip := vget ctv c
  let src := vget ctv (nextC c)
  let snk := vget ctv (prevC c)
  match st with
  | { buckets, opp } =>
    match takeMatch ctv src tip (buckets.getD snk []) with
    | some (e, rest) =>
      { buckets := buckets.setIfInBounds snk rest
        opp := (opp.setIfInBounds c (some e)).setIfInBounds e (some c) }
    | none =>
      { buckets := buckets.modify src (· ++ [(snk, c)])
        opp := opp }

/-- three consecutive iterations of the main loop (one face); a degenerate face is skipped
    (`c += 2; continue`) and counted -/
def cocFace (ctv : Array Nat) (acc : HEState × Nat) (f : Nat) : HEState × Nat :=
  if isDegenA ctv f then (acc.1, acc.2 + 1)
  else (cocCorner ctv (cocCorner ctv (cocCorner ctv acc.1 (3 * f)) (3 * f + 1)) (3 * f + 2), acc.2)

/-- `CornerTable::ComputeOppositeCorners`: (`opposite_corners_`, `num_degenerated_faces_`) -/
def computeOppositeCorners (ctv : Array Nat) : Array (Option Nat) × Nat :=
  let init : HEState :=
    { buckets := Array.replicate (numVerticesOf ctv) [], opp := Array.replicate ctv.size none }
  let r := (List.range (ctv.size / 3)).foldl (cocFace ctv) (init, 0)
  (r.1.opp, r.2)

/-! ### BreakNonManifoldEdges -/

/-- the four `SetOppositeCorner(…, kInvalidCornerIndex)` calls -/
def breakLinks (opp : Array (Option Nat)) (e o : Nat) : Array (Option Nat) :=
  let oe := oget opp e
  let oo := oget opp o
  let opp := match oe with
    | some x => opp.setIfInBounds x none
    | none => opp
  let opp := match oo with
    | some y => opp.setIfInBounds y none
    | none => opp
  (opp.setIfInBounds e none).setIfInBounds o none

/-- `for (auto &&attached_sink_vertex : sink_vertices)`: the edge corner of the first recorded
    sink vertex equal to `sinkV` that does not close the loop -/
def scanSinks (opp : Array (Option Nat)) (sinkV edgeC : Nat) : List (Nat × Nat) → Option Nat
  | [] => none
  | (sv, sc) :: rest =>
    if sv = sinkV then
      if oget opp edgeC = some sc then scanSinks opp sinkV edgeC rest else some sc
    else scanSinks opp sinkV edgeC rest

/-- `while (next_c = SwingLeft(current_c), next_c != first_c && next_c != kInvalid &&
    !visited_corners[next_c]) current_c = next_c;` -/
def bnmeLeft (opp : Array (Option Nat)) (visited : Array Bool) (first : Nat) : Nat → Nat → Nat
  | 0, cur => cur
  | fuel + 1, cur =>
    match swingLeftA opp cur with
    | none => cur
    | some nx => if nx = first ∨ visited.getD nx false then cur else bnmeLeft opp visited first fuel nx

structure BNState where
  opp : Array (Option Nat)
  visited : Array Bool
  updated : Bool

/-- the inner `do { … } while (current_c != first_c && current_c != kInvalidCornerIndex)` -/
def bnmeRight (ctv : Array Nat) (first : Nat) :
    Nat → Nat → List (Nat × Nat) → Array (Option Nat) → Array Bool → BNState
  | 0, _, _, opp, visited => { opp, visited, updated := false }
  | fuel + 1, cur, sinks, opp, visited =>
    let visited := visited.setIfInBounds cur true
    let sinkC := nextC cur
    let sinkV := vget ctv sinkC
    let edgeC := prevC cur
    match scanSinks opp sinkV edgeC sinks with
    | some other => { opp := breakLinks opp edgeC other, visited, updated := true }
    | none =>
      let sinks := sinks ++ [(vget ctv (prevC cur), sinkC)]
      match swingRightA opp cur with
      | none => { opp, visited, updated := false }
      | some nx =>
        if nx = first then { opp, visited, updated := false }
        else bnmeRight ctv first fuel nx sinks opp visited

/-- body of `for (CornerIndex c(0); c < num_corners(); ++c)`; `fuel` bounds the two walks -/
def bnmeCorner (ctv : Array Nat) (fuel : Nat) (st : BNState) (c : Nat) : BNState :=
  if st.visited.getD c false then st
  else
    let first := bnmeLeft st.opp st.visited c fuel c
    let r := bnmeRight ctv first fuel first [] st.opp st.visited
    { r with updated := st.updated || r.updated }

/-- one iteration of the outer `do { … } while (mesh_connectivity_updated)` -/
def bnmePass (ctv : Array Nat) (fuel : Nat) (opp : Array (Option Nat)) (visited : Array Bool) : BNState :=
  (List.range ctv.size).foldl (bnmeCorner ctv fuel) { opp, visited, updated := false }

/-- the outer `do … while` (`inner` = fuel of the walks) -/
def bnmeLoop (ctv : Array Nat) (inner : Nat) : Nat → Array (Option Nat) → Array Bool → Array (Option Nat)
  | 0, opp, _ => opp
  | fuel + 1, opp, visited =>
    let r := bnmePass ctv inner opp visited
    if r.updated then bnmeLoop ctv inner fuel r.opp r.visited else r.opp

/-- `CornerTable::BreakNonManifoldEdges` with every loop bounded by `fuel` -/
def breakNonManifoldEdgesF (ctv : Array Nat) (fuel : Nat) (opp : Array (Option Nat)) : Array (Option Nat) :=
  bnmeLoop ctv fuel fuel opp (Array.replicate ctv.size false)

/-- `CornerTable::BreakNonManifoldEdges` (fuel `numCorners + 1` is never exhausted:
    `DracoProofs/CornerTableFuel.lean`) -/
def breakNonManifoldEdges (ctv : Array Nat) (opp : Array (Option Nat)) : Array (Option Nat) :=
  breakNonManifoldEdgesF ctv (ctv.size + 1) opp

/-! ### ComputeVertexCorners -/

structure VCState where
  ctv : Array Nat
  vc : Array (Option Nat)
  parents : Array Nat
  visitedV : Array Bool
  visitedC : Array Bool

/-- body of the swing-left loop: mark, `vertex_corners_[v] = act_c`, relabel -/
def markL (v : Nat) (nm : Bool) (st : VCState) (act : Nat) : VCState :=
  match st with
  | { ctv, vc, parents, visitedV, visitedC } =>
    { ctv := if nm then ctv.setIfInBounds act v else ctv
      vc := vc.setIfInBounds v (some act)
      parents
      visitedV
      visitedC := visitedC.setIfInBounds act true }

/-- body of the swing-right loop: mark, relabel -/
def markR (v : Nat) (nm : Bool) (st : VCState) (act : Nat) : VCState :=
  match st with
  | { ctv, vc, parents, visitedV, visitedC } =>
    { ctv := if nm then ctv.setIfInBounds act v else ctv
      vc
      parents
      visitedV
      visitedC := visitedC.setIfInBounds act true }

/-- `while (act_c != kInvalidCornerIndex) { …; act_c = SwingLeft(act_c); if (act_c == c) break; }`
    The flag is `act_c == kInvalidCornerIndex` after the loop. -/
def cvcLeft (opp : Array (Option Nat)) (c v : Nat) (nm : Bool) : Nat → Nat → VCState → VCState × Bool
  | 0, _, st => (st, false)
  | fuel + 1, act, st =>
    let st := markL v nm st act
    match swingLeftA opp act with
    | none => (st, true)
    | some nx => if nx = c then (st, false) else cvcLeft opp c v nm fuel nx st

/-- `act_c = SwingRight(c); while (act_c != kInvalidCornerIndex) { …; act_c = SwingRight(act_c); }` -/
def cvcRight (opp : Array (Option Nat)) (v : Nat) (nm : Bool) : Nat → Option Nat → VCState → VCState
  | 0, _, st => st
  | _ + 1, none, st => st
  | fuel + 1, some act, st => cvcRight opp v nm fuel (swingRightA opp act) (markR v nm st act)

/-- body of `for (int k = 0; k < 3; ++k)`; `fuel` bounds the two walks -/
def cvcCorner (opp : Array (Option Nat)) (fuel : Nat) (st : VCState) (c : Nat) : VCState :=
  if st.visitedC.getD c false then st
  else
    let v0 := vget st.ctv c
    let nm := st.visitedV.getD v0 false
    let v := if nm then st.vc.size else v0
    let st : VCState :=
      if nm then
        { st with
          vc := st.vc.push none
          parents := st.parents.push v0
          visitedV := st.visitedV.push false }
      else st
    let st := { st with visitedV := st.visitedV.setIfInBounds v true }
    let r := cvcLeft opp c v nm fuel c st
    if r.2 then cvcRight opp v nm fuel (swingRightA opp c) r.1 else r.1

/-- body of `for (FaceIndex f(0); f < num_faces(); ++f)`; `IsDegenerated` reads the current
    (partially relabelled) `corner_to_vertex_map_` -/
def cvcFace (opp : Array (Option Nat)) (fuel : Nat) (st : VCState) (f : Nat) : VCState :=
  if isDegenA st.ctv f then st
  else cvcCorner opp fuel (cvcCorner opp fuel (cvcCorner opp fuel st (3 * f)) (3 * f + 1)) (3 * f + 2)

/-- `CornerTable::ComputeVertexCorners(num_vertices)` without the final count, every walk bounded
    by `fuel` -/
def computeVertexCornersF (ctv : Array Nat) (opp : Array (Option Nat)) (numVertices fuel : Nat) : VCState :=
  (List.range (ctv.size / 3)).foldl (cvcFace opp fuel)
    { ctv
      vc := Array.replicate numVertices none
      parents := #[]
      visitedV := Array.replicate numVertices false
      visitedC := Array.replicate ctv.size false }

/-- `CornerTable::ComputeVertexCorners(num_vertices)` without the final count -/
def computeVertexCorners (ctv : Array Nat) (opp : Array (Option Nat)) (numVertices : Nat) : VCState :=
  computeVertexCornersF ctv opp numVertices (ctv.size + 1)

/-! ### the table -/

structure CornerTable where
  cornerToVertex : Array Nat
  oppositeCorners : Array (Option Nat)
  vertexCorners : Array (Option Nat)
  nonManifoldVertexParents : Array Nat
  numOriginalVertices : Nat
  numDegeneratedFaces : Nat
  numIsolatedVertices : Nat
  deriving Repr, BEq, DecidableEq

namespace CornerTable

/-- Inputs on which `CornerTable::Init` is defined: every vertex id + 1 and the number of
    corners fit `int` (they are stored in `int num_vertices` / returned by `int num_corners()`,
    and `kInvalidVertexIndex` must not occur as an id).  Outside, the C++ indexes out of bounds
    or throws from `vector::resize`; it never returns `nullptr`. -/
def inDomain (faces : Faces) : Bool :=
  decide (3 * faces.size < 2 ^ 31) &&
    faces.toList.all fun (a, b, d) => decide (a + 1 < 2 ^ 31) && decide (b + 1 < 2 ^ 31) && decide (d + 1 < 2 ^ 31)

/-- `CornerTable::Create` (= `Init`) with every `while` / `do-while` loop bounded by `fuel`. -/
def createF (fuel : Nat) (faces : Faces) : Option CornerTable :=
  if inDomain faces then
    let ctv0 := initCtv faces
    let coc := computeOppositeCorners ctv0
    let numV := numVerticesOf ctv0
    let opp := breakNonManifoldEdgesF ctv0 fuel coc.1
    let st := computeVertexCornersF ctv0 opp numV fuel
    some
      { cornerToVertex := st.ctv
        oppositeCorners := opp
        vertexCorners := st.vc
        nonManifoldVertexParents := st.parents
        numOriginalVertices := numV
        numDegeneratedFaces := coc.2
        numIsolatedVertices := st.visitedV.foldl (fun k b => if b then k else k + 1) 0 }
  else none

/-- `CornerTable::Create` (= `Init`).  `none` exactly outside `inDomain`; inside, the C++ never
    returns `nullptr` (all three passes return `true`).  The fuel `numCorners + 1` is never
    exhausted (`createF_fuel` in `DracoProofs/CornerTableFuel.lean`: more fuel gives the same
    table). -/
def create (faces : Faces) : Option CornerTable := createF (3 * faces.size + 1) faces

def numCorners (ct : CornerTable) : Nat := ct.cornerToVertex.size
def numFaces (ct : CornerTable) : Nat := ct.cornerToVertex.size / 3
def numVertices (ct : CornerTable) : Nat := ct.vertexCorners.size

/-- `Next(corner)`: invalid ↦ invalid -/
def next (_ct : CornerTable) (c : Option Nat) : Option Nat := c.map nextC
/-- `Previous(corner)` -/
def previous (_ct : CornerTable) (c : Option Nat) : Option Nat := c.map prevC
/-- `Opposite(corner)` -/
def opposite (ct : CornerTable) : Option Nat → Option Nat
  | none => none
  | some c => oget ct.oppositeCorners c
/-- `Vertex(corner)`; `kInvalidVertexIndex` is `none` -/
def vertex (ct : CornerTable) : Option Nat → Option Nat
  | none => none
  | some c => some (vget ct.cornerToVertex c)
/-- `Face(corner)` -/
def face (_ct : CornerTable) (c : Option Nat) : Option Nat := c.map (· / 3)
/-- `FirstCorner(face)` -/
def firstCorner (_ct : CornerTable) (f : Option Nat) : Option Nat := f.map (3 * ·)
/-- `LeftMostCorner(v)` -/
def leftMostCorner (ct : CornerTable) (v : Nat) : Option Nat := oget ct.vertexCorners v
/-- `SwingRight(corner)` = `Previous(Opposite(Previous(corner)))` -/
def swingRight (ct : CornerTable) (c : Option Nat) : Option Nat :=
  ct.previous (ct.opposite (ct.previous c))
/-- `SwingLeft(corner)` = `Next(Opposite(Next(corner)))` -/
def swingLeft (ct : CornerTable) (c : Option Nat) : Option Nat :=
  ct.next (ct.opposite (ct.next c))
/-- `VertexParent(vertex)` -/
def vertexParent (ct : CornerTable) (v : Nat) : Nat :=
  if v < ct.numOriginalVertices then v
  else vget ct.nonManifoldVertexParents (v - ct.numOriginalVertices)
/-- `IsDegenerated(face)` -/
def isDegenerated (ct : CornerTable) : Option Nat → Bool
  | none => true
  | some f => isDegenA ct.cornerToVertex f
/-- `IsVertexIsolated(v)` -/
def isVertexIsolated (ct : CornerTable) (v : Nat) : Bool := (ct.leftMostCorner v).isNone
/-- `IsOnBoundary(v)` -/
def isOnBoundary (ct : CornerTable) (v : Nat) : Bool := (ct.swingLeft (ct.leftMostCorner v)).isNone

/-- corners visited by repeated `SwingRight` from `start` until the boundary or `start` again
    (the loop of `VertexCornersIterator` / `ConfidentValence` on a left-most corner);
    `none` = fuel exhausted -/
def fanWalk (ct : CornerTable) (start : Nat) : Nat → Nat → Option (List Nat)
  | 0, _ => none
  | fuel + 1, cur =>
    match ct.swingRight (some cur) with
    | none => some [cur]
    | some nx =>
      if nx = start then some [cur]
      else (fanWalk ct start fuel nx).map (cur :: ·)

/-- the fan of vertex `v`: corners reached from `LeftMostCorner(v)` by `SwingRight` -/
def fan (ct : CornerTable) (v : Nat) : Option (List Nat) :=
  match ct.leftMostCorner v with
  | none => some []
  | some s => fanWalk ct s (ct.numCorners + 1) s

/-- `VertexCornersIterator(table, v)`: swing left from the start corner, at an open boundary
    continue to the right of the start corner. `none` = fuel exhausted. -/
def iterLeft (ct : CornerTable) (start : Nat) : Nat → Nat → Option (List Nat × Bool)
  | 0, _ => none
  | fuel + 1, cur =>
    match ct.swingLeft (some cur) with
    | none => some ([cur], true)
    | some nx =>
      if nx = start then some ([cur], false)
      else (iterLeft ct start fuel nx).map fun r => (cur :: r.1, r.2)

def iterRight (ct : CornerTable) : Nat → Option Nat → Option (List Nat)
  | 0, _ => none
  | _ + 1, none => some []
  | fuel + 1, some cur => (iterRight ct fuel (ct.swingRight (some cur))).map (cur :: ·)

/-- corners enumerated by `VertexCornersIterator<CornerTable>(ct, v)` in order -/
def vertexCorners' (ct : CornerTable) (v : Nat) : Option (List Nat) :=
  match ct.leftMostCorner v with
  | none => some []
  | some s =>
    match iterLeft ct s (ct.numCorners + 1) s with
    | none => none
    | some (l, false) => some l
    | some (l, true) => (iterRight ct (ct.numCorners + 1) (ct.swingRight (some s))).map (l ++ ·)

/-! ### canonical dump (compared with the C++ driver `ct_dump.cc`) -/

def showIdx : Option Nat → String
  | none => "-1"
  | some c => toString c

/-- `numCorners numVertices numParents numOriginal ctv… opp… vertexCorners… parents… numDeg numIso` -/
def dump (ct : CornerTable) : String :=
  let hd := [ct.numCorners, ct.numVertices, ct.nonManifoldVertexParents.size, ct.numOriginalVertices].map toString
  let l := hd ++ ct.cornerToVertex.toList.map toString ++ ct.oppositeCorners.toList.map showIdx
    ++ ct.vertexCorners.toList.map showIdx ++ ct.nonManifoldVertexParents.toList.map toString
    ++ [toString ct.numDegeneratedFaces, toString ct.numIsolatedVertices]
  " ".intercalate l

/-! ### executable checker of property C13 -/

/-- clauses I1, I2, I3 at corner `c` -/
def checkOpp (faces : Faces) (ct : CornerTable) (n c : Nat) : Bool :=
  match ct.opposite (some c) with
  | none => true
  | some o =>
    -- I1
    decide (o < n) && ct.opposite (some o) == some c && o != c && o / 3 != c / 3 &&
    -- I2
    ct.vertexParent (vget ct.cornerToVertex (nextC c)) == ct.vertexParent (vget ct.cornerToVertex (prevC o)) &&
    ct.vertexParent (vget ct.cornerToVertex (prevC c)) == ct.vertexParent (vget ct.cornerToVertex (nextC o)) &&
    -- I3
    !faceDegenerate faces (c / 3)

/-- clauses I4, I5 at corner `c` -/
def checkVert (faces : Faces) (ct : CornerTable) (c : Nat) : Bool :=
  faceDegenerate faces (c / 3) ||
    (let v := vget ct.cornerToVertex c
     decide (v < ct.numVertices) && ct.vertexParent v == inputVertex faces c &&
     match ct.fan v with
     | none => false
     | some l => l.contains c)

/-- decides clauses I1–I5 of C13 for a table `ct` and the input `faces` -/
def consistent (faces : Faces) (ct : CornerTable) : Bool :=
  let n := 3 * faces.size
  ct.cornerToVertex.size == n && ct.oppositeCorners.size == n &&
  ct.vertexCorners.size == ct.numOriginalVertices + ct.nonManifoldVertexParents.size &&
  (List.range n).all fun c => checkOpp faces ct n c && checkVert faces ct c

/-- extra (validated, not proved): the stronger form of I2 in terms of the table's own vertex
    ids, agreement of `IsDegenerated` with the input, and the library iterator enumerating each
    corner of a non-degenerate face exactly under its vertex. -/
def consistentExtra (faces : Faces) (ct : CornerTable) : Bool :=
  let n := 3 * faces.size
  (List.range n).all fun c =>
    (match ct.opposite (some c) with
     | none => true
     | some o =>
       vget ct.cornerToVertex (nextC c) == vget ct.cornerToVertex (prevC o) &&
       vget ct.cornerToVertex (prevC c) == vget ct.cornerToVertex (nextC o)) &&
    ct.isDegenerated (some (c / 3)) == faceDegenerate faces (c / 3) &&
    (faceDegenerate faces (c / 3) ||
      match ct.vertexCorners' (vget ct.cornerToVertex c) with
      | none => false
      | some l => l.count c == 1)

end CornerTable
end Draco
