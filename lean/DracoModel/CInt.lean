/-
  DracoModel.CInt — the C integer semantics used by the mechanically translated functions
  (lean/Generated/Funcs.lean, written by tools/vlib/xlate.py on every run).

  A C integer value is its mathematical value (`Int`).  The result of an arithmetic operation that
  clang types as `T` is reduced into the range of `T` by `wrap…`:
    * unsigned `T` of width w: reduction mod 2^w (this is what the C++ standard says);
    * signed `T` of width w: two's complement wrap-around.  Signed overflow is undefined behaviour in
      C++; the wrap is what g++/clang emit for the build flags of /repo.  The equality theorems of
      `DracoProofs.GeneratedFuncs` hold on the documented ranges where no signed overflow happens, or
      the model wraps at the same place.
  `/` and `%` are `Int.tdiv` / `Int.tmod` (truncation toward zero; division by zero is undefined in
  C++ and yields 0 here).  `>>` on a negative signed value is the arithmetic shift (floor division).
  Shift counts outside `[0, width)` are undefined in C++ and not modelled.

  Core Lean only.
-/
namespace Draco.CInt

def wrapU8 (x : Int) : Int := x % 2^8
def wrapU16 (x : Int) : Int := x % 2^16
def wrapU32 (x : Int) : Int := x % 2^32
def wrapU64 (x : Int) : Int := x % 2^64
def wrapI8 (x : Int) : Int := (x + 2^7) % 2^8 - 2^7
def wrapI16 (x : Int) : Int := (x + 2^15) % 2^16 - 2^15
def wrapI32 (x : Int) : Int := (x + 2^31) % 2^32 - 2^31
def wrapI64 (x : Int) : Int := (x + 2^63) % 2^64 - 2^63

/-- `std::abs` on the mathematical value (the caller wraps the result into the operand type) -/
def cAbs (x : Int) : Int := if x < 0 then -x else x

/-- `a << n` before reduction to the result type -/
def cShl (a n : Int) : Int := a * 2 ^ n.toNat
/-- `a >> n` (arithmetic for negative `a`) -/
def cShr (a n : Int) : Int := a / 2 ^ n.toNat

/-- the `w`-bit pattern of a value -/
def pat (w : Nat) (a : Int) : Nat := (a % 2^w).toNat

/-- `a & b`, `a | b`, `a ^ b` on `w`-bit operands: the result as a `w`-bit pattern in `[0, 2^w)`
    (for a signed result type the caller applies `wrapI…`) -/
def cAnd (w : Nat) (a b : Int) : Int := ((pat w a &&& pat w b : Nat) : Int)
def cOr (w : Nat) (a b : Int) : Int := ((pat w a ||| pat w b : Nat) : Int)
def cXor (w : Nat) (a b : Int) : Int := ((pat w a ^^^ pat w b : Nat) : Int)

/-- `__builtin_clz` on a non-zero `uint32_t` (undefined for 0 in C; 31 − log2 here) -/
def cClz32 (n : Int) : Int := 31 - (Nat.log2 n.toNat : Int)

/-- a write log of a callee (offsets relative to its pointer argument) seen from the caller, whose argument
    was `base + off` -/
def shiftLog (off : Int) (l : List (Int × Int)) : List (Int × Int) := l.map (fun e => (off + e.1, e.2))

/-- `while (c s) s = f s` with at most `fuel + 1` evaluations of the condition: `none` when the condition still holds
    after `fuel` iterations (the translator's bound was too small — the equality theorems show this never happens) -/
def cWhile {σ : Type} : Nat → (σ → Bool) → (σ → σ) → σ → Option σ
  | 0, c, _, s => if c s then none else some s
  | n + 1, c, f, s => if c s then cWhile n c f (f s) else some s

end Draco.CInt
