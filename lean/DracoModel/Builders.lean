import DracoModel.Dedup
/-
  DracoModel.Builders — src/draco/mesh/triangle_soup_mesh_builder.{h,cc} and
  src/draco/point_cloud/point_cloud_builder.{h,cc}.

  The builders are imperative (`Start`, `AddAttribute`*, `Set…Value…`*, `Finalize`).  The model
  takes the complete description at once: every attribute gets a value for every face (resp.
  point); the order of the `Set…` calls is irrelevant because each call writes its own three
  (resp. one) buffer entries and `SetFace(f, {3f, 3f+1, 3f+2})` is the same for every attribute.
  Entries never set stay zero in the C++ (`DataBuffer::Update(nullptr, n)` zero-fills); a spec
  can express that with explicit zero bytes.  The per-face/per-corner marker
  (`SetAttributeElementType`) is not part of `Geometry` and not modelled.
-/
namespace Draco

structure AttSpec where
  attType : Nat
  dataType : Nat
  numComponents : Nat
  normalized : Bool := false
deriving Repr, BEq, DecidableEq

def AttSpec.stride (s : AttSpec) : Nat := dataTypeLength s.dataType * s.numComponents

/-- `SetAttributeValue` copies exactly `byte_stride()` bytes from the caller's pointer -/
def fitBytes (n : Nat) (v : Bytes) : Bytes := (v ++ List.replicate n 0).take n

/-- what the caller supplies for one face of one attribute -/
inductive FaceValue where
  /-- `SetAttributeValuesForFace(att, f, v0, v1, v2)` -/
  | corners (v0 v1 v2 : Bytes)
  /-- `SetPerFaceAttributeValueForFace(att, f, v)`: the value is written to all three corners -/
  | perFace (v : Bytes)
deriving Repr, BEq, DecidableEq

def FaceValue.bytes (n : Nat) : FaceValue → Bytes
  | .corners v0 v1 v2 => fitBytes n v0 ++ fitBytes n v1 ++ fitBytes n v2
  | .perFace v => fitBytes n v ++ fitBytes n v ++ fitBytes n v

structure MeshSpec where
  numFaces : Nat
  /-- one entry per `AddAttribute` call, with the `numFaces` values of that attribute -/
  atts : List (AttSpec × List FaceValue)
deriving Repr

/-- attribute `k` right after `AddAttribute` (identity mapping, `n` values, `unique_id = k`) with
    its buffer filled -/
def AttSpec.toAttribute (s : AttSpec) (k n : Nat) (values : Bytes) : Attribute :=
  { attType := s.attType, dataType := s.dataType, numComponents := s.numComponents,
    normalized := s.normalized, uniqueId := k, numValues := n, map := none, values := values }

/-- the mesh held by the builder just before `Finalize`: `3 * numFaces` points, face `f` =
    `(3f, 3f+1, 3f+2)`, identity-mapped attributes with one value per corner -/
def MeshSpec.soup (s : MeshSpec) : Geometry :=
  { isMesh := true
    numPoints := 3 * s.numFaces
    faces := (List.range s.numFaces).map fun f => (3 * f, 3 * f + 1, 3 * f + 2)
    atts := s.atts.zipIdx.map fun ((a, vals), k) =>
      a.toAttribute k (3 * s.numFaces) ((vals.map (FaceValue.bytes a.stride)).flatten) }

/-- `TriangleSoupMeshBuilder::Finalize`: `DeduplicateAttributeValues` (never fails), then
    `DeduplicatePointIds` -/
def buildMesh (s : MeshSpec) : Geometry := s.soup.dedupValues.dedupPointIds

structure PointCloudSpec where
  numPoints : Nat
  /-- one entry per `AddAttribute` call with the `numPoints` values
      (`SetAttributeValueForPoint` / `SetAttributeValuesForAllPoints`) -/
  atts : List (AttSpec × List Bytes)
  /-- argument of `Finalize` -/
  dedup : Bool
deriving Repr

def PointCloudSpec.raw (s : PointCloudSpec) : Geometry :=
  { isMesh := false
    numPoints := s.numPoints
    faces := []
    atts := s.atts.zipIdx.map fun ((a, vals), k) =>
      a.toAttribute k s.numPoints ((vals.map (fitBytes a.stride)).flatten) }

/-- `PointCloudBuilder::Finalize(deduplicate_points)` -/
def buildPointCloud (s : PointCloudSpec) : Geometry :=
  if s.dedup then s.raw.dedupValues.dedupPointIds else s.raw

end Draco
