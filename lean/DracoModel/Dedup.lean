import DracoModel.Geometry
/-
  DracoModel.Dedup — attribute value / point id deduplication
  (src/draco/attributes/point_attribute.cc `PointAttribute::DeduplicateValues`,
  `DeduplicateTypedValues`, `DeduplicateFormattedValues`; src/draco/point_cloud/point_cloud.cc
  `PointCloud::DeduplicateAttributeValues`, `DeduplicatePointIds`, `ApplyPointIdDeduplication`;
  src/draco/mesh/mesh.cc `Mesh::ApplyPointIdDeduplication`) and the `describes` view of a geometry.

  Facts read off the C++ (all checked against the library by /tmp/slice_G/cpp):
  * `DeduplicateFormattedValues` keys its `unordered_map` by `std::array<HashType, N>` where
    `HashType` is the *unsigned integer* of the same size as the component type; the value is
    `memcpy`-ed into the key.  Lookup therefore uses `std::array<uintK_t, N>::operator==`,
    i.e. equality of the BYTES: `-0.0f` and `+0.0f` are different, two NaNs with the same payload
    are the same.  No floating point comparison is involved.  The hash (`HashArray`) only selects
    buckets; the map is used with `insert` only, never iterated.
  * supported: DT_INT8/UINT8/INT16/UINT16/INT32/UINT32/FLOAT32/BOOL with 1..4 components.  For
    DT_INT64/UINT64/FLOAT64 (`default: return -1`) and for more than 4 components (`return 0`,
    turned into `-1`) nothing is modified.  `PointCloud::DeduplicateAttributeValues` tests
    `!DeduplicateValues(..)`; the result is never 0, so it never fails and silently leaves such
    attributes with their duplicates.
  * `DeduplicatePointIds` keys its `unordered_map<PointIndex, PointIndex, hash, compare>` by the
    tuple of `mapped_index(p)` over all attributes (value INDICES, not values); only `find` and
    `insert` are used, never iteration.
  * after a change of an identity-mapped attribute the C++ creates an explicit map with
    `num_unique_entries_` (= old number of values) entries; only the first `num_points` of them
    are reachable through `mapped_index(p)`, `p < num_points`; the model keeps exactly those.
    Likewise the data buffer keeps its old size; the model keeps the `numValues * stride` bytes
    addressed by valid value indices.
-/
namespace Draco

/-! ### attribute accessors -/

/-- the first `n` entries of `s` bytes each of a buffer (`GetValue(i)` for `i < n`) -/
def chunk (s : Nat) : Nat → Bytes → List Bytes
  | 0, _ => []
  | n + 1, bs => bs.take s :: chunk s n (bs.drop s)

/-- all value entries `GetAddress(i)[0 .. stride)`, `i < size()` -/
def Attribute.entries (a : Attribute) : List Bytes := chunk a.stride a.numValues a.values

/-- `PointAttribute::mapped_index` -/
def Attribute.mappedIndex (a : Attribute) (p : Nat) : Nat :=
  match a.map with
  | none => p
  | some m => m.getD p 0

/-- the explicit map as an array (computed once, before a loop over many points) -/
def Attribute.mapArray (a : Attribute) : Option (Array Nat) := a.map.map List.toArray

/-- `mapped_index` through `mapArray` (`idxOf_mapArray`: `idxOf a.mapArray = a.mappedIndex`).
    Bind the array first (`let ma := a.mapArray`) and call `idxOf ma p`: a closure `idxOf a.mapArray`
    would be eta-expanded by the compiler and rebuild the array at every call. -/
def idxOf (ma : Option (Array Nat)) (p : Nat) : Nat :=
  match ma with
  | none => p
  | some arr => arr.getD p 0

/-- `GetMappedValue(p)` as bytes -/
def Attribute.pointValue (a : Attribute) (p : Nat) : Bytes := a.entries.getD (a.mappedIndex p) []

/-- per-point tuple of attribute value bytes -/
def Geometry.pointTuple (g : Geometry) (p : Nat) : List Bytes := g.atts.map (·.pointValue p)

/-- the faces as triples of per-corner attribute tuples, in face order -/
def Geometry.triangles (g : Geometry) : List (List (List Bytes)) :=
  g.faces.map fun (a, b, c) => [g.pointTuple a, g.pointTuple b, g.pointTuple c]

/-- the points as singleton lists of attribute tuples, in point order -/
def Geometry.points (g : Geometry) : List (List (List Bytes)) :=
  (List.range g.numPoints).map fun p => [g.pointTuple p]

/-- what the geometry describes: the list of triangles (three per-corner tuples each, orientation
    = order of the corners) of a mesh, the list of points (one tuple each) of a point cloud.
    To be compared as multisets (for meshes additionally modulo rotation of the corners). -/
def describes (g : Geometry) : List (List (List Bytes)) :=
  if g.isMesh then g.triangles else g.points

/-! ### first-occurrence deduplication (the `unordered_map::insert` / `find` loops) -/

/-- position of the first element equal to `e` -/
def findIx (e : List Nat) : List (List Nat) → Option Nat
  | [] => none
  | x :: xs => if x = e then some 0 else (findIx e xs).map (· + 1)

/-- The loop `for i: (it, inserted) = map.insert({key_i, unique}); value_map[i] = inserted ?
    unique++ : it->second`.  `seen` is the list of keys inserted so far, in the order of their
    numbers.  Result: all keys in the order of their numbers, and `value_map`. -/
def dedupAux (seen : List (List Nat)) : List (List Nat) → List (List Nat) × List Nat
  | [] => (seen, [])
  | e :: es =>
    match findIx e seen with
    | some j => let r := dedupAux seen es; (r.1, j :: r.2)
    | none => let r := dedupAux (seen ++ [e]) es; (r.1, seen.length :: r.2)

/-! ### the same loop with a hash table (what the C++ does; linear expected time)

  `dedupAux` is the specification used in the proofs; `dedupFast` is the implementation run by the
  model: chained hash table `Array (List (key × number))`, as `std::unordered_map`.  They are equal
  for every number of buckets ≥ 1 and every hash function (`dedupFast_eq` in
  DracoProofs/DedupFast.lean) — the hash only selects the bucket, equality decides. -/

/-- any function works; this one is FNV-like -/
def hashKey (e : List Nat) : Nat := e.foldl (fun h b => (h * 16777619 + b + 1) % 4294967296) 2166136261

structure DTable where
  buckets : Array (List (List Nat × Nat))
  /-- number of keys inserted so far = number handed to the next new key -/
  count : Nat

def DTable.slot (t : DTable) (e : List Nat) : Nat := hashKey e % t.buckets.size

/-- `unordered_map::find` -/
def DTable.find (t : DTable) (e : List Nat) : Option Nat :=
  ((t.buckets.getD (t.slot e) []).find? (fun p => p.1 == e)).map (·.2)

/-- `unordered_map::insert` of a key that is not present -/
def DTable.insert (t : DTable) (e : List Nat) : DTable :=
  { buckets := t.buckets.modify (t.slot e) ((e, t.count) :: ·), count := t.count + 1 }

/-- loop state: table (used linearly, updated in place), keys and `value_map` entries so far in
    reverse order; result: keys in the order of their numbers, `value_map` -/
def dedupFastLoop (t : DTable) (revKeys : List (List Nat)) (revMap : List Nat) :
    List (List Nat) → List (List Nat) × List Nat
  | [] => (revKeys.reverse, revMap.reverse)
  | e :: es =>
    match t.find e with
    | some j => dedupFastLoop t revKeys (j :: revMap) es
    | none =>
      let c := t.count
      dedupFastLoop (t.insert e) (e :: revKeys) (c :: revMap) es

def dedupFast (es : List (List Nat)) : List (List Nat) × List Nat :=
  dedupFastLoop { buckets := Array.replicate (es.length + 1) [], count := 0 } [] [] es

/-! ### PointAttribute::DeduplicateValues -/

/-- the `switch` of `DeduplicateValues` and of `DeduplicateTypedValues` reach
    `DeduplicateFormattedValues` -/
def Attribute.dedupSupported (a : Attribute) : Bool :=
  (a.dataType == 1 || a.dataType == 2 || a.dataType == 3 || a.dataType == 4 || a.dataType == 5 ||
    a.dataType == 6 || a.dataType == 9 || a.dataType == 11) &&
  (1 ≤ a.numComponents && a.numComponents ≤ 4)

/-- `PointAttribute::DeduplicateValues(*this)` of an attribute of a geometry with `numPoints` points -/
def Attribute.dedupValues (numPoints : Nat) (a : Attribute) : Attribute :=
  if a.dedupSupported then
    let r := dedupFast a.entries
    if r.1.length = a.numValues then a      -- "Nothing has changed."
    else
      { a with
        numValues := r.1.length
        values := r.1.flatten
        map := some (match a.map with
          | none => r.2.take numPoints
          | some m => let vm := r.2.toArray; m.map (vm.getD · 0)) }
  else a

/-- `PointCloud::DeduplicateAttributeValues` (always returns `true`) -/
def Geometry.dedupValues (g : Geometry) : Geometry :=
  if g.numPoints = 0 then g
  else { g with atts := g.atts.map (Attribute.dedupValues g.numPoints) }

/-! ### PointCloud::DeduplicatePointIds -/

/-- the tuple compared by `point_compare` / hashed by `point_hash` -/
def Geometry.pointKey (g : Geometry) (p : Nat) : List Nat := g.atts.map (·.mappedIndex p)

/-- `PointCloud::DeduplicatePointIds` + `Mesh::ApplyPointIdDeduplication`.
    `r.1` = keys of `unique_points` in order, `r.2` = `index_map`.  The new map entry of attribute
    number `k` at the new point `j` is `mapped_index(unique_points[j])`, i.e. component `k` of the
    key of that point. -/
def Geometry.dedupPointIds (g : Geometry) : Geometry :=
  let mas := g.atts.map (·.mapArray)
  let r := dedupFast ((List.range g.numPoints).map fun p => mas.map fun ma => idxOf ma p)
  if r.1.length = g.numPoints then g        -- "All vertices are already unique."
  else
    let im := r.2.toArray
    { g with
      numPoints := r.1.length
      faces := g.faces.map fun (a, b, c) => (im.getD a 0, im.getD b 0, im.getD c 0)
      atts := g.atts.zipIdx.map fun (a, k) => { a with map := some (r.1.map (·.getD k 0)) } }

end Draco
