import DracoModel.Varint
/-
  Metadata coding (property C11).

  Mirrors src/draco/metadata/metadata.{h,cc}, geometry_metadata.{h,cc},
  metadata_encoder.{h,cc} and metadata_decoder.{h,cc} **as written**.

  Containers (this decides the order of the stream):
  * `Metadata::entries_`       : `std::map<std::string, EntryValue>`
  * `Metadata::sub_metadatas_` : `std::map<std::string, std::unique_ptr<Metadata>>`
    Both are *ordered* maps; `std::less<std::string>` is `char_traits<char>::compare`, i.e.
    lexicographic comparison of the **unsigned** bytes, a proper prefix being smaller.
    (No `unordered_map` is iterated into the stream.)
  * `GeometryMetadata::att_metadatas_` : `std::vector<std::unique_ptr<AttributeMetadata>>`,
    in `AddAttributeMetadata` order; duplicates of `att_unique_id` are not rejected.

  Hence a C++ `Metadata` object is represented *canonically* by
  `Metadata.mk entries subs` with both lists strictly ascending in `bytesLt` on the names
  (`Metadata.Canonical`). The encoder below is defined on every value of the type (it simply
  walks the lists in the given order, like the range-for loops over the maps); the decoder
  always returns canonical values, because it inserts into `std::map`s.

  An entry value is the raw `std::vector<uint8_t>` of `EntryValue` — `AddEntryInt`,
  `AddEntryDouble`, `AddEntryIntArray`, `AddEntryString`, … only differ in how they `memcpy`
  their argument into that vector, and the decoder always uses `AddEntryBinary`.
-/
namespace Draco

/-- `Metadata`: `entries_` and `sub_metadatas_` in map order. -/
inductive Metadata where
  | mk (entries : List (Bytes × Bytes)) (subs : List (Bytes × Metadata))

namespace Metadata
def entries : Metadata → List (Bytes × Bytes) | .mk e _ => e
def subs : Metadata → List (Bytes × Metadata) | .mk _ s => s
/-- a default constructed `Metadata` -/
def empty : Metadata := .mk [] []
end Metadata

instance : Inhabited Metadata := ⟨Metadata.empty⟩

mutual
/-- decidable equality (the `deriving` handler does not support nested inductive types) -/
def Metadata.decEq : (a b : Metadata) → Decidable (a = b)
  | .mk e1 s1, .mk e2 s2 =>
    if he : e1 = e2 then
      match Metadata.decEqSubs s1 s2 with
      | isTrue hs => isTrue (by rw [he, hs])
      | isFalse hs => isFalse (fun h => by cases h; exact hs rfl)
    else isFalse (fun h => by cases h; exact he rfl)
def Metadata.decEqSubs : (a b : List (Bytes × Metadata)) → Decidable (a = b)
  | [], [] => isTrue rfl
  | [], _ :: _ => isFalse (fun h => by cases h)
  | _ :: _, [] => isFalse (fun h => by cases h)
  | (n1, m1) :: t1, (n2, m2) :: t2 =>
    if hn : n1 = n2 then
      match Metadata.decEq m1 m2 with
      | isTrue hm =>
        match Metadata.decEqSubs t1 t2 with
        | isTrue ht => isTrue (by rw [hn, hm, ht])
        | isFalse ht => isFalse (fun h => by cases h; exact ht rfl)
      | isFalse hm => isFalse (fun h => by cases h; exact hm rfl)
    else isFalse (fun h => by cases h; exact hn rfl)
end

instance : DecidableEq Metadata := Metadata.decEq

/-- `GeometryMetadata`: the vector of `AttributeMetadata` (`att_unique_id`, metadata) in
    insertion order plus the geometry's own `Metadata` base object. -/
structure GeometryMetadata where
  atts : List (Nat × Metadata)
  root : Metadata
  deriving DecidableEq

/-- `std::string::operator<` = lexicographic order on unsigned bytes, prefix first. -/
def bytesLt : Bytes → Bytes → Bool
  | _, [] => false
  | [], _ :: _ => true
  | a :: as, b :: bs => if a < b then true else if b < a then false else bytesLt as bs

/-- `kMaxSubmetadataLevel` of `MetadataDecoder::DecodeMetadata(Metadata *)`. -/
def kMaxSubmetadataLevel : Nat := 1000

/-! ## Encoder -/

/-- `MetadataEncoder::EncodeString`: `none` = returns false (nothing written). -/
def encodeString (s : Bytes) : Option Bytes :=
  if s.length > 255 then none else some (s.length :: s)

/-- The entry loop of `MetadataEncoder::EncodeMetadata`. Returns the bytes appended to the
    buffer and `false` when the loop left the function with `return false`.
    `data_size = static_cast<uint32_t>(entry_value.size())` wraps, and exactly `data_size`
    bytes of the value are written. -/
def encodeEntries : List (Bytes × Bytes) → Bytes × Bool
  | [] => ([], true)
  | (name, value) :: t =>
    match encodeString name with
    | none => ([], false)
    | some nb =>
      let dataSize := value.length % 2^32
      let r := encodeEntries t
      (nb ++ (encVarint dataSize ++ (value.take dataSize ++ r.1)), r.2)

mutual
/-- `MetadataEncoder::EncodeMetadata`: (bytes appended to the buffer, return value).
    When it returns false the bytes written so far stay in the buffer. -/
def encodeNode : Metadata → Bytes × Bool
  | .mk es subs =>
    let hdr := encVarint (es.length % 2^32)
    let e := encodeEntries es
    if e.2 then
      let s := encodeSubs subs
      (hdr ++ (e.1 ++ (encVarint (subs.length % 2^32) ++ s.1)), s.2)
    else (hdr ++ e.1, false)
/-- The sub-metadata loop of `EncodeMetadata`. The return value of the recursive
    `EncodeMetadata(out_buffer, sub_metadata_entry.second.get())` call is **dropped**. -/
def encodeSubs : List (Bytes × Metadata) → Bytes × Bool
  | [] => ([], true)
  | (name, m) :: t =>
    match encodeString name with
    | none => ([], false)
    | some nb =>
      let c := encodeNode m
      let r := encodeSubs t
      (nb ++ (c.1 ++ r.1), r.2)
end

/-- bytes produced by `MetadataEncoder::EncodeMetadata` (whatever it returns) -/
def encodeMetadata (m : Metadata) : Bytes := (encodeNode m).1
/-- return value of `MetadataEncoder::EncodeMetadata` -/
def encodeMetadataStatus (m : Metadata) : Bool := (encodeNode m).2

/-- `EncodeAttributeMetadata` for every element of `att_metadatas_`: varint id followed by
    `EncodeMetadata`, whose result is dropped. -/
def encodeAtts : List (Nat × Metadata) → Bytes
  | [] => []
  | (id, m) :: t => encVarint id ++ (encodeMetadata m ++ encodeAtts t)

/-- bytes produced by `MetadataEncoder::EncodeGeometryMetadata` -/
def encodeGeometryMetadata (g : GeometryMetadata) : Bytes :=
  encVarint (g.atts.length % 2^32) ++ (encodeAtts g.atts ++ encodeMetadata g.root)

/-- return value of `EncodeGeometryMetadata` for a non-null argument: every nested result is
    dropped, the function ends in `return true`. -/
def encodeGeometryMetadataStatus (_g : GeometryMetadata) : Bool := true

/-! ## Decoder -/

/-- `MetadataDecoder::DecodeName` -/
def decodeName : Rd Bytes := fun bs =>
  match readU8 bs with
  | none => none
  | some (len, bs1) => if len = 0 then some ([], bs1) else readBytes len bs1

/-- `std::map` insertion with replacement (`Metadata::AddEntry`: find, erase, insert) on an
    association list kept in **descending** key order (most recent = largest key first, so that
    the already sorted streams written by the encoder are handled in O(1) per entry). -/
def insertDesc {α : Type} (k : Bytes) (v : α) : List (Bytes × α) → List (Bytes × α)
  | [] => [(k, v)]
  | (k', v') :: t =>
    if bytesLt k' k then (k, v) :: (k', v') :: t
    else if bytesLt k k' then (k', v') :: insertDesc k v t
    else (k, v) :: t

/-- `Metadata::AddSubMetadata`: `none` when the name is already present. -/
def insertNewDesc {α : Type} (k : Bytes) (v : α) : List (Bytes × α) → Option (List (Bytes × α))
  | [] => some [(k, v)]
  | (k', v') :: t =>
    if bytesLt k' k then some ((k, v) :: (k', v') :: t)
    else if bytesLt k k' then
      match insertNewDesc k v t with
      | none => none
      | some t' => some ((k', v') :: t')
    else none

/-- `MetadataDecoder::DecodeEntry` (returns the name and the value; the caller inserts).
    `allowEmpty = false` is the code as written: `data_size == 0` is rejected.
    `allowEmpty = true` is the repaired decoder (`decodeMetadataFixed`). -/
def decodeEntry (allowEmpty : Bool) : Rd (Bytes × Bytes) := fun bs =>
  match decodeName bs with
  | none => none
  | some (name, bs1) =>
    match decVarint 32 bs1 with
    | none => none
    | some (dataSize, bs2) =>
      if dataSize = 0 ∧ allowEmpty = false then none
      else if dataSize > bs2.length then none
      else
        match readBytes dataSize bs2 with
        | none => none
        | some (value, bs3) => some ((name, value), bs3)

/-- `for (i < num_entries) DecodeEntry(metadata)`; `acc` is the map so far (descending). -/
def decodeEntries (allowEmpty : Bool) : Nat → List (Bytes × Bytes) → Rd (List (Bytes × Bytes))
  | 0, acc => fun bs => some (acc, bs)
  | n+1, acc => fun bs =>
    match decodeEntry allowEmpty bs with
    | none => none
    | some ((name, value), bs1) => decodeEntries allowEmpty n (insertDesc name value acc) bs1

/-- The `num_sub_metadata` stack tuples `{metadata, nullptr, level}` of one parent: each pop
    decodes a name, creates the child, `AddSubMetadata`s it (fails on a duplicate name) and
    decodes the child's subtree (`child`) before the next sibling is popped — the stack is
    LIFO, so the grandchildren pushed by the child are processed first (depth first,
    pre-order, the order in which the encoder writes them). -/
def decodeSubsWith (child : Rd Metadata) :
    Nat → List (Bytes × Metadata) → Rd (List (Bytes × Metadata))
  | 0, acc => fun bs => some (acc, bs)
  | k+1, acc => fun bs =>
    match decodeName bs with
    | none => none
    | some (name, bs1) =>
      match child bs1 with
      | none => none
      | some (m, bs2) =>
        match insertNewDesc name m acc with
        | none => none
        | some acc' => decodeSubsWith child k acc' bs2

/-- One iteration of the `while (!metadata_stack.empty())` loop of
    `MetadataDecoder::DecodeMetadata(Metadata *)` for a node whose name has been read,
    together with the iterations for its whole subtree.
    `hasParent`/`level` are `mp.parent_metadata != nullptr` / `mp.level`: the children are
    pushed with `mp.parent_metadata ? mp.level + 1 : mp.level` and a popped child is rejected
    when `mp.level > kMaxSubmetadataLevel`.
    The first argument is recursion fuel for the nesting depth only; because of the level
    check `kMaxSubmetadataLevel + 3` is never exhausted (`decodeNode_fuel` in DracoProofs). -/
def decodeNode (allowEmpty : Bool) : Nat → Bool → Nat → Rd Metadata
  | 0, _, _ => fun _ => none
  | f+1, hasParent, level => fun bs =>
    match decVarint 32 bs with
    | none => none
    | some (numEntries, bs1) =>
      match decodeEntries allowEmpty numEntries [] bs1 with
      | none => none
      | some (es, bs2) =>
        match decVarint 32 bs2 with
        | none => none
        | some (numSubs, bs3) =>
          if numSubs > bs3.length then none
          else
            let childLevel := if hasParent then level + 1 else level
            if numSubs ≠ 0 ∧ childLevel > kMaxSubmetadataLevel then none
            else
              match decodeSubsWith (decodeNode allowEmpty f true childLevel) numSubs [] bs3 with
              | none => none
              | some (ss, bs4) => some (.mk es.reverse ss.reverse, bs4)

/-- `MetadataDecoder::DecodeMetadata(DecoderBuffer *, Metadata *)` on a fresh `Metadata`;
    `none` exactly when the C++ returns false. -/
def decodeMetadata : Rd Metadata := decodeNode false (kMaxSubmetadataLevel + 3) false 0

/-- the attribute loop of `DecodeGeometryMetadata` -/
def decodeAtts (node : Rd Metadata) : Nat → List (Nat × Metadata) → Rd (List (Nat × Metadata))
  | 0, acc => fun bs => some (acc.reverse, bs)
  | n+1, acc => fun bs =>
    match decVarint 32 bs with
    | none => none
    | some (id, bs1) =>
      match node bs1 with
      | none => none
      | some (m, bs2) => decodeAtts node n ((id, m) :: acc) bs2

def decodeGeometryWith (node : Rd Metadata) : Rd GeometryMetadata := fun bs =>
  match decVarint 32 bs with
  | none => none
  | some (numAtt, bs1) =>
    match decodeAtts node numAtt [] bs1 with
    | none => none
    | some (atts, bs2) =>
      match node bs2 with
      | none => none
      | some (root, bs3) => some ({ atts := atts, root := root }, bs3)

/-- `MetadataDecoder::DecodeGeometryMetadata` on a fresh `GeometryMetadata`. -/
def decodeGeometryMetadata : Rd GeometryMetadata := decodeGeometryWith decodeMetadata

/-! ## The repaired code

  Model of the C++ after the patch described in DracoProps/C11.lean:
  * encoder: every failure is propagated, and the encoder additionally refuses what the
    stream format / the decoder cannot represent: a value of 2^32 bytes or more, 2^32 or more
    entries / sub-metadata / attribute metadata, and sub-metadata nested deeper than the
    decoder's `kMaxSubmetadataLevel` allows;
  * decoder: `data_size == 0` yields an empty value.
  The bytes written on success are unchanged (`encodeMetadata`).
-/

def entriesOkFixed : List (Bytes × Bytes) → Bool
  | [] => true
  | (name, value) :: t => name.length ≤ 255 && value.length < 2^32 && entriesOkFixed t

mutual
/-- return value of the repaired `EncodeMetadata` for a node at nesting depth `depth`
    (0 = the object passed by the caller) -/
def nodeOkFixed (depth : Nat) : Metadata → Bool
  | .mk es subs =>
    es.length < 2^32 && entriesOkFixed es && subs.length < 2^32 &&
      (subs.isEmpty || depth ≤ kMaxSubmetadataLevel) && subsOkFixed depth subs
def subsOkFixed (depth : Nat) : List (Bytes × Metadata) → Bool
  | [] => true
  | (name, m) :: t => name.length ≤ 255 && nodeOkFixed (depth + 1) m && subsOkFixed depth t
end

def encodeMetadataStatusFixed (m : Metadata) : Bool := nodeOkFixed 0 m

def attsOkFixed : List (Nat × Metadata) → Bool
  | [] => true
  | (id, m) :: t => id < 2^32 && encodeMetadataStatusFixed m && attsOkFixed t

def encodeGeometryMetadataStatusFixed (g : GeometryMetadata) : Bool :=
  g.atts.length < 2^32 && attsOkFixed g.atts && encodeMetadataStatusFixed g.root

def decodeMetadataFixed : Rd Metadata := decodeNode true (kMaxSubmetadataLevel + 3) false 0

def decodeGeometryMetadataFixed : Rd GeometryMetadata := decodeGeometryWith decodeMetadataFixed

/-! ## Building metadata through the public API (used by the validation driver) -/

/-- ascending-order map insertion with replacement: `Metadata::AddEntry` -/
def insertAsc {α : Type} (k : Bytes) (v : α) : List (Bytes × α) → List (Bytes × α)
  | [] => [(k, v)]
  | (k', v') :: t =>
    if bytesLt k k' then (k, v) :: (k', v') :: t
    else if bytesLt k' k then (k', v') :: insertAsc k v t
    else (k, v) :: t

/-- `Metadata::AddEntryBinary` (and every other `AddEntry…` after the `memcpy`) -/
def Metadata.addEntry (m : Metadata) (name value : Bytes) : Metadata :=
  .mk (insertAsc name value m.entries) m.subs

/-- `Metadata::AddSubMetadata`: `none` = returns false -/
def Metadata.addSub (m : Metadata) (name : Bytes) (s : Metadata) : Option Metadata :=
  if m.subs.any (fun p => p.1 == name) then none
  else some (.mk m.entries (insertAsc name s m.subs))

end Draco
