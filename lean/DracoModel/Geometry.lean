import DracoModel.Basic
import DracoModel.Proto
import Generated.Constants
/-
  Geometry as seen through the public API of PointCloud / Mesh / PointAttribute
  (src/draco/point_cloud/point_cloud.h, mesh/mesh.h, attributes/point_attribute.h), the validity
  predicate of C03, and the canonical one-line text form shared with the C++ harness.
-/
namespace Draco

/-- AttributeTransformData as exposed after a decode with `skip_attribute_transform` -/
inductive TransformData where
  | none
  | quantization (bits : Int) (minBits : List Nat) (rangeBits : Nat)   -- float32 bit patterns
  | octahedron (bits : Int)
deriving Repr, BEq, DecidableEq, Inhabited

structure Attribute where
  attType : Nat
  dataType : Nat
  numComponents : Nat
  normalized : Bool
  uniqueId : Nat
  numValues : Nat
  /-- `none` = identity mapping, `some m` = explicit point → value index map -/
  map : Option (List Nat)
  /-- raw value buffer, little endian, `numValues * stride` bytes -/
  values : Bytes
  transform : TransformData := .none
deriving Repr, BEq, DecidableEq, Inhabited

structure Geometry where
  isMesh : Bool
  numPoints : Nat
  faces : List (Nat × Nat × Nat)
  atts : List Attribute
deriving Repr, BEq, DecidableEq

/-- `DataTypeLength` (src/draco/core/draco_types.cc); 0 for invalid types -/
def dataTypeLength (dt : Nat) : Nat :=
  if dt = 1 ∨ dt = 2 ∨ dt = 11 then 1      -- INT8 UINT8 BOOL
  else if dt = 3 ∨ dt = 4 then 2            -- INT16 UINT16
  else if dt = 5 ∨ dt = 6 ∨ dt = 9 then 4   -- INT32 UINT32 FLOAT32
  else if dt = 7 ∨ dt = 8 ∨ dt = 10 then 8  -- INT64 UINT64 FLOAT64
  else 0

def Attribute.stride (a : Attribute) : Nat := dataTypeLength a.dataType * a.numComponents

/-- C03: structural validity of one attribute w.r.t. the number of points -/
def Attribute.valid (a : Attribute) (numPoints : Nat) : Bool :=
  a.numComponents ≥ 1 && dataTypeLength a.dataType ≥ 1 &&
  a.values.length ≥ a.numValues * a.stride &&
  (match a.map with
   | none => a.numValues ≥ numPoints
   | some m => m.length == numPoints && m.all (· < a.numValues))

/-- C03: every face refers to existing points, every point maps to an existing value, storage is large enough -/
def Geometry.valid (g : Geometry) : Bool :=
  g.faces.all (fun (a, b, c) => a < g.numPoints && b < g.numPoints && c < g.numPoints) &&
  g.atts.all (·.valid g.numPoints)

open Proto in
def TransformData.toText : TransformData → String
  | .none => "none"
  | .quantization b m r => s!"q,{b},{r},{joinNats m}"
  | .octahedron b => s!"o,{b}"

open Proto in
def Attribute.toText (a : Attribute) : String :=
  let m := match a.map with
    | none => "id"
    | some m => joinNats m
  s!"{a.attType} {a.dataType} {a.numComponents} {if a.normalized then 1 else 0} {a.uniqueId} {a.numValues} {m} {hexOfBytes a.values} {a.transform.toText}"

open Proto in
def Geometry.toText (g : Geometry) : String :=
  let fl := g.faces.foldr (fun (a, b, c) acc => a :: b :: c :: acc) []
  let head := s!"{if g.isMesh then "mesh" else "pc"} {g.numPoints} {g.faces.length} {joinNats fl} {g.atts.length}"
  g.atts.foldl (fun s a => s ++ " " ++ a.toText) head

def triples : List Nat → List (Nat × Nat × Nat)
  | a :: b :: c :: rest => (a, b, c) :: triples rest
  | _ => []

open Proto in
def TransformData.ofText (s : String) : TransformData :=
  match s.splitOn "," with
  | "q" :: b :: r :: m => .quantization (intOf b) (m.filter (· ≠ "-") |>.map natOf) (natOf r)
  | ["o", b] => .octahedron (intOf b)
  | _ => .none

open Proto in
def parseAtts : Nat → List String → List Attribute
  | 0, _ => []
  | n+1, t :: d :: c :: nz :: u :: nv :: m :: v :: tr :: rest =>
    { attType := natOf t, dataType := natOf d, numComponents := natOf c, normalized := nz == "1",
      uniqueId := natOf u, numValues := natOf nv, map := if m == "id" then none else some (natList m),
      values := bytesOfHex v, transform := TransformData.ofText tr } :: parseAtts n rest
  | _, _ => []

open Proto in
/-- parses the token list produced by `Geometry.toText`; returns the geometry and the remaining tokens -/
def Geometry.ofTokens : List String → Option (Geometry × List String)
  | k :: np :: _nf :: fl :: na :: rest =>
    let n := natOf na
    let atts := parseAtts n rest
    some ({ isMesh := k == "mesh", numPoints := natOf np, faces := triples (natList fl), atts := atts },
          rest.drop (9 * n))
  | _ => none

end Draco
