import DracoModel.Varint
/-
  Bit mode of EncoderBuffer / DecoderBuffer (src/draco/core/encoder_buffer.{h,cc},
  decoder_buffer.{h,cc}).

  Encoder: `StartBitEncoding(required_bits, encode_size)` reserves zero-initialised bytes,
  `PutBits(v, n)` writes the `n` low bits of `v` LSB first, `EndBitEncoding` keeps
  `ceil(bits/8)` bytes and, when `encode_size`, prefixes them with their count as a varint
  (bitstream ≥ 2.2; older streams carry a raw u64).
  Decoder: `StartBitDecoding(decode_size, &size)`, `GetBits(n)` (returns 0 bits past the end of
  the buffer without advancing), `EndBitDecoding` advances by `ceil(bits_decoded/8)` bytes.
-/
namespace Draco

/-- the `n` low bits of `v`, least significant first (`BitEncoder::PutBits`) -/
def bitsOf : Nat → Nat → List Bool
  | 0, _ => []
  | n+1, v => (v % 2 == 1) :: bitsOf n (v / 2)

/-- value of a bit list, least significant first -/
def valOfBits : List Bool → Nat
  | [] => 0
  | b :: bs => (if b then 1 else 0) + 2 * valOfBits bs

/-- pack bits into bytes, LSB first, last byte zero padded -/
def packBits (bits : List Bool) : Bytes :=
  if bits.isEmpty then [] else
    valOfBits (bits.take 8) :: packBits (bits.drop 8)
termination_by bits.length
decreasing_by
  simp only [List.length_drop]
  have : bits.length ≠ 0 := by
    intro h; have := List.length_eq_zero_iff.mp h; simp_all
  omega

/-- `StartBitEncoding … EndBitEncoding` for bitstream ≥ 2.2 -/
def encBitRegion (withSize : Bool) (bits : List Bool) : Bytes :=
  let body := packBits bits
  if withSize then encVarint body.length ++ body else body

/-- state of `DecoderBuffer::BitDecoder`: remaining bytes from the current byte on, bit
    offset inside the current byte, bits decoded so far -/
structure BitReader where
  cur : Bytes
  sh : Nat
  decoded : Nat
deriving Repr

def BitReader.start (bs : Bytes) : BitReader := ⟨bs, 0, 0⟩

/-- `BitDecoder::GetBit` -/
def BitReader.getBit (r : BitReader) : Nat × BitReader :=
  match r.cur with
  | [] => (0, r)
  | b :: rest =>
    let bit := (b / 2^r.sh) % 2
    if r.sh + 1 = 8 then (bit, ⟨rest, 0, r.decoded + 1⟩)
    else (bit, ⟨r.cur, r.sh + 1, r.decoded + 1⟩)

/-- `value |= GetBit() << bit` for bit = 0..n-1 -/
def BitReader.getBitsAux : Nat → Nat → Nat → BitReader → Nat × BitReader
  | 0, _, acc, r => (acc, r)
  | n+1, i, acc, r =>
    let (b, r') := r.getBit
    BitReader.getBitsAux n (i+1) (acc + b * 2^i) r'

/-- `BitDecoder::GetBits(nbits, &x)`; fails for `nbits > 32` -/
def BitReader.getBits (r : BitReader) (n : Nat) : Option (Nat × BitReader) :=
  if n > 32 then none else some (BitReader.getBitsAux n 0 0 r)

/-- bytes consumed by `EndBitDecoding` -/
def BitReader.bytesDecoded (r : BitReader) : Nat := (r.decoded + 7) / 8

/-- `StartBitDecoding(decode_size = true)`: returns the stored size. `legacy` = bitstream
    version < 2.2 (raw u64). -/
def readBitRegionSize (legacy : Bool) : Rd Nat :=
  if legacy then readLE 8 else decVarint 64

end Draco

namespace Draco

/-- the bits written by a sequence of `PutBits(value_i, nbits_i)` calls, given as
    `(nbits_i, value_i)` pairs -/
def putBitsAll (ops : List (Nat × Nat)) : List Bool := ops.flatMap fun p => bitsOf p.1 p.2

/-- a sequence of `GetBits(n_i)` calls; `none` as soon as one of them fails (`n_i > 32`) -/
def BitReader.getMany : List Nat → BitReader → Option (List Nat × BitReader)
  | [], r => some ([], r)
  | n :: ns, r =>
    match r.getBits n with
    | none => none
    | some (v, r') =>
      match BitReader.getMany ns r' with
      | none => none
      | some (vs, r'') => some (v :: vs, r'')

/-- `StartBitDecoding(withSize, &size)`, the `GetBits` calls, `EndBitDecoding`:
    returns the stored size (if any) and the values; the reader continues
    `ceil(bits_decoded/8)` bytes after the start of the bit data. -/
def decBitRegion (legacy withSize : Bool) (widths : List Nat) : Rd (Option Nat × List Nat) := fun bs =>
  let start : Option (Option Nat × Bytes) :=
    if withSize then
      match readBitRegionSize legacy bs with
      | none => none
      | some (s, bs1) => some (some s, bs1)
    else some (none, bs)
  match start with
  | none => none
  | some (sz, bs1) =>
    match (BitReader.start bs1).getMany widths with
    | none => none
    | some (vs, r) => some ((sz, vs), bs1.drop r.bytesDecoded)

end Draco
