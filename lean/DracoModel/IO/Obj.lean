import DracoModel.IO.Common
/-
  DracoModel.IO.Obj — Wavefront OBJ as written by `ObjEncoder` (src/draco/io/obj_encoder.cc) and
  read by `ObjDecoder` (src/draco/io/obj_decoder.cc), at the level of records ("lines"):

      v x y z | vt u v | vn x y z | f a/b/c a/b/c a/b/c …

  The decimal text of a number is abstract: a number token of type `Tok` is produced from a float32
  bit pattern by `NumCodec.print` (C++: `snprintf(buf, 20, "%F", val)`) and read back by
  `NumCodec.parse` (C++: `parser::ParseFloat`).  `DracoModel/IO/ObjText.lean` gives the executable
  text-level instance (`f32Codec`, `render`, `lex`).

  A face corner is a triple of 1-based indices position / texture / normal with 0 = absent; the
  four textual forms `a`, `a/b`, `a//c`, `a/b/c` are exactly the four zero patterns.

  Metadata (material / sub-object names) is not part of `Geometry`, hence the encoder model never
  emits `mtllib` / `usemtl` / `o`; the decoder model answers `unsupported` on them.
-/
namespace Draco.IO.Obj
open Draco Draco.IO

/-- printing / parsing of one float32 (bit pattern) as a number token -/
structure NumCodec (Tok : Type) where
  /-- `ObjEncoder::EncodeFloat` -/
  print : Nat → Tok
  /-- `parser::ParseFloat`; `none` = parse failure -/
  parse : Tok → Option Nat

inductive Line (Tok : Type) where
  | v (x y z : Tok)
  | vt (u v : Tok)
  | vn (x y z : Tok)
  /-- corners: (position, texture, normal) indices as written, 0 = absent -/
  | f (corners : List (Int × Int × Int))
  | mtllib (name : String)
  | usemtl (name : String)
  | o (name : String)
  /-- comments, groups, smoothing, unknown keywords: skipped by the decoder -/
  | other (text : String)
deriving Repr, BEq, DecidableEq

/-! ### writer -/

/-- `GeometryAttribute::ConvertValue<float, k>` for a float32 attribute: the first
    `min(num_components, k)` components bit for bit, missing components `0.0f`. -/
def floatsAt (a : Attribute) (i : Nat) (k : Nat) : List Nat :=
  (List.range k).map (fun c =>
    if c < a.numComponents then leVal ((a.values.drop (i * a.stride + 4 * c)).take 4) else 0)

/-- attribute usable by the writer model: float32 with a complete value table -/
def writable (a : Attribute) : Res Unit :=
  if a.dataType ≠ dtFLOAT32 then .error .unsupported   -- C++ converts integers / doubles to float
  else if a.values.length < a.numValues * a.stride then .error .ub
  else .ok ()

def optWritable : Option Attribute → Res Unit
  | none => .ok ()
  | some a => writable a

def vLines {Tok} (c : NumCodec Tok) (a : Attribute) : List (Line Tok) :=
  (List.range a.numValues).map (fun i =>
    match (floatsAt a i 3).map c.print with
    | [x, y, z] => Line.v x y z
    | _ => Line.other "")

def vtLines {Tok} (c : NumCodec Tok) (a : Attribute) : List (Line Tok) :=
  (List.range a.numValues).map (fun i =>
    match (floatsAt a i 2).map c.print with
    | [x, y] => Line.vt x y
    | _ => Line.other "")

def vnLines {Tok} (c : NumCodec Tok) (a : Attribute) : List (Line Tok) :=
  (List.range a.numValues).map (fun i =>
    match (floatsAt a i 3).map c.print with
    | [x, y, z] => Line.vn x y z
    | _ => Line.other "")

def optIndex (a : Option Attribute) (p : Nat) : Int :=
  match a with
  | none => 0
  | some a => (a.ioMappedIndex p + 1 : Nat)

/-- `ObjEncoder::EncodeFaceCorner` -/
def corner (pos : Attribute) (tex nrm : Option Attribute) (p : Nat) : Int × Int × Int :=
  ((pos.ioMappedIndex p + 1 : Nat), optIndex tex p, optIndex nrm p)

def fLine {Tok} (pos : Attribute) (tex nrm : Option Attribute) (f : Nat × Nat × Nat) : Line Tok :=
  Line.f [corner pos tex nrm f.1, corner pos tex nrm f.2.1, corner pos tex nrm f.2.2]

def optMapValid (a : Option Attribute) (n : Nat) : Bool :=
  match a with
  | none => true
  | some a => a.valid n

/-- the texture-coordinate attribute the writer uses: first TEX_COORD, if non-empty -/
def texOf (g : Geometry) : Option Attribute := (g.ioNamedAtt tTEX_COORD).filter (·.numValues ≠ 0)
/-- the normal attribute the writer uses: first NORMAL, if non-empty -/
def nrmOf (g : Geometry) : Option Attribute := (g.ioNamedAtt tNORMAL).filter (·.numValues ≠ 0)

def optLines {Tok} (f : Attribute → List (Line Tok)) : Option Attribute → List (Line Tok)
  | none => []
  | some a => f a

/-- per-point entries: one `v` record per point, through `mapped_index` -/
def vPts {Tok} (c : NumCodec Tok) (a : Attribute) (n : Nat) : List (Line Tok) :=
  (List.range n).map (fun p =>
    match (floatsAt a (a.ioMappedIndex p) 3).map c.print with
    | [x, y, z] => Line.v x y z
    | _ => Line.other "")

def vtPts {Tok} (c : NumCodec Tok) (a : Attribute) (n : Nat) : List (Line Tok) :=
  (List.range n).map (fun p =>
    match (floatsAt a (a.ioMappedIndex p) 2).map c.print with
    | [x, y] => Line.vt x y
    | _ => Line.other "")

def vnPts {Tok} (c : NumCodec Tok) (a : Attribute) (n : Nat) : List (Line Tok) :=
  (List.range n).map (fun p =>
    match (floatsAt a (a.ioMappedIndex p) 3).map c.print with
    | [x, y, z] => Line.vn x y z
    | _ => Line.other "")

/-- `per_point` of `ObjEncoder::EncodePositions` / `EncodeTextureCoordinates` / `EncodeNormals`:
    `in_mesh_ == nullptr || in_mesh_->num_faces() == 0` -/
def perPoint (g : Geometry) : Bool := !g.isMesh || g.faces.isEmpty

/-- The writer **before** /repo commit 55a4a4d ("OBJ encoder wrote point clouds as value tables …"),
    kept for the historical witnesses of DracoProps/C15.lean and as the mesh branch of `encodeE`:
    all position values, all texture coordinates, all normals (whole value *tables*, not per
    point), then for a mesh one `f` line per face.
    `reject`: no POSITION attribute or an empty one.  The first TEX_COORD / NORMAL attribute is used
    when non-empty; component counts are not checked (`ConvertValue` pads / truncates).
    COLOR, GENERIC and any further attributes are silently dropped. -/
def encodeTablesE {Tok} (c : NumCodec Tok) (g : Geometry) : Res (List (Line Tok)) :=
  match g.ioNamedAtt tPOSITION with
  | none => .error .reject
  | some pos =>
    if pos.numValues = 0 then .error .reject else
    let tex := texOf g
    let nrm := nrmOf g
    match writable pos, optWritable tex, optWritable nrm with
    | .error e, _, _ => .error e
    | _, .error e, _ => .error e
    | _, _, .error e => .error e
    | .ok _, .ok _, .ok _ =>
      if g.isMesh && !(g.faces.all (fun (a, b, c) => a < g.numPoints && b < g.numPoints && c < g.numPoints)
           && pos.valid g.numPoints && optMapValid tex g.numPoints && optMapValid nrm g.numPoints)
      then .error .ub
      else
        .ok (vLines c pos ++ optLines (vtLines c) tex ++ optLines (vnLines c) nrm ++
             (if g.isMesh then g.faces.map (fLine pos tex nrm) else []))

/-- `ObjEncoder::EncodeToBuffer` without metadata.
    Mesh with at least one face: whole value tables and one `f` line per face (`encodeTablesE`).
    Point cloud, or mesh without faces (`perPoint`): the reader pairs the i-th `v` with the i-th
    `vt` / `vn`, so the writer emits one `v` / `vt` / `vn` record **per point**, through the
    point → value maps; no `f` lines.
    `reject`: no POSITION attribute or an empty one.  `ub`: a point maps outside a value table. -/
def encodeE {Tok} (c : NumCodec Tok) (g : Geometry) : Res (List (Line Tok)) :=
  if !perPoint g then encodeTablesE c g else
  match g.ioNamedAtt tPOSITION with
  | none => .error .reject
  | some pos =>
    if pos.numValues = 0 then .error .reject else
    let tex := texOf g
    let nrm := nrmOf g
    match writable pos, optWritable tex, optWritable nrm with
    | .error e, _, _ => .error e
    | _, .error e, _ => .error e
    | _, _, .error e => .error e
    | .ok _, .ok _, .ok _ =>
      if !(pos.valid g.numPoints && optMapValid tex g.numPoints && optMapValid nrm g.numPoints)
      then .error .ub
      else
        .ok (vPts c pos g.numPoints ++ optLines (fun a => vtPts c a g.numPoints) tex ++
             optLines (fun a => vnPts c a g.numPoints) nrm)

def encode {Tok} (c : NumCodec Tok) (g : Geometry) : Option (List (Line Tok)) := (encodeE c g).toOption

/-! ### reader -/

/-- state of the second parsing pass: values read so far (in order) and point → (pos, tex, normal)
    value indices of the corners created so far -/
structure St where
  pos : List Bytes := []
  tex : List Bytes := []
  nrm : List Bytes := []
  corners : List (Nat × Nat × Nat) := []
deriving Repr, BEq, DecidableEq

/-- first pass: number of `v`, `vt`, `vn` records and of triangles -/
structure Counts where
  np : Nat := 0
  nt : Nat := 0
  nn : Nat := 0
  nf : Nat := 0
deriving Repr, BEq, DecidableEq

/-- `kMaxCorners` -/
def maxCorners : Nat := 8

def countLine {Tok} (cn : Counts) : Line Tok → Res Counts
  | .v .. => .ok { cn with np := cn.np + 1 }
  | .vt .. => .ok { cn with nt := cn.nt + 1 }
  | .vn .. => .ok { cn with nn := cn.nn + 1 }
  | .f cs => if cs.length < 3 || cs.length > maxCorners then .error .reject
             else .ok { cn with nf := cn.nf + (cs.length - 2) }
  | .other _ => .ok cn
  | _ => .error .unsupported

def countLines {Tok} : List (Line Tok) → Counts → Res Counts
  | [], cn => .ok cn
  | l :: ls, cn =>
    match countLine cn l with
    | .error e => .error e
    | .ok cn' => countLines ls cn'

def parseAll {Tok} (c : NumCodec Tok) (ts : List Tok) : Option Bytes :=
  match ts with
  | [] => some []
  | t :: r =>
    match c.parse t, parseAll c r with
    | some b, some bs => some (leBytes 4 b ++ bs)
    | _, _ => none

/-- `MapPointToVertexIndices` for one index: positive = 1-based absolute, negative = relative to
    the number of values read so far, 0 (absent) = value 0.  `none`: resolves outside the table
    (the C++ stores the bogus index; later deduplication indexes out of bounds with it). -/
def resolve (idx : Int) (soFar total : Nat) : Option Nat :=
  if idx > 0 then (if idx.toNat - 1 < total then some (idx.toNat - 1) else none)
  else if idx < 0 then
    (if (soFar : Int) + idx ≥ 0 ∧ ((soFar : Int) + idx).toNat < total then some ((soFar : Int) + idx).toNat else none)
  else some 0

def resolveCorner (cn : Counts) (st : St) (cr : Int × Int × Int) : Option (Nat × Nat × Nat) :=
  match resolve cr.1 st.pos.length cn.np,
        (if cn.nt = 0 then some 0 else resolve cr.2.1 st.tex.length cn.nt),
        (if cn.nn = 0 then some 0 else resolve cr.2.2 st.nrm.length cn.nn) with
  | some a, some b, some c => some (a, b, c)
  | _, _, _ => none

/-- `ObjDecoder::Triangulate`: corners (0, t+1, t+2) for t = 0 … k-3 -/
def triangulate {α} (cs : List α) : List α :=
  match cs with
  | c0 :: rest =>
    let rec go : List α → List α
      | a :: b :: r => c0 :: a :: b :: go (b :: r)
      | _ => []
    go rest
  | [] => []

def resolveAll (cn : Counts) (st : St) : List (Int × Int × Int) → Option (List (Nat × Nat × Nat))
  | [] => some []
  | cr :: r =>
    match resolveCorner cn st cr, resolveAll cn st r with
    | some x, some xs => some (x :: xs)
    | _, _ => none

/-- second pass, one record -/
def stepLine {Tok} (c : NumCodec Tok) (cn : Counts) (st : St) : Line Tok → Res St
  | .v x y z =>
    match parseAll c [x, y, z] with
    | none => .error .reject
    | some b => .ok { st with pos := st.pos ++ [b] }
  | .vt u v =>
    match parseAll c [u, v] with
    | none => .error .reject
    | some b => .ok { st with tex := st.tex ++ [b] }
  | .vn x y z =>
    match parseAll c [x, y, z] with
    | none => .error .reject
    | some b => .ok { st with nrm := st.nrm ++ [b] }
  | .f cs =>
    -- `ParseVertexIndices` fails on a zero position index: an error among the first three
    -- corners, silently ends the corner list afterwards (not modelled)
    if (cs.take 3).any (fun cr => cr.1 == 0) then .error .reject
    else if cs.any (fun cr => cr.1 == 0) then .error .unsupported
    else
      match resolveAll cn st (triangulate cs) with
      | none => .error .ub
      | some pts => .ok { st with corners := st.corners ++ pts }
  | .other _ => .ok st
  | _ => .error .unsupported

def stepLines {Tok} (c : NumCodec Tok) (cn : Counts) : List (Line Tok) → St → Res St
  | [], st => .ok st
  | l :: ls, st =>
    match stepLine c cn st l with
    | .error e => .error e
    | .ok st' => stepLines c cn ls st'

def mkAtt (ty nc uid : Nat) (vals : List Bytes) (map : Option (List Nat)) : Attribute :=
  { attType := ty, dataType := dtFLOAT32, numComponents := nc, normalized := false, uniqueId := uid,
    numValues := vals.length, map := map, values := vals.flatten }

/-- the geometry `ObjDecoder::DecodeInternal` holds before deduplication.
    Attribute order: POSITION, TEX_COORD, NORMAL. -/
def assemble (asMesh : Bool) (cn : Counts) (st : St) : Geometry :=
  let ident := cn.nf = 0
  let atts0 := [mkAtt tPOSITION 3 0 st.pos (if ident then none else some (st.corners.map (·.1)))]
  let atts1 := if cn.nt = 0 then atts0 else
    atts0 ++ [mkAtt tTEX_COORD 2 atts0.length st.tex (if ident then none else some (st.corners.map (·.2.1)))]
  let atts2 := if cn.nn = 0 then atts1 else
    atts1 ++ [mkAtt tNORMAL 3 atts1.length st.nrm (if ident then none else some (st.corners.map (·.2.2)))]
  { isMesh := asMesh
    numPoints := if ident then cn.np else 3 * cn.nf
    faces := if asMesh && !ident then (List.range cn.nf).map (fun i => (3 * i, 3 * i + 1, 3 * i + 2)) else []
    atts := atts2 }

/-- `ObjDecoder::DecodeFromBuffer` into a `Mesh` (`asMesh`) or a `PointCloud`
    (`use_metadata = false`, `preserve_polygons = false`, the defaults).
    Without faces the file is read as a point cloud: one point per `v`, identity maps, and the
    numbers of `vt` / `vn` records must be 0 or equal to the number of `v` records.
    With faces: three new points per triangle (polygons with 4–8 corners are fan-triangulated),
    then `DeduplicateAttributeValues` and `DeduplicatePointIds`. -/
def decodeE {Tok} (c : NumCodec Tok) (asMesh : Bool) (lines : List (Line Tok)) : Res Geometry :=
  match countLines lines {} with
  | .error e => .error e
  | .ok cn =>
    if cn.nf = 0 && (cn.np = 0 || (cn.nt > 0 && cn.nt ≠ cn.np) || (cn.nn > 0 && cn.nn ≠ cn.np)) then
      .error .reject
    else
      match stepLines c cn lines {} with
      | .error e => .error e
      | .ok st => .ok (assemble asMesh cn st).ioDedupValues.ioDedupPointIds

def decode {Tok} (c : NumCodec Tok) (asMesh : Bool) (lines : List (Line Tok)) : Option Geometry :=
  (decodeE c asMesh lines).toOption

end Draco.IO.Obj
