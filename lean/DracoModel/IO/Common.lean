import DracoModel.Basic
import DracoModel.Geometry
/-
  DracoModel.IO.Common — pieces shared by the file-format models (STL / PLY / OBJ):

  * result type with three distinguishable failures,
  * little-endian helpers, attribute accessors (`PointAttribute::mapped_index`,
    `GeometryAttribute::GetAddress`, `PointCloud::GetNamedAttributeId`),
  * `PointAttribute::DeduplicateValues` and `PointCloud::DeduplicatePointIds`
    (src/draco/attributes/point_attribute.cc, src/draco/point_cloud/point_cloud.cc,
    src/draco/mesh/mesh.cc) which every text/binary decoder runs on its output,
  * `IO.describes`: the triangle-soup / point-list description property C15 talks about.

  The deduplication functions are written as specifications (first-occurrence tables built by a
  left fold with `List.idxOf`), quadratic in the number of entries; the C++ uses hash maps whose
  observable result (first occurrence wins, new indices in order of first occurrence) is the same.
-/
namespace Draco.IO

/-- Why a reader / writer did not produce a result.
    * `reject`      — the C++ returns an error status / `false`;
    * `unsupported` — the input is outside what this model covers (the C++ may well accept it);
    * `ub`          — the C++ has undefined behaviour on this input (unchecked out-of-bounds read,
                      read of an uninitialised variable, …). -/
inductive Err where
  | reject | unsupported | ub
deriving Repr, BEq, DecidableEq

abbrev Res := Except Err

def Res.toOption {α} : Res α → Option α
  | .ok a => some a
  | .error _ => none

/-- `w` little-endian bytes of `n` -/
def leBytes : Nat → Nat → Bytes
  | 0, _ => []
  | w+1, n => (n % 256) :: leBytes w (n / 256)

/-- value of a little-endian byte string -/
def leVal : Bytes → Nat
  | [] => 0
  | b :: bs => b + 256 * leVal bs

/-- ASCII bytes of a string (all strings used by the writers are ASCII) -/
def ascii (s : String) : Bytes := s.toList.map Char.toNat

/-- `PointAttribute::mapped_index` -/
def _root_.Draco.Attribute.ioMappedIndex (a : Attribute) (p : Nat) : Nat :=
  match a.map with
  | none => p
  | some m => m.getD p 0

/-- the `byte_stride` bytes at `GeometryAttribute::GetAddress(i)` -/
def _root_.Draco.Attribute.ioValueAt (a : Attribute) (i : Nat) : Bytes :=
  (a.values.drop (i * a.stride)).take a.stride

/-- value bytes of point `p` (`GetAddress(mapped_index(p))`) -/
def _root_.Draco.Attribute.ioPointValue (a : Attribute) (p : Nat) : Bytes :=
  a.ioValueAt (a.ioMappedIndex p)

/-- the value table as a list of `numValues` entries -/
def _root_.Draco.Attribute.ioTable (a : Attribute) : List Bytes :=
  (List.range a.numValues).map a.ioValueAt

/-- `PointCloud::GetNamedAttributeId(type)` followed by `attribute(id)`: the first attribute of
    the given type (`named_attribute_index_[type][0]`). -/
def _root_.Draco.Geometry.ioNamedAtt (g : Geometry) (ty : Nat) : Option Attribute :=
  g.atts.find? (·.attType == ty)

/-- POSITION / NORMAL / COLOR / TEX_COORD / GENERIC (`GeometryAttribute::Type`) -/
abbrev tPOSITION : Nat := 0
abbrev tNORMAL : Nat := 1
abbrev tCOLOR : Nat := 2
abbrev tTEX_COORD : Nat := 3
abbrev tGENERIC : Nat := 4
/-- `DataType` values -/
abbrev dtINT8 : Nat := 1
abbrev dtUINT8 : Nat := 2
abbrev dtINT16 : Nat := 3
abbrev dtUINT16 : Nat := 4
abbrev dtINT32 : Nat := 5
abbrev dtUINT32 : Nat := 6
abbrev dtINT64 : Nat := 7
abbrev dtUINT64 : Nat := 8
abbrev dtFLOAT32 : Nat := 9
abbrev dtFLOAT64 : Nat := 10
abbrev dtBOOL : Nat := 11

/-! ### first-occurrence tables -/

/-- One step of the hash-map loops of `DeduplicateFormattedValues` / `DeduplicatePointIds`:
    `st.1` = unique entries so far (in order of first occurrence), `st.2` = old index → new
    index. -/
def dedupStep {α} [BEq α] (st : List α × List Nat) (v : α) : List α × List Nat :=
  let k := st.1.idxOf v
  if k < st.1.length then (st.1, st.2 ++ [k]) else (st.1 ++ [v], st.2 ++ [st.1.length])

/-- unique entries in order of first occurrence, and the old → new index map -/
def dedupTable {α} [BEq α] (vals : List α) : List α × List Nat :=
  vals.foldl dedupStep ([], [])

/-- data types / component counts for which `PointAttribute::DeduplicateValues` does something
    (float32, (u)int8/16/32, bool; 1–4 components); in every other case it returns a non-zero
    value without touching the attribute, which callers treat as success. -/
def dedupSupported (a : Attribute) : Bool :=
  (a.dataType = dtFLOAT32 || a.dataType = dtINT8 || a.dataType = dtUINT8 || a.dataType = dtBOOL ||
   a.dataType = dtUINT16 || a.dataType = dtINT16 || a.dataType = dtUINT32 || a.dataType = dtINT32) &&
  (1 ≤ a.numComponents && a.numComponents ≤ 4)

/-- new point → value map after the value table was compacted with old → new value map `t2` -/
def remap (m : Option (List Nat)) (t2 : List Nat) : List Nat :=
  match m with
  | none => t2
  | some m => m.map (fun v => t2.getD v 0)

/-- `PointAttribute::DeduplicateValues(*this)`: bitwise deduplication of the value table.
    When the mapping is the identity the new explicit map has one entry per *old value*
    (`SetExplicitMapping(num_unique_entries_)`); in all decoders that equals the point count. -/
def _root_.Draco.Attribute.ioDedupValues (a : Attribute) : Attribute :=
  if !dedupSupported a then a else
  let t := dedupTable a.ioTable
  if t.1.length == a.numValues then a else
  { a with
    numValues := t.1.length
    values := t.1.flatten
    map := some (remap a.map t.2) }

/-- `PointCloud::DeduplicateAttributeValues` -/
def _root_.Draco.Geometry.ioDedupValues (g : Geometry) : Geometry :=
  if g.numPoints == 0 then g else { g with atts := g.atts.map (·.ioDedupValues) }

/-- `PointCloud::DeduplicatePointIds` + `Mesh::ApplyPointIdDeduplication`: points with the same
    value index in every attribute are merged (first occurrence wins, new ids in order of first
    occurrence); all maps become explicit; faces are renumbered. -/
def _root_.Draco.Geometry.ioDedupPointIds (g : Geometry) : Geometry :=
  let tuples := (List.range g.numPoints).map (fun p => g.atts.map (·.ioMappedIndex p))
  let t := dedupTable tuples
  if t.1.length == g.numPoints then g else
  { g with
    numPoints := t.1.length
    faces := g.faces.map (fun (a, b, c) => (t.2.getD a 0, t.2.getD b 0, t.2.getD c 0))
    atts := g.atts.zipIdx.map (fun (a, i) => { a with map := some (t.1.map (fun tp => tp.getD i 0)) }) }

/-! ### what a geometry "is" for property C15 -/

/-- per-corner value bytes of one attribute over all faces, in face order -/
def cornerValues (a : Attribute) (faces : List (Nat × Nat × Nat)) : List (Bytes × Bytes × Bytes) :=
  faces.map (fun (x, y, z) => (a.ioPointValue x, a.ioPointValue y, a.ioPointValue z))

/-- per-point value bytes of one attribute, in point order -/
def pointValues (a : Attribute) (numPoints : Nat) : List Bytes :=
  (List.range numPoints).map a.ioPointValue

/-- the tuple of all attribute values at a point (one entry per attribute, tagged with the
    attribute type) -/
def pointTuple (g : Geometry) (p : Nat) : List (Nat × Bytes) :=
  g.atts.map (fun a => (a.attType, a.ioPointValue p))

/-- Description of a geometry as property C15 sees it: for a mesh the list of triangles, each a
    triple of per-corner attribute-value tuples (a triangle soup: point numbering, value-table
    layout and unused points are invisible); for a point cloud the list of per-point tuples.
    "Same geometry" = equal `describes` (as lists — all three formats preserve order — hence also
    as multisets). -/
inductive Description where
  | triangles (ts : List (List (Nat × Bytes) × List (Nat × Bytes) × List (Nat × Bytes)))
  | points (ps : List (List (Nat × Bytes)))
deriving Repr, BEq, DecidableEq

def describes (g : Geometry) : Description :=
  if g.isMesh then
    .triangles (g.faces.map (fun (x, y, z) => (pointTuple g x, pointTuple g y, pointTuple g z)))
  else
    .points ((List.range g.numPoints).map (pointTuple g))

/-- restriction of a geometry to the attributes whose type satisfies `keep` (used to state what
    a format preserves when it drops some attributes) -/
def restrictAtts (keep : Nat → Bool) (g : Geometry) : Geometry :=
  { g with atts := g.atts.filter (fun a => keep a.attType) }

end Draco.IO
