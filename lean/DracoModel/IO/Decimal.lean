import DracoModel.Basic
/-
  DracoModel.IO.Decimal — the decimal text of numbers in OBJ files, exactly as the C++ produces and
  consumes it:

  * writer: `ObjEncoder::EncodeFloat` (src/draco/io/obj_encoder.cc) =
    `snprintf(num_buffer_, 20, "%F", val)`: the float is promoted to double (exact) and printed in
    fixed notation with 6 decimals; glibc prints the **exactly rounded** (half-to-even on the exact
    binary value) 6-decimal expansion, `INF` / `NAN` in upper case, and `snprintf` cuts the text
    after 19 characters.  `dec6Scaled` is that rounding as an integer computation, `fmtChars` the text.
  * reader: `parser::ParseFloat` (src/draco/io/parser_utils.cc): optional sign, integer digits
    (`v *= 10.0; v += ch - '0'`), optional fraction (`fraction *= 0.1; v += (ch - '0') * fraction`),
    `inf`/`Inf`/`nan`/`NaN`, optional exponent (`v *= pow(10.0, e)`), all in `double`, then
    `static_cast<float>(sign < 0 ? -v : v)`.  The arithmetic is behind the interface `DecOps`
    (executable instance: Lean's `Float` = the machine's binary64; proofs: ℚ with a rounding oracle).
-/
namespace Draco.IO.Dec

/-! ### digits -/

/-- `w` decimal digits of `m`, most significant first (`m % 10^w` when `m` is larger) -/
def fixedDigits : Nat → Nat → List Nat
  | 0, _ => []
  | w+1, m => (m / 10^w) % 10 :: fixedDigits w m

/-- drops leading zeros, keeping the last digit -/
def stripZeros : List Nat → List Nat
  | 0 :: d :: r => stripZeros (d :: r)
  | l => l

/-- decimal digits of `n`, most significant first, no leading zero, at least one digit
    (`n < 2^(log2 n + 1) ≤ 10^(log2 n + 1)`) -/
def natDigits (n : Nat) : List Nat := stripZeros (fixedDigits (n.log2 + 1) n)

def digitChar (d : Nat) : Char := Char.ofNat (48 + d)

/-! ### writer -/

/-- round-half-even of `a / 2^k` -/
def divPow2RoundEven (a k : Nat) : Nat :=
  let q := a / 2^k
  let r := a % 2^k
  let half := 2^k / 2
  if k = 0 then a
  else if r > half then q + 1
  else if r < half then q
  else if q % 2 = 0 then q else q + 1

/-- mantissa and exponent of a finite float32 bit pattern: `|x| = mant · 2^ex` -/
def f32Mant (bits : Nat) : Nat :=
  let e := (bits / 2^23) % 256
  if e = 0 then bits % 2^23 else bits % 2^23 + 2^23

def f32Exp (bits : Nat) : Int := ((if (bits / 2^23) % 256 = 0 then 1 else (bits / 2^23) % 256 : Nat) : Int) - 150

def f32Neg (bits : Nat) : Bool := (bits / 2^31) % 2 = 1

def f32Finite (bits : Nat) : Bool := (bits / 2^23) % 256 ≠ 255

/-- `|x| · 10^6` rounded to the nearest integer, ties to even: what `printf("%.6F")` prints without
    the decimal point -/
def dec6Scaled (bits : Nat) : Nat :=
  let mant := f32Mant bits
  let ex := f32Exp bits
  if ex ≥ 0 then mant * 2^ex.toNat * 1000000
  else divPow2RoundEven (mant * 1000000) (-ex).toNat

/-- characters of `printf("%F")` of a float32, without length limit -/
def fmtCharsFull (bits : Nat) : List Char :=
  let sg := if f32Neg bits then ['-'] else []
  if !f32Finite bits then sg ++ (if bits % 2^23 = 0 then ['I', 'N', 'F'] else ['N', 'A', 'N'])
  else
    let s := dec6Scaled bits
    sg ++ (natDigits (s / 1000000)).map digitChar ++ '.' :: (fixedDigits 6 (s % 1000000)).map digitChar

/-- `snprintf(num_buffer_, sizeof(num_buffer_), "%F", val)` with `char num_buffer_[20]` -/
def fmtChars (bits : Nat) : List Char := (fmtCharsFull bits).take 19

/-! ### reader -/

/-- the `double` operations of `parser::ParseFloat` -/
class DecOps (D : Type) where
  /-- `0.0` -/
  zero : D
  /-- `1.0` -/
  one : D
  /-- `10.0` -/
  ten : D
  /-- the literal `0.1` -/
  tenth : D
  /-- `(ch - '0')` converted to `double` -/
  ofDigit : Nat → D
  /-- `a + b` on `double` -/
  add : D → D → D
  /-- `a * b` on `double` -/
  mul : D → D → D
  /-- `pow(10.0, e)` -/
  pow10 : Int → D
  /-- `std::numeric_limits<double>::infinity()` -/
  inf : D
  /-- `nan("")` -/
  nan : D

def isDigitC (c : Char) : Bool := '0' ≤ c && c ≤ '9'

/-- `parser::ParseUnsignedInt` (uint32 wrap-around); `none` without digits -/
def parseUInt (cs : List Char) : Option (Nat × List Char) :=
  let ds := cs.takeWhile isDigitC
  if ds.isEmpty then none
  else some (ds.foldl (fun v c => (v * 10 + (c.toNat - 48)) % 2^32) 0, cs.dropWhile isDigitC)

/-- `parser::ParseSignedInt`: value as int32 -/
def parseSInt (cs : List Char) : Option (Int × List Char) :=
  let (neg, r) := match cs with
    | '-' :: r => (true, r)
    | '+' :: r => (false, r)
    | _ => (false, cs)
  match parseUInt r with
  | none => none
  | some (v, rest) => some (toSigned 32 (if neg then (2^32 - v) % 2^32 else v), rest)

variable {D : Type} [ops : DecOps D]

/-- integer-part loop: `v *= 10.0; v += (ch - '0')` -/
def intLoop : List Char → D → Bool → D × Bool × List Char
  | c :: r, v, hd =>
    if isDigitC c then intLoop r (ops.add (ops.mul v ops.ten) (ops.ofDigit (c.toNat - 48))) true
    else (v, hd, c :: r)
  | [], v, hd => (v, hd, [])

/-- fraction loop: `fraction *= 0.1; v += (ch - '0') * fraction` -/
def fracLoop : List Char → D → D → Bool → D × Bool × List Char
  | c :: r, v, fr, hd =>
    if isDigitC c then
      let fr' := ops.mul fr ops.tenth
      fracLoop r (ops.add v (ops.mul (ops.ofDigit (c.toNat - 48)) fr')) fr' true
    else (v, hd, c :: r)
  | [], v, _, hd => (v, hd, [])

/-- outcome of `parser::ParseFloat` before the conversion to `float`: sign, the `double` magnitude
    `v`, whether `v` (if it is a NaN) carries the sign bit, and the unread characters -/
structure Parsed (D : Type) where
  neg : Bool
  mag : D
  nanNeg : Bool
  rest : List Char

/-- optional sign (`GetSignValue`): `(negative, characters after the sign)` -/
def splitSign (cs : List Char) : Bool × List Char :=
  match cs with
  | c :: r => if c = '-' then (true, r) else if c = '+' then (false, r) else (false, cs)
  | [] => (false, [])

/-- `parser::ParseFloat` after the sign -/
def parseMag (neg : Bool) (r0 : List Char) : Option (Parsed D) :=
  let i := intLoop r0 ops.zero false
  let f : D × Bool × List Char := match i.2.2 with
    | c :: r => if c = '.' then fracLoop r i.1 ops.one i.2.1 else i
    | [] => i
  if !f.2.1 then
    -- `ParseString`: the rest of the token
    let text := String.ofList (f.2.2.takeWhile (fun c => !c.isWhitespace))
    let rest := f.2.2.dropWhile (fun c => !c.isWhitespace)
    if text == "inf" || text == "Inf" then some ⟨neg, ops.inf, false, rest⟩
    else if text == "nan" || text == "NaN" then some ⟨neg, ops.nan, false, rest⟩
    else none
  else
    match f.2.2 with
    | c :: r =>
      if c = 'e' ∨ c = 'E' then
        match parseSInt r with
        | none => none
        | some (ex, rest) => some ⟨neg, ops.mul f.1 (ops.pow10 ex), true, rest⟩
      else some ⟨neg, f.1, false, c :: r⟩
    | [] => some ⟨neg, f.1, false, []⟩

/-- `parser::ParseFloat` on the characters of one token, up to `*value = sign < 0 ? -v : v` -/
def parseCore (cs : List Char) : Option (Parsed D) :=
  if cs.isEmpty then none else parseMag (splitSign cs).1 (splitSign cs).2

/-- the machine's binary64 arithmetic -/
instance : DecOps Float where
  zero := 0.0
  one := 1.0
  ten := 10.0
  tenth := 0.1
  ofDigit d := d.toFloat
  add a b := a + b
  mul a b := a * b
  pow10 e := Float.pow 10.0 (Float.ofInt e)
  inf := 1.0 / 0.0
  nan := 0.0 / 0.0

end Draco.IO.Dec
