import DracoModel.IO.Common
/-
  DracoModel.IO.Ply — PLY as written by `PlyEncoder` (src/draco/io/ply_encoder.cc: ASCII header,
  binary little-endian body) and read by `PlyReader` + `PlyDecoder`
  (src/draco/io/ply_reader.cc, ply_property_reader.h, ply_decoder.cc, parser_utils.cc), byte level.

  The reader model is generic (arbitrary elements / properties / list properties) for the
  `binary_little_endian` body; `ascii` bodies are `unsupported`, `binary_big_endian` is rejected by
  the C++ itself.
-/
namespace Draco.IO.Ply
open Draco Draco.IO

/-! ### writer -/

/-- decimal digits of `n` (what `std::ostream << uint32_t` prints) -/
def decimalAux : Nat → Nat → Bytes → Bytes
  | 0, _, acc => acc
  | fuel+1, n, acc =>
    if n < 10 then (48 + n) :: acc else decimalAux fuel (n / 10) ((48 + n % 10) :: acc)

def decimal (n : Nat) : Bytes := decimalAux (n + 1) n []

/-- `PlyEncoder::GetAttributeDataType`; `none` = `nullptr` -/
def typeName (dt : Nat) : Option Bytes :=
  if dt = dtFLOAT32 then some (ascii "float")
  else if dt = dtUINT8 then some (ascii "uchar")
  else if dt = dtINT32 then some (ascii "int")
  else none

/-- What a `std::stringstream` holds after a sequence of `<<`: inserting a null `const char*`
    sets `badbit` (libstdc++) and every later insertion is dropped. -/
def streamCat : List (Option Bytes) → Bytes
  | [] => []
  | none :: _ => []
  | some b :: rest => b ++ streamCat rest

/-- `out << "property " << type << " " << name << std::endl` -/
def propLine (ty : Option Bytes) (name : String) : List (Option Bytes) :=
  [some (ascii "property "), ty, some (ascii (" " ++ name)), some [10]]

def colourNames : List String := ["red", "green", "blue", "alpha"]

/-- the attributes `PlyEncoder::EncodeInternal` selects: first POSITION; first NORMAL if it has 3
    components; first TEX_COORD if it has 2 components; first COLOR -/
structure Sel where
  pos : Attribute
  nrm : Option Attribute
  tex : Option Attribute
  col : Option Attribute
deriving Repr, BEq, DecidableEq

def select (g : Geometry) : Option Sel :=
  match g.ioNamedAtt tPOSITION with
  | none => none
  | some pos => some
    { pos := pos
      nrm := (g.ioNamedAtt tNORMAL).filter (·.numComponents == 3)
      tex := (g.ioNamedAtt tTEX_COORD).filter (·.numComponents == 2)
      col := g.ioNamedAtt tCOLOR }

def nrmPieces (s : Sel) : List (Option Bytes) :=
  match s.nrm with
  | none => []
  | some n => propLine (typeName n.dataType) "nx" ++ (propLine (typeName n.dataType) "ny" ++
              propLine (typeName n.dataType) "nz")

def colPieces (s : Sel) : List (Option Bytes) :=
  match s.col with
  | none => []
  | some c => ((colourNames.take c.numComponents).map (propLine (typeName c.dataType))).flatten

def texPieces (s : Sel) : List (Option Bytes) :=
  match s.tex with
  | none => []
  | some t => [some (ascii "property list uchar "), typeName t.dataType, some (ascii " texcoord"), some [10]]

def facePieces (g : Geometry) (s : Sel) : List (Option Bytes) :=
  if g.isMesh then
    [some (ascii "element face "), some (decimal g.faces.length), some [10],
     some (ascii "property list uchar int vertex_indices\n")] ++ texPieces s
  else []

/-- header pieces in stream order -/
def headerPieces (g : Geometry) (s : Sel) : List (Option Bytes) :=
  [some (ascii "ply\n"), some (ascii "format binary_little_endian 1.0\n"),
   some (ascii "element vertex "), some (decimal g.numPoints), some [10]] ++
  (propLine (typeName s.pos.dataType) "x" ++ (propLine (typeName s.pos.dataType) "y" ++
  (propLine (typeName s.pos.dataType) "z" ++
  (nrmPieces s ++ (colPieces s ++ (facePieces g s ++ [some (ascii "end_header\n")]))))))

def optValue (a : Option Attribute) (p : Nat) : Bytes :=
  match a with
  | none => []
  | some a => a.ioPointValue p

/-- bytes of one vertex: position, normal, colour values through the point → value maps -/
def vertexBytes (s : Sel) (p : Nat) : Bytes :=
  s.pos.ioPointValue p ++ optValue s.nrm p ++ optValue s.col p

/-- bytes of one face: count 3, three uint32 point indices, then (when texture coordinates are
    written) count 6 and the three corner values -/
def faceBytes (s : Sel) (f : Nat × Nat × Nat) : Bytes :=
  [3] ++ leBytes 4 f.1 ++ leBytes 4 f.2.1 ++ leBytes 4 f.2.2 ++
  (match s.tex with
   | none => []
   | some t => [6] ++ t.ioPointValue f.1 ++ t.ioPointValue f.2.1 ++ t.ioPointValue f.2.2)

def optValid (a : Option Attribute) (n : Nat) : Bool :=
  match a with
  | none => true
  | some a => a.valid n

/-- `PlyEncoder::EncodeToBuffer` (Mesh overload when `g.isMesh`).
    `reject`: no POSITION attribute, or a face refers to a point ≥ num_points.
    `ub`: a selected attribute is not storage-valid (out-of-range map entry / short buffer).
    Not an error in the C++ (and reproduced here): data types other than float32/uint8/int32
    truncate the header at the type name; position component counts ≠ 3 and colours with > 4
    components produce a body that does not match the header. -/
def encodeE (g : Geometry) : Res Bytes :=
  match select g with
  | none => .error .reject
  | some s =>
    if !(s.pos.valid g.numPoints && optValid s.nrm g.numPoints && optValid s.col g.numPoints &&
         (!g.isMesh || optValid s.tex g.numPoints)) then .error .ub
    else if g.isMesh && !g.faces.all (fun (a, b, c) => a < g.numPoints && b < g.numPoints && c < g.numPoints)
    then .error .reject
    else .ok (streamCat (headerPieces g s) ++
              ((List.range g.numPoints).map (vertexBytes s)).flatten ++
              (if g.isMesh then (g.faces.map (faceBytes s)).flatten else []))

def encode (g : Geometry) : Option Bytes := (encodeE g).toOption

/-! ### reader: parser_utils -/

/-- `isspace` in the "C" locale -/
def isSpace (c : Nat) : Bool := c == 32 || (9 ≤ c && c ≤ 13)

/-- `parser::SkipWhitespace` -/
def skipWs (bs : Bytes) : Bytes := bs.dropWhile isSpace

def isDelim (c : Nat) : Bool := c == 10 || c == 13

/-- `parser::ParseLine`: the line without its terminator and the rest. Terminators: "\n", "\r",
    "\r\n" (a second delimiter is swallowed only when it is '\n' after '\r'). -/
def parseLine (bs : Bytes) : Bytes × Bytes :=
  let line := bs.takeWhile (fun c => !isDelim c)
  match bs.dropWhile (fun c => !isDelim c) with
  | [] => (line, [])
  | d :: r =>
    match r with
    | 10 :: r' => if d == 13 then (line, r') else (line, r)
    | _ => (line, r)

/-- `parser::ParseString`: skip whitespace, take the maximal run of non-whitespace -/
def parseString (bs : Bytes) : Bytes × Bytes :=
  let b := skipWs bs
  (b.takeWhile (fun c => !isSpace c), b.dropWhile (fun c => !isSpace c))

/-- `PlyReader::SplitWords`: split at whitespace, drop empty words -/
def splitWordsAux : Bytes → Bytes → List Bytes
  | [], cur => if cur.isEmpty then [] else [cur.reverse]
  | c :: rest, cur =>
    if isSpace c then
      (if cur.isEmpty then splitWordsAux rest [] else cur.reverse :: splitWordsAux rest [])
    else splitWordsAux rest (c :: cur)

def splitWords (line : Bytes) : List Bytes := splitWordsAux line []

def isDigit (c : Nat) : Bool := 48 ≤ c && c ≤ 57

def digitsVal (ds : Bytes) : Nat := ds.foldl (fun acc c => 10 * acc + (c - 48)) 0

/-- `strtoll(word, nullptr, 10)` on a whitespace-free word: optional sign, maximal digit run,
    clamped to the int64 range -/
def strtoll (w : Bytes) : Int :=
  let neg := w.head? == some 45                                  -- '-'
  let signed := w.head? == some 45 || w.head? == some 43         -- '-' or '+'
  let ds := if signed then w.drop 1 else w
  let v := digitsVal (ds.takeWhile isDigit)
  if neg then (if v > 2^63 then -(2^63 : Int) else -(v : Int))
  else (if v ≥ 2^63 then (2^63 : Int) - 1 else (v : Int))

/-- `PlyReader::GetDataTypeFromString`; 0 = DT_INVALID -/
def dataTypeOfName (w : Bytes) : Nat :=
  if w == ascii "char" || w == ascii "int8" then dtINT8
  else if w == ascii "uchar" || w == ascii "uint8" then dtUINT8
  else if w == ascii "short" || w == ascii "int16" then dtINT16
  else if w == ascii "ushort" || w == ascii "uint16" then dtUINT16
  else if w == ascii "int" || w == ascii "int32" then dtINT32
  else if w == ascii "uint" || w == ascii "uint32" then dtUINT32
  else if w == ascii "float" || w == ascii "float32" then dtFLOAT32
  else if w == ascii "double" || w == ascii "float64" then dtFLOAT64
  else 0

/-! ### reader: header -/

/-- `PlyProperty`: `listType = 0` (DT_INVALID) for a scalar property -/
structure PProp where
  name : Bytes
  dataType : Nat
  listType : Nat
deriving Repr, BEq, DecidableEq

/-- `PlyElement`: `count` is the `int64_t num_entries_` -/
structure Element where
  name : Bytes
  count : Int
  props : List PProp
deriving Repr, BEq, DecidableEq

def addProp (els : List Element) (p : PProp) : List Element :=
  match els.reverse with
  | [] => []
  | e :: r => (({ e with props := e.props ++ [p] }) :: r).reverse

/-- `PlyReader::ParseProperty` on the words of a line: `none` = not a property line,
    `some (error _)` = invalid type name -/
def parseProperty (words : List Bytes) : Option (Res PProp) :=
  match words with
  | w0 :: w1 :: w2 :: rest =>
    if w0 != ascii "property" then none
    else if w1 != ascii "list" then
      let dt := dataTypeOfName w1
      if dt = 0 then some (.error .reject) else some (.ok ⟨w2, dt, 0⟩)
    else
      match rest with
      | w3 :: w4 :: _ =>
        let dt := dataTypeOfName w3
        if dt = 0 then some (.error .reject) else
        let lt := dataTypeOfName w2
        if lt = 0 then some (.error .reject) else some (.ok ⟨w4, dt, lt⟩)
      | _ => none
  | _ => none

/-- effect of one header line that is not `end_header` (`ParseElement`, else `ParseProperty`,
    else the line is skipped) -/
def lineEffect (els : List Element) (line : Bytes) : Res (List Element) :=
  let words := splitWords line
  match words with
  | w0 :: w1 :: w2 :: _ =>
    if w0 == ascii "element" then .ok (els ++ [⟨w1, strtoll w2, []⟩])
    else if els.isEmpty then .ok els
    else
      match parseProperty words with
      | none => .ok els
      | some (.error e) => .error e
      | some (.ok p) => .ok (addProp els p)
  | _ => .ok els

/-- `PlyReader::ParseHeader`: loop of `ParseEndHeader` / `ParseElement` / `ParseProperty` /
    `SkipLine`.  Returns the elements and the body. -/
def headerLoop : Nat → Bytes → List Element → Res (List Element × Bytes)
  | 0, _, _ => .error .reject
  | fuel+1, bs, els =>
    let b := skipWs bs
    -- `buffer->Peek(&c)` with a 10-char array
    if b.length < 10 then .error .reject
    else if b.take 10 == ascii "end_header" then .ok (els, (parseLine b).2)
    else
      match lineEffect els (parseLine b).1 with
      | .error e => .error e
      | .ok els' => headerLoop fuel (parseLine b).2 els'

inductive Format where
  | littleEndian | ascii
deriving Repr, BEq, DecidableEq

/-- `PlyReader::Read` up to and including `ParseHeader` -/
def parseHeader (bs : Bytes) : Res (Format × List Element × Bytes) :=
  let (w, r0) := parseString bs
  if w != ascii "ply" then .error .reject else
  let r1 := (parseLine r0).2
  let (line, r2) := parseLine r1
  match splitWords line with
  | w0 :: fmt :: ver :: _ =>
    if w0 != ascii "format" then .error .reject
    else if ver != ascii "1.0" then .error .reject
    else if fmt == ascii "binary_big_endian" then .error .reject
    else
      match headerLoop (r2.length + 1) r2 [] with
      | .error e => .error e
      | .ok (els, body) => .ok (if fmt == ascii "ascii" then .ascii else .littleEndian, els, body)
  | _ => .error .reject

/-! ### reader: binary little-endian body -/

/-- `static_cast<int>(num_entries_)` -/
def Element.numEntries (e : Element) : Int := toSigned 32 (toUnsigned 32 e.count)

/-- `cnt` items of `sz` bytes -/
def chunks (sz : Nat) : Nat → Bytes → List Bytes
  | 0, _ => []
  | n+1, bs => bs.take sz :: chunks sz n (bs.drop sz)

/-- one property of one entry (`PlyReader::ParseElementData` inner loop): the items read (one for
    a scalar property).  Nothing is bounds-checked in the C++ except the list count, whose failed
    `Decode` leaves the count at 0 without advancing. -/
def readProp (p : PProp) (bs : Bytes) : Res (List Bytes × Bytes) :=
  let sz := dataTypeLength p.dataType
  if p.listType = 0 then
    if bs.length < sz then .error .ub else .ok ([bs.take sz], bs.drop sz)
  else
    let lsz := dataTypeLength p.listType
    let (cnt, bs1) := if bs.length < lsz then (0, bs) else (leVal (bs.take lsz), bs.drop lsz)
    if cnt ≥ 2^63 then .error .ub
    else if bs1.length < sz * cnt then .error .ub
    else .ok (chunks sz cnt bs1, bs1.drop (sz * cnt))

def readEntry : List PProp → Bytes → Res (List (List Bytes) × Bytes)
  | [], bs => .ok ([], bs)
  | p :: ps, bs =>
    match readProp p bs with
    | .error e => .error e
    | .ok (v, bs1) =>
      match readEntry ps bs1 with
      | .error e => .error e
      | .ok (vs, bs2) => .ok (v :: vs, bs2)

def readEntries (ps : List PProp) : Nat → Bytes → Res (List (List (List Bytes)) × Bytes)
  | 0, bs => .ok ([], bs)
  | n+1, bs =>
    match readEntry ps bs with
    | .error e => .error e
    | .ok (v, bs1) =>
      match readEntries ps n bs1 with
      | .error e => .error e
      | .ok (vs, bs2) => .ok (v :: vs, bs2)

/-- element data: entries × properties × items -/
abbrev ElemData := List (List (List Bytes))

/-- `PlyReader::ParsePropertiesData` for the little-endian format -/
def readElements : List Element → Bytes → Res (List (Element × ElemData))
  | [], _ => .ok []
  | e :: es, bs =>
    match readEntries e.props e.numEntries.toNat bs with
    | .error err => .error err
    | .ok (d, bs1) =>
      match readElements es bs1 with
      | .error err => .error err
      | .ok ds => .ok ((e, d) :: ds)

/-! ### PlyDecoder -/

/-- `GetElementByName` / `GetPropertyByName`: the name → index maps keep the *last* entry -/
def findLast {α} (p : α → Bool) (l : List α) : Option α := l.reverse.find? p

def propIndex (e : Element) (name : String) : Option (Nat × PProp) :=
  findLast (fun (ip : Nat × PProp) => ip.2.name == ascii name) (e.props.zipIdx.map (fun (p, i) => (i, p)))

/-- `PlyPropertyReader<uint32_t>::ReadValue` for an integer source type -/
def toU32 (dt : Nat) (item : Bytes) : Option Nat :=
  if dt = dtUINT8 || dt = dtUINT16 || dt = dtUINT32 then some (leVal item)
  else if dt = dtINT8 then some (toUnsigned 32 (toSigned 8 (leVal item)))
  else if dt = dtINT16 then some (toUnsigned 32 (toSigned 16 (leVal item)))
  else if dt = dtINT32 then some (leVal item)
  else none

/-- fan triangulation of one polygon (`DecodeFaceData` inner loop) -/
def fan (v0 : Nat) : List Nat → List (Nat × Nat × Nat)
  | a :: b :: rest => (v0, a, b) :: fan v0 (b :: rest)
  | _ => []

def polygonFaces (vs : List Nat) : List (Nat × Nat × Nat) :=
  match vs with
  | v0 :: rest => if vs.length < 3 then [] else fan v0 rest
  | [] => []

def allSome {α} : List (Option α) → Option (List α)
  | [] => some []
  | none :: _ => none
  | some a :: r => (allSome r).map (a :: ·)

/-- `PlyDecoder::DecodeFaceData` -/
def decodeFaces (els : List (Element × ElemData)) : Res (List (Nat × Nat × Nat)) :=
  match findLast (fun (ed : Element × ElemData) => ed.1.name == ascii "face") els with
  | none => .ok []
  | some (e, d) =>
    let vi := match propIndex e "vertex_indices" with
      | some x => some x
      | none => propIndex e "vertex_index"
    match vi with
    | none => .error .reject
    | some (i, p) =>
      if p.listType = 0 then .error .reject else
      match allSome (d.map (fun entry => allSome ((entry.getD i []).map (toU32 p.dataType)))) with
      | none => .error .unsupported     -- float / double index lists
      | some polys => .ok (polys.map polygonFaces).flatten

/-- column of a scalar property: one item per entry -/
def column (d : ElemData) (i : Nat) : List Bytes := d.map (fun entry => (entry.getD i []).headD [])

/-- interleave columns into a value buffer -/
def interleave (cols : List (List Bytes)) (n : Nat) : Bytes :=
  ((List.range n).map (fun k => (cols.map (fun c => c.getD k [])).flatten)).flatten

/-- `PlyDecoder::DecodeVertexData` on the `vertex` element -/
def decodeVertexElem (e : Element) (d : ElemData) : Res (Nat × List Attribute) :=
    match propIndex e "x", propIndex e "y", propIndex e "z" with
    | some (ix, px), some (iy, py), some (iz, pz) =>
      if e.numEntries < 0 then .error .unsupported else
      let n := e.numEntries.toNat
      if px.dataType ≠ py.dataType || py.dataType ≠ pz.dataType then .error .reject
      else if px.dataType ≠ dtFLOAT32 && px.dataType ≠ dtINT32 then .error .reject
      else
        let scalar (p : PProp) : Bool := p.listType = 0
        if !(scalar px && scalar py && scalar pz) then .error .unsupported else
        let pos : Attribute :=
          { attType := tPOSITION, dataType := px.dataType, numComponents := 3, normalized := false,
            uniqueId := 0, numValues := n, map := none,
            values := interleave [column d ix, column d iy, column d iz] n }
        -- normals: silently skipped unless nx, ny, nz all exist and are all float32
        let nrm : Res (List Attribute) :=
          match propIndex e "nx", propIndex e "ny", propIndex e "nz" with
          | some (jx, qx), some (jy, qy), some (jz, qz) =>
            if qx.dataType = dtFLOAT32 && qy.dataType = dtFLOAT32 && qz.dataType = dtFLOAT32 then
              if !(scalar qx && scalar qy && scalar qz) then .error .unsupported else
              .ok [{ attType := tNORMAL, dataType := dtFLOAT32, numComponents := 3, normalized := false,
                     uniqueId := 1, numValues := n, map := none,
                     values := interleave [column d jx, column d jy, column d jz] n }]
            else .ok []
          | _, _, _ => .ok []
        match nrm with
        | .error err => .error err
        | .ok nrmAtts =>
          let cols := (colourNames.filterMap (propIndex e))
          if cols.isEmpty then .ok (n, pos :: nrmAtts)
          else if !cols.all (fun ip => ip.2.dataType = dtUINT8) then .error .reject
          else if !cols.all (fun ip => scalar ip.2) then .error .unsupported
          else
            let col : Attribute :=
              { attType := tCOLOR, dataType := dtUINT8, numComponents := cols.length, normalized := true,
                uniqueId := 1 + nrmAtts.length, numValues := n, map := none,
                values := interleave (cols.map (fun ip => column d ip.1)) n }
            .ok (n, pos :: nrmAtts ++ [col])
    | _, _, _ => .error .reject

/-- `PlyDecoder::DecodeVertexData` -/
def decodeVertices (els : List (Element × ElemData)) : Res (Nat × List Attribute) :=
  match findLast (fun (ed : Element × ElemData) => ed.1.name == ascii "vertex") els with
  | none => .error .reject
  | some (e, d) => decodeVertexElem e d

/-- `PlyDecoder::DecodeFromBuffer` into a `Mesh` (`asMesh = true`) or a `PointCloud`.
    Faces are not range-checked by the C++; an out-of-range index is `ub` here only when the point
    deduplication would actually index with it. -/
def decodeE (asMesh : Bool) (bs : Bytes) : Res Geometry :=
  match parseHeader bs with
  | .error e => .error e
  | .ok (.ascii, _, _) => .error .unsupported
  | .ok (.littleEndian, els, body) =>
    match readElements els body with
    | .error e => .error e
    | .ok eds =>
      match (if asMesh then decodeFaces eds else .ok []) with
      | .error e => .error e
      | .ok faces =>
        match decodeVertices eds with
        | .error e => .error e
        | .ok (n, atts) =>
          let g : Geometry := { isMesh := asMesh, numPoints := n, faces := faces, atts := atts }
          if asMesh && faces.length ≠ 0 then
            let g1 := g.ioDedupValues
            let g2 := g1.ioDedupPointIds
            if g2.numPoints ≠ g1.numPoints &&
               !faces.all (fun (a, b, c) => a < n && b < n && c < n) then .error .ub
            else .ok g2
          else .ok g

def decode (asMesh : Bool) (bs : Bytes) : Option Geometry := (decodeE asMesh bs).toOption

end Draco.IO.Ply
