import DracoModel.IO.Common
/-
  DracoModel.IO.Stl — binary STL as written by `StlEncoder` (src/draco/io/stl_encoder.cc) and read
  by `StlDecoder` (src/draco/io/stl_decoder.cc + mesh/triangle_soup_mesh_builder.cc), byte level.

  File layout: 80-byte header "generated using Draco" padded with blanks, uint32 face count,
  then per face 12 bytes normal, 3 × 12 bytes corner positions, 2 bytes zero.

  The only float arithmetic is the face normal `norm(cross(p1-p0, p2-p0))`, kept behind the
  parameter `nrm` (bit patterns in, bit patterns out); `normalF32` is the executable instance.
-/
namespace Draco.IO.Stl
open Draco Draco.IO

/-- three float32 bit patterns -/
abbrev V3 := Nat × Nat × Nat

/-- face-normal oracle: bit patterns of the three corner positions ↦ bit patterns of the normal -/
abbrev NormalFn := V3 → V3 → V3 → V3

/-- `CrossProduct(pos[1]-pos[0], pos[2]-pos[0])` followed by `VectorD::Normalize`
    (src/draco/core/vector_d.h), in float32, statement by statement (no FMA contraction on
    baseline x86-64).  Bit-exact against the library on all finite inputs tried; when a position
    component is NaN/Inf the resulting NaN differs in sign / payload (Lean's `Float32.toBits`
    canonicalises NaNs, x86 produces the negative default NaN or propagates the payload). -/
def normalF32 : NormalFn := fun (a0, a1, a2) (b0, b1, b2) (c0, c1, c2) =>
  let f (n : Nat) : Float32 := Float32.ofBits (UInt32.ofNat n)
  let u0 := f b0 - f a0; let u1 := f b1 - f a1; let u2 := f b2 - f a2
  let v0 := f c0 - f a0; let v1 := f c1 - f a1; let v2 := f c2 - f a2
  let r0 := (u1 * v2) - (u2 * v1)
  let r1 := (u2 * v0) - (u0 * v2)
  let r2 := (u0 * v1) - (u1 * v0)
  -- Dot: ret = 0; ret += r[i] * r[i]
  let sq := (((0 : Float32) + r0 * r0) + r1 * r1) + r2 * r2
  let mag := sq.sqrt
  if mag == 0 then (r0.toBits.toNat, r1.toBits.toNat, r2.toBits.toNat)
  else ((r0 / mag).toBits.toNat, (r1 / mag).toBits.toNat, (r2 / mag).toBits.toNat)

/-- `out << std::left << std::setw(80) << "generated using Draco"` -/
def header : Bytes := ascii "generated using Draco" ++ List.replicate 59 32

/-- three little-endian float32 of a 12-byte value -/
def v3OfBytes (b : Bytes) : V3 :=
  (leVal (b.take 4), leVal ((b.drop 4).take 4), leVal ((b.drop 8).take 4))

def v3Bytes (v : V3) : Bytes := leBytes 4 v.1 ++ leBytes 4 v.2.1 ++ leBytes 4 v.2.2

/-- one 50-byte face record -/
def faceRecord (nrm : NormalFn) (pos : Attribute) (f : Nat × Nat × Nat) : Bytes :=
  let p0 := pos.ioPointValue f.1
  let p1 := pos.ioPointValue f.2.1
  let p2 := pos.ioPointValue f.2.2
  v3Bytes (nrm (v3OfBytes p0) (v3OfBytes p1) (v3OfBytes p2)) ++ p0 ++ p1 ++ p2 ++ [0, 0]

/-- `StlEncoder::EncodeToBuffer` / `EncodeInternal`.  Only meshes can be passed (API).
    `reject`: no POSITION attribute, or its data type is not float32 (the C++ has by then already
    written header and face count to the buffer; the status is an error).
    `unsupported`: position attribute with `num_components ≠ 3` — the C++ does not check and
    copies `byte_stride` bytes into a `Vector3f` (short read for < 3, stack overflow for > 3);
    `ub`: face or map index out of range. -/
def encodeWith (nrm : NormalFn) (g : Geometry) : Res Bytes :=
  if !g.isMesh then .error .unsupported else
  match g.ioNamedAtt tPOSITION with
  | none => .error .reject
  | some pos =>
    if pos.dataType ≠ dtFLOAT32 then .error .reject
    else if pos.numComponents ≠ 3 then .error .unsupported
    else if !g.valid then .error .ub
    else .ok (header ++ leBytes 4 g.faces.length ++ (g.faces.map (faceRecord nrm pos)).flatten)

def encodeE (g : Geometry) : Res Bytes := encodeWith normalF32 g

/-- `Stl.encode : Geometry → Option Bytes` -/
def encode (g : Geometry) : Option Bytes := (encodeE g).toOption

/-- reads `n` 50-byte face records: (normal bytes, three position values) -/
def readFaces : Nat → Bytes → Res (List (Bytes × Bytes × Bytes × Bytes))
  | 0, _ => .ok []
  | n+1, bs =>
    -- `buffer->Decode(data, 48)` / `Decode(&unused, 2)` fail silently on a short buffer and
    -- leave `data` uninitialised
    if bs.length < 50 then .error .ub else
    match readFaces n (bs.drop 50) with
    | .error e => .error e
    | .ok fs => .ok ((bs.take 12, (bs.drop 12).take 12, (bs.drop 24).take 12, (bs.drop 36).take 12) :: fs)

/-- the mesh `TriangleSoupMeshBuilder` holds before `Finalize`: 3 points per face, identity maps,
    attribute 0 = POSITION (per corner), attribute 1 = NORMAL (face normal repeated 3 times) -/
def soup (fs : List (Bytes × Bytes × Bytes × Bytes)) : Geometry :=
  let n := fs.length
  { isMesh := true
    numPoints := 3 * n
    faces := (List.range n).map (fun i => (3 * i, 3 * i + 1, 3 * i + 2))
    atts := [
      { attType := tPOSITION, dataType := dtFLOAT32, numComponents := 3, normalized := false,
        uniqueId := 0, numValues := 3 * n, map := none,
        values := (fs.flatMap (fun (_, p0, p1, p2) => [p0, p1, p2])).flatten },
      { attType := tNORMAL, dataType := dtFLOAT32, numComponents := 3, normalized := false,
        uniqueId := 1, numValues := 3 * n, map := none,
        values := (fs.flatMap (fun (nv, _, _, _) => [nv, nv, nv])).flatten } ] }

/-- `StlDecoder::DecodeFromBuffer`.  `reject`: ASCII STL ("solid " prefix).  `ub`: buffer shorter
    than 84 + 50·faces bytes (every `Decode` result is ignored).  `unsupported`: face counts
    ≥ 2^31/3 (the `int` arithmetic of `TriangleSoupMeshBuilder::Start` overflows).
    Trailing bytes are ignored. -/
def decodeE (bs : Bytes) : Res Geometry :=
  if bs.take 6 == ascii "solid " then .error .reject
  else if bs.length < 84 then .error .ub
  else
    let n := leVal ((bs.drop 80).take 4)
    if 3 * n ≥ 2^31 then .error .unsupported else
    match readFaces n (bs.drop 84) with
    | .error e => .error e
    | .ok fs => .ok (soup fs).ioDedupValues.ioDedupPointIds

/-- `Stl.decode : Bytes → Option Geometry` -/
def decode (bs : Bytes) : Option Geometry := (decodeE bs).toOption

end Draco.IO.Stl
