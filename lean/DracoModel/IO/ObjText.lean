import DracoModel.IO.Obj
import DracoModel.IO.Decimal
/-
  DracoModel.IO.ObjText — the executable text-level instance of the OBJ model.

  * `fmtF`        : `snprintf(num_buffer_, 20, "%F", val)` of `ObjEncoder::EncodeFloat` — fixed
                    notation, 6 decimals, exact round-half-even of the binary value (glibc), upper
                    case `INF` / `NAN`, and truncation to 19 characters (the buffer has 20 bytes).
  * `parseFloat`  : `parser::ParseFloat` (src/draco/io/parser_utils.cc) with its double
                    arithmetic (`v *= 10.0; v += d`, `fraction *= 0.1; v += d * fraction`,
                    `v *= pow(10.0, e)`), then `static_cast<float>`.
  * `f32Codec`    : the `NumCodec String` built from the two.
  * `render`      : the bytes `ObjEncoder` writes for a list of records.
  * `lex`         : a line/word-level reader producing records from OBJ text (for validation of the
                    decoder model on hand-written files; well-formed input only).
-/
namespace Draco.IO.Obj
open Draco Draco.IO

open Draco.IO.Dec in
/-- `snprintf(num_buffer_, sizeof(num_buffer_), "%F", val)` with `char num_buffer_[20]`
    (`Dec.fmtChars`: exact round-half-even 6-decimal expansion, 19 characters at most) -/
def fmtF (bits : Nat) : String := String.ofList (Dec.fmtChars bits)

/-- `static_cast<float>(sign < 0 ? -v : v)` as a bit pattern.  NaN: Lean's `toBits` canonicalises
    NaNs; the C++ keeps the sign: `nan("")` is positive, the x86 default NaN of `0 * inf` is negative. -/
def f32BitsOfParsed (p : Dec.Parsed Float) : Nat :=
  if p.mag.isNaN then (if p.nanNeg != p.neg then 0xffc00000 else 0x7fc00000)
  else (if p.neg then (-p.mag).toFloat32 else p.mag.toFloat32).toBits.toNat

/-- `parser::ParseFloat` on the characters of one token: float32 bit pattern and unread rest
    (`Dec.parseCore` with the machine's binary64 arithmetic) -/
def parseFloat (cs : List Char) : Option (Nat × List Char) :=
  (Dec.parseCore (D := Float) cs).map (fun p => (f32BitsOfParsed p, p.rest))

def isDigitC := Dec.isDigitC
def parseUInt := Dec.parseUInt
def parseSInt := Dec.parseSInt

/-- the text-level number codec of the C++ -/
def f32Codec : NumCodec String where
  print := fmtF
  parse s := match parseFloat s.toList with
    | some (b, []) => some b
    | _ => none

def cornerText (cr : Int × Int × Int) : String :=
  let (a, b, c) := cr
  if b = 0 ∧ c = 0 then s!"{a}"
  else if c = 0 then s!"{a}/{b}"
  else if b = 0 then s!"{a}//{c}"
  else s!"{a}/{b}/{c}"

def lineText : Line String → String
  | .v x y z => s!"v {x} {y} {z}\n"
  | .vt u v => s!"vt {u} {v}\n"
  | .vn x y z => s!"vn {x} {y} {z}\n"
  | .f cs => "f" ++ String.join (cs.map (fun c => " " ++ cornerText c)) ++ "\n"
  | .mtllib n => s!"mtllib {n}\n"
  | .usemtl n => s!"usemtl {n}\n"
  | .o n => s!"o {n}\n"
  | .other t => t ++ "\n"

/-- the file `ObjEncoder` writes -/
def render (ls : List (Line String)) : String := String.join (ls.map lineText)

def parseCorner (w : String) : Int × Int × Int :=
  match w.splitOn "/" with
  | [a] => (a.toInt?.getD 0, 0, 0)
  | [a, b] => (a.toInt?.getD 0, b.toInt?.getD 0, 0)
  | a :: b :: c :: _ => (a.toInt?.getD 0, b.toInt?.getD 0, c.toInt?.getD 0)
  | [] => (0, 0, 0)

def wordsOf (s : String) : List String :=
  (s.split (fun c => c == ' ' || c == '\t' || c == '\r')).toList.map (·.toString) |>.filter (· ≠ "")

/-- line/word-level reader (validation helper) -/
def lex (text : String) : List (Line String) :=
  (text.splitOn "\n").filterMap (fun raw =>
    match wordsOf raw with
    | [] => none
    | w :: args =>
      if w.startsWith "#" then some (.other raw)
      else if w == "v" then some (.v (args.getD 0 "") (args.getD 1 "") (args.getD 2 ""))
      else if w == "vt" then some (.vt (args.getD 0 "") (args.getD 1 ""))
      else if w == "vn" then some (.vn (args.getD 0 "") (args.getD 1 "") (args.getD 2 ""))
      else if w == "f" then some (.f (args.map parseCorner))
      else if w == "mtllib" then some (.mtllib (" ".intercalate args))
      else if w == "usemtl" then some (.usemtl (" ".intercalate args))
      else if w == "o" then some (.o (" ".intercalate args))
      else some (.other raw))

end Draco.IO.Obj
