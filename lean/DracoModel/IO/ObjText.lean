import DracoModel.IO.Obj
/-
  DracoModel.IO.ObjText — the executable text-level instance of the OBJ model.

  * `fmtF`        : `snprintf(num_buffer_, 20, "%F", val)` of `ObjEncoder::EncodeFloat` — fixed
                    notation, 6 decimals, exact round-half-even of the binary value (glibc), upper
                    case `INF` / `NAN`, and truncation to 19 characters (the buffer has 20 bytes).
  * `parseFloat`  : `parser::ParseFloat` (src/draco/io/parser_utils.cc) with its double
                    arithmetic (`v *= 10.0; v += d`, `fraction *= 0.1; v += d * fraction`,
                    `v *= pow(10.0, e)`), then `static_cast<float>`.
  * `f32Codec`    : the `NumCodec String` built from the two.
  * `render`      : the bytes `ObjEncoder` writes for a list of records.
  * `lex`         : a line/word-level reader producing records from OBJ text (for validation of the
                    decoder model on hand-written files; well-formed input only).
-/
namespace Draco.IO.Obj
open Draco Draco.IO

/-- digits of `n`, at least `w` of them (zero padded) -/
def padDigits (w n : Nat) : String :=
  let s := toString n
  String.ofList (List.replicate (w - s.length) '0') ++ s

/-- round-half-even of `a / 2^k` -/
def divPow2RoundEven (a k : Nat) : Nat :=
  let q := a / 2^k
  let r := a % 2^k
  let half := 2^k / 2
  if k = 0 then a
  else if r > half then q + 1
  else if r < half then q
  else if q % 2 = 0 then q else q + 1

/-- `printf("%F")` of a float32 (promoted to double, exact), without length limit -/
def fmtFull (bits : Nat) : String :=
  let sign := (bits / 2^31) % 2
  let e := (bits / 2^23) % 256
  let m := bits % 2^23
  let sg := if sign = 1 then "-" else ""
  if e = 255 then (if m = 0 then sg ++ "INF" else sg ++ "NAN")
  else
    let mant := if e = 0 then m else m + 2^23
    let ex : Int := (if e = 0 then 1 else e : Nat) - 150    -- value = mant * 2^ex
    let scaled := if ex ≥ 0 then mant * 2^ex.toNat * 1000000
                  else divPow2RoundEven (mant * 1000000) (-ex).toNat
    sg ++ toString (scaled / 1000000) ++ "." ++ padDigits 6 (scaled % 1000000)

/-- `snprintf(num_buffer_, sizeof(num_buffer_), "%F", val)` with `char num_buffer_[20]` -/
def fmtF (bits : Nat) : String := String.ofList ((fmtFull bits).toList.take 19)

def isDigitC (c : Char) : Bool := '0' ≤ c && c ≤ '9'

/-- `parser::ParseUnsignedInt` (uint32 wrap-around); `none` without digits -/
def parseUInt (cs : List Char) : Option (Nat × List Char) :=
  let ds := cs.takeWhile isDigitC
  if ds.isEmpty then none
  else some (ds.foldl (fun v c => (v * 10 + (c.toNat - 48)) % 2^32) 0, cs.dropWhile isDigitC)

/-- `parser::ParseSignedInt`: value as int32 -/
def parseSInt (cs : List Char) : Option (Int × List Char) :=
  let (neg, r) := match cs with
    | '-' :: r => (true, r)
    | '+' :: r => (false, r)
    | _ => (false, cs)
  match parseUInt r with
  | none => none
  | some (v, rest) => some (toSigned 32 (if neg then (2^32 - v) % 2^32 else v), rest)

/-- integer-part loop: `v *= 10.0; v += (ch - '0')` -/
def intLoop : List Char → Float → Bool → Float × Bool × List Char
  | c :: r, v, hd => if isDigitC c then intLoop r (v * 10.0 + (c.toNat - 48).toFloat) true else (v, hd, c :: r)
  | [], v, hd => (v, hd, [])

/-- fraction loop: `fraction *= 0.1; v += (ch - '0') * fraction` -/
def fracLoop : List Char → Float → Float → Bool → Float × Bool × List Char
  | c :: r, v, fr, hd =>
    if isDigitC c then
      let fr' := fr * 0.1
      fracLoop r (v + (c.toNat - 48).toFloat * fr') fr' true
    else (v, hd, c :: r)
  | [], v, _, hd => (v, hd, [])

/-- `parser::ParseFloat` on the characters of one token: float32 bit pattern and unread rest -/
def parseFloat (cs : List Char) : Option (Nat × List Char) :=
  if cs.isEmpty then none else
  let (neg, r0) := match cs with
    | '-' :: r => (true, r)
    | '+' :: r => (false, r)
    | _ => (false, cs)
  let (v1, hd1, r1) := intLoop r0 0.0 false
  let (v2, hd2, r2) := match r1 with
    | '.' :: r => fracLoop r v1 1.0 hd1
    | _ => (v1, hd1, r1)
  -- `nanNeg`: sign bit of `v` when it is a NaN (Lean's `toBits` canonicalises NaNs; the C++ keeps
  -- the sign: `nan("")` is positive, the x86 default NaN of `0 * inf` is negative)
  let fin (v : Float) (nanNeg : Bool) (rest : List Char) : Option (Nat × List Char) :=
    if v.isNaN then some (if nanNeg != neg then 0xffc00000 else 0x7fc00000, rest)
    else some ((if neg then (-v).toFloat32 else v.toFloat32).toBits.toNat, rest)
  if !hd2 then
    -- `ParseString`: the rest of the token
    let text := String.ofList (r2.takeWhile (fun c => !c.isWhitespace))
    let rest := r2.dropWhile (fun c => !c.isWhitespace)
    if text == "inf" || text == "Inf" then fin (1.0 / 0.0) false rest
    else if text == "nan" || text == "NaN" then fin (0.0 / 0.0) false rest
    else none
  else
    match r2 with
    | 'e' :: r | 'E' :: r =>
      match parseSInt r with
      | none => none
      | some (ex, rest) => fin (v2 * Float.pow 10.0 (Float.ofInt ex)) true rest
    | _ => fin v2 false r2

/-- the text-level number codec of the C++ -/
def f32Codec : NumCodec String where
  print := fmtF
  parse s := match parseFloat s.toList with
    | some (b, []) => some b
    | _ => none

def cornerText (cr : Int × Int × Int) : String :=
  let (a, b, c) := cr
  if b = 0 ∧ c = 0 then s!"{a}"
  else if c = 0 then s!"{a}/{b}"
  else if b = 0 then s!"{a}//{c}"
  else s!"{a}/{b}/{c}"

def lineText : Line String → String
  | .v x y z => s!"v {x} {y} {z}\n"
  | .vt u v => s!"vt {u} {v}\n"
  | .vn x y z => s!"vn {x} {y} {z}\n"
  | .f cs => "f" ++ String.join (cs.map (fun c => " " ++ cornerText c)) ++ "\n"
  | .mtllib n => s!"mtllib {n}\n"
  | .usemtl n => s!"usemtl {n}\n"
  | .o n => s!"o {n}\n"
  | .other t => t ++ "\n"

/-- the file `ObjEncoder` writes -/
def render (ls : List (Line String)) : String := String.join (ls.map lineText)

def parseCorner (w : String) : Int × Int × Int :=
  match w.splitOn "/" with
  | [a] => (a.toInt?.getD 0, 0, 0)
  | [a, b] => (a.toInt?.getD 0, b.toInt?.getD 0, 0)
  | a :: b :: c :: _ => (a.toInt?.getD 0, b.toInt?.getD 0, c.toInt?.getD 0)
  | [] => (0, 0, 0)

def wordsOf (s : String) : List String :=
  (s.split (fun c => c == ' ' || c == '\t' || c == '\r')).toList.map (·.toString) |>.filter (· ≠ "")

/-- line/word-level reader (validation helper) -/
def lex (text : String) : List (Line String) :=
  (text.splitOn "\n").filterMap (fun raw =>
    match wordsOf raw with
    | [] => none
    | w :: args =>
      if w.startsWith "#" then some (.other raw)
      else if w == "v" then some (.v (args.getD 0 "") (args.getD 1 "") (args.getD 2 ""))
      else if w == "vt" then some (.vt (args.getD 0 "") (args.getD 1 ""))
      else if w == "vn" then some (.vn (args.getD 0 "") (args.getD 1 "") (args.getD 2 ""))
      else if w == "f" then some (.f (args.map parseCorner))
      else if w == "mtllib" then some (.mtllib (" ".intercalate args))
      else if w == "usemtl" then some (.usemtl (" ".intercalate args))
      else if w == "o" then some (.o (" ".intercalate args))
      else some (.other raw))

end Draco.IO.Obj
