import DracoModel.IO.Stl
import DracoModel.IO.Ply
import DracoModel.IO.ObjText
/-
  DracoModel.IO.Check — executable per-case checkers for property C15: given one geometry, run the
  model writer and reader and compare what the property says must be preserved.  They complement
  the theorems of DracoProps/C15.lean where those carry hypotheses (and are what
  `Tie/ValidateH.lean` runs on the random corpus).
-/
namespace Draco.IO
open Draco

/-- per-corner values when the geometry is a mesh with faces, per-point values otherwise -/
def valuesOf (a : Attribute) (g : Geometry) : List (Bytes × Bytes × Bytes) × List Bytes :=
  (cornerValues a g.faces, if g.isMesh && !g.faces.isEmpty then [] else pointValues a g.numPoints)

/-- STL: position triangle soup bit-exact and in order -/
def checkStl (g : Geometry) : Bool :=
  match g.ioNamedAtt tPOSITION, Stl.encodeE g with
  | some pos, .ok bs =>
    match Stl.decodeE bs with
    | .ok g' =>
      (match g'.atts[0]? with
       | some p' => p'.attType == tPOSITION && cornerValues p' g'.faces == cornerValues pos g.faces
       | none => false)
    | .error _ => false
  | _, _ => true     -- nothing was written: nothing to check

def checkAtt (g g' : Geometry) (src : Option Attribute) (ty : Nat) : Bool :=
  match src with
  | none => true
  | some a =>
    match g'.ioNamedAtt ty with
    | some a' => valuesOf a' g' == valuesOf a { g with faces := if g.isMesh then g.faces else [] }
    | none => false

/-- PLY: positions, normals, colours bit-exact per corner (per point when nothing is
    deduplicated); number of faces -/
def checkPly (g : Geometry) : Bool :=
  match Ply.select g, Ply.encodeE g with
  | some s, .ok bs =>
    match Ply.decodeE g.isMesh bs with
    | .ok g' =>
      g'.faces.length == (if g.isMesh then g.faces.length else 0) &&
      checkAtt g g' (some s.pos) tPOSITION && checkAtt g g' s.nrm tNORMAL && checkAtt g g' s.col tCOLOR
    | .error _ => false
  | _, _ => true

/-- OBJ with an exact codec (tokens are the bit patterns themselves): isolates the structural part
    of the format (indices, seams, point creation, deduplication) from decimal rounding -/
def exactCodec : Obj.NumCodec Nat := ⟨id, some⟩

/-- expected value bytes of an OBJ-written attribute: first `k` float components, padded with 0 -/
def objValue (r : Nat → Nat) (a : Attribute) (k : Nat) (p : Nat) : Bytes :=
  ((Obj.floatsAt a (a.ioMappedIndex p) k).map (fun b => leBytes 4 (r b))).flatten

def checkObjAtt (r : Nat → Nat) (g g' : Geometry) (src : Option Attribute) (ty k : Nat) : Bool :=
  match src with
  | none => true
  | some a =>
    match g'.ioNamedAtt ty with
    | some a' => cornerValues a' g'.faces ==
        g.faces.map (fun (x, y, z) => (objValue r a k x, objValue r a k y, objValue r a k z))
    | none => false

/-- OBJ meshes: per-corner positions / texture coordinates / normals equal to the re-parsed source
    values (`r` = what the codec's print-then-parse does to a bit pattern), and points of the result
    pairwise distinguishable by their values -/
def checkObjMesh {Tok} (c : Obj.NumCodec Tok) (r : Nat → Nat) (g : Geometry) : Bool :=
  match g.ioNamedAtt tPOSITION, Obj.encodeE c g with
  | some pos, .ok ls =>
    if !g.isMesh || g.faces.isEmpty then true else
    match Obj.decodeE c true ls with
    | .ok g' =>
      g'.faces.length == g.faces.length &&
      checkObjAtt r g g' (some pos) tPOSITION 3 && checkObjAtt r g g' (Obj.texOf g) tTEX_COORD 2 &&
      checkObjAtt r g g' (Obj.nrmOf g) tNORMAL 3 &&
      ((List.range g'.numPoints).map (pointTuple g')).eraseDups.length == g'.numPoints
    | .error _ => false
  | _, _ => true

/-- OBJ point clouds / face-less meshes: the file can be read back and describes the same list of
    points (position, texture coordinate, normal per point) — this is the check that *fails* on
    representable inputs (see DracoProps/C15.lean) -/
def checkObjPoints {Tok} (c : Obj.NumCodec Tok) (g : Geometry) : Bool :=
  match Obj.encodeE c g with
  | .ok ls =>
    if g.isMesh && !g.faces.isEmpty then true else
    match Obj.decodeE c g.isMesh ls with
    | .ok g' =>
      (List.range g'.numPoints).map (fun p => g'.atts.map (fun a => (a.attType, a.ioPointValue p))) ==
      (List.range g.numPoints).map (fun p =>
        ([g.ioNamedAtt tPOSITION, Obj.texOf g, Obj.nrmOf g].filterMap id).map (fun a => (a.attType, a.ioPointValue p)))
    | .error _ => false
  | .error _ => true

/-! ### precision of the text codec (exact rational arithmetic on bit patterns) -/

/-- value of a finite float32 bit pattern as `(sign, mantissa, exponent)`: `(-1)^s · m · 2^e` -/
def f32Parts (b : Nat) : Bool × Nat × Int :=
  let e := (b / 2^23) % 256
  let m := b % 2^23
  ((b / 2^31) % 2 == 1, if e = 0 then m else m + 2^23, (if e = 0 then 1 else e : Nat) - 150)

def isFinite (b : Nat) : Bool := (b / 2^23) % 256 != 255

/-- `|x - y| ≤ num / den` for finite float32 bit patterns, exactly -/
def absDiffLe (x y num den : Nat) : Bool :=
  let (sx, mx, ex) := f32Parts x
  let (sy, my, ey) := f32Parts y
  -- scale both to the common exponent -149 - 1 = -150 (every exponent is ≥ -149)
  let vx : Int := (if sx then -1 else 1) * (mx * 2^(ex + 150).toNat : Nat)
  let vy : Int := (if sy then -1 else 1) * (my * 2^(ey + 150).toNat : Nat)
  -- |vx - vy| · 2^-150 ≤ num/den  ⇔  |vx - vy| · den ≤ num · 2^150
  (vx - vy).natAbs * den ≤ num * 2^150

/-- C15's OBJ precision for one float32 bit pattern `b`: the C++ text codec reads back `b'` with
    `|b' - b| ≤ 0.5·10⁻⁶ + ulp(b)` (6-decimal rounding plus one float32 rounding), exactly evaluated.
    Non-finite inputs are skipped (they are not readable at all, see the findings). -/
def checkCodecBits (b : Nat) : Bool :=
  if !isFinite b then true else
  match Obj.f32Codec.parse (Obj.f32Codec.print b) with
  | none => false
  | some b' =>
    isFinite b' &&
    (let (sx, mx, ex) := f32Parts b
     let (sy, my, ey) := f32Parts b'
     let vx : Int := (if sx then -1 else 1) * (mx * 2^(ex + 150).toNat : Nat)
     let vy : Int := (if sy then -1 else 1) * (my * 2^(ey + 150).toNat : Nat)
     -- |vx - vy|·2⁻¹⁵⁰ ≤ 5·10⁻⁷ + 2^ex
     (vx - vy).natAbs * 10^7 ≤ 5 * 2^150 + 10^7 * 2^(ex + 150).toNat)

/-- does the text codec return exactly the same float32? -/
def codecExact (b : Nat) : Bool := Obj.f32Codec.parse (Obj.f32Codec.print b) == some b

end Draco.IO
