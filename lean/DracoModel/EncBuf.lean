import DracoModel.BitBuf
/-
  The *stateful* EncoderBuffer (src/draco/core/encoder_buffer.{h,cc}): one object that receives an
  arbitrary interleaving of byte-mode writes (`Encode`, `EncodeVarint`) and bit regions
  (`StartBitEncoding(required_bits, encode_size)`, `EncodeLeastSignificantBits32`,
  `EndBitEncoding`), with the members that survive from one region to the next:

    buffer_                       : the bytes
    bit_encoder_reserved_bytes_   : > 0  ⇔ bit mode is active
    encode_bit_sequence_size_     : set by every StartBitEncoding, read by EndBitEncoding

  The reserved area of an active region is abstracted by the list of bits written so far: the area
  is zero-initialised by `vector::resize` and `PutBit` stores bit `i` at position `i`, so its content
  is `packBits bits` padded with zero bytes.  Writing more bits than were reserved is a write outside
  the vector in C++ (undefined behaviour): the model refuses it (`none`).
-/
namespace Draco

structure EncBuf where
  buffer : Bytes := []
  reserved : Nat := 0
  encodeSize : Bool := false
  bits : List Bool := []
deriving Repr

namespace EncBuf

/-- `bit_encoder_active()` -/
def active (b : EncBuf) : Bool := decide (b.reserved > 0)

/-- `Encode(const void *data, size_t)` / `Encode<T>`: refused while a bit region is open -/
def encode (b : EncBuf) (bs : Bytes) : Option EncBuf :=
  if b.active then none else some { b with buffer := b.buffer ++ bs }

/-- `StartBitEncoding(required_bits, encode_size)` -/
def startBits (b : EncBuf) (requiredBits : Nat) (encodeSize : Bool) : Option EncBuf :=
  if b.active then none
  else if requiredBits == 0 then none
  else
    let requiredBytes := (requiredBits + 7) / 8
    some { buffer := b.buffer ++ List.replicate ((if encodeSize then 8 else 0) + requiredBytes) 0,
           reserved := requiredBytes, encodeSize := encodeSize, bits := [] }

/-- `EncodeLeastSignificantBits32(nbits, value)` → `BitEncoder::PutBits` -/
def putBits (b : EncBuf) (nbits v : Nat) : Option EncBuf :=
  if !b.active then none
  else if b.bits.length + nbits > 8 * b.reserved then none
  else some { b with bits := b.bits ++ bitsOf nbits v }

/-- `EndBitEncoding()`: no-op outside bit mode; otherwise keeps `ceil(bits/8)` bytes of the
    reserved area, moved down behind the varint of their count when the size is stored -/
def endBits (b : EncBuf) : EncBuf :=
  if !b.active then b else
    let encodedBytes := (b.bits.length + 7) / 8
    let body := packBits b.bits
    if b.encodeSize then
      { b with buffer := b.buffer.take (b.buffer.length - (b.reserved + 8)) ++ encVarint encodedBytes ++ body,
               reserved := 0, bits := [] }
    else
      { b with buffer := b.buffer.take (b.buffer.length - b.reserved) ++ body, reserved := 0, bits := [] }

end EncBuf

/-- one complete item written to an `EncoderBuffer` -/
inductive BufItem where
  /-- `Encode(data, n)` / `Encode<T>(v)` -/
  | raw (bs : Bytes)
  /-- `EncodeVarint(v)` (a sequence of one-byte `Encode` calls) -/
  | varint (v : Nat)
  /-- `StartBitEncoding(required, withSize)`, the `PutBits(value, nbits)` calls `(nbits, value)`, `EndBitEncoding` -/
  | region (withSize : Bool) (required : Nat) (ops : List (Nat × Nat))
deriving Repr

/-- the bytes an item contributes — the pure specification of the buffer -/
def BufItem.enc : BufItem → Bytes
  | .raw bs => bs
  | .varint v => encVarint v
  | .region ws _ ops => encBitRegion ws (putBitsAll ops)

def putAll : List (Nat × Nat) → EncBuf → Option EncBuf
  | [], b => some b
  | p :: ps, b =>
    match b.putBits p.1 p.2 with
    | none => none
    | some b' => putAll ps b'

/-- the calls an item stands for, on the stateful buffer -/
def EncBuf.runItem (b : EncBuf) : BufItem → Option EncBuf
  | .raw bs => b.encode bs
  | .varint v => b.encode (encVarint v)
  | .region ws req ops =>
    match b.startBits req ws with
    | none => none
    | some b1 =>
      match putAll ops b1 with
      | none => none
      | some b2 => some b2.endBits

def EncBuf.runItems : List BufItem → EncBuf → Option EncBuf
  | [], b => some b
  | it :: its, b =>
    match b.runItem it with
    | none => none
    | some b' => EncBuf.runItems its b'

/-- the caller's side of the contract: a positive reservation that covers the bits written -/
def BufItem.wf : BufItem → Prop
  | .region _ req ops => 0 < req ∧ (putBitsAll ops).length ≤ 8 * ((req + 7) / 8)
  | _ => True

/-- what a reader is told about an item: how to read it back -/
inductive ItemShape where
  | raw (n : Nat)
  | varint (w : Nat)
  | region (withSize : Bool) (widths : List Nat)

inductive ItemVal where
  | raw (bs : Bytes)
  | varint (v : Nat)
  | region (size : Option Nat) (vals : List Nat)
deriving Repr, BEq, DecidableEq

/-- `DecoderBuffer` reading the items back in order (bitstream ≥ 2.2) -/
def decItems : List ItemShape → Rd (List ItemVal)
  | [], bs => some ([], bs)
  | .raw n :: ss, bs =>
    match readBytes n bs with
    | none => none
    | some (v, rest) =>
      match decItems ss rest with
      | none => none
      | some (vs, rest') => some (.raw v :: vs, rest')
  | .varint w :: ss, bs =>
    match decVarint w bs with
    | none => none
    | some (v, rest) =>
      match decItems ss rest with
      | none => none
      | some (vs, rest') => some (.varint v :: vs, rest')
  | .region ws widths :: ss, bs =>
    match decBitRegion false ws widths bs with
    | none => none
    | some ((sz, vals), rest) =>
      match decItems ss rest with
      | none => none
      | some (vs, rest') => some (.region sz vals :: vs, rest')

/-- the shape and the value a reader must obtain for an item written as 64-bit varints / given widths -/
def BufItem.shape : BufItem → ItemShape
  | .raw bs => .raw bs.length
  | .varint _ => .varint 64
  | .region ws _ ops => .region ws (ops.map (·.1))

def BufItem.val : BufItem → ItemVal
  | .raw bs => .raw bs
  | .varint v => .varint v
  | .region ws _ ops =>
    .region (if ws then some (((putBitsAll ops).length + 7) / 8) else none) (ops.map fun p => p.2 % 2^p.1)

end Draco
