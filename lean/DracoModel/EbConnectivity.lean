import DracoModel.EbTable
import DracoModel.DecM
import DracoModel.BitBuf
import DracoModel.BitCoders
import DracoModel.Adapters
import DracoModel.SymbolLegacy
import Generated.Constants
/-
  Connectivity part of the Edgebreaker mesh decoder, bitstream 2.2:
    compression/mesh/mesh_edgebreaker_decoder.cc                 (InitializeDecoder)
    compression/mesh/mesh_edgebreaker_decoder_impl.{h,cc}        (DecodeConnectivity (both),
        DecodeHoleAndTopologySplitEvents, IsTopologySplit, DecodeAttributeConnectivitiesOnFace,
        AssignPointsToCorners, the invalid-vertex compaction)
    compression/mesh/mesh_edgebreaker_traversal_decoder.h        (standard traversal)
    compression/mesh/mesh_edgebreaker_traversal_valence_decoder.h (valence traversal)
    mesh/mesh_attribute_corner_table.cc                          (InitEmpty, AddSeamEdge,
        RecomputeVertices)
  Streams older than 2.2 and the predictive traversal are reported as unsupported.
-/
namespace Draco.Eb
open Draco

/-- branch tags reported by the `ebtrace` driver op (bit positions of `tags`) -/
def tagNames : List String :=
  ["sym:C", "sym:S", "sym:L", "sym:R", "sym:E", "split:event", "split:two_on_one_symbol",
   "split:right_edge", "split:left_edge", "start:interior", "start:boundary", "compact:swap",
   "compact:skip_trailing", "compact:no_swap", "isolated:S", "seam:boundary", "seam:interior",
   "seam:none", "points:dedup_seam_start", "points:new_on_seam", "points:boundary_vertex",
   "components>1", "valence:ctx_used", "compact:swap_after_no_swap", "compact:skip_trailing>=2"]

def tg_sym_C : Nat := 1
def tg_sym_S : Nat := 2
def tg_sym_L : Nat := 4
def tg_sym_R : Nat := 8
def tg_sym_E : Nat := 16
def tg_split_event : Nat := 32
def tg_split_two_on_one_symbol : Nat := 64
def tg_split_right_edge : Nat := 128
def tg_split_left_edge : Nat := 256
def tg_start_interior : Nat := 512
def tg_start_boundary : Nat := 1024
def tg_compact_swap : Nat := 2048
def tg_compact_skip_trailing : Nat := 4096
def tg_compact_no_swap : Nat := 8192
def tg_isolated_S : Nat := 16384
def tg_seam_boundary : Nat := 32768
def tg_seam_interior : Nat := 65536
def tg_seam_none : Nat := 131072
def tg_points_dedup_seam_start : Nat := 262144
def tg_points_new_on_seam : Nat := 524288
def tg_points_boundary_vertex : Nat := 1048576
def tg_components_1 : Nat := 2097152
def tg_valence_ctx_used : Nat := 4194304
def tg_compact_swap_after_no_swap : Nat := 8388608
def tg_compact_skip_trailing_2 : Nat := 16777216

def tagsOf (mask : Nat) : List String :=
  (tagNames.zipIdx.filter fun (_, i) => mask / 2 ^ i % 2 == 1).map (·.1)

/-- `TopologySplitEventData` -/
structure TopoSplit where
  source : Nat
  split : Nat
  edge : Nat
deriving Repr

/-- the traversal decoder (standard or valence) after `Start` -/
structure Trav where
  /-- 0 standard, 1 predictive (legacy), 2 valence -/
  kind : Nat
  /-- bitstream < 2.2 -/
  legacy : Bool := false
  /-- `symbol_buffer_` in bit mode (standard / predictive traversal, valence before 2.2) -/
  sym : BitReader
  /-- `start_face_decoder_` (bitstream ≥ 2.2) -/
  startFace : RAnsBitDec
  /-- `start_face_buffer_` in bit mode (bitstream < 2.2) -/
  startFaceBits : BitReader := BitReader.start []
  /-- `attribute_connectivity_decoders_` -/
  seams : Array RAnsBitDec
  /-- `vertex_valences_` -/
  valences : Array Nat := #[]
  /-- `context_symbols_` -/
  ctxSyms : Array (Array Nat) := #[]
  /-- `context_counters_` -/
  ctxCnt : Array Int := #[]
  /-- `prediction_decoder_` of the predictive traversal -/
  predDec : RAnsBitDec := ⟨0, ⟨0, []⟩⟩

def Trav.valence (t : Trav) : Bool := t.kind == 2
def Trav.tracksValences (t : Trav) : Bool := t.kind != 0

/-- static input of `DecodeConnectivity(int num_symbols)` -/
structure ConnIn where
  /-- `corner_table_->num_faces()` -/
  numFaces : Nat
  /-- `is_vert_hole_.size()` -/
  maxNumVertices : Nat
  numSymbols : Nat
  /-- `topology_split_data_`, last element first -/
  splits : List TopoSplit
  /-- `attribute_data_.empty()` -/
  removeInvalid : Bool

structure ConnOut where
  c2v : Array Nat
  opp : Array Nat
  vc : Array Nat
  hole : Array Bool
  /-- return value: number of vertices after the compaction -/
  numConnVerts : Nat
  tags : Nat
  /-- the start face configurations in decoding order -/
  startFaces : List Bool := []

def topoC : Nat := Generated.TOPOLOGY_C.toNat
def topoS : Nat := Generated.TOPOLOGY_S.toNat
def topoL : Nat := Generated.TOPOLOGY_L.toNat
def topoR : Nat := Generated.TOPOLOGY_R.toNat
def topoE : Nat := Generated.TOPOLOGY_E.toNat

/-- `edge_breaker_symbol_to_topology_id` -/
def symbolToTopology (s : Nat) : Nat :=
  (Generated.edgebreakerTopologyBitPattern.getD s 0).toNat

/-- `MeshEdgebreakerTraversalDecoder::DecodeSymbol` -/
@[inline] def decodeSymbolStd (r : BitReader) : Nat × BitReader :=
  let (b, r1) := r.getBit
  if b == topoC then (b, r1) else
    let (s, r2) := BitReader.getBitsAux 2 0 0 r1
    (b + 2 * s, r2)

/-- `SetOppositeCorners` of the decoder: both directions, no check of the ids -/
@[inline] def setOpp (opp : Array Nat) (a b : Nat) : R (Array Nat) := do
  let opp ← wr "SetOppositeCorner" opp a b
  wr "SetOppositeCorner" opp b a

/-- state of the tables after the symbol loop of `DecodeConnectivity` -/
structure ConnMain where
  c2v : Array Nat
  opp : Array Nat
  vc : Array Nat
  hole : Array Bool
  /-- `active_corner_stack` -/
  stack : Array Nat
  /-- `invalid_vertices` -/
  invalid : Array Nat
  numFaces : Nat
  tags : Nat

/-- the symbol loop of `MeshEdgebreakerDecoderImpl::DecodeConnectivity(int num_symbols)` together with the calls it
    makes into the traversal decoder (`DecodeSymbol`, `NewActiveCornerReached`, `MergeVertices`), up to and
    including the check `num_vertices() > max_num_vertices → -1` -/
def connMain (ci : ConnIn) (tr : Trav) : R ConnMain := do
  let nc := 3 * ci.numFaces
  let mut c2v := Array.replicate nc inv
  let mut opp := Array.replicate nc inv
  let mut vc : Array Nat := Array.mkEmpty ci.maxNumVertices
  let mut hole := Array.replicate ci.maxNumVertices true
  let mut stack : Array Nat := #[]
  -- `topology_split_active_corners`: only keys in [0, num_symbols) are ever looked up
  let mut splitActive := Array.replicate ci.numSymbols inv
  let mut invalid : Array Nat := #[]
  let mut splits := ci.splits
  let mut numFaces := 0
  let mut sym := tr.sym
  let mut valences := tr.valences
  let mut ctxCnt := tr.ctxCnt
  let mut lastSymbol := inv
  let mut activeCtx := inv
  let mut predDec := tr.predDec
  let mut predicted := inv
  let mut tags := 0
  let minValence := 2
  let maxValence := 7
  for symbolId in [0:ci.numSymbols] do
    let face := numFaces
    numFaces := numFaces + 1
    let mut checkSplit := false
    -- traversal_decoder_.DecodeSymbol()
    let mut symbol := 0
    if tr.kind == 1 then
      -- MeshEdgebreakerTraversalPredictiveDecoder::DecodeSymbol
      let mut taken := false
      if predicted != inv then
        let (b, d) := predDec.nextBit
        predDec := d
        if b then
          symbol := predicted
          taken := true
      if !taken then
        let (s, r) := decodeSymbolStd sym
        symbol := s
        sym := r
      lastSymbol := symbol
    else if tr.valence then
      if activeCtx != inv then
        let cnt := (← rdI "context_counters_" ctxCnt activeCtx) - 1
        ctxCnt ← wrI "context_counters_" ctxCnt activeCtx cnt
        if cnt < 0 then raise .fail            -- TOPOLOGY_INVALID: unknown symbol
        let sid ← rd "context_symbols_" (tr.ctxSyms.getD activeCtx #[]) cnt.toNat
        if sid > 4 then raise .fail
        symbol := symbolToTopology sid
        tags := tags ||| tg_valence_ctx_used
      else if tr.legacy then
        -- no context yet: the symbol is read directly (bitstream < 2.2)
        let (s, r) := decodeSymbolStd sym
        symbol := s
        sym := r
      else
        symbol := topoE
      lastSymbol := symbol
    else
      let (s, r) := decodeSymbolStd sym
      symbol := s
      sym := r
    let corner := 3 * face
    if symbol == topoC then
      tags := tags ||| tg_sym_C
      if stack.isEmpty then raise .fail
      let cornerA := stack.back!
      let vertexX ← vertex c2v (nextC cornerA)
      let cornerB := nextC (← leftMost vc vertexX)
      if cornerA == cornerB then raise .fail
      if (← opposite opp cornerA) != inv || (← opposite opp cornerB) != inv then raise .fail
      opp ← setOpp opp cornerA (corner + 1)
      opp ← setOpp opp cornerB (corner + 2)
      let vertAPrev ← vertex c2v (prevC cornerA)
      let vertBNext ← vertex c2v (nextC cornerB)
      if vertexX == vertAPrev || vertexX == vertBNext then raise .fail
      c2v ← wr "MapCornerToVertex" c2v corner vertexX
      c2v ← wr "MapCornerToVertex" c2v (corner + 1) vertBNext
      c2v ← wr "MapCornerToVertex" c2v (corner + 2) vertAPrev
      vc ← setLeftMost vc vertAPrev (corner + 2)
      hole ← wrB "is_vert_hole_" hole vertexX false
      stack := stack.set! (stack.size - 1) corner
    else if symbol == topoR || symbol == topoL then
      tags := tags ||| (if symbol == topoR then tg_sym_R else tg_sym_L)
      if stack.isEmpty then raise .fail
      let cornerA := stack.back!
      if (← opposite opp cornerA) != inv then raise .fail
      let (oppCorner, cornerL, cornerR) :=
        if symbol == topoR then (corner + 2, corner + 1, corner) else (corner + 1, corner, corner + 2)
      opp ← setOpp opp oppCorner cornerA
      let newVert := vc.size
      vc := vc.push inv
      if vc.size > ci.maxNumVertices then raise .fail
      c2v ← wr "MapCornerToVertex" c2v oppCorner newVert
      vc ← setLeftMost vc newVert oppCorner
      let vertexR ← vertex c2v (prevC cornerA)
      c2v ← wr "MapCornerToVertex" c2v cornerR vertexR
      vc ← setLeftMost vc vertexR cornerR
      c2v ← wr "MapCornerToVertex" c2v cornerL (← vertex c2v (nextC cornerA))
      stack := stack.set! (stack.size - 1) corner
      checkSplit := true
    else if symbol == topoS then
      tags := tags ||| tg_sym_S
      if stack.isEmpty then raise .fail
      let cornerB := stack.back!
      stack := stack.pop
      let it := splitActive.getD symbolId inv
      if it != inv then stack := stack.push it
      if stack.isEmpty then raise .fail
      let cornerA := stack.back!
      if cornerA == cornerB then raise .fail
      if (← opposite opp cornerA) != inv || (← opposite opp cornerB) != inv then raise .fail
      opp ← setOpp opp cornerA (corner + 2)
      opp ← setOpp opp cornerB (corner + 1)
      let vertexP ← vertex c2v (prevC cornerA)
      c2v ← wr "MapCornerToVertex" c2v corner vertexP
      c2v ← wr "MapCornerToVertex" c2v (corner + 1) (← vertex c2v (nextC cornerA))
      let vertBPrev ← vertex c2v (prevC cornerB)
      c2v ← wr "MapCornerToVertex" c2v (corner + 2) vertBPrev
      vc ← setLeftMost vc vertBPrev (corner + 2)
      let mut cornerN := nextC cornerB
      let vertexN ← vertex c2v cornerN
      -- traversal_decoder_.MergeVertices(vertex_p, vertex_n)
      if tr.tracksValences then
        let s := (← rd "vertex_valences_" valences vertexP) + (← rd "vertex_valences_" valences vertexN)
        if s ≥ 2 ^ 31 then raise (.ub "vertex_valences_ overflow")
        valences ← wr "vertex_valences_" valences vertexP s
      vc ← setLeftMost vc vertexP (← leftMost vc vertexN)
      let firstCorner := cornerN
      let mut fin := false
      for _ in [0:nc + 1] do
        if cornerN == inv then
          fin := true
          break
        c2v ← wr "MapCornerToVertex" c2v cornerN vertexP
        cornerN ← swingLeft opp cornerN
        if cornerN == firstCorner then raise .fail
      if !fin then raise (.fuel "S: swing left")
      vc ← wr "MakeVertexIsolated" vc vertexN inv
      tags := tags ||| tg_isolated_S
      if ci.removeInvalid then invalid := invalid.push vertexN
      stack := stack.set! (stack.size - 1) corner
    else if symbol == topoE then
      tags := tags ||| tg_sym_E
      let first := vc.size
      vc := ((vc.push inv).push inv).push inv
      c2v ← wr "MapCornerToVertex" c2v corner first
      c2v ← wr "MapCornerToVertex" c2v (corner + 1) (first + 1)
      c2v ← wr "MapCornerToVertex" c2v (corner + 2) (first + 2)
      if vc.size > ci.maxNumVertices then raise .fail
      vc ← setLeftMost vc first corner
      vc ← setLeftMost vc (first + 1) (corner + 1)
      vc ← setLeftMost vc (first + 2) (corner + 2)
      stack := stack.push corner
      checkSplit := true
    else
      raise .fail
    -- traversal_decoder_.NewActiveCornerReached(active_corner_stack.back())
    if tr.tracksValences then
      let c := stack.back!
      let n := nextC c
      let p := prevC c
      let vC ← vertex c2v c
      let vN ← vertex c2v n
      let vP ← vertex c2v p
      let add := fun (vals : Array Nat) (v k : Nat) => do
        wr "vertex_valences_" vals v ((← rd "vertex_valences_" vals v) + k)
      if lastSymbol == topoC || lastSymbol == topoS then
        valences ← add valences vN 1
        valences ← add valences vP 1
      else if lastSymbol == topoR then
        valences ← add valences vC 1
        valences ← add valences vN 1
        valences ← add valences vP 2
      else if lastSymbol == topoL then
        valences ← add valences vC 1
        valences ← add valences vN 2
        valences ← add valences vP 1
      else if lastSymbol == topoE then
        valences ← add valences vC 2
        valences ← add valences vN 2
        valences ← add valences vP 2
      let av ← rd "vertex_valences_" valences vN
      if av ≥ 2 ^ 31 then raise (.ub "vertex_valences_ overflow")
      if tr.kind == 1 then
        if lastSymbol == topoC || lastSymbol == topoR then
          predicted := if av < 6 then topoR else topoC
        else predicted := inv
      else
        let clamped := if av < minValence then minValence else if av > maxValence then maxValence else av
        activeCtx := clamped - minValence
    if checkSplit then
      let encoderSymbolId := ci.numSymbols - symbolId - 1
      let mut count := 0
      for _ in [0:splits.length + 1] do
        match splits with
        | [] => break
        | s :: rest =>
          -- IsTopologySplit
          if s.source > encoderSymbolId then raise .fail      -- out id = -1: wrong split symbol id
          if s.source != encoderSymbolId then break
          splits := rest
          let encSplit := toSigned 32 s.split
          if encSplit < 0 then raise .fail
          count := count + 1
          tags := tags ||| tg_split_event
          if count == 2 then tags := tags ||| tg_split_two_on_one_symbol
          let actTop := stack.back!
          let newActive :=
            if s.edge == 1 then nextC actTop else prevC actTop
          tags := tags ||| (if s.edge == 1 then tg_split_right_edge else tg_split_left_edge)
          let decSplit : Int := (ci.numSymbols : Int) - encSplit - 1
          if 0 ≤ decSplit && decSplit < ci.numSymbols then
            splitActive := splitActive.set! decSplit.toNat newActive
  if vc.size > ci.maxNumVertices then raise .fail
  pure { c2v, opp, vc, hole, stack, invalid, numFaces, tags }

/-- result of the start face loop -/
structure ConnStart where
  c2v : Array Nat
  opp : Array Nat
  hole : Array Bool
  tags : Nat
  startBits : List Bool

/-- `DecodeStartFaceConfiguration` for every component left on the stack, then `num_faces != corner_table_->num_faces()` -/
def connStart (ci : ConnIn) (tr : Trav) (m : ConnMain) : R ConnStart := do
  let vc := m.vc
  let mut c2v := m.c2v
  let mut opp := m.opp
  let mut hole := m.hole
  let mut stack := m.stack
  let mut numFaces := m.numFaces
  let mut tags := m.tags
  -- start faces
  let mut startFace := tr.startFace
  let mut startFaceBits := tr.startFaceBits
  let mut startBits : List Bool := []
  if stack.size > 1 then tags := tags ||| tg_components_1
  for _ in [0:stack.size] do
    if stack.isEmpty then break
    let corner := stack.back!
    stack := stack.pop
    let mut interior := false
    if tr.legacy then
      let (b, r) := startFaceBits.getBit
      startFaceBits := r
      interior := b != 0
    else
      let (b, sf) := startFace.nextBit
      startFace := sf
      interior := b
    startBits := interior :: startBits
    if interior then
      tags := tags ||| tg_start_interior
      if numFaces ≥ ci.numFaces then raise .fail
      let vertN ← vertex c2v (nextC corner)
      let cornerB := nextC (← leftMost vc vertN)
      let vertX ← vertex c2v (nextC cornerB)
      let cornerC := nextC (← leftMost vc vertX)
      if corner == cornerB || corner == cornerC || cornerB == cornerC then raise .fail
      if (← opposite opp corner) != inv || (← opposite opp cornerB) != inv
          || (← opposite opp cornerC) != inv then raise .fail
      let vertP ← vertex c2v (nextC cornerC)
      let newCorner := 3 * numFaces
      numFaces := numFaces + 1
      opp ← setOpp opp newCorner corner
      opp ← setOpp opp (newCorner + 1) cornerB
      opp ← setOpp opp (newCorner + 2) cornerC
      c2v ← wr "MapCornerToVertex" c2v newCorner vertX
      c2v ← wr "MapCornerToVertex" c2v (newCorner + 1) vertP
      c2v ← wr "MapCornerToVertex" c2v (newCorner + 2) vertN
      hole ← wrB "is_vert_hole_" hole vertX false
      hole ← wrB "is_vert_hole_" hole vertP false
      hole ← wrB "is_vert_hole_" hole vertN false
    else
      tags := tags ||| tg_start_boundary
  if numFaces != ci.numFaces then raise .fail
  pure { c2v, opp, hole, tags, startBits }

/-- removal of the vertices made isolated by TOPOLOGY_S (only when there is no attribute data): the last valid
    vertex takes the place of each of them -/
def connCompact (ci : ConnIn) (m : ConnMain) (s : ConnStart) : R ConnOut := do
  let nc := 3 * ci.numFaces
  let opp := s.opp
  let invalid := m.invalid
  let mut c2v := s.c2v
  let mut vc := m.vc
  let mut hole := s.hole
  let mut tags := s.tags
  -- remove the vertices made isolated by TOPOLOGY_S
  let mut numVertices : Int := vc.size
  let mut noSwapSeen := false
  for invalidVert in invalid do
    let mut srcVert := toUnsigned 32 (numVertices - 1)
    let mut fin := false
    let mut skipped := 0
    for _ in [0:vc.size + 2] do
      if (← leftMost vc srcVert) != inv then
        fin := true
        break
      tags := tags ||| tg_compact_skip_trailing
      skipped := skipped + 1
      if skipped ≥ 2 then tags := tags ||| tg_compact_skip_trailing_2
      numVertices := numVertices - 1
      srcVert := toUnsigned 32 (numVertices - 1)
    if !fin then raise (.fuel "compaction: last valid vertex")
    if srcVert < invalidVert then
      tags := tags ||| tg_compact_no_swap
      noSwapSeen := true
      continue
    tags := tags ||| tg_compact_swap
    if noSwapSeen then tags := tags ||| tg_compact_swap_after_no_swap
    -- VertexCornersIterator over src_vert
    let start ← leftMost vc srcVert
    let mut c := start
    let mut left := true
    let mut fin2 := false
    for _ in [0:nc + 2] do
      if c == inv then
        fin2 := true
        break
      if (← vertex c2v c) != srcVert then raise .fail
      c2v ← wr "MapCornerToVertex" c2v c invalidVert
      -- ++vcit
      if left then
        c ← swingLeft opp c
        if c == inv then
          c ← swingRight opp start
          left := false
        else if c == start then
          c := inv
      else
        c ← swingRight opp c
    if !fin2 then raise (.fuel "compaction: corners of a vertex")
    vc ← setLeftMost vc invalidVert (← leftMost vc srcVert)
    vc ← wr "MakeVertexIsolated" vc srcVert inv
    hole ← wrB "is_vert_hole_" hole invalidVert (← rdB "is_vert_hole_" hole srcVert)
    hole ← wrB "is_vert_hole_" hole srcVert false
    numVertices := numVertices - 1
  if numVertices < 0 then raise (.ub "negative vertex count")
  pure { c2v, opp, vc, hole, numConnVerts := numVertices.toNat, tags, startFaces := s.startBits.reverse }

-- (`simp [connLoop]` on a concrete input unfolds the three parts as well)
attribute [simp] connMain connStart connCompact

/-- `MeshEdgebreakerDecoderImpl::DecodeConnectivity(int num_symbols)` together with the calls it
    makes into the traversal decoder (`DecodeSymbol`, `NewActiveCornerReached`, `MergeVertices`,
    `DecodeStartFaceConfiguration`). Returns the tables and the traversal decoder state needed
    afterwards (the attribute seam decoders are not touched here). -/
def connLoop (ci : ConnIn) (tr : Trav) : R ConnOut := do
  let m ← connMain ci tr
  let s ← connStart ci tr m
  connCompact ci m s

/-- `MeshAttributeCornerTable` built by `InitEmpty`, `AddSeamEdge`, `RecomputeVertices`, plus
    the decoder's `AttributeData` bookkeeping -/
structure AttConn where
  /-- `is_edge_on_seam_` -/
  edgeSeam : Array Bool
  /-- `is_vertex_on_seam_` -/
  vertSeam : Array Bool
  /-- `corner_to_vertex_map_` -/
  c2v : Array Nat
  /-- `vertex_to_left_most_corner_map_` (its size is `num_vertices()`) -/
  lm : Array Nat
  noInteriorSeams : Bool
deriving Inhabited

/-- `DecodeAttributeConnectivitiesOnFace` for every face: the seam corners per attribute data.
    Returns the corner lists and the tag mask. -/
def decodeSeams (legacy21 : Bool) (opp : Array Nat) (numFaces numAtt : Nat) (decs : Array RAnsBitDec) :
    R (Array (Array Nat) × Nat) := do
  let mut seams : Array (Array Nat) := Array.replicate numAtt #[]
  let mut decs := decs
  let mut tags := 0
  for f in [0:numFaces] do
    let corner := 3 * f
    for c in [corner, nextC corner, prevC corner] do
      let oc ← opposite opp c
      if oc == inv then
        for i in [0:numAtt] do
          seams := seams.modify i (·.push c)
        tags := tags ||| tg_seam_boundary
        continue
      -- (`DecodeAttributeConnectivitiesOnFaceLegacy`, bitstream < 2.1, decodes every edge from both sides)
      if !legacy21 && oc / 3 < f then continue
      for i in [0:numAtt] do
        match decs[i]? with
        | none => raise (.ub "attribute_connectivity_decoders_")
        | some d =>
          let (b, d') := d.nextBit
          decs := decs.set! i d'
          if b then
            seams := seams.modify i (·.push c)
            tags := tags ||| tg_seam_interior
          else
            tags := tags ||| tg_seam_none
  pure (seams, tags)

/-- `InitEmpty` + `AddSeamEdge` for all corners + `RecomputeVertices(nullptr, nullptr)` -/
def buildAttConn (c2vBase opp vc : Array Nat) (seamCorners : Array Nat) : R AttConn := do
  let nc := c2vBase.size
  let mut edgeSeam := Array.replicate nc false
  let mut vertSeam := Array.replicate vc.size false
  let mut noInterior := true
  for c in seamCorners do
    edgeSeam ← wrB "is_edge_on_seam_" edgeSeam c true
    vertSeam ← wrB "is_vertex_on_seam_" vertSeam (← vertex c2vBase (nextC c)) true
    vertSeam ← wrB "is_vertex_on_seam_" vertSeam (← vertex c2vBase (prevC c)) true
    let oc ← opposite opp c
    if oc != inv then
      noInterior := false
      edgeSeam ← wrB "is_edge_on_seam_" edgeSeam oc true
      vertSeam ← wrB "is_vertex_on_seam_" vertSeam (← vertex c2vBase (nextC oc)) true
      vertSeam ← wrB "is_vertex_on_seam_" vertSeam (← vertex c2vBase (prevC oc)) true
  -- RecomputeVerticesInternal<false>
  let mut c2v := Array.replicate nc inv
  let mut lm : Array Nat := Array.mkEmpty vc.size
  let attOpp := fun (es : Array Bool) (c : Nat) => do
    if c == inv then pure inv
    else if (← rdB "IsCornerOppositeToSeamEdge" es c) then pure inv
    else rd "CornerTable::Opposite" opp c
  for v in [0:vc.size] do
    let c := vc[v]!
    if c == inv then continue
    let mut firstVertId := lm.size
    let mut firstC := c
    if (← rdB "is_vertex_on_seam_" vertSeam v) then
      -- swing left on the attribute table to the first corner behind a seam
      let mut actC := nextC (← attOpp edgeSeam (nextC firstC))
      let mut fin := false
      for _ in [0:nc + 1] do
        if actC == inv then
          fin := true
          break
        firstC := actC
        actC := nextC (← attOpp edgeSeam (nextC actC))
        if actC == c then raise .fail
      if !fin then raise (.fuel "RecomputeVertices: swing left")
    c2v ← wr "corner_to_vertex_map_" c2v firstC firstVertId
    lm := lm.push firstC
    let mut actC ← swingRight opp firstC
    let mut fin := false
    for _ in [0:nc + 1] do
      if actC == inv || actC == firstC then
        fin := true
        break
      if (← rdB "IsCornerOppositeToSeamEdge" edgeSeam (nextC actC)) then
        firstVertId := lm.size
        lm := lm.push actC
      c2v ← wr "corner_to_vertex_map_" c2v actC firstVertId
      actC ← swingRight opp actC
    if !fin then raise (.fuel "RecomputeVertices: swing right")
  pure { edgeSeam, vertSeam, c2v, lm, noInteriorSeams := noInterior }

/-- `AssignPointsToCorners`: flat face array (point ids) and the number of points -/
def assignPoints (co : ConnOut) (numFaces : Nat) (atts : Array AttConn) : R (Array Nat × Nat × Nat) := do
  let nc := 3 * numFaces
  if atts.isEmpty then
    -- vertex ids are point ids
    return (co.c2v, co.numConnVerts, 0)
  let mut tags := 0
  let mut pointToCorner : Array Nat := #[]
  let mut cornerToPoint := Array.replicate nc 0
  for v in [0:co.vc.size] do
    let c0 := co.vc[v]!
    if c0 == inv then continue
    let mut first := c0
    if (← rdB "is_vert_hole_" co.hole v) then
      tags := tags ||| tg_points_boundary_vertex
    else
      for a in atts do
        -- IsCornerOnSeam(c)
        let vb ← vertex co.c2v c0
        if !(← rdB "is_vertex_on_seam_" a.vertSeam vb) then continue
        let vertId ← rd "MeshAttributeCornerTable::Vertex" a.c2v c0
        let mut actC ← swingRight co.opp c0
        let mut seamFound := false
        let mut fin := false
        for _ in [0:nc + 1] do
          if actC == c0 then
            fin := true
            break
          if actC == inv then raise .fail
          if (← rd "MeshAttributeCornerTable::Vertex" a.c2v actC) != vertId then
            first := actC
            seamFound := true
            fin := true
            break
          actC ← swingRight co.opp actC
        if !fin then raise (.fuel "AssignPointsToCorners: seam search")
        if seamFound then
          tags := tags ||| tg_points_dedup_seam_start
          break
    let mut c := first
    cornerToPoint ← wr "corner_to_point_map" cornerToPoint c pointToCorner.size
    pointToCorner := pointToCorner.push c
    let mut prev := c
    c ← swingRight co.opp c
    let mut fin := false
    for _ in [0:nc + 1] do
      if c == inv || c == first then
        fin := true
        break
      let mut seam := false
      for a in atts do
        if (← rd "MeshAttributeCornerTable::Vertex" a.c2v c) != (← rd "MeshAttributeCornerTable::Vertex" a.c2v prev) then
          seam := true
          break
      if seam then
        tags := tags ||| tg_points_new_on_seam
        cornerToPoint ← wr "corner_to_point_map" cornerToPoint c pointToCorner.size
        pointToCorner := pointToCorner.push c
      else
        cornerToPoint ← wr "corner_to_point_map" cornerToPoint c (← rd "corner_to_point_map" cornerToPoint prev)
      prev := c
      c ← swingRight co.opp c
    if !fin then raise (.fuel "AssignPointsToCorners: corners of a vertex")
  pure (cornerToPoint, pointToCorner.size, tags)

/-- everything the attribute decoders need from `DecodeConnectivity` -/
structure Mesh where
  numFaces : Nat
  /-- base corner table -/
  c2v : Array Nat
  opp : Array Nat
  vc : Array Nat
  /-- `attribute_data_[i].connectivity_data` -/
  atts : Array AttConn
  /-- `mesh->face(f)[k]` at index `3f+k` -/
  faces : Array Nat
  numPoints : Nat
  tags : Nat

/-- lifting of the pure part into the instrumented decoder monad -/
def liftR {α} (r : R α) : DecM α :=
  match r with
  | .ok a => DecM.ret a
  | .error .fail => DecM.fail
  | .error (.ub s) => DecM.failWith (.unsupported ("ub:" ++ s))
  | .error (.fuel s) => DecM.failWith (.unsupported ("fuel:" ++ s))
  | .error (.unsupported s) => DecM.failWith (.unsupported s)

/-- the not yet consumed input -/
@[inline] def peekRest : DecM Bytes := fun s => (some s.rest, s)

/-- largest face / vertex count the model allocates tables for -/
def modelCap : Nat := 2 ^ 21

/-- version dependent count: raw `uint32_t` before 2.0, varint afterwards -/
def countV (ver : Nat) : DecM Nat := if ver < 2 * 256 + 0 then DecM.rdU32 else DecM.varint 32

/-- run `m` `n` times, stopping at the first failure (no list of length `n` is built) -/
def repeatM (m : DecM Unit) : Nat → DecM Unit
  | 0 => DecM.ret ()
  | n+1 => DecM.andThen m fun _ => repeatM m n

/-- run `m` on another buffer (`DecoderBuffer event_buffer`); returns the result and the number of
    bytes `m` consumed there (`decoded_size()`); the main buffer is untouched -/
def withBuffer {α} (bs : Bytes) (m : DecM α) : DecM (α × Nat) := fun s =>
  match m { s with rest := bs } with
  | (some a, s') => (some (a, bs.length - s'.rest.length), { s' with rest := s.rest })
  | (none, s') => (none, { s' with rest := s.rest })

open DecM in
/-- `DecodeHoleAndTopologySplitEvents`: the topology split events, last one first (the hole events
    of bitstreams < 2.1 are read and ignored, as in the C++) -/
def decodeTopologySplits (ver numFaces : Nat) : DecM (List TopoSplit) := do
  let n ← countV ver
  let mut result : List TopoSplit := []
  if n > 0 then
    require (n ≤ numFaces)
    if ver < 1 * 256 + 2 then
      -- raw events
      let rec raw (k : Nat) (acc : List TopoSplit) : DecM (List TopoSplit) :=
        match k with
        | 0 => pure acc
        | k+1 => do
          let split ← rdU32
          let source ← rdU32
          let e ← rdU8
          raw k (⟨source, split, e % 2⟩ :: acc)
      result ← raw n []
    else
      -- ids: delta + varint coding; arithmetic in uint32
      let rec ids (k : Nat) (last : Nat) (acc : List (Nat × Nat)) : DecM (List (Nat × Nat)) :=
        match k with
        | 0 => pure acc
        | k+1 => do
          let d ← varint 32
          let source := (d + last) % 2 ^ 32
          let d2 ← varint 32
          require (d2 ≤ source)
          ids k source ((source, source - d2) :: acc)
      let evs ← ids n 0 []         -- last event first
      -- source edges from a bit sequence without size prefix: one bit each, two before 2.2
      let (_, bits) ← lift (decBitRegion false false (List.replicate n (if ver < 2 * 256 + 2 then 2 else 1)))
      -- `bits` is in event order, `evs` reversed
      result := (evs.zip bits.reverse).map fun ((s, t), b) => ⟨s, t, b % 2⟩
  -- hole events
  if ver < 2 * 256 + 1 then
    let nh ← countV ver
    if ver < 1 * 256 + 2 then repeatM (do let _ ← rdU32) nh
    else repeatM (do let _ ← varint 32) nh
  pure result

open DecM in
/-- `Start` of `MeshEdgebreakerTraversalDecoder` (kind 0), `…PredictiveDecoder` (1),
    `…ValenceDecoder` (2) -/
def startTraversal (ver kind numAtt numVerts numFaces : Nat) : DecM Trav := do
  let legacy := ver < 2 * 256 + 2
  let mut sym := BitReader.start []
  -- `at:<kind>:<bytes remaining>` tags: offsets for the stream transcoder of tools/props/legacycases.py
  tag s!"at:traversal:{← remaining}"
  if kind != 2 || legacy then
    -- DecodeTraversalSymbols: the bit decoder covers the whole remaining buffer
    let size ← lift (readBitRegionSize legacy)
    let rest ← peekRest
    sym := BitReader.start rest
    require (size ≤ rest.length)
    lift (skipBytes size)
  -- DecodeStartFaces
  let mut startFace : RAnsBitDec := ⟨0, ⟨0, []⟩⟩
  let mut startFaceBits := BitReader.start []
  if legacy then
    let size ← lift (readBitRegionSize true)
    let rest ← peekRest
    startFaceBits := BitReader.start rest
    require (size ≤ rest.length)
    lift (skipBytes size)
  else
    let r0 ← remaining
    startFace ← lift (ransBitStart false)
    tag s!"at:startface:{r0}:{← remaining}"
  -- DecodeAttributeSeams
  let seams ← replicateM' numAtt (do
    tag s!"at:rans:{← remaining}"
    lift (ransBitStart legacy))
  if kind == 0 then
    pure { kind, legacy, sym, startFace, startFaceBits, seams := seams.toArray }
  else if kind == 1 then
    let nss ← rdI32
    require (decide (nss ≥ 0))
    require (decide (nss < numVerts))
    alloc "predictive_decoder.vertex_valences" (4 * numVerts)
    let predDec ← lift (ransBitStart legacy)
    pure { kind, legacy, sym, startFace, startFaceBits, seams := seams.toArray,
           valences := Array.replicate numVerts 0, predDec }
  else
    if legacy then
      let nss ← countV ver
      require (nss < numVerts)
      let mode ← rdI8
      require (mode == 0)          -- EDGEBREAKER_VALENCE_MODE_2_7
    alloc "valence_decoder.vertex_valences" (4 * numVerts)
    tag s!"at:valence_contexts:{← remaining}"
    let mut ctxSyms : Array (Array Nat) := #[]
    let mut ctxCnt : Array Int := #[]
    -- min_valence_ = 2, max_valence_ = 7
    for _ in [0:6] do
      -- offset of this context's symbol count (structure-aware corruption campaigns)
      tag s!"at:valence_context_count:{← remaining}"
      let n ← varint 32
      require (n ≤ numFaces)
      if n > 0 then
        alloc "valence_decoder.context_symbols" (4 * n)
        -- the result of DecodeSymbols is not checked by the C++: after a failure the contents
        -- of the context and the buffer position are whatever the failing call left behind
        let st ← (fun s => (some s, s) : DecM DSt)
        match decodeSymbolsV (ver < 2 * 256 + 0) n 1 st.rest with
        | none => failWith (.unsupported "valence traversal: DecodeSymbols failed (result ignored by the decoder)")
        | some (syms, rest) =>
          (fun s => (some (), { s with rest := rest }) : DecM Unit)
          ctxSyms := ctxSyms.push syms.toArray
          ctxCnt := ctxCnt.push n
      else
        ctxSyms := ctxSyms.push #[]
        ctxCnt := ctxCnt.push 0
    pure { kind, legacy, sym, startFace, startFaceBits, seams := seams.toArray,
           valences := Array.replicate numVerts 0, ctxSyms, ctxCnt }

open DecM in
/-- `MeshEdgebreakerDecoder::InitializeDecoder` + `MeshEdgebreakerDecoderImpl::DecodeConnectivity()` -/
def decodeConnectivity : DecM Mesh := do
  let ver ← version
  let legacy := ver < 2 * 256 + 2
  -- InitializeDecoder
  let travType ← rdU8
  tag s!"at:after_traversal_type:{← remaining}"
  require (travType ≤ 2)
  if legacy then tag s!"legacy:connectivity:{ver / 256}.{ver % 256}"
  if travType == 1 then tag "traversal:predictive"
  -- DecodeConnectivity
  if legacy then
    let _numNewVerts ← countV ver
  let nev ← countV ver
  let numFaces ← countV ver
  require (numFaces ≤ 0xffffffff / 3)
  require (nev ≤ numFaces * 3)
  let minFaceEdges := 3 * numFaces / 2
  -- `static_cast<uint64_t>(num_encoded_vertices_)` of an `int`
  let nev64 := toUnsigned 64 (toSigned 32 nev)
  let maxVertexEdges := (nev64 * ((nev64 + 2 ^ 64 - 1) % 2 ^ 64)) % 2 ^ 64 / 2
  require (decide (maxVertexEdges ≥ minFaceEdges))
  let numAtt ← rdU8
  let numSymbols ← countV ver
  require (numFaces ≥ numSymbols)
  require (numFaces ≤ numSymbols + numSymbols / 3)
  let numSplitSymbols ← countV ver
  require (numSplitSymbols ≤ numSymbols)
  alloc "edgebreaker.attribute_data" (200 * numAtt)
  -- corner_table_->Reset(num_faces, num_encoded_vertices_ + num_encoded_split_symbols)
  let numVerts := (nev + numSplitSymbols) % 2 ^ 32
  require (numVerts < 2 ^ 31)
  -- the element counts the stream may use to size tables: faces + vertices
  declare (numFaces + numVerts)
  alloc "corner_table.corner_to_vertex_map" (4 * 3 * numFaces)
  alloc "corner_table.opposite_corners" (4 * 3 * numFaces)
  alloc "corner_table.vertex_corners(reserve)" (4 * numVerts)
  alloc "edgebreaker.is_vert_hole" (numVerts / 8)
  if numFaces > modelCap || numVerts > 3 * modelCap then
    failWith (.unsupported "edgebreaker: declared size beyond the model's table limit") else
  -- topology split (and hole) events: behind the connectivity data before 2.2
  let mut splits : List TopoSplit := []
  let mut eventBytes := 0
  if legacy then
    let connSize ← countV ver
    let rest ← peekRest
    require (connSize != 0 && connSize ≤ rest.length)
    let (sp, used) ← withBuffer (rest.drop connSize) (decodeTopologySplits ver numFaces)
    splits := sp
    eventBytes := used
  else
    let r0 ← remaining
    splits ← decodeTopologySplits ver numFaces
    tag s!"at:events:{r0}:{← remaining}"
  let tr ← startTraversal ver travType numAtt numVerts numFaces
  tag s!"at:traversal_end:{← remaining}"
  let co ← liftR (connLoop { numFaces, maxNumVertices := numVerts, numSymbols, splits,
                             removeInvalid := numAtt == 0 } tr)
  tag ("at:startface_bits:" ++ String.join (co.startFaces.map fun b => if b then "1" else "0") ++ ":")
  -- the main buffer continues behind the traversal data; the split data decoded earlier is skipped
  if legacy then lift (skipBytes eventBytes)
  -- attribute seams
  let (seamCorners, t1) ← liftR (decodeSeams (ver < 2 * 256 + 1) co.opp numFaces numAtt tr.seams)
  let atts ← liftR ((seamCorners.mapM fun sc => buildAttConn co.c2v co.opp co.vc sc))
  alloc "mesh.faces" (12 * numFaces)
  let (faces, numPoints, t2) ← liftR (assignPoints co numFaces atts)
  pure { numFaces, c2v := co.c2v, opp := co.opp, vc := co.vc, atts, faces, numPoints,
         tags := co.tags ||| t1 ||| t2 }

end Draco.Eb
