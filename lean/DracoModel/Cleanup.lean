import DracoModel.Dedup
/-
  DracoModel.Cleanup — src/draco/mesh/mesh_cleanup.{h,cc} (`MeshCleanup::Cleanup`,
  `RemoveDegeneratedFaces`, `RemoveDuplicateFaces`, `RemoveUnusedAttributes`) as compiled in
  /repo/_build (DRACO_TRANSCODER_SUPPORTED is off).

  Facts read off the C++:
  * `make_geometry_manifold` is only consulted in the "nothing to do" test; no step is run for it
    (`MakeGeometryManifold` is never called and would return an error).
  * any enabled option requires a POSITION attribute (the first attribute of type 0), else the
    call fails — even when only `remove_unused_attributes` is set, which never looks at it.
  * `RemoveDegeneratedFaces` compares position value INDICES (`mapped_index`), not values.
  * `RemoveDuplicateFaces` compares POINT ids (the header says position indices) after rotating
    the face until `face[0] <= face[1] && face[0] <= face[2]`; `unordered_set` is used with `find`
    and `insert` only, never iterated.  Kept faces are stored back *rotated* once at least one
    duplicate was dropped (`SetFace(fi - num_duplicate_faces, face)` with the rotated copy), and
    unrotated before.
  * `RemoveUnusedAttributes` renumbers the used points / used value entries in increasing order
    of their old ids, shrinks the buffer (`Resize`) and rewrites the maps.
-/
namespace Draco

/-- `MeshCleanupOptions` with the defaults of the header -/
structure CleanupOpts where
  removeDegeneratedFaces : Bool := true
  removeDuplicateFaces : Bool := true
  removeUnusedAttributes : Bool := true
  makeGeometryManifold : Bool := false
deriving Repr, BEq, DecidableEq

abbrev Face := Nat × Nat × Nat

/-- `mesh->GetNamedAttribute(GeometryAttribute::POSITION)`: first attribute added with type 0 -/
def Geometry.positionAtt (g : Geometry) : Option Attribute := g.atts.find? (·.attType == 0)

namespace Cleanup

/-! ### RemoveDegeneratedFaces -/

/-- two corners of the face share the position value index -/
def isDegenerate (pos : Attribute) (f : Face) : Bool :=
  let i0 := pos.mappedIndex f.1
  let i1 := pos.mappedIndex f.2.1
  let i2 := pos.mappedIndex f.2.2
  i0 == i1 || i0 == i2 || i1 == i2

/-- `isDegenerate` through a precomputed index function -/
def isDegenerateBy (ix : Nat → Nat) (f : Face) : Bool :=
  let i0 := ix f.1
  let i1 := ix f.2.1
  let i2 := ix f.2.2
  i0 == i1 || i0 == i2 || i1 == i2

/-- `MeshCleanup::RemoveDegeneratedFaces`: the kept faces are moved down in order -/
def removeDegenerated (pos : Attribute) (g : Geometry) : Geometry :=
  let ma := pos.mapArray
  { g with faces := g.faces.filter fun f => !isDegenerateBy (fun p => idxOf ma p) f }

/-! ### RemoveDuplicateFaces -/

/-- `std::swap(face[0], face[1]); std::swap(face[1], face[2]);` -/
def rotL (f : Face) : Face := (f.2.1, f.2.2, f.1)

/-- `while (face[0] > face[1] || face[0] > face[2]) rotL` — at most two rotations are ever made
    (`canonLoop_stops` in DracoProofs/Cleanup.lean: fuel 2 suffices) -/
def canonLoop : Nat → Face → Face
  | 0, f => f
  | fuel + 1, f => if f.1 > f.2.1 ∨ f.1 > f.2.2 then canonLoop fuel (rotL f) else f

def canonFace (f : Face) : Face := canonLoop 2 f

/-- the loop of `RemoveDuplicateFaces`; `seen` = content of `is_face_used`,
    `dup` = `num_duplicate_faces > 0` -/
def dupLoop (seen : List Face) (dup : Bool) : List Face → List Face
  | [] => []
  | f :: fs =>
    let cf := canonFace f
    if seen.contains cf then dupLoop seen true fs
    else (if dup then cf else f) :: dupLoop (cf :: seen) dup fs

def faceKey (f : Face) : List Nat := [f.1, f.2.1, f.2.2]

/-- `dupLoop` with `is_face_used` as a hash table (`DTable` of DracoModel/Dedup.lean, as
    `std::unordered_set`); equal to `dupLoop` (`dupLoopFast_eq` in DracoProofs/Cleanup.lean) -/
def dupLoopFast (t : DTable) (dup : Bool) : List Face → List Face
  | [] => []
  | f :: fs =>
    let cf := canonFace f
    if (t.find (faceKey cf)).isSome then dupLoopFast t true fs
    else (if dup then cf else f) :: dupLoopFast (t.insert (faceKey cf)) dup fs

/-- `MeshCleanup::RemoveDuplicateFaces` -/
def removeDuplicates (g : Geometry) : Geometry :=
  { g with faces := dupLoopFast { buckets := Array.replicate (g.faces.length + 1) [], count := 0 } false g.faces }

/-! ### RemoveUnusedAttributes -/

/-- `is_used[i] = true` for all `i` of the list (writes out of range dropped) -/
def markAll (n : Nat) (ixs : List Nat) : Array Bool :=
  ixs.foldl (fun u i => u.setIfInBounds i true) (Array.replicate n false)

/-- the mark array as a list -/
def marks (n : Nat) (ixs : List Nat) : List Bool := (markAll n ixs).toList

/-- running renumbering of the marked items: `map[i] = used[i] ? k++ : invalid` -/
def ranksFrom : Nat → List Bool → List (Option Nat)
  | _, [] => []
  | k, true :: r => some k :: ranksFrom (k + 1) r
  | k, false :: r => none :: ranksFrom k r

/-- the items whose mark is set, in order -/
def keepMask {α : Type} : List Bool → List α → List α
  | true :: m, x :: xs => x :: keepMask m xs
  | false :: m, _ :: xs => keepMask m xs
  | _, _ => []

def corners (faces : List Face) : List Nat :=
  faces.foldr (fun f acc => f.1 :: f.2.1 :: f.2.2 :: acc) []

/-- `is_att_index_used` after the marking loop: value entries referenced by a kept point -/
def usedValues (kept : List Nat) (a : Attribute) : List Bool :=
  let ma := a.mapArray
  marks a.numValues (kept.map fun i => idxOf ma i)

/-- compaction of the buffer (used entries moved down in order) + `att->Resize(num_used_entries)` -/
def compact (usedV : List Bool) (a : Attribute) : Attribute :=
  { a with numValues := usedV.count true, values := (keepMask usedV a.entries).flatten }

/-- `att_indices_changed ? att_index_map[e] : e` -/
def newEntry (attChanged : Bool) (attIndexMap : Array (Option Nat)) (e : Nat) : Nat :=
  if attChanged then (attIndexMap.getD e none).getD 0 else e

/-- `SetPointMapEntry(point_map[i], f(map[i]))` for the kept `i` in increasing order, then
    `SetExplicitMapping(mesh->num_points())` (resize; new slots = kInvalidAttributeValueIndex) -/
def rewriteMap (nNew : Nat) (kept : List Nat) (m : List Nat) (f : Nat → Nat) : List Nat :=
  let marr := m.toArray
  let written := kept.map fun i => f (marr.getD i 0)
  (written ++ List.replicate (nNew - written.length) (2 ^ 32 - 1)).take nNew

/-- the per-attribute part of `RemoveUnusedAttributes`.
    `nOrig` = `num_original_points`, `nNew` = `mesh->num_points()` after the point update,
    `kept` = old ids of the points with `point_map[i] != kInvalidPointIndex`, increasing. -/
def cleanAtt (nOrig nNew : Nat) (pointsChanged : Bool) (kept : List Nat) (a : Attribute) : Attribute :=
  let usedV := usedValues kept a
  let attChanged : Bool := usedV.count true < a.numValues
  let a' : Attribute := if attChanged then compact usedV a else a
  if pointsChanged || attChanged then
    -- identity stays identity only if `num_used_entries == mesh->num_points()`; otherwise the
    -- identity map over the original points is materialised first
    let base : Option (List Nat) :=
      match a.map with
      | none => if usedV.count true ≠ nNew then some (List.range nOrig) else none
      | some m => some m
    match base with
    | none => a'
    | some m =>
      { a' with map := some (rewriteMap nNew kept m (newEntry attChanged (ranksFrom 0 usedV).toArray)) }
  else a

/-- `MeshCleanup::RemoveUnusedAttributes` -/
def removeUnused (g : Geometry) : Geometry :=
  let n := g.numPoints
  let used := marks n (corners g.faces)
  let numNew := used.count true
  let pointsChanged : Bool := numNew < n
  let pointMap := (ranksFrom 0 used).toArray
  let mp (p : Nat) : Nat := (pointMap.getD p none).getD (2 ^ 32 - 1)
  let kept := if pointsChanged then keepMask used (List.range n) else List.range n
  let nNew := if pointsChanged then numNew else n
  { g with
    numPoints := nNew
    faces := if pointsChanged then g.faces.map fun f => (mp f.1, mp f.2.1, mp f.2.2) else g.faces
    atts := g.atts.map (cleanAtt n nNew pointsChanged kept) }

/-- `MeshCleanup::Cleanup(mesh, options)`; `none` = error status -/
def run (o : CleanupOpts) (g : Geometry) : Option Geometry :=
  if !o.removeDegeneratedFaces && !o.removeUnusedAttributes && !o.removeDuplicateFaces &&
      !o.makeGeometryManifold then some g
  else
    match g.positionAtt with
    | none => none
    | some pos =>
      let g := if o.removeDegeneratedFaces then removeDegenerated pos g else g
      let g := if o.removeDuplicateFaces then removeDuplicates g else g
      let g := if o.removeUnusedAttributes then removeUnused g else g
      some g

end Cleanup
end Draco
