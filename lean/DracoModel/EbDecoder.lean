import DracoModel.SeqDecoder
import DracoModel.EbConnectivity
import DracoModel.EbTraversal
import DracoModel.EbPredict
/-
  The Edgebreaker mesh decoder above the connectivity:
    compression/point_cloud/point_cloud_decoder.cc         (DecodePointAttributes)
    compression/mesh/mesh_edgebreaker_decoder_impl.cc      (CreateAttributesDecoder,
        GetAttributeCornerTable, GetAttributeEncodingData)
    compression/attributes/sequential_attribute_decoders_controller.cc  (with a mesh traversal
        sequencer: GenerateSequence, UpdatePointToAttributeIndexMapping)
    compression/attributes/sequential_{integer_,quantization_,normal_}attribute_decoder.cc
    compression/attributes/prediction_schemes/prediction_scheme_decoder_factory.h
  The attribute value decoding repeats the phases of `decodeSequentialAttributes`
  (DracoModel/SeqDecoder.lean) with the prediction scheme chosen by the factory for meshes.
-/
namespace Draco.Eb
open Draco DecM

/-- one `SequentialAttributeDecodersController` created by `CreateAttributesDecoder` -/
structure AttDecoder where
  /-- `att_data_id` (int8): negative = position encoding data -/
  attDataId : Int
  /-- false: per-vertex decoder on the base table; true: per-corner decoder on the attribute table -/
  cornerDecoder : Bool
  traversalMethod : Nat
deriving Repr, Inhabited

instance : Inhabited AttDesc := ⟨⟨0, 0, 0, false, 0⟩⟩

/-- portable form of an attribute decoded earlier (`GetPortableAttribute`) -/
structure Portable where
  attType : Nat
  numComponents : Nat
  /-- point → value index (copied from the attribute's explicit map) -/
  map : Array Nat
  values : Array Int

/-- the prediction scheme object created by `CreateIntPredictionScheme` -/
inductive Scheme where
  | none | deltaWrap | parallelogram | constrainedMulti | texCoords | deltaOcta | geometricNormal
deriving Repr, BEq

/-- `SequentialIntegerAttributeDecoder::DecodeValues` + `DecodeIntegerValues` for an attribute of
    an Edgebreaker mesh. `kind`: 1 integer, 2 quantization, 3 normals. `parent`: the portable
    attribute of the first POSITION attribute if it has one already. -/
def decodeIntegerValuesEb (kind numEntries nc : Nat) (md : MeshData) (pointIds : Array Nat)
    (parent : Option Portable) : DecM (Array Int) := do
  let method ← rdI8
  require (decide (Generated.PREDICTION_NONE ≤ method) && decide (method < Generated.NUM_PREDICTION_SCHEMES))
  let mut scheme := Scheme.none
  let mut unsupp := ""
  if method != Generated.PREDICTION_NONE then
    let tt ← rdI8
    require (decide (Generated.PREDICTION_TRANSFORM_NONE ≤ tt) && decide (tt < 4))
    if kind == 3 then
      if tt == Generated.PREDICTION_TRANSFORM_NORMAL_OCTAHEDRON_CANONICALIZED then
        scheme := if method == Generated.MESH_PREDICTION_GEOMETRIC_NORMAL then .geometricNormal else .deltaOcta
      else if tt == Generated.PREDICTION_TRANSFORM_NORMAL_OCTAHEDRON then
        unsupp := "legacy octahedron transform"
    else if tt == Generated.PREDICTION_TRANSFORM_WRAP then
      if method == Generated.MESH_PREDICTION_PARALLELOGRAM then scheme := .parallelogram
      else if method == Generated.MESH_PREDICTION_MULTI_PARALLELOGRAM then unsupp := "multi-parallelogram prediction (legacy)"
      else if method == Generated.MESH_PREDICTION_TEX_COORDS_DEPRECATED then unsupp := "deprecated tex-coords prediction (legacy)"
      else if method == Generated.MESH_PREDICTION_CONSTRAINED_MULTI_PARALLELOGRAM then scheme := .constrainedMulti
      else if method == Generated.MESH_PREDICTION_TEX_COORDS_PORTABLE then scheme := .texCoords
      else if method == Generated.MESH_PREDICTION_GEOMETRIC_NORMAL then unsupp := "geometric normal prediction with the wrap transform"
      else scheme := .deltaWrap
  if unsupp != "" then failWith (.unsupported unsupp) else
  -- InitPredictionScheme: the schemes with a parent attribute need the portable positions
  let mut pos : PosSource := { pointIds := #[], map := #[], values := #[] }
  if scheme == .texCoords || scheme == .geometricNormal then
    match parent with
    | none => fail
    | some p =>
      require (p.numComponents == 3)
      pos := { pointIds := pointIds, map := p.map, values := p.values }
  require (nc > 0)
  let numValues := numEntries * nc
  alloc "integer_decoder.portable_attribute" (4 * numValues)
  require (numEntries > 0)
  let compressed ← rdU8
  let raw : List Nat ←
    if compressed > 0 then lift (Leaf.decodeSymbols numValues nc)
    else do
      let numBytes ← rdU8
      if numBytes == 4 then
        let b ← bytes (4 * numValues)
        pure (leGroups 4 b)
      else
        require (numBytes * numValues ≤ 4 * numValues)
        let rem ← remaining
        require (numBytes * numValues ≤ rem)
        if numBytes == 0 then pure (List.replicate numValues 0) else
        let b ← bytes (numBytes * numValues)
        pure (leGroups numBytes b)
  let octa := scheme == .deltaOcta || scheme == .geometricNormal
  let vals : Array Int :=
    if octa then (raw.map (toSigned 32)).toArray else (raw.map ofSymbol).toArray
  match scheme with
  | .none => pure vals
  | .deltaWrap =>
    tag "pred:delta"
    let wt ← lift Wrap.decodeTransformData
    liftR (deltaDecodeWrap wt nc vals)
  | .parallelogram =>
    let wt ← lift Wrap.decodeTransformData
    let (r, used) ← liftR (parallelogramDecode md wt nc vals)
    tag (if used > 0 then "pred:parallelogram:used" else "pred:parallelogram:fallback_only")
    pure r
  | .constrainedMulti =>
    -- DecodePredictionData: crease flags for 1..kMaxNumParallelograms parallelograms
    let kMax := Generated.kMaxNumParallelograms.toNat
    let crease ← replicateM' kMax (do
      let numFlags ← varint 32
      require (numFlags ≤ 3 * md.t.numFaces)
      if numFlags == 0 then pure (#[] : Array Bool) else
      alloc "constrained_multi_parallelogram.is_crease_edge" (numFlags / 8)
      let d ← lift (ransBitStart false)
      pure (rabsReadBits d.probZero numFlags d.ans []).1.toArray)
    let wt ← lift Wrap.decodeTransformData
    let (r, maxPar) ← liftR (constrainedMultiDecode md wt nc crease.toArray vals)
    tag s!"pred:constrained_multi:max_parallelograms={maxPar}"
    pure r
  | .texCoords =>
    let numOrient ← rdI32
    require (decide (numOrient ≥ 0))
    -- not more orientations than corners (`fix:` commit 008c24a)
    require (numOrient.toNat ≤ 3 * md.t.numFaces)
    alloc "tex_coords_portable.orientations" (numOrient.toNat / 8)
    let d ← lift (ransBitStart false)
    let bits := (rabsReadBits d.probZero numOrient.toNat d.ans []).1
    -- `if (!bit) last = !last`
    let orient := (bits.foldl (fun (acc : Array Bool × Bool) b =>
      let last := if b then acc.2 else !acc.2
      (acc.1.push last, last)) (Array.mkEmpty bits.length, true)).1
    let wt ← lift Wrap.decodeTransformData
    let (r, used) ← liftR (texCoordsDecode md pos wt nc orient vals)
    tag (if used > 0 then "pred:tex_coords:geometric" else "pred:tex_coords:fallback_only")
    pure r
  | .deltaOcta =>
    tag "pred:delta_octahedron"
    let maxQ ← rdI32
    let _center ← rdI32
    let c ← ofOption (Leaf.octaInit maxQ)
    pure (deltaDecode (fun p cr =>
        match p, cr with
        | [p0, p1], [c0, c1] => let (a, b) := Leaf.octaDec c (p0, p1) (c0, c1); [a, b]
        | _, _ => cr) nc vals.toList).toArray
  | .geometricNormal =>
    let maxQ ← rdI32
    let _center ← rdI32
    let c ← ofOption (Leaf.octaInit maxQ)
    let fd ← lift (ransBitStart false)
    let (r, flipped) ← liftR (geometricNormalDecode md pos c fd vals)
    tag (if flipped > 0 then "pred:geometric_normal:flipped" else "pred:geometric_normal")
    pure r

/-- one iteration of the corner loop of `UpdatePointToAttributeIndexMapping` -/
def pointToValueStep (t : TView) (faces : Array Nat) (numPoints : Nat) (v2d : Array Nat) (c : Nat)
    (m : Array Nat) : R (Array Nat) := do
  let pt ← rd "mesh_->face(f)[p]" faces c
  let v ← t.vertex c
  if v == inv then throw .fail
  let e ← rd "vertex_to_encoded_attribute_value_index_map" v2d v
  if pt ≥ numPoints || e ≥ numPoints then throw .fail
  pure (m.setIfInBounds pt e)

/-- corners `c, c+1, …, c+n-1` -/
def pointToValueLoop (t : TView) (faces : Array Nat) (numPoints : Nat) (v2d : Array Nat) :
    Nat → Nat → Array Nat → R (Array Nat)
  | 0, _, m => pure m
  | n+1, c, m => do
    let m' ← pointToValueStep t faces numPoints v2d c m
    pointToValueLoop t faces numPoints v2d n (c + 1) m'

/-- `MeshTraversalSequencer::UpdatePointToAttributeIndexMapping`: `SetExplicitMapping(num_points)`
    on a fresh attribute (all entries invalid), then every corner of every face -/
def pointToValueMap (t : TView) (faces : Array Nat) (numPoints : Nat) (v2d : Array Nat) : R (Array Nat) :=
  pointToValueLoop t faces numPoints v2d (3 * t.numFaces) 0 (Array.replicate numPoints inv)

structure EbAttState where
  desc : AttDesc
  decoderType : Nat
  decoder : Nat
  rawValues : Bytes := []
  portable : Array Int := #[]
  hasPortable : Bool := false
  transform : TransformData := .none
deriving Inhabited

/-- `PointCloudDecoder::DecodePointAttributes` of `MeshEdgebreakerDecoder` -/
def decodeAttributes (opts : DecOpts) (mesh : Mesh) : DecM (List Attribute) := do
  let numAtt := mesh.atts.size
  let numDecoders ← rdU8
  -- CreateAttributesDecoder(i)
  let mut attDataDecoder : Array Int := Array.replicate numAtt (-1)
  let mut posDecoder : Int := -1
  let mut decoders : Array AttDecoder := #[]
  for i in [0:numDecoders] do
    let attDataId ← rdI8
    let decoderType ← rdU8
    if attDataId ≥ 0 then
      require (attDataId.toNat < numAtt)
      require (decide (attDataDecoder[attDataId.toNat]! < 0))
      attDataDecoder := attDataDecoder.set! attDataId.toNat i
    else
      require (decide (posDecoder < 0))
      posDecoder := i
    let traversalMethod ← rdU8
    require (traversalMethod < Generated.NUM_TRAVERSAL_METHODS.toNat)
    if decoderType == 0 then            -- MESH_VERTEX_ATTRIBUTE
      decoders := decoders.push { attDataId, cornerDecoder := false, traversalMethod }
    else
      require (traversalMethod == Generated.MESH_TRAVERSAL_DEPTH_FIRST.toNat)
      require (decide (attDataId ≥ 0))
      decoders := decoders.push { attDataId, cornerDecoder := true, traversalMethod }
  alloc "decoder.attributes_decoders" (8 * numDecoders)
  -- DecodeAttributesDecoderData of every decoder
  let mut states : Array EbAttState := #[]
  for i in [0:numDecoders] do
    let descs ← decodeAttDescs
    alloc "controller.sequential_decoders" (8 * descs.length)
    for d in descs do
      let dt ← rdU8
      require (dt ≤ 3)
      if dt == 2 then require (d.dataType == Generated.DT_FLOAT32.toNat)
      if dt == 3 then require (d.numComponents == 3 && d.dataType == Generated.DT_FLOAT32.toNat)
      states := states.push { desc := d, decoderType := dt, decoder := i }
  -- the first attribute of type POSITION (GetNamedAttributeId)
  let posAtt : Option Nat := (List.range states.size).find? fun k =>
    (states[k]!).desc.attType == Generated.geometryAttribute_POSITION.toNat
  -- DecodeAllAttributes
  let baseView : TView := { c2v := mesh.c2v, opp := mesh.opp, seam := #[], lm := mesh.vc, isAtt := false,
                            numFaces := mesh.numFaces }
  let mut maps : Array (Array Nat) := Array.replicate states.size #[]
  let mut numValuesOf : Array Nat := Array.replicate states.size 0
  for i in [0:numDecoders] do
    let dec := decoders[i]!
    -- GenerateSequence
    let view : TView :=
      if dec.cornerDecoder then
        let a := mesh.atts[dec.attDataId.toNat]!
        { c2v := a.c2v, opp := mesh.opp, seam := a.edgeSeam, lm := a.lm, isAtt := true, numFaces := mesh.numFaces }
      else baseView
    let v2dSize :=
      if dec.attDataId < 0 then mesh.vc.size
      else max (mesh.atts[dec.attDataId.toNat]!).lm.size mesh.vc.size
    alloc "mesh_traversal_sequencer.point_ids" (4 * view.numVertices)
    let seq ← liftR (if dec.traversalMethod == Generated.MESH_TRAVERSAL_PREDICTION_DEGREE.toNat
                     then maxPredictionDegree view mesh.faces v2dSize
                     else depthFirst view mesh.faces v2dSize)
    tag (if dec.cornerDecoder then "traversal:depth_first:attribute_table"
         else if dec.traversalMethod == Generated.MESH_TRAVERSAL_PREDICTION_DEGREE.toNat then "traversal:max_prediction_degree"
         else "traversal:depth_first")
    if i > 0 then tag "attribute_decoders>1"
    let md : MeshData := { t := view, d2c := seq.d2c, v2d := seq.v2d }
    let numEntries := seq.pointIds.size
    let idxs := (List.range states.size).filter fun k => (states[k]!).decoder == i
    -- UpdatePointToAttributeIndexMapping for every attribute of the decoder
    if !idxs.isEmpty then
      alloc "attribute.indices_map" (4 * mesh.numPoints * idxs.length)
      let m ← liftR (pointToValueMap view mesh.faces mesh.numPoints seq.v2d)
      for k in idxs do
        maps := maps.set! k m
        numValuesOf := numValuesOf.set! k numEntries
    -- DecodePortableAttributes
    for k in idxs do
      let s := states[k]!
      let stride := dataTypeLength s.desc.dataType * s.desc.numComponents
      alloc "attribute.Reset" (numEntries * stride)
      if s.decoderType == 0 then
        let b ← bytes (numEntries * stride)
        states := states.set! k { s with rawValues := b }
      else
        let nc := if s.decoderType == 3 then 2 else s.desc.numComponents
        let parent : Option Portable :=
          match posAtt with
          | none => none
          | some pk =>
            let ps := states[pk]!
            if ps.hasPortable then
              some { attType := ps.desc.attType,
                     numComponents := if ps.decoderType == 3 then 2 else ps.desc.numComponents,
                     map := maps[pk]!, values := ps.portable }
            else none
        let vals ← decodeIntegerValuesEb s.decoderType numEntries nc md seq.pointIds parent
        states := states.set! k { s with portable := vals, hasPortable := true }
    -- DecodeDataNeededByPortableTransforms
    for k in idxs do
      let s := states[k]!
      if s.decoderType == 2 then
        let mins ← replicateM' s.desc.numComponents rdU32
        let range ← rdU32
        let bits ← rdU8
        require (1 ≤ bits && bits ≤ 30)
        states := states.set! k { s with transform := .quantization bits mins range }
      else if s.decoderType == 3 then
        let bits ← rdU8
        states := states.set! k { s with transform := .octahedron bits }
    -- TransformAttributesToOriginalFormat: only checks here, the values are produced below
    for k in idxs do
      let s := states[k]!
      let d := s.desc
      if s.decoderType != 0 && !opts.skip.contains d.attType then
        if s.decoderType == 1 then require (d.dataType ≥ 1 && d.dataType ≤ 6)
        else if s.decoderType == 3 then
          match s.transform with
          | .octahedron bits => require (2 ≤ bits && bits ≤ 30)
          | _ => fail
  -- the attributes as the public API shows them
  mapM' (fun (k : Nat) => do
      let s := states[k]!
      let d := s.desc
      let n := numValuesOf[k]!
      let mp := some (maps[k]!).toList
      if s.decoderType == 0 then
        pure { d.toAttribute n s.rawValues with map := mp }
      else if opts.skip.contains d.attType then
        let nc := if s.decoderType == 3 then 2 else d.numComponents
        pure { attType := d.attType, dataType := Generated.DT_INT32.toNat, numComponents := nc,
               normalized := false, uniqueId := d.uniqueId, numValues := n, map := mp,
               values := (s.portable.toList.map (intToLE 4)).flatten, transform := s.transform }
      else
        match s.decoderType with
        | 1 =>
          let len := dataTypeLength d.dataType
          pure { d.toAttribute n (s.portable.toList.map (intToLE len)).flatten with map := mp }
        | 2 =>
          match s.transform with
          | .quantization bits mins range =>
            pure { d.toAttribute n (dequantAll range bits.toNat mins s.portable.toList mins []).flatten with map := mp }
          | _ => fail
        | _ =>
          match s.transform with
          | .octahedron bits =>
            pure { d.toAttribute n (octaAll bits.toNat s.portable.toList []).flatten with map := mp }
          | _ => fail) (List.range states.size)

/-- body of an Edgebreaker mesh stream after the header and the metadata:
    `InitializeDecoder`, `DecodeGeometryData` (connectivity), `DecodePointAttributes` -/
def decodeEdgebreaker (opts : DecOpts) : DecM Geometry := do
  let mesh ← decodeConnectivity
  for t in tagsOf mesh.tags do tag t
  let atts ← decodeAttributes opts mesh
  pure { isMesh := true, numPoints := mesh.numPoints, faces := triples mesh.faces.toList, atts := atts }

end Draco.Eb
