import DracoModel.SeqDecoder
import DracoModel.EbConnectivity
import DracoModel.EbTraversal
import DracoModel.EbPredict
/-
  The Edgebreaker mesh decoder above the connectivity:
    compression/point_cloud/point_cloud_decoder.cc         (DecodePointAttributes)
    compression/mesh/mesh_edgebreaker_decoder_impl.cc      (CreateAttributesDecoder,
        GetAttributeCornerTable, GetAttributeEncodingData)
    compression/attributes/sequential_attribute_decoders_controller.cc  (with a mesh traversal
        sequencer: GenerateSequence, UpdatePointToAttributeIndexMapping)
    compression/attributes/sequential_{integer_,quantization_,normal_}attribute_decoder.cc
    compression/attributes/prediction_schemes/prediction_scheme_decoder_factory.h
  The attribute value decoding repeats the phases of `decodeSequentialAttributes`
  (DracoModel/SeqDecoder.lean) with the prediction scheme chosen by the factory for meshes.
-/
namespace Draco.Eb
open Draco DecM

/-- one `SequentialAttributeDecodersController` created by `CreateAttributesDecoder` -/
structure AttDecoder where
  /-- `att_data_id` (int8): negative = position encoding data -/
  attDataId : Int
  /-- false: per-vertex decoder on the base table; true: per-corner decoder on the attribute table -/
  cornerDecoder : Bool
  traversalMethod : Nat
deriving Repr, Inhabited

instance : Inhabited AttDesc := ⟨⟨0, 0, 0, false, 0⟩⟩

/-- the POSITION attribute object a prediction scheme receives through `SetParentAttribute`:
    the portable attribute (bitstream ≥ 2.0) or the attribute itself (before 2.0) -/
structure Parent where
  numComponents : Nat
  /-- point → value index -/
  map : Array Nat
  /-- `ConvertValue<int64_t>` of every component (portable int32 values) -/
  ints : Array Int
  /-- false: the integer view is not modelled (float attribute of a stream < 2.0) -/
  intsOk : Bool
  /-- `ConvertValue<float>` of every component -/
  floats : Array Float32
  /-- false: the float view is not modelled -/
  floatsOk : Bool

/-- the prediction scheme object created by `CreateIntPredictionScheme`
    (`legacyOcta`: the non-canonicalized octahedron transform of bitstreams < 2.2) -/
inductive Scheme where
  | none | deltaWrap | parallelogram | multiParallelogram | constrainedMulti | texCoords
  | texCoordsDeprecated | deltaOcta (legacyOcta : Bool) | geometricNormal (legacyOcta : Bool)
deriving Repr, BEq

def Scheme.needsParent : Scheme → Bool
  | .texCoords | .texCoordsDeprecated | .geometricNormal _ => true
  | _ => false

/-- the schemes with an octahedron transform (their corrections are not zig-zag coded) -/
def Scheme.isOcta : Scheme → Bool
  | .deltaOcta _ | .geometricNormal _ => true
  | _ => false

/-- first part of `DecodeIntegerValues`: the prediction method byte, the transform byte and the prediction
    scheme object `CreateIntPredictionScheme` builds from them (with the reason when the combination is outside the
    model, "" otherwise) -/
def readSchemeEb (kind : Nat) : DecM (Scheme × String) := do
  let rem0 ← remaining
  let method ← rdI8
  -- position of the method byte, counted from the end of the stream (for the generators of
  -- tools/props/legacycases.py that patch scheme ids)
  tag s!"at:method={method}:{rem0}"
  require (decide (Generated.PREDICTION_NONE ≤ method) && decide (method < Generated.NUM_PREDICTION_SCHEMES))
  let mut scheme := Scheme.none
  let mut unsupp := ""
  if method != Generated.PREDICTION_NONE then
    let tt ← rdI8
    require (decide (Generated.PREDICTION_TRANSFORM_NONE ≤ tt) && decide (tt < 4))
    if kind == 3 then
      let geo := method == Generated.MESH_PREDICTION_GEOMETRIC_NORMAL
      if tt == Generated.PREDICTION_TRANSFORM_NORMAL_OCTAHEDRON_CANONICALIZED then
        scheme := if geo then .geometricNormal false else .deltaOcta false
      else if tt == Generated.PREDICTION_TRANSFORM_NORMAL_OCTAHEDRON then
        scheme := if geo then .geometricNormal true else .deltaOcta true
    else if tt == Generated.PREDICTION_TRANSFORM_WRAP then
      if method == Generated.MESH_PREDICTION_PARALLELOGRAM then scheme := .parallelogram
      else if method == Generated.MESH_PREDICTION_MULTI_PARALLELOGRAM then scheme := .multiParallelogram
      else if method == Generated.MESH_PREDICTION_TEX_COORDS_DEPRECATED then scheme := .texCoordsDeprecated
      else if method == Generated.MESH_PREDICTION_CONSTRAINED_MULTI_PARALLELOGRAM then scheme := .constrainedMulti
      else if method == Generated.MESH_PREDICTION_TEX_COORDS_PORTABLE then scheme := .texCoords
      else if method == Generated.MESH_PREDICTION_GEOMETRIC_NORMAL then unsupp := "geometric normal prediction with the wrap transform"
      else scheme := .deltaWrap
  pure (scheme, unsupp)

/-- `InitPredictionScheme` for the schemes with a parent attribute: the position sources -/
def parentSourcesEb (scheme : Scheme) (pointIds : Array Nat) (parent : Option Parent) :
    DecM (PosSource × PosSourceF × String) := do
  let mut unsupp := ""
  let mut pos : PosSource := { pointIds := #[], map := #[], values := #[] }
  let mut posF : PosSourceF := { pointIds := #[], map := #[], values := #[] }
  if scheme.needsParent then
    match parent with
    | none => fail
    | some p =>
      require (p.numComponents == 3)
      if scheme == .texCoordsDeprecated then
        if !p.floatsOk then unsupp := "deprecated tex-coords prediction: float view of this parent attribute"
        posF := { pointIds := pointIds, map := p.map, values := p.floats }
      else
        if !p.intsOk then unsupp := "integer prediction scheme with the non-portable parent attribute of a stream < 2.0"
        pos := { pointIds := pointIds, map := p.map, values := p.ints }
  pure (pos, posF, unsupp)

/-- the coded values of `DecodeIntegerValues`: `DecodeSymbols` or the raw bytes -/
def readCodedValuesEb (pre20 : Bool) (numValues nc : Nat) : DecM (List Nat) := do
  let compressed ← rdU8
  if compressed > 0 then lift (decodeSymbolsV pre20 numValues nc)
  else do
    let numBytes ← rdU8
    if numBytes == 4 then
      let b ← bytes (4 * numValues)
      pure (leGroups 4 b)
    else
      require (numBytes * numValues ≤ 4 * numValues)
      let rem ← remaining
      require (numBytes * numValues ≤ rem)
      if numBytes == 0 then pure (List.replicate numValues 0) else
      let b ← bytes (numBytes * numValues)
      pure (leGroups numBytes b)

/-- `DecodePredictionData` + `ComputeOriginalValues` of the scheme on the corrections `vals` -/
def applySchemeEb (ver : Nat) (scheme : Scheme) (md : MeshData) (pos : PosSource) (posF : PosSourceF) (nc : Nat)
    (vals : Array Int) : DecM (Array Int) := do
  let pre22 := ver < bsVersion 2 2
  let numCorners := 3 * md.t.numFaces
  match scheme with
  | .none => pure vals
  | .deltaWrap =>
    tag "pred:delta"
    let wt ← lift Wrap.decodeTransformData
    liftR (deltaDecodeWrap wt nc vals)
  | .parallelogram =>
    let wt ← lift Wrap.decodeTransformData
    let (r, used) ← liftR (parallelogramDecode md wt nc vals)
    tag (if used > 0 then "pred:parallelogram:used" else "pred:parallelogram:fallback_only")
    pure r
  | .multiParallelogram =>
    let wt ← lift Wrap.decodeTransformData
    let (r, maxPar) ← liftR (multiParallelogramDecode md wt nc vals)
    tag s!"pred:multi_parallelogram(legacy):max_parallelograms={maxPar}"
    pure r
  | .constrainedMulti =>
    if pre22 then
      let mode ← rdU8
      require (mode == 0)            -- OPTIMAL_MULTI_PARALLELOGRAM
    let kMax := Generated.kMaxNumParallelograms.toNat
    tag s!"at:constrained_mode:{← remaining}"
    let crease ← replicateM' kMax (do
      let numFlags ← varint 32
      require (numFlags ≤ numCorners)
      if numFlags == 0 then pure (#[] : Array Bool) else
      alloc "constrained_multi_parallelogram.is_crease_edge" (numFlags / 8)
      tag s!"at:rans:{← remaining}"
      let d ← lift (ransBitStart pre22)
      pure (rabsReadBits d.probZero numFlags d.ans []).1.toArray)
    let wt ← lift Wrap.decodeTransformData
    let (r, maxPar) ← liftR (constrainedMultiDecode md wt nc crease.toArray vals)
    tag s!"pred:constrained_multi:max_parallelograms={maxPar}"
    pure r
  | .texCoords =>
    let rem1 ← remaining
    tag s!"at:orientations:{rem1}"
    let numOrient ← rdI32
    require (decide (numOrient ≥ 0))
    -- not more orientations than corners (`fix:` commit 008c24a)
    require (numOrient.toNat ≤ numCorners)
    alloc "tex_coords_portable.orientations" (numOrient.toNat / 8)
    tag s!"at:rans:{← remaining}"
    let d ← lift (ransBitStart pre22)
    let bits := (rabsReadBits d.probZero numOrient.toNat d.ans []).1
    let orient := (bits.foldl (fun (acc : Array Bool × Bool) b =>
      let last := if b then acc.2 else !acc.2
      (acc.1.push last, last)) (Array.mkEmpty bits.length, true)).1
    let wt ← lift Wrap.decodeTransformData
    let (r, used) ← liftR (texCoordsDecode md pos wt nc orient vals)
    tag (if used > 0 then "pred:tex_coords:geometric" else "pred:tex_coords:fallback_only")
    pure r
  | .texCoordsDeprecated =>
    let numOrient ← if pre22 then rdU32 else varint 32
    require (numOrient != 0)
    require (numOrient ≤ numCorners)
    alloc "tex_coords.orientations" (numOrient / 8)
    let d ← lift (ransBitStart pre22)
    let bits := (rabsReadBits d.probZero numOrient d.ans []).1
    let orient := (bits.foldl (fun (acc : Array Bool × Bool) b =>
      let last := if b then acc.2 else !acc.2
      (acc.1.push last, last)) (Array.mkEmpty bits.length, true)).1
    let wt ← lift Wrap.decodeTransformData
    tag "pred:tex_coords_deprecated(legacy,float)"
    liftR (texCoordsDeprecatedDecode md posF (ver < bsVersion 1 2) wt nc orient vals)
  | .deltaOcta legacyOcta =>
    tag (if legacyOcta then "pred:delta_octahedron(legacy)" else "pred:delta_octahedron")
    let c ← if legacyOcta then lift (Octa.legacyDecodeTransformData pre22) else lift Octa.decodeTransformData
    let dec := if legacyOcta then Octa.legacyDecOrig c else Leaf.octaDec c
    pure (deltaDecode (fun p cr =>
        match p, cr with
        | [p0, p1], [c0, c1] => let (a, b) := dec (p0, p1) (c0, c1); [a, b]
        | _, _ => cr) nc vals.toList).toArray
  | .geometricNormal legacyOcta =>
    let c ← if legacyOcta then lift (Octa.legacyDecodeTransformData pre22) else lift Octa.decodeTransformData
    let dec := if legacyOcta then Octa.legacyDecOrig c else Leaf.octaDec c
    let mut oneTriangle := false
    if pre22 then
      let mode ← rdU8
      require (mode ≤ Generated.TRIANGLE_AREA.toNat)
      oneTriangle := mode == Generated.ONE_TRIANGLE.toNat
    tag s!"at:normal_mode:{← remaining}"
    tag s!"at:rans:{← remaining}"
    let fd ← lift (ransBitStart pre22)
    let (r, flipped) ← liftR (geometricNormalDecode md pos c dec oneTriangle fd vals)
    tag ((if flipped > 0 then "pred:geometric_normal:flipped" else "pred:geometric_normal")
         ++ (if legacyOcta then "(legacy octahedron)" else "") ++ (if oneTriangle then "(one triangle)" else ""))
    pure r

/-- `SequentialIntegerAttributeDecoder::DecodeValues` + `DecodeIntegerValues` for an attribute of
    an Edgebreaker mesh, every bitstream version. `kind`: 1 integer, 2 quantization, 3 normals;
    `nc`: components of the portable values, `attComponents`: of the attribute. Returns the portable
    values and, before 2.0, the transform parameters that precede them.
    (Composition of `readSchemeEb`, `parentSourcesEb`, `readCodedValuesEb`, `applySchemeEb`.) -/
def decodeIntegerValuesEb (kind numEntries nc attComponents : Nat) (md : MeshData) (pointIds : Array Nat)
    (parent : Option Parent) : DecM (Array Int × TransformData) := do
  let ver ← version
  let pre20 := ver < bsVersion 2 0
  let (scheme, unsupp) ← readSchemeEb kind
  if unsupp != "" then failWith (.unsupported unsupp) else
  -- InitPredictionScheme: the schemes with a parent attribute
  let (pos, posF, unsupp) ← parentSourcesEb scheme pointIds parent
  if unsupp != "" then failWith (.unsupported unsupp) else
  -- DecodeIntegerValues; before 2.0 the quantization / octahedral parameters come first
  let tr ← if pre20 then decodeTransformParams kind attComponents else pure TransformData.none
  require (nc > 0)
  let numValues := numEntries * nc
  alloc "integer_decoder.portable_attribute" (4 * numValues)
  require (numEntries > 0)
  let raw ← readCodedValuesEb pre20 numValues nc
  let vals : Array Int :=
    if scheme.isOcta then (raw.map (toSigned 32)).toArray else (raw.map ofSymbol).toArray
  let out ← applySchemeEb ver scheme md pos posF nc vals
  pure (out, tr)

/-- one iteration of the corner loop of `UpdatePointToAttributeIndexMapping` -/
def pointToValueStep (t : TView) (faces : Array Nat) (numPoints : Nat) (v2d : Array Nat) (c : Nat)
    (m : Array Nat) : R (Array Nat) := do
  let pt ← rd "mesh_->face(f)[p]" faces c
  let v ← t.vertex c
  if v == inv then throw .fail
  let e ← rd "vertex_to_encoded_attribute_value_index_map" v2d v
  if pt ≥ numPoints || e ≥ numPoints then throw .fail
  pure (m.setIfInBounds pt e)

/-- corners `c, c+1, …, c+n-1` -/
def pointToValueLoop (t : TView) (faces : Array Nat) (numPoints : Nat) (v2d : Array Nat) :
    Nat → Nat → Array Nat → R (Array Nat)
  | 0, _, m => pure m
  | n+1, c, m => do
    let m' ← pointToValueStep t faces numPoints v2d c m
    pointToValueLoop t faces numPoints v2d n (c + 1) m'

/-- `MeshTraversalSequencer::UpdatePointToAttributeIndexMapping`: `SetExplicitMapping(num_points)`
    on a fresh attribute (all entries invalid), then every corner of every face, then the check that
    no entry stayed invalid -/
def pointToValueMap (t : TView) (faces : Array Nat) (numPoints : Nat) (v2d : Array Nat) : R (Array Nat) := do
  let m ← pointToValueLoop t faces numPoints v2d (3 * t.numFaces) 0 (Array.replicate numPoints inv)
  -- every point must have received a value (`fix:` commit dcc9947): a point used by no face would stay
  -- mapped to kInvalidAttributeValueIndex
  if m.any (· == inv) then raise .fail
  pure m

structure EbAttState where
  desc : AttDesc
  decoderType : Nat
  decoder : Nat
  rawValues : Bytes := []
  portable : Array Int := #[]
  hasPortable : Bool := false
  transform : TransformData := .none
  /-- the attribute holds decoded values -/
  decoded : Bool := false
  /-- `TransformAttributesToOriginalFormat` of its decoder has run -/
  finished : Bool := false
  /-- point → value index (`UpdatePointToAttributeIndexMapping`) -/
  map : Array Nat := #[]
  /-- number of decoded values (= length of the decoder's point sequence) -/
  numValues : Nat := 0
deriving Inhabited

/-- the per-attribute state of the sequential attribute decoder (SeqDecoder.lean) -/
def EbAttState.toSeq (s : EbAttState) : SeqAttState :=
  { desc := s.desc, decoderType := s.decoderType, rawValues := s.rawValues,
    portable := s.portable.toList, transform := s.transform }

/-- the values of a float32 attribute as the public API shows them after `StoreValues` -/
def finalFloats (s : EbAttState) : Option (Array Float32) :=
  if s.desc.dataType != Generated.DT_FLOAT32.toNat then none else
  let bytes? : Option Bytes :=
    if s.decoderType == 0 then some s.rawValues
    else match s.decoderType, s.transform with
      | 2, .quantization bits mins range =>
        some (dequantAll range bits.toNat mins s.portable.toList mins []).flatten
      | 3, .octahedron bits => some (octaAll bits.toNat s.portable.toList []).flatten
      | _, _ => none
  bytes?.map fun b => ((leGroups 4 b).map fun w => Float32.ofBits (UInt32.ofNat w)).toArray

/-- what `InitPredictionScheme` passes to `SetParentAttribute` for the first POSITION attribute -/
def parentOf (ver : Nat) (skip : List Nat) (ps : EbAttState) : Option Parent :=
  let pnc := if ps.decoderType == 3 then 2 else ps.desc.numComponents
  let ofPortable : Parent :=
    { numComponents := pnc, map := ps.map, ints := ps.portable, intsOk := true,
      floats := ps.portable.map Float32.ofInt, floatsOk := true }
  if ver ≥ bsVersion 2 0 then
    -- decoder_->GetPortableAttribute(att_id)
    if ps.hasPortable then some ofPortable else none
  else
    -- decoder_->point_cloud()->attribute(att_id): the attribute itself, in whatever state it is
    if ps.finished && ps.hasPortable && skip.contains ps.desc.attType then some ofPortable
    else
      let fl := if ps.decoded then finalFloats ps else none
      some { numComponents := ps.desc.numComponents, map := ps.map, ints := #[], intsOk := false,
             floats := fl.getD #[], floatsOk := fl.isSome }

/-- the corner table an attribute decoder traverses and predicts on: the base table or, for a per-corner
    decoder, the attribute corner table of its attribute data -/
def viewOfDecoder (mesh : Mesh) (dec : AttDecoder) : TView :=
  if dec.cornerDecoder then
    let a := mesh.atts[dec.attDataId.toNat]!
    { c2v := a.c2v, opp := mesh.opp, seam := a.edgeSeam, lm := a.lm, isAtt := true, numFaces := mesh.numFaces }
  else { c2v := mesh.c2v, opp := mesh.opp, seam := #[], lm := mesh.vc, isAtt := false, numFaces := mesh.numFaces }

/-- `GenerateSequence` of an attribute decoder -/
def sequenceOfDecoder (mesh : Mesh) (dec : AttDecoder) : R SeqOut :=
  let view := viewOfDecoder mesh dec
  let v2dSize :=
    if dec.attDataId < 0 then mesh.vc.size
    else max (mesh.atts[dec.attDataId.toNat]!).lm.size mesh.vc.size
  -- (a per-corner decoder always traverses depth first: `CreateAttributesDecoder` rejects any other method for it)
  if !dec.cornerDecoder && dec.traversalMethod == Generated.MESH_TRAVERSAL_PREDICTION_DEGREE.toNat
  then maxPredictionDegree view mesh.faces v2dSize
  else depthFirst view mesh.faces v2dSize

/-- `CreateAttributesDecoder(i)` for `i = 0 … numDecoders - 1` -/
def createAttributeDecoders (ver numAtt numDecoders : Nat) : DecM (Array AttDecoder) := do
  let mut attDataDecoder : Array Int := Array.replicate numAtt (-1)
  let mut posDecoder : Int := -1
  let mut decoders : Array AttDecoder := #[]
  for i in [0:numDecoders] do
    let attDataId ← rdI8
    let decoderType ← rdU8
    if attDataId ≥ 0 then
      require (attDataId.toNat < numAtt)
      require (decide (attDataDecoder[attDataId.toNat]! < 0))
      attDataDecoder := attDataDecoder.set! attDataId.toNat i
    else
      require (decide (posDecoder < 0))
      posDecoder := i
    -- the traversal method is stored since bitstream 1.2 (depth first before)
    let traversalMethod ← if ver ≥ bsVersion 1 2 then rdU8 else pure 0
    require (traversalMethod < Generated.NUM_TRAVERSAL_METHODS.toNat)
    if decoderType == 0 then            -- MESH_VERTEX_ATTRIBUTE
      decoders := decoders.push { attDataId, cornerDecoder := false, traversalMethod }
    else
      require (traversalMethod == Generated.MESH_TRAVERSAL_DEPTH_FIRST.toNat)
      require (decide (attDataId ≥ 0))
      decoders := decoders.push { attDataId, cornerDecoder := true, traversalMethod }
  pure decoders

/-- `SequentialAttributeDecodersController::DecodeAttributesDecoderData` of decoder `i`:
    descriptors, decoder types, `Init` checks -/
def decodeDecoderDescs (i : Nat) : DecM (List EbAttState) := do
  let descs ← decodeAttDescs
  alloc "controller.sequential_decoders" (8 * descs.length)
  mapM' (fun (d : AttDesc) => do
      let dt ← rdU8
      require (dt ≤ 3)
      if dt == 2 then require (d.dataType == Generated.DT_FLOAT32.toNat)
      if dt == 3 then require (d.numComponents == 3 && d.dataType == Generated.DT_FLOAT32.toNat)
      pure ({ desc := d, decoderType := dt, decoder := i } : EbAttState)) descs

/-- the state of attribute `pk` (global id): decoded already (`done`, in id order) or still as
    `DecodeAttributesDecoderData` left it (`all`) -/
def lookupState (all : Array EbAttState) (done : List EbAttState) (pk : Nat) : EbAttState :=
  (done[pk]?).getD (all[pk]!)

/-- `DecodePortableAttribute` of one attribute (`done`: everything decoded before it) -/
def decodePortable (ver : Nat) (skip : List Nat) (posAtt : Option Nat) (all : Array EbAttState)
    (md : MeshData) (pointIds : Array Nat) (m : Array Nat) (done : List EbAttState) (s0 : EbAttState) :
    DecM EbAttState := do
  let numEntries := pointIds.size
  let s := { s0 with map := m, numValues := numEntries }
  let stride := dataTypeLength s.desc.dataType * s.desc.numComponents
  alloc "attribute.Reset" (numEntries * stride)
  if s.decoderType == 0 then
    let b ← bytes (numEntries * stride)
    pure { s with rawValues := b, decoded := true }
  else
    let nc := if s.decoderType == 3 then 2 else s.desc.numComponents
    let parent : Option Parent :=
      match posAtt with
      | none => none
      | some pk => parentOf ver skip (lookupState all done pk)
    let (vals, tr) ← decodeIntegerValuesEb s.decoderType numEntries nc s.desc.numComponents md pointIds parent
    let s' := { s with portable := vals, hasPortable := true, decoded := true }
    if ver < bsVersion 2 0 then
      -- DecodeValues stores the values in their final form right away
      let s'' := { s' with transform := tr }
      storeValuesCheck s''.toSeq
      pure s''
    else
      pure s'

/-- `DecodePortableAttributes`: the attributes of one decoder, in order -/
def decodePortables (ver : Nat) (skip : List Nat) (posAtt : Option Nat) (all : Array EbAttState)
    (md : MeshData) (pointIds : Array Nat) (m : Array Nat) (done : List EbAttState) :
    List EbAttState → List EbAttState → DecM (List EbAttState)
  | [], acc => pure acc
  | s :: rest, acc => do
    let s' ← decodePortable ver skip posAtt all md pointIds m (done ++ acc) s
    decodePortables ver skip posAtt all md pointIds m done rest (acc ++ [s'])

/-- `DecodeDataNeededByPortableTransform` (bitstream ≥ 2.0; the parameters precede the values before) -/
def decodeDataNeeded (ver : Nat) (s : EbAttState) : DecM EbAttState := do
  if ver ≥ bsVersion 2 0 then
    let tr ← decodeTransformParams s.decoderType s.desc.numComponents
    if s.decoderType == 2 || s.decoderType == 3 then pure { s with transform := tr } else pure s
  else pure s

/-- the failure modes of `TransformAttributeToOriginalFormat` (≥ 2.0, attribute not skipped):
    `StoreValues` of the integer / normal decoder -/
def transformCheck (opts : DecOpts) (ver : Nat) (s : EbAttState) : DecM EbAttState := do
  if ver ≥ bsVersion 2 0 && s.decoderType != 0 && !opts.skip.contains s.desc.attType then
    storeValuesCheck s.toSeq
  pure { s with finished := true }

/-- `SequentialAttributeDecodersController::DecodeAttributes` of decoder `i` (`mine`: its attributes
    as `DecodeAttributesDecoderData` left them, `done`: the attributes of the decoders before it) -/
def decodeOneDecoder (opts : DecOpts) (ver : Nat) (mesh : Mesh) (posAtt : Option Nat) (all : Array EbAttState)
    (i : Nat) (dec : AttDecoder) (mine : List EbAttState) (done : List EbAttState) : DecM (List EbAttState) := do
  -- GenerateSequence
  let view : TView := viewOfDecoder mesh dec
  alloc "mesh_traversal_sequencer.point_ids" (4 * view.numVertices)
  let seq ← liftR (sequenceOfDecoder mesh dec)
  tag (if dec.cornerDecoder then "traversal:depth_first:attribute_table"
       else if dec.traversalMethod == Generated.MESH_TRAVERSAL_PREDICTION_DEGREE.toNat then "traversal:max_prediction_degree"
       else "traversal:depth_first")
  if i > 0 then tag "attribute_decoders>1"
  let md : MeshData := { t := view, d2c := seq.d2c, v2d := seq.v2d }
  -- UpdatePointToAttributeIndexMapping for every attribute of the decoder
  let m ← if mine.isEmpty then pure (#[] : Array Nat) else do
    alloc "attribute.indices_map" (4 * mesh.numPoints * mine.length)
    liftR (pointToValueMap view mesh.faces mesh.numPoints seq.v2d)
  -- DecodePortableAttributes, DecodeDataNeededByPortableTransforms, TransformAttributesToOriginalFormat
  let mine1 ← decodePortables ver opts.skip posAtt all md seq.pointIds m done mine []
  let mine2 ← mapM' (decodeDataNeeded ver) mine1
  let mine3 ← mapM' (transformCheck opts ver) mine2
  pure (done ++ mine3)

/-- `DecodeAllAttributes` -/
def decodeDecoders (opts : DecOpts) (ver : Nat) (mesh : Mesh) (posAtt : Option Nat) (all : Array EbAttState) :
    List (Nat × AttDecoder × List EbAttState) → List EbAttState → DecM (List EbAttState)
  | [], done => pure done
  | (i, dec, mine) :: rest, done => do
    let done' ← decodeOneDecoder opts ver mesh posAtt all i dec mine done
    decodeDecoders opts ver mesh posAtt all rest done'

/-- `PointCloudDecoder::DecodePointAttributes` of `MeshEdgebreakerDecoder` -/
def decodeAttributes (opts : DecOpts) (ver : Nat) (mesh : Mesh) : DecM (List Attribute) := do
  -- offset tag for the structure-aware corruption campaigns (tools/props/robustgen.py): the decoder count byte is
  -- followed by (att_data_id, decoder type, traversal method) per decoder, then the descriptors of every decoder
  let rem0 ← remaining
  tag s!"at:att_decoders:{rem0}"
  let numDecoders ← rdU8
  let decoders ← createAttributeDecoders ver mesh.atts.size numDecoders
  alloc "decoder.attributes_decoders" (8 * numDecoders)
  -- DecodeAttributesDecoderData of every decoder
  let descLists ← mapM' decodeDecoderDescs (List.range numDecoders)
  let all := descLists.flatten.toArray
  -- the first attribute of type POSITION (GetNamedAttributeId)
  let posAtt : Option Nat := (List.range all.size).find? fun k =>
    (all[k]!).desc.attType == Generated.geometryAttribute_POSITION.toNat
  -- DecodeAllAttributes
  let work := (List.range numDecoders).zip (decoders.toList.zip descLists)
  let done ← decodeDecoders opts ver mesh posAtt all work []
  -- the attributes as the public API shows them
  mapM' (fun (s : EbAttState) => finishSeqAttribute opts s.toSeq s.numValues (some s.map.toList)) done

/-- `mesh->face(f)` for `f < num_faces`: the three point ids of the corners `3f, 3f+1, 3f+2` -/
def facesOf (mesh : Mesh) : List (Nat × Nat × Nat) :=
  (List.range mesh.numFaces).map fun f =>
    (mesh.faces.getD (3 * f) 0, mesh.faces.getD (3 * f + 1) 0, mesh.faces.getD (3 * f + 2) 0)

/-- body of an Edgebreaker mesh stream after the header and the metadata:
    `InitializeDecoder`, `DecodeGeometryData` (connectivity), `DecodePointAttributes` -/
def decodeEdgebreaker (opts : DecOpts) : DecM Geometry := do
  -- `bitstream_version()` of the decoder: set once from the header, the same for the whole body
  let ver ← version
  let mesh ← decodeConnectivity
  for t in tagsOf mesh.tags do tag t
  let atts ← decodeAttributes opts ver mesh
  pure { isMesh := true, numPoints := mesh.numPoints, faces := facesOf mesh, atts := atts }

end Draco.Eb
