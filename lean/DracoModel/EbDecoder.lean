import DracoModel.SeqDecoder
import DracoModel.EbConnectivity
import DracoModel.EbTraversal
import DracoModel.EbPredict
/-
  The Edgebreaker mesh decoder above the connectivity:
    compression/point_cloud/point_cloud_decoder.cc         (DecodePointAttributes)
    compression/mesh/mesh_edgebreaker_decoder_impl.cc      (CreateAttributesDecoder,
        GetAttributeCornerTable, GetAttributeEncodingData)
    compression/attributes/sequential_attribute_decoders_controller.cc  (with a mesh traversal
        sequencer: GenerateSequence, UpdatePointToAttributeIndexMapping)
    compression/attributes/sequential_{integer_,quantization_,normal_}attribute_decoder.cc
    compression/attributes/prediction_schemes/prediction_scheme_decoder_factory.h
  The attribute value decoding repeats the phases of `decodeSequentialAttributes`
  (DracoModel/SeqDecoder.lean) with the prediction scheme chosen by the factory for meshes.
-/
namespace Draco.Eb
open Draco DecM

/-- one `SequentialAttributeDecodersController` created by `CreateAttributesDecoder` -/
structure AttDecoder where
  /-- `att_data_id` (int8): negative = position encoding data -/
  attDataId : Int
  /-- false: per-vertex decoder on the base table; true: per-corner decoder on the attribute table -/
  cornerDecoder : Bool
  traversalMethod : Nat
deriving Repr, Inhabited

instance : Inhabited AttDesc := ⟨⟨0, 0, 0, false, 0⟩⟩

/-- the POSITION attribute object a prediction scheme receives through `SetParentAttribute`:
    the portable attribute (bitstream ≥ 2.0) or the attribute itself (before 2.0) -/
structure Parent where
  numComponents : Nat
  /-- point → value index -/
  map : Array Nat
  /-- `ConvertValue<int64_t>` of every component (portable int32 values) -/
  ints : Array Int
  /-- false: the integer view is not modelled (float attribute of a stream < 2.0) -/
  intsOk : Bool
  /-- `ConvertValue<float>` of every component -/
  floats : Array Float32
  /-- false: the float view is not modelled -/
  floatsOk : Bool

/-- the prediction scheme object created by `CreateIntPredictionScheme`
    (`legacyOcta`: the non-canonicalized octahedron transform of bitstreams < 2.2) -/
inductive Scheme where
  | none | deltaWrap | parallelogram | multiParallelogram | constrainedMulti | texCoords
  | texCoordsDeprecated | deltaOcta (legacyOcta : Bool) | geometricNormal (legacyOcta : Bool)
deriving Repr, BEq

def Scheme.needsParent : Scheme → Bool
  | .texCoords | .texCoordsDeprecated | .geometricNormal _ => true
  | _ => false

/-- the schemes with an octahedron transform (their corrections are not zig-zag coded) -/
def Scheme.isOcta : Scheme → Bool
  | .deltaOcta _ | .geometricNormal _ => true
  | _ => false

/-- first part of `DecodeIntegerValues`: the prediction method byte, the transform byte and the prediction
    scheme object `CreateIntPredictionScheme` builds from them (with the reason when the combination is outside the
    model, "" otherwise) -/
def readSchemeEb (kind : Nat) : DecM (Scheme × String) := do
  let rem0 ← remaining
  let method ← rdI8
  -- position of the method byte, counted from the end of the stream (for the generators of
  -- tools/props/legacycases.py that patch scheme ids)
  tag s!"at:method={method}:{rem0}"
  require (decide (Generated.PREDICTION_NONE ≤ method) && decide (method < Generated.NUM_PREDICTION_SCHEMES))
  let mut scheme := Scheme.none
  let mut unsupp := ""
  if method != Generated.PREDICTION_NONE then
    let tt ← rdI8
    require (decide (Generated.PREDICTION_TRANSFORM_NONE ≤ tt) && decide (tt < 4))
    if kind == 3 then
      let geo := method == Generated.MESH_PREDICTION_GEOMETRIC_NORMAL
      if tt == Generated.PREDICTION_TRANSFORM_NORMAL_OCTAHEDRON_CANONICALIZED then
        scheme := if geo then .geometricNormal false else .deltaOcta false
      else if tt == Generated.PREDICTION_TRANSFORM_NORMAL_OCTAHEDRON then
        scheme := if geo then .geometricNormal true else .deltaOcta true
    else if tt == Generated.PREDICTION_TRANSFORM_WRAP then
      if method == Generated.MESH_PREDICTION_PARALLELOGRAM then scheme := .parallelogram
      else if method == Generated.MESH_PREDICTION_MULTI_PARALLELOGRAM then scheme := .multiParallelogram
      else if method == Generated.MESH_PREDICTION_TEX_COORDS_DEPRECATED then scheme := .texCoordsDeprecated
      else if method == Generated.MESH_PREDICTION_CONSTRAINED_MULTI_PARALLELOGRAM then scheme := .constrainedMulti
      else if method == Generated.MESH_PREDICTION_TEX_COORDS_PORTABLE then scheme := .texCoords
      else if method == Generated.MESH_PREDICTION_GEOMETRIC_NORMAL then unsupp := "geometric normal prediction with the wrap transform"
      else scheme := .deltaWrap
  pure (scheme, unsupp)

/-- `InitPredictionScheme` for the schemes with a parent attribute: the position sources -/
def parentSourcesEb (scheme : Scheme) (pointIds : Array Nat) (parent : Option Parent) :
    DecM (PosSource × PosSourceF × String) := do
  let mut unsupp := ""
  let mut pos : PosSource := { pointIds := #[], map := #[], values := #[] }
  let mut posF : PosSourceF := { pointIds := #[], map := #[], values := #[] }
  if scheme.needsParent then
    match parent with
    | none => fail
    | some p =>
      require (p.numComponents == 3)
      if scheme == .texCoordsDeprecated then
        if !p.floatsOk then unsupp := "deprecated tex-coords prediction: float view of this parent attribute"
        posF := { pointIds := pointIds, map := p.map, values := p.floats }
      else
        if !p.intsOk then unsupp := "integer prediction scheme with the non-portable parent attribute of a stream < 2.0"
        pos := { pointIds := pointIds, map := p.map, values := p.ints }
  pure (pos, posF, unsupp)

/-- the coded values of `DecodeIntegerValues`: `DecodeSymbols` or the raw bytes -/
def readCodedValuesEb (pre20 : Bool) (numValues nc : Nat) : DecM (List Nat) := do
  let compressed ← rdU8
  if compressed > 0 then lift (decodeSymbolsV pre20 numValues nc)
  else do
    let numBytes ← rdU8
    if numBytes == 4 then
      let b ← bytes (4 * numValues)
      pure (leGroups 4 b)
    else
      require (numBytes * numValues ≤ 4 * numValues)
      let rem ← remaining
      require (numBytes * numValues ≤ rem)
      if numBytes == 0 then pure (List.replicate numValues 0) else
      let b ← bytes (numBytes * numValues)
      pure (leGroups numBytes b)

/-- `DecodePredictionData` + `ComputeOriginalValues` of the scheme on the corrections `vals` -/
def applySchemeEb (ver : Nat) (scheme : Scheme) (md : MeshData) (pos : PosSource) (posF : PosSourceF) (nc : Nat)
    (vals : Array Int) : DecM (Array Int) := do
  let pre22 := ver < bsVersion 2 2
  let numCorners := 3 * md.t.numFaces
  match scheme with
  | .none => pure vals
  | .deltaWrap =>
    tag "pred:delta"
    let wt ← lift Wrap.decodeTransformData
    liftR (deltaDecodeWrap wt nc vals)
  | .parallelogram =>
    let wt ← lift Wrap.decodeTransformData
    let (r, used) ← liftR (parallelogramDecode md wt nc vals)
    tag (if used > 0 then "pred:parallelogram:used" else "pred:parallelogram:fallback_only")
    pure r
  | .multiParallelogram =>
    let wt ← lift Wrap.decodeTransformData
    let (r, maxPar) ← liftR (multiParallelogramDecode md wt nc vals)
    tag s!"pred:multi_parallelogram(legacy):max_parallelograms={maxPar}"
    pure r
  | .constrainedMulti =>
    if pre22 then
      let mode ← rdU8
      require (mode == 0)            -- OPTIMAL_MULTI_PARALLELOGRAM
    let kMax := Generated.kMaxNumParallelograms.toNat
    tag s!"at:constrained_mode:{← remaining}"
    let crease ← replicateM' kMax (do
      let numFlags ← varint 32
      require (numFlags ≤ numCorners)
      if numFlags == 0 then pure (#[] : Array Bool) else
      alloc "constrained_multi_parallelogram.is_crease_edge" (numFlags / 8)
      tag s!"at:rans:{← remaining}"
      let d ← lift (ransBitStart pre22)
      pure (rabsReadBits d.probZero numFlags d.ans []).1.toArray)
    let wt ← lift Wrap.decodeTransformData
    let (r, maxPar) ← liftR (constrainedMultiDecode md wt nc crease.toArray vals)
    tag s!"pred:constrained_multi:max_parallelograms={maxPar}"
    pure r
  | .texCoords =>
    let rem1 ← remaining
    tag s!"at:orientations:{rem1}"
    let numOrient ← rdI32
    require (decide (numOrient ≥ 0))
    -- not more orientations than corners (`fix:` commit 008c24a)
    require (numOrient.toNat ≤ numCorners)
    alloc "tex_coords_portable.orientations" (numOrient.toNat / 8)
    tag s!"at:rans:{← remaining}"
    let d ← lift (ransBitStart pre22)
    let bits := (rabsReadBits d.probZero numOrient.toNat d.ans []).1
    let orient := (bits.foldl (fun (acc : Array Bool × Bool) b =>
      let last := if b then acc.2 else !acc.2
      (acc.1.push last, last)) (Array.mkEmpty bits.length, true)).1
    let wt ← lift Wrap.decodeTransformData
    let (r, used) ← liftR (texCoordsDecode md pos wt nc orient vals)
    tag (if used > 0 then "pred:tex_coords:geometric" else "pred:tex_coords:fallback_only")
    pure r
  | .texCoordsDeprecated =>
    let numOrient ← if pre22 then rdU32 else varint 32
    require (numOrient != 0)
    require (numOrient ≤ numCorners)
    alloc "tex_coords.orientations" (numOrient / 8)
    let d ← lift (ransBitStart pre22)
    let bits := (rabsReadBits d.probZero numOrient d.ans []).1
    let orient := (bits.foldl (fun (acc : Array Bool × Bool) b =>
      let last := if b then acc.2 else !acc.2
      (acc.1.push last, last)) (Array.mkEmpty bits.length, true)).1
    let wt ← lift Wrap.decodeTransformData
    tag "pred:tex_coords_deprecated(legacy,float)"
    liftR (texCoordsDeprecatedDecode md posF (ver < bsVersion 1 2) wt nc orient vals)
  | .deltaOcta legacyOcta =>
    tag (if legacyOcta then "pred:delta_octahedron(legacy)" else "pred:delta_octahedron")
    let c ← if legacyOcta then lift (Octa.legacyDecodeTransformData pre22) else lift Octa.decodeTransformData
    let dec := if legacyOcta then Octa.legacyDecOrig c else Leaf.octaDec c
    pure (deltaDecode (fun p cr =>
        match p, cr with
        | [p0, p1], [c0, c1] => let (a, b) := dec (p0, p1) (c0, c1); [a, b]
        | _, _ => cr) nc vals.toList).toArray
  | .geometricNormal legacyOcta =>
    let c ← if legacyOcta then lift (Octa.legacyDecodeTransformData pre22) else lift Octa.decodeTransformData
    let dec := if legacyOcta then Octa.legacyDecOrig c else Leaf.octaDec c
    let mut oneTriangle := false
    if pre22 then
      let mode ← rdU8
      require (mode ≤ Generated.TRIANGLE_AREA.toNat)
      oneTriangle := mode == Generated.ONE_TRIANGLE.toNat
    tag s!"at:normal_mode:{← remaining}"
    tag s!"at:rans:{← remaining}"
    let fd ← lift (ransBitStart pre22)
    let (r, flipped) ← liftR (geometricNormalDecode md pos c dec oneTriangle fd vals)
    tag ((if flipped > 0 then "pred:geometric_normal:flipped" else "pred:geometric_normal")
         ++ (if legacyOcta then "(legacy octahedron)" else "") ++ (if oneTriangle then "(one triangle)" else ""))
    pure r

/-- `SequentialIntegerAttributeDecoder::DecodeValues` + `DecodeIntegerValues` for an attribute of
    an Edgebreaker mesh, every bitstream version. `kind`: 1 integer, 2 quantization, 3 normals;
    `nc`: components of the portable values, `attComponents`: of the attribute. Returns the portable
    values and, before 2.0, the transform parameters that precede them.
    (Composition of `readSchemeEb`, `parentSourcesEb`, `readCodedValuesEb`, `applySchemeEb`.) -/
def decodeIntegerValuesEb (kind numEntries nc attComponents : Nat) (md : MeshData) (pointIds : Array Nat)
    (parent : Option Parent) : DecM (Array Int × TransformData) := do
  let ver ← version
  let pre20 := ver < bsVersion 2 0
  let (scheme, unsupp) ← readSchemeEb kind
  if unsupp != "" then failWith (.unsupported unsupp) else
  -- InitPredictionScheme: the schemes with a parent attribute
  let (pos, posF, unsupp) ← parentSourcesEb scheme pointIds parent
  if unsupp != "" then failWith (.unsupported unsupp) else
  -- DecodeIntegerValues; before 2.0 the quantization / octahedral parameters come first
  let tr ← if pre20 then decodeTransformParams kind attComponents else pure TransformData.none
  require (nc > 0)
  let numValues := numEntries * nc
  alloc "integer_decoder.portable_attribute" (4 * numValues)
  require (numEntries > 0)
  let raw ← readCodedValuesEb pre20 numValues nc
  let vals : Array Int :=
    if scheme.isOcta then (raw.map (toSigned 32)).toArray else (raw.map ofSymbol).toArray
  let out ← applySchemeEb ver scheme md pos posF nc vals
  pure (out, tr)

/-- one iteration of the corner loop of `UpdatePointToAttributeIndexMapping` -/
def pointToValueStep (t : TView) (faces : Array Nat) (numPoints : Nat) (v2d : Array Nat) (c : Nat)
    (m : Array Nat) : R (Array Nat) := do
  let pt ← rd "mesh_->face(f)[p]" faces c
  let v ← t.vertex c
  if v == inv then throw .fail
  let e ← rd "vertex_to_encoded_attribute_value_index_map" v2d v
  if pt ≥ numPoints || e ≥ numPoints then throw .fail
  pure (m.setIfInBounds pt e)

/-- corners `c, c+1, …, c+n-1` -/
def pointToValueLoop (t : TView) (faces : Array Nat) (numPoints : Nat) (v2d : Array Nat) :
    Nat → Nat → Array Nat → R (Array Nat)
  | 0, _, m => pure m
  | n+1, c, m => do
    let m' ← pointToValueStep t faces numPoints v2d c m
    pointToValueLoop t faces numPoints v2d n (c + 1) m'

/-- `MeshTraversalSequencer::UpdatePointToAttributeIndexMapping`: `SetExplicitMapping(num_points)`
    on a fresh attribute (all entries invalid), then every corner of every face -/
def pointToValueMap (t : TView) (faces : Array Nat) (numPoints : Nat) (v2d : Array Nat) : R (Array Nat) :=
  pointToValueLoop t faces numPoints v2d (3 * t.numFaces) 0 (Array.replicate numPoints inv)

structure EbAttState where
  desc : AttDesc
  decoderType : Nat
  decoder : Nat
  rawValues : Bytes := []
  portable : Array Int := #[]
  hasPortable : Bool := false
  transform : TransformData := .none
  /-- the attribute holds decoded values -/
  decoded : Bool := false
  /-- `TransformAttributesToOriginalFormat` of its decoder has run -/
  finished : Bool := false
deriving Inhabited

/-- the values of a float32 attribute as the public API shows them after `StoreValues` -/
def finalFloats (s : EbAttState) : Option (Array Float32) :=
  if s.desc.dataType != Generated.DT_FLOAT32.toNat then none else
  let bytes? : Option Bytes :=
    if s.decoderType == 0 then some s.rawValues
    else match s.decoderType, s.transform with
      | 2, .quantization bits mins range =>
        some (dequantAll range bits.toNat mins s.portable.toList mins []).flatten
      | 3, .octahedron bits => some (octaAll bits.toNat s.portable.toList []).flatten
      | _, _ => none
  bytes?.map fun b => ((leGroups 4 b).map fun w => Float32.ofBits (UInt32.ofNat w)).toArray

/-- what `InitPredictionScheme` passes to `SetParentAttribute` for the first POSITION attribute -/
def parentOf (ver : Nat) (skip : List Nat) (ps : EbAttState) (map : Array Nat) : Option Parent :=
  let pnc := if ps.decoderType == 3 then 2 else ps.desc.numComponents
  let ofPortable : Parent :=
    { numComponents := pnc, map := map, ints := ps.portable, intsOk := true,
      floats := ps.portable.map Float32.ofInt, floatsOk := true }
  if ver ≥ bsVersion 2 0 then
    -- decoder_->GetPortableAttribute(att_id)
    if ps.hasPortable then some ofPortable else none
  else
    -- decoder_->point_cloud()->attribute(att_id): the attribute itself, in whatever state it is
    if ps.finished && ps.hasPortable && skip.contains ps.desc.attType then some ofPortable
    else
      let fl := if ps.decoded then finalFloats ps else none
      some { numComponents := ps.desc.numComponents, map := map, ints := #[], intsOk := false,
             floats := fl.getD #[], floatsOk := fl.isSome }

/-- the corner table an attribute decoder traverses and predicts on: the base table or, for a per-corner
    decoder, the attribute corner table of its attribute data -/
def viewOfDecoder (mesh : Mesh) (dec : AttDecoder) : TView :=
  if dec.cornerDecoder then
    let a := mesh.atts[dec.attDataId.toNat]!
    { c2v := a.c2v, opp := mesh.opp, seam := a.edgeSeam, lm := a.lm, isAtt := true, numFaces := mesh.numFaces }
  else { c2v := mesh.c2v, opp := mesh.opp, seam := #[], lm := mesh.vc, isAtt := false, numFaces := mesh.numFaces }

/-- `GenerateSequence` of an attribute decoder -/
def sequenceOfDecoder (mesh : Mesh) (dec : AttDecoder) : R SeqOut :=
  let view := viewOfDecoder mesh dec
  let v2dSize :=
    if dec.attDataId < 0 then mesh.vc.size
    else max (mesh.atts[dec.attDataId.toNat]!).lm.size mesh.vc.size
  if dec.traversalMethod == Generated.MESH_TRAVERSAL_PREDICTION_DEGREE.toNat
  then maxPredictionDegree view mesh.faces v2dSize
  else depthFirst view mesh.faces v2dSize

/-- `PointCloudDecoder::DecodePointAttributes` of `MeshEdgebreakerDecoder` -/
def decodeAttributes (opts : DecOpts) (mesh : Mesh) : DecM (List Attribute) := do
  let ver ← version
  let numAtt := mesh.atts.size
  let numDecoders ← rdU8
  -- CreateAttributesDecoder(i)
  let mut attDataDecoder : Array Int := Array.replicate numAtt (-1)
  let mut posDecoder : Int := -1
  let mut decoders : Array AttDecoder := #[]
  for i in [0:numDecoders] do
    let attDataId ← rdI8
    let decoderType ← rdU8
    if attDataId ≥ 0 then
      require (attDataId.toNat < numAtt)
      require (decide (attDataDecoder[attDataId.toNat]! < 0))
      attDataDecoder := attDataDecoder.set! attDataId.toNat i
    else
      require (decide (posDecoder < 0))
      posDecoder := i
    -- the traversal method is stored since bitstream 1.2 (depth first before)
    let traversalMethod ← if ver ≥ bsVersion 1 2 then rdU8 else pure 0
    require (traversalMethod < Generated.NUM_TRAVERSAL_METHODS.toNat)
    if decoderType == 0 then            -- MESH_VERTEX_ATTRIBUTE
      decoders := decoders.push { attDataId, cornerDecoder := false, traversalMethod }
    else
      require (traversalMethod == Generated.MESH_TRAVERSAL_DEPTH_FIRST.toNat)
      require (decide (attDataId ≥ 0))
      decoders := decoders.push { attDataId, cornerDecoder := true, traversalMethod }
  alloc "decoder.attributes_decoders" (8 * numDecoders)
  -- DecodeAttributesDecoderData of every decoder
  let mut states : Array EbAttState := #[]
  for i in [0:numDecoders] do
    let descs ← decodeAttDescs
    alloc "controller.sequential_decoders" (8 * descs.length)
    for d in descs do
      let dt ← rdU8
      require (dt ≤ 3)
      if dt == 2 then require (d.dataType == Generated.DT_FLOAT32.toNat)
      if dt == 3 then require (d.numComponents == 3 && d.dataType == Generated.DT_FLOAT32.toNat)
      states := states.push { desc := d, decoderType := dt, decoder := i }
  -- the first attribute of type POSITION (GetNamedAttributeId)
  let posAtt : Option Nat := (List.range states.size).find? fun k =>
    (states[k]!).desc.attType == Generated.geometryAttribute_POSITION.toNat
  -- DecodeAllAttributes
  let baseView : TView := viewOfDecoder mesh { attDataId := -1, cornerDecoder := false, traversalMethod := 0 }
  let mut maps : Array (Array Nat) := Array.replicate states.size #[]
  let mut numValuesOf : Array Nat := Array.replicate states.size 0
  for i in [0:numDecoders] do
    let dec := decoders[i]!
    -- GenerateSequence
    let view : TView := viewOfDecoder mesh dec
    alloc "mesh_traversal_sequencer.point_ids" (4 * view.numVertices)
    let seq ← liftR (sequenceOfDecoder mesh dec)
    tag (if dec.cornerDecoder then "traversal:depth_first:attribute_table"
         else if dec.traversalMethod == Generated.MESH_TRAVERSAL_PREDICTION_DEGREE.toNat then "traversal:max_prediction_degree"
         else "traversal:depth_first")
    if i > 0 then tag "attribute_decoders>1"
    let md : MeshData := { t := view, d2c := seq.d2c, v2d := seq.v2d }
    let numEntries := seq.pointIds.size
    let idxs := (List.range states.size).filter fun k => (states[k]!).decoder == i
    -- UpdatePointToAttributeIndexMapping for every attribute of the decoder
    if !idxs.isEmpty then
      alloc "attribute.indices_map" (4 * mesh.numPoints * idxs.length)
      let m ← liftR (pointToValueMap view mesh.faces mesh.numPoints seq.v2d)
      for k in idxs do
        maps := maps.set! k m
        numValuesOf := numValuesOf.set! k numEntries
    -- DecodePortableAttributes
    for k in idxs do
      let s := states[k]!
      let stride := dataTypeLength s.desc.dataType * s.desc.numComponents
      alloc "attribute.Reset" (numEntries * stride)
      if s.decoderType == 0 then
        let b ← bytes (numEntries * stride)
        states := states.set! k { s with rawValues := b, decoded := true }
      else
        let nc := if s.decoderType == 3 then 2 else s.desc.numComponents
        let parent : Option Parent :=
          match posAtt with
          | none => none
          | some pk => parentOf ver opts.skip (states[pk]!) (maps[pk]!)
        let (vals, tr) ← decodeIntegerValuesEb s.decoderType numEntries nc s.desc.numComponents md seq.pointIds parent
        let s' := { s with portable := vals, hasPortable := true, decoded := true }
        if ver < bsVersion 2 0 then
          -- DecodeValues stores the values in their final form right away
          let s'' := { s' with transform := tr }
          if s.decoderType == 1 then require (s.desc.dataType ≥ 1 && s.desc.dataType ≤ 6)
          else if s.decoderType == 3 then
            match tr with
            | .octahedron bits => require (2 ≤ bits && bits ≤ 30)
            | _ => fail
          states := states.set! k s''
        else
          states := states.set! k s'
    -- DecodeDataNeededByPortableTransforms (the parameters precede the values before 2.0)
    if ver ≥ bsVersion 2 0 then
      for k in idxs do
        let s := states[k]!
        let tr ← decodeTransformParams s.decoderType s.desc.numComponents
        if s.decoderType == 2 || s.decoderType == 3 then
          states := states.set! k { s with transform := tr }
    -- TransformAttributesToOriginalFormat: only checks here, the values are produced below
    for k in idxs do
      let s := states[k]!
      let d := s.desc
      states := states.set! k { s with finished := true }
      if ver ≥ bsVersion 2 0 && s.decoderType != 0 && !opts.skip.contains d.attType then
        if s.decoderType == 1 then require (d.dataType ≥ 1 && d.dataType ≤ 6)
        else if s.decoderType == 3 then
          match s.transform with
          | .octahedron bits => require (2 ≤ bits && bits ≤ 30)
          | _ => fail
  -- the attributes as the public API shows them
  mapM' (fun (k : Nat) => do
      let s := states[k]!
      let d := s.desc
      let n := numValuesOf[k]!
      let mp := some (maps[k]!).toList
      if s.decoderType == 0 then
        pure { d.toAttribute n s.rawValues with map := mp }
      else if opts.skip.contains d.attType then
        let nc := if s.decoderType == 3 then 2 else d.numComponents
        pure { attType := d.attType, dataType := Generated.DT_INT32.toNat, numComponents := nc,
               normalized := false, uniqueId := d.uniqueId, numValues := n, map := mp,
               values := (s.portable.toList.map (intToLE 4)).flatten, transform := s.transform }
      else
        match s.decoderType with
        | 1 =>
          let len := dataTypeLength d.dataType
          pure { d.toAttribute n (s.portable.toList.map (intToLE len)).flatten with map := mp }
        | 2 =>
          match s.transform with
          | .quantization bits mins range =>
            pure { d.toAttribute n (dequantAll range bits.toNat mins s.portable.toList mins []).flatten with map := mp }
          | _ => fail
        | _ =>
          match s.transform with
          | .octahedron bits =>
            pure { d.toAttribute n (octaAll bits.toNat s.portable.toList []).flatten with map := mp }
          | _ => fail) (List.range states.size)

/-- body of an Edgebreaker mesh stream after the header and the metadata:
    `InitializeDecoder`, `DecodeGeometryData` (connectivity), `DecodePointAttributes` -/
def decodeEdgebreaker (opts : DecOpts) : DecM Geometry := do
  let mesh ← decodeConnectivity
  for t in tagsOf mesh.tags do tag t
  let atts ← decodeAttributes opts mesh
  pure { isMesh := true, numPoints := mesh.numPoints, faces := triples mesh.faces.toList, atts := atts }

end Draco.Eb
