import DracoModel.SeqEncoder
import DracoModel.KdTreeEnc
import DracoModel.KdTreeAttr
import Generated.FastDivTab
/-
  The kd-tree point cloud ENCODER (encoder_method 1 on point clouds):
    compression/point_cloud/point_cloud_encoder.cc          (Encode, EncodeHeader, EncodeMetadata,
                                                             EncodePointAttributes — shared with the
                                                             sequential encoder, see SeqEncoder.lean)
    compression/point_cloud/point_cloud_kd_tree_encoder.cc  (EncodeGeometryData, GenerateAttributesEncoder:
                                                             ONE KdTreeAttributesEncoder for all attributes)
    compression/attributes/attributes_encoder.cc            (EncodeAttributesEncoderData)
    compression/attributes/kd_tree_attributes_encoder.cc    (TransformAttributesToPortableFormat,
                                                             EncodePortableAttributes,
                                                             EncodeDataNeededByPortableTransforms)
    attributes/attribute_quantization_transform.cc          (ComputeParameters / SetParameters,
                                                             GeneratePortableAttribute, EncodeParameters:
                                                             `SeqEnc.quantizationParams`, `SeqEnc.quantizeRow`)
    compression/point_cloud/algorithms/dynamic_integer_points_kd_tree_encoder.h  (`Kd.encodePoints`)

  Result `none` = the C++ returns a non-ok status, or the input is outside the domain on which the
  C++ has a defined result (noted at each spot).

  Not determined by the C++ text: the order in which `std::partition` leaves the points
  (`Choices.part`; libstdc++: `Kd.stdPartition`) and the `double` expression `zero_prob_raw` of
  `RAnsBitEncoder::EndEncoding` (`Choices.zeroProbRaw`).
-/
namespace Draco.KdEnc
open Draco SeqEnc

structure Choices where
  /-- `std::partition` -/
  part : Kd.Partition
  /-- `zero_prob_raw` of `RAnsBitEncoder::EndEncoding` as a function of (zeros, total) -/
  zeroProbRaw : Nat → Nat → Nat

/-- the choices of the C++ build: libstdc++ and IEEE doubles -/
def Choices.std : Choices := ⟨Kd.stdPartition, zeroProbRawFloat⟩

/-! ### attribute values as `uint32_t` coordinates -/

/-- the `nc` components of one value, `len` bytes each, as unsigned little endian numbers -/
def rowComps (len : Nat) : Nat → Bytes → List Nat
  | 0, _ => []
  | nc+1, row => leValue (row.take len) :: rowComps len nc (row.drop len)

/-- the classification of `EncodePortableAttributes` / `TransformAttributesToPortableFormat`:
    0 = DT_UINT32/16/8, 1 = DT_INT32/16/8, 2 = DT_FLOAT32, `none` = "Unsupported data type" -/
def kindOf (dt : Nat) : Option Nat :=
  if dt = Generated.DT_UINT32.toNat ∨ dt = Generated.DT_UINT16.toNat ∨ dt = Generated.DT_UINT8.toNat then some 0
  else if dt = Generated.DT_INT32.toNat ∨ dt = Generated.DT_INT16.toNat ∨ dt = Generated.DT_INT8.toNat then some 1
  else if dt = Generated.DT_FLOAT32.toNat then some 2
  else none

/-- component-wise `if (min_value[c] > act_value[c]) min_value[c] = act_value[c]` -/
def minRow : List Int → List Int → List Int
  | m :: ms, v :: vs => (if m > v then v else m) :: minRow ms vs
  | ms, _ => ms

/-- `min_signed_values_` of one signed attribute: the minimum per component over ALL attribute
    values (`att->size()`, value index order), starting from `INT32_MAX` -/
def signedMins (a : Attribute) : List Int :=
  let vals := a.values.toArray
  let len := dataTypeLength a.dataType
  (List.range a.numValues).foldl
    (fun mn i => minRow mn ((rowComps len a.numComponents (valueAt vals a.stride i)).map (toSigned (8 * len))))
    (List.replicate a.numComponents (2^31 - 1))

/-- `unsigned_point[c] = uint32(signed_point[c]) - uint32(min_signed_values_[…+c])` -/
def signedCoords (len : Nat) (mins : List Int) (comps : List Nat) : List Nat :=
  List.zipWith (fun u m => (toUnsigned 32 (toSigned (8 * len) u) + 2^32 - toUnsigned 32 m) % 2^32) comps mins

/-- what one attribute contributes to the encoder -/
structure AttEnc where
  desc : AttDesc
  kind : Nat
  /-- quantization parameters / `min_signed_values_` of this attribute -/
  transform : Kd.KdTransform
  /-- one row of `num_components` `uint32_t` coordinates per point -/
  coords : List (List Nat)

/-- `TransformAttributesToPortableFormat` and the copy into the `PointDVector` for attribute `i`.
    `none`: unsupported data type, quantization not configured / invalid / not computable
    (explicit parameters with an invalid bit count leave the transform uninitialised in the C++ —
    its `SetParameters` result is ignored — which is outside the defined domain). -/
def encodeAttribute (opts : EncOpts) (numPoints i : Nat) (a : Attribute) : Option AttEnc :=
  let rows := pointRows a numPoints
  let len := dataTypeLength a.dataType
  let nc := a.numComponents
  match kindOf a.dataType with
  | none => none
  | some 0 =>
    -- DT_UINT32: memcpy; DT_UINT16/8: ConvertValue<uint32_t>
    some ⟨descOf a, 0, .none, rows.map (rowComps len nc)⟩
  | some 1 =>
    let mins := signedMins a
    some ⟨descOf a, 1, .signed mins, rows.map fun r => signedCoords len mins (rowComps len nc r)⟩
  | some _ =>
    match quantizationParams a (opts.att i) with
    | none => none
    | some (mins, range, q) =>
      -- GeneratePortableAttribute into a DT_UINT32 attribute: the int32 values as they are
      some ⟨descOf a, 2, .quant q mins range,
            rows.map fun r => (quantizeRow mins range q 0 (rowF32s nc r)).map (toUnsigned 32)⟩

/-- the `PointDVector`: row `p` = the coordinates of all attributes at point `p` -/
def pointVector (numPoints : Nat) : List AttEnc → List (List Nat)
  | [] => List.replicate numPoints []
  | e :: es => List.zipWith (· ++ ·) e.coords (pointVector numPoints es)

/-- `num_bits`: the largest `MostSignificantBit(x) + 1` over all coordinates, 0 if all are 0 -/
def numBits (pts : List (List Nat)) : Nat :=
  pts.flatten.foldl (fun b x => if x > 0 then max b (Nat.log2 x + 1) else b) 0

/-- `uint8_t compression_level = std::min(10 - GetSpeed(), 6)`, 6 replaced by 5 beyond 15
    dimensions -/
def compressionLevel (speed : Int) (dim : Nat) : Nat :=
  let l := ((min (10 - speed) 6) % 256).toNat
  if l = 6 ∧ dim > 15 then 5 else l

/-- `AttributeQuantizationTransform::EncodeParameters` -/
def quantParamBytes : Kd.KdTransform → Bytes
  | .quant q mins range => mins.flatMap (writeLE 4) ++ writeLE 4 range ++ [q % 256]
  | _ => []

/-- `EncodeVarint<int32_t>` of the `min_signed_values_` -/
def signedMinBytes : Kd.KdTransform → Bytes
  | .signed mins => mins.flatMap (encVarintSigned 32)
  | _ => []

/-- `KdTreeAttributesEncoder::EncodeAttributes` for all attributes of the cloud.
    `none` also when the compression level is not in 0..6 (speed above 10). -/
def encodeKdAttributes (ch : Choices) (opts : EncOpts) (numPoints : Nat) (atts : List Attribute) :
    Option (Bytes × List AttEnc) :=
  match allSome ((zipIdxFrom 0 atts).map fun ia => encodeAttribute opts numPoints ia.1 ia.2) with
  | none => none
  | some encs =>
    let dim := (atts.map (·.numComponents)).sum
    let level := compressionLevel opts.speed dim
    if level > 6 then none else
    let pts := pointVector numPoints encs
    some (level :: Kd.encodePoints ch.part Generated.fastdivTab ch.zeroProbRaw level dim (numBits pts) pts
            ++ encs.flatMap (fun e => quantParamBytes e.transform)
            ++ encs.flatMap (fun e => signedMinBytes e.transform), encs)

/-- `PointCloudEncoder::EncodePointAttributes` with `PointCloudKdTreeEncoder::GenerateAttributesEncoder` -/
def encodePointAttributes (ch : Choices) (opts : EncOpts) (numPoints : Nat) (atts : List Attribute) :
    Option (Bytes × List AttEnc) :=
  if atts.isEmpty then some ([0], []) else
  match encodeKdAttributes ch opts numPoints atts with
  | none => none
  | some (bs, encs) =>
    some (1 :: (encVarint atts.length ++ encs.flatMap (fun e => descBytes e.desc) ++ bs), encs)

/-- `PointCloudEncoder::EncodeHeader` with `GetEncodingMethod() = POINT_CLOUD_KD_TREE_ENCODING` -/
def encodeHeader (hasMetadata : Bool) : Bytes :=
  [68, 82, 65, 67, 79] ++
  [Generated.kDracoPointCloudBitstreamVersionMajor.toNat, Generated.kDracoPointCloudBitstreamVersionMinor.toNat,
   0, 1] ++
  writeLE 2 (if hasMetadata then Generated.METADATA_FLAG_MASK.toNat else 0)

/-- `PointCloudEncoder::Encode` of `PointCloudKdTreeEncoder`, with the per-attribute states -/
def encodeGeometryKdFull (ch : Choices) (g : Geometry) (md : Option GeometryMetadata) (opts : EncOpts) :
    Option (Bytes × List AttEnc) :=
  match encodeMetadataPart md with
  | none => none
  | some mdBytes =>
    match encodePointAttributes ch opts g.numPoints g.atts with
    | none => none
    | some (ab, encs) =>
      -- PointCloudKdTreeEncoder::EncodeGeometryData: int32_t num_points
      some (encodeHeader md.isSome ++ mdBytes ++ writeLE 4 (g.numPoints % 2^32) ++ ab, encs)

def encodeGeometryKd (ch : Choices) (g : Geometry) (md : Option GeometryMetadata) (opts : EncOpts) :
    Option Bytes :=
  (encodeGeometryKdFull ch g md opts).map (·.1)

/-! ### what the decoder is expected to return -/

/-- the decoder's `AttributeTuple`s for the encoder states: offsets are the running sums of the
    component counts -/
def kdAttsOf : Nat → List AttEnc → List Kd.KdAtt
  | _, [] => []
  | off, e :: es =>
    ⟨e.desc, e.kind, off, if e.kind = 2 then 4 else dataTypeLength e.desc.dataType⟩ ::
      kdAttsOf (off + e.desc.numComponents) es

/-- the geometry `KdTreeAttributesDecoder` assembles from the integer points `pts` (in this
    order) with the attribute layout and transform parameters of the encoder states: literally the
    decoder's final expression -/
def geometryOfPoints (numPoints : Nat) (encs : List AttEnc) (pts : List (List Nat)) : Geometry :=
  let kas := kdAttsOf 0 encs
  { isMesh := false, numPoints := numPoints, faces := [],
    atts := Kd.zip3With (Kd.finishAttribute {} numPoints) kas (encs.map (·.transform))
              (kas.map fun ka => pts.map (Kd.attRow ka)) }

/-- the value bytes the decoder produces for one point of one attribute -/
def finishRow (ka : Kd.KdAtt) (t : Kd.KdTransform) (r : List Nat) : Bytes :=
  match t with
  | .signed mins => (Kd.mapRow (fun (m : Int) v => (v + toUnsigned 32 m) % 2^32) mins r).flatMap (writeLE ka.dataSize)
  | .quant bits mins range =>
    (Kd.mapRow (fun m v => Leaf.dequant range bits m (toSigned 32 v)) mins r).flatMap (writeLE 4)
  | .none => r.flatMap (writeLE ka.dataSize)

/-- the per-point value tuples (one entry per attribute) of the points `pts` -/
def tuplesOf (encs : List AttEnc) (pts : List (List Nat)) : List (List Bytes) :=
  pts.map fun p => List.zipWith (fun ka (e : AttEnc) => finishRow ka e.transform (Kd.attRow ka p))
    (kdAttsOf 0 encs) encs

/-- the attribute the kd-tree decoder returns for attribute `i` if the points came back in their
    original order, from the input and the options alone: the value of every point
    (`pointRows`: the point map resolved) for integer attributes, `dequantize (quantize x)` with the
    parameters of `quantizationParams` for float attributes — by the same float-oracle
    expressions the encoder and the decoder evaluate -/
def expectedAttributeOf (opts : EncOpts) (numPoints i : Nat) (a : Attribute) : Attribute :=
  let rows := pointRows a numPoints
  let values : Bytes :=
    if a.dataType = Generated.DT_FLOAT32.toNat then
      (match quantizationParams a (opts.att i) with
       | some (mins, range, q) =>
         rows.flatMap fun r =>
           (Kd.mapRow (fun m v => Leaf.dequant range q m (toSigned 32 v)) mins
             ((quantizeRow mins range q 0 (rowF32s a.numComponents r)).map (toUnsigned 32))).flatMap (writeLE 4)
       | none => [])
    else rows.flatten
  (descOf a).toAttribute numPoints values

/-- `expectedKd g opts`: the input with every point map resolved and every float attribute
    replaced by its dequantized quantization — the kd-tree decoder returns it up to the order of
    the points -/
def expectedKd (g : Geometry) (opts : EncOpts) : Geometry :=
  { isMesh := false, numPoints := g.numPoints, faces := [],
    atts := (zipIdxFrom 0 g.atts).map fun ia => expectedAttributeOf opts g.numPoints ia.1 ia.2 }

end Draco.KdEnc
