/-
  Abstract machine for C19: N instances, each with private state; a step of instance `i`
  transforms only component `i` of the global state. An execution is any interleaving of the
  per-instance step lists. (The shared component is absent on the codec path: that is what
  `Generated.mutableGlobals` is checked for.)
-/
namespace Draco.Interleave

/-- a step of one instance: a function on that instance's private state -/
abbrev Step (σ : Type) := σ → σ

/-- global state: one private state per instance -/
abbrev Global (σ : Type) := Nat → σ

/-- a scheduled event: instance `i` performs step `f` -/
structure Event (σ : Type) where
  inst : Nat
  step : Step σ

/-- run one event: only the component of the acting instance changes -/
def runEvent {σ} (g : Global σ) (e : Event σ) : Global σ :=
  fun j => if j = e.inst then e.step (g j) else g j

/-- run a schedule (an interleaving) -/
def run {σ} (g : Global σ) (es : List (Event σ)) : Global σ := es.foldl runEvent g

/-- the steps instance `i` performs in a schedule, in schedule order (its program order) -/
def project {σ} (i : Nat) (es : List (Event σ)) : List (Step σ) :=
  (es.filter (·.inst = i)).map (·.step)

/-- running an instance alone -/
def runAlone {σ} (s : σ) (fs : List (Step σ)) : σ := fs.foldl (fun s f => f s) s

end Draco.Interleave
