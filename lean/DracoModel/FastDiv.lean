import DracoModel.Basic
/-
  Mirrors src/draco/core/divide.h: `fastdiv(unsigned x, int y)` — division by multiplication
  with the table `vp10_fastdiv_tab[256]` of (mult, shift) pairs (src/draco/core/divide.cc,
  literal copy in `Generated/FastDivTab.lean`).
-/
namespace Draco

/-- `vp10_fastdiv_tab[y]`; indices outside the table (never used by the code, `y` is a
    `uint8_t` probability) read as `(0, 0)`. -/
def fastdivEntry (tab : List (Nat × Nat)) (y : Nat) : Nat × Nat := tab.getD y (0, 0)

/-- `fastdiv(x, y)`:
    `unsigned t = ((uint64_t)x * tab[y].mult) >> 32; return (t + x) >> tab[y].shift;`
    `x` is a `uint32_t`; the sum `t + x` is computed in `unsigned` and wraps mod 2^32. -/
def fastdiv (tab : List (Nat × Nat)) (x y : Nat) : Nat :=
  let e := fastdivEntry tab y
  let t := (x * e.1) / 2^32
  ((t + x) % 2^32) / 2^e.2

end Draco
