import DracoModel.FastDiv
/-
  Mirrors the rABS part of src/draco/compression/entropy/ans.h:
  `ans_write_init`, `rabs_desc_write` (= `rabs_write`), `ans_write_end`,
  `ans_read_init`, `rabs_desc_read` (= `rabs_read`), `ans_read_end`.

  Encoder state (`AnsCoder`): `state : uint32_t` and the bytes `buf[0 .. buf_offset)` written
  so far.  We keep the written bytes newest first (`out.reverse` is the buffer), so that
  `buf[buf_offset++] = b` is a cons.
  Decoder state (`AnsDecoder`): `state` and the bytes `buf[0 .. buf_offset)` not yet
  consumed; the decoder reads the buffer backwards (`buf[--buf_offset]`), so we keep them
  last byte first — the same orientation as the encoder's list.
-/
namespace Draco

/-- `DRACO_ANS_L_BASE` -/
def ansL : Nat := 4096
/-- `DRACO_ANS_IO_BASE` -/
def ansIO : Nat := 256
/-- `DRACO_ANS_P8_PRECISION` -/
def ansP8 : Nat := 256

structure AnsCoder where
  state : Nat
  /-- bytes written so far, newest first -/
  out : Bytes
deriving Repr, BEq, DecidableEq

structure AnsDecoder where
  state : Nat
  /-- bytes `buf[0..buf_offset)` still unread, last one first -/
  buf : Bytes
deriving Repr, BEq, DecidableEq

/-- `ans_write_init` -/
def ansWriteInit : AnsCoder := ⟨ansL, []⟩

/-- `const AnsP8 p = DRACO_ANS_P8_PRECISION - p0;` (uint8_t, so `p0 = 0` gives `p = 0`) -/
def ansCompl (p0 : Nat) : Nat := (ansP8 - p0 % 256) % 256

/-- `rabs_desc_write(ans, val, p0)` with `DRACO_ANS_DIVREM` = `fastdiv`.
    All arithmetic is `unsigned` (mod 2^32). -/
def rabsWrite (tab : List (Nat × Nat)) (a : AnsCoder) (val : Bool) (p0 : Nat) : AnsCoder :=
  let p := ansCompl p0
  let ls := if val then p else p0
  let a1 : AnsCoder :=
    if a.state ≥ ansL / ansP8 * ansIO * ls then ⟨a.state / ansIO, (a.state % ansIO) :: a.out⟩
    else a
  let quot := fastdiv tab a1.state ls
  let rem := (a1.state + 2^32 - (quot * ls) % 2^32) % 2^32
  ⟨(quot * ansP8 + rem + (if val then 0 else p)) % 2^32, a1.out⟩

/-- `ans_write_end`: serialises `state − L` in 1..3 bytes, the tag in the two top bits of the
    LAST byte.  Returns the complete buffer `buf[0 .. size)` in forward order.
    (`state − L ≥ 2^22` cannot happen for `state < 256·L`; the C++ then returns `buf_offset`
    without writing anything.) -/
def ansWriteEnd (a : AnsCoder) : Bytes :=
  let s := (a.state + 2^32 - ansL) % 2^32
  if s < 2^6 then (s :: a.out).reverse
  else if s < 2^14 then
    let v := 2^14 + s
    ((v / 256) % 256 :: v % 256 :: a.out).reverse
  else if s < 2^22 then
    let v := 2 * 2^22 + s
    ((v / 65536) % 256 :: (v / 256) % 256 :: v % 256 :: a.out).reverse
  else a.out.reverse

/-- `ans_read_init(ans, buf, offset)` on the bytes `buf[0 .. offset)`; `none` = returns 1. -/
def ansReadInit (buf : Bytes) : Option AnsDecoder :=
  match buf.reverse with
  | [] => none
  | b :: r =>
    let x := b / 64
    let fin (state : Nat) (r : Bytes) : Option AnsDecoder :=
      let st := state + ansL
      if st ≥ ansL * ansIO then none else some ⟨st, r⟩
    if x = 0 then fin (b % 64) r
    else if x = 1 then
      match r with
      | [] => none
      | b1 :: r => fin ((b * 256 + b1) % 2^14) r
    else if x = 2 then
      match r with
      | b1 :: b2 :: r => fin ((b * 65536 + b1 * 256 + b2) % 2^22) r
      | _ => none
    else none

/-- `rabs_desc_read(ans, p0)` (the `DRACO_ANS_IMPL1 == 0` branch) -/
def rabsRead (d : AnsDecoder) (p0 : Nat) : Bool × AnsDecoder :=
  let p := ansCompl p0
  let d1 : AnsDecoder :=
    if d.state < ansL then
      match d.buf with
      | [] => d
      | b :: r => ⟨(d.state * ansIO + b) % 2^32, r⟩
    else d
  let x := d1.state
  let quot := x / ansP8
  let rem := x % ansP8
  let xn := (quot * p) % 2^32
  if rem < p then (true, ⟨(xn + rem) % 2^32, d1.buf⟩)
  else (false, ⟨(x + 2 * 2^32 - xn - p) % 2^32, d1.buf⟩)

/-- a whole rABS block with a fixed probability: the coder is a stack, so the bits are
    written last-first (as `RAnsBitEncoder::EndEncoding` does), then `ans_write_end` -/
def rabsEncodeBits (tab : List (Nat × Nat)) (p0 : Nat) (bits : List Bool) : Bytes :=
  ansWriteEnd (bits.reverse.foldl (fun a b => rabsWrite tab a b p0) ansWriteInit)

/-- `n` calls of `rabs_read` with a fixed probability, results in call order -/
def rabsReadBits (p0 : Nat) : Nat → AnsDecoder → List Bool → List Bool × AnsDecoder
  | 0, d, acc => (acc.reverse, d)
  | n+1, d, acc => let r := rabsRead d p0; rabsReadBits p0 n r.2 (r.1 :: acc)

/-- `ans_read_init` on the whole block, then `n` reads -/
def rabsDecodeBits (p0 n : Nat) (buf : Bytes) : Option (List Bool) :=
  match ansReadInit buf with
  | none => none
  | some d => some (rabsReadBits p0 n d []).1

/-- `ans_read_end` -/
def ansReadEnd (d : AnsDecoder) : Bool := d.state == ansL

end Draco
