import DracoModel.Basic
/-
  DracoModel.FloatOps — the float32 operations that the quantization code of draco performs
  (src/draco/core/quantization_utils.{h,cc},
   src/draco/attributes/attribute_quantization_transform.{h,cc}), bundled as an interface so
  that the quantizer model can be instantiated
    * with `Float32` (executable, bit for bit the g++ x86-64 SSE behaviour; no FMA contraction
      happens because every C++ statement stores its float result before the next operation),
    * with exact rational arithmetic, and with abstract rounding oracles (in `DracoProofs`).

  Every field names the C++ expression it stands for.
-/
namespace Draco

class FloatOps (F : Type) where
  /-- `a + b` on `float` -/
  add : F → F → F
  /-- `a - b` on `float` -/
  sub : F → F → F
  /-- `a * b` on `float` -/
  mul : F → F → F
  /-- `a / b` on `float` -/
  div : F → F → F
  /-- `static_cast<float>(k)` for an `int32_t k` -/
  ofInt : Int → F
  /-- `static_cast<int32_t>(floor(x))` (`Quantizer::QuantizeFloat`) -/
  floorToInt : F → Int
  /-- `a < b` (also used for `b > a`) -/
  lt : F → F → Bool
  /-- `a == b` -/
  eq : F → F → Bool
  /-- `std::isnan` -/
  isNaN : F → Bool
  /-- `std::isinf` -/
  isInf : F → Bool
  /-- the literal `0.f` -/
  zero : F
  /-- the literal `1.f` -/
  one : F
  /-- the literal `0.5f` -/
  half : F
  /-- reinterpretation of a little endian 32-bit pattern as `float`
      (`DecoderBuffer::Decode(float*)`) -/
  ofBits : Nat → F
  /-- bit pattern of a `float` (`EncoderBuffer::Encode(float)`) -/
  toBits : F → Nat

/-- The executable instance. `floorToInt`: `floor` is exact; the `float/double → int32`
    conversion of an out-of-range or NaN value is undefined behaviour in C++ and yields the
    x86 "integer indefinite" value `INT32_MIN` (`cvttss2si` / `cvttsd2si`), which is what the
    compiled library does. -/
instance : FloatOps Float32 where
  add a b := a + b
  sub a b := a - b
  mul a b := a * b
  div a b := a / b
  ofInt k := Float32.ofInt k
  floorToInt x :=
    let f := x.floor
    if f.isNaN || f ≥ 2147483648 || f < -2147483648 then -2147483648
    else f.toInt32.toInt
  lt a b := decide (a < b)
  eq a b := a == b
  isNaN x := x.isNaN
  isInf x := x.isInf
  zero := 0
  one := 1
  half := 0.5
  ofBits n := Float32.ofBits (UInt32.ofNat n)
  toBits x := x.toBits.toNat

end Draco
