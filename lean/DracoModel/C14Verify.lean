import DracoModel.C14Check
/-
  DracoModel.C14Verify — the clauses of property C14 as executable checkers over a PAIR
  (input, result): the result is whatever the IMPLEMENTATION returned (parsed from the harness
  output), not what the model computes.  Nothing here calls the model of the operation under test;
  the only model definitions used are the observation functions (`describes`, `pointTuple`,
  `pointKey`, `entries`, `valid`), the reading of a strip by a consumer (`Strips.triangles`) and the
  documented notion of a degenerate face (`Cleanup.isDegenerate`: repeated POSITION value index).

  Each checker returns named clauses; a clause whose name starts with `strict-` is informational
  (the property as it would read without the restriction to the attribute types the deduplication
  supports) and is not demanded by the check.

  What "the same description" means (C14): the multiset of triangles of a mesh, each triangle being
  the three per-corner tuples of attribute value bytes up to the choice of the first corner
  (orientation kept); the multiset of points of a point cloud (the SET of points where the
  operation documents the removal of duplicate points).
-/
namespace Draco
namespace C14

abbrev Flags := List (String × Bool)

/-! ### the observation functions through arrays (value entries and maps are indexed once per
    attribute instead of once per corner); equal to `Geometry.pointTuple` / `describes`
    (`pointTupleA_eq`, `describesA_eq` in DracoProofs/C14Verify.lean) -/

/-- per attribute: the value entries and the explicit map, as arrays -/
def tupleTable (g : Geometry) : List (Array Bytes × Option (Array Nat)) :=
  g.atts.map fun a => (a.entries.toArray, a.mapArray)

def tupleOf (tb : List (Array Bytes × Option (Array Nat))) (p : Nat) : List Bytes :=
  tb.map fun (e, ma) => e.getD (idxOf ma p) []

def pointTuplesA (g : Geometry) : List (List Bytes) :=
  let tb := tupleTable g
  (List.range g.numPoints).map (tupleOf tb)

def trianglesOfA (g : Geometry) (faces : List Face) : List (List (List Bytes)) :=
  let tb := tupleTable g
  faces.map fun f => [tupleOf tb f.1, tupleOf tb f.2.1, tupleOf tb f.2.2]

def describesA (g : Geometry) : List (List (List Bytes)) :=
  if g.isMesh then trianglesOfA g g.faces else (pointTuplesA g).map fun t => [t]

def Flags.toText (f : Flags) : String :=
  if f.isEmpty then "-" else " ".intercalate (f.map fun (n, b) => n ++ "=" ++ (if b then "T" else "F"))

/-- an oriented triangle up to the choice of its first corner -/
structure RTri where
  t : List (List Bytes)

instance : BEq RTri := ⟨fun a b => triRotB a.t b.t⟩

def rtris (l : List (List (List Bytes))) : List RTri := l.map RTri.mk

/-- `l1 ⊆ l2` as multisets of classes of `==` (an equivalence relation): every element of `l1` has
    at least as many equivalents in `l2` as in `l1` -/
def subMultisetSlow {α : Type} [BEq α] (l1 l2 : List α) : Bool := l1.all fun x => decide (l1.count x ≤ l2.count x)

/-- element by element `==` (linear-time shortcut for the common case that nothing was reordered) -/
def pointwiseEq {α : Type} [BEq α] : List α → List α → Bool
  | [], [] => true
  | a :: as, b :: bs => a == b && pointwiseEq as bs
  | _, _ => false

def subMultiset {α : Type} [BEq α] (l1 l2 : List α) : Bool := pointwiseEq l1 l2 || subMultisetSlow l1 l2

/-- the same classes of `==` with the same multiplicities -/
def eqMultisetSlow {α : Type} [BEq α] (l1 l2 : List α) : Bool := (l1 ++ l2).all fun x => l1.count x == l2.count x

def eqMultiset {α : Type} [BEq α] (l1 l2 : List α) : Bool := pointwiseEq l1 l2 || eqMultisetSlow l1 l2

/-- the same triangles with the same multiplicities, each up to rotation -/
def sameTriangles (l1 l2 : List (List (List Bytes))) : Bool := eqMultiset (rtris l1) (rtris l2)

def sameSet {α : Type} [BEq α] (l1 l2 : List α) : Bool := l1.all l2.contains && l2.all l1.contains

/-- mesh: same multiset of oriented triangles; cloud: same multiset of points -/
def sameDescription (g g' : Geometry) : Bool :=
  g'.isMesh == g.isMesh &&
  (if g.isMesh then sameTriangles (describesA g') (describesA g) else (describesA g').isPerm (describesA g))

/-- mesh: same multiset of oriented triangles; cloud: same SET of points, none added -/
def sameDescriptionUpToDuplicatePoints (g g' : Geometry) : Bool :=
  g'.isMesh == g.isMesh &&
  (if g.isMesh then sameTriangles (describesA g') (describesA g)
   else sameSet (describesA g') (describesA g) && g'.numPoints ≤ g.numPoints)

def sameShape (g g' : Geometry) : Bool :=
  g'.atts.length == g.atts.length &&
  (g'.atts.zip g.atts).all fun (a', a) =>
    a'.attType == a.attType && a'.dataType == a.dataType && a'.numComponents == a.numComponents &&
    a'.normalized == a.normalized && a'.uniqueId == a.uniqueId

def noDupValuesSupported (g' : Geometry) : Bool := g'.atts.all fun a => !a.dedupSupported || nodupB a.entries
def noDupValuesAll (g' : Geometry) : Bool := g'.atts.all fun a => nodupB a.entries
def noDupKeys (g' : Geometry) : Bool := nodupB ((List.range g'.numPoints).map g'.pointKey)
def noDupTuples (g' : Geometry) : Bool := nodupB (pointTuplesA g')
def allSupported (g' : Geometry) : Bool := g'.atts.all (·.dedupSupported)

/-! ### deduplication -/

/-- `PointCloud::DeduplicateAttributeValues` returned `g'` for `g`: the demanded clauses -/
def demandedDedupValues (g g' : Geometry) : Flags :=
  [("valid", g'.valid && sameShape g g'),
   ("describes", sameDescription g g'),
   ("no-duplicate-values", g.numPoints == 0 || noDupValuesSupported g')]

def verifyDedupValues (g g' : Geometry) : Flags :=
  demandedDedupValues g g' ++ [("strict-no-duplicate-values", g.numPoints == 0 || noDupValuesAll g')]

/-- `PointCloud::DeduplicatePointIds` returned `g'` for `g` -/
def verifyDedupPointIds (g g' : Geometry) : Flags :=
  [("valid", g'.valid && sameShape g g'),
   ("describes", sameDescriptionUpToDuplicatePoints g g'),
   ("no-duplicate-points", noDupKeys g')]

/-- both (what the builders run): the demanded clauses -/
def demandedDedupBoth (g g' : Geometry) : Flags :=
  [("valid", g'.valid && sameShape g g'),
   ("describes", sameDescriptionUpToDuplicatePoints g g'),
   ("no-duplicate-values", g.numPoints == 0 || noDupValuesSupported g'),
   ("no-duplicate-points", noDupKeys g'),
   ("no-identical-points", g.numPoints == 0 || !allSupported g' || noDupTuples g')]

def verifyDedupBoth (g g' : Geometry) : Flags :=
  demandedDedupBoth g g' ++
  [("strict-no-duplicate-values", g.numPoints == 0 || noDupValuesAll g'),
   ("strict-no-identical-points", noDupTuples g')]

/-! ### MeshCleanup -/

/-- the documented notion: two or more corners share the POSITION value index -/
def posDegenerate (g : Geometry) (f : Face) : Bool :=
  match g.positionAtt with
  | none => false
  | some pos => Cleanup.isDegenerate pos f

def nothingToDo (o : CleanupOpts) : Bool :=
  !o.removeDegeneratedFaces && !o.removeUnusedAttributes && !o.removeDuplicateFaces && !o.makeGeometryManifold

/-- Every removal is a documented one.  Per class `c` of equal oriented triangles: with `mIn`
    instances in the input (`d` of them on faces with a repeated position index) and `mOut` in the
    result, the `mIn − mOut` missing ones are justified when all of them can be degenerate faces
    (`remove_degenerated_faces`) or when an equal triangle survives (`remove_duplicate_faces`). -/
def removalsDocumented (o : CleanupOpts) (g g' : Geometry) : Bool :=
  let tin := rtris (describesA g)
  let tout := rtris (describesA g')
  let degIn := g.faces.map (posDegenerate g)
  pointwiseEq tin tout || tin.all fun c =>
    let mIn := tin.count c
    let mOut := tout.count c
    let d := (tin.zip degIn).countP fun (t, dg) => dg && t == c
    mOut ≥ mIn || (o.removeDegeneratedFaces && mIn - mOut ≤ d) || (o.removeDuplicateFaces && mOut ≥ 1)

/-- no face occurs twice with the same point ids: literally, or — for faces with three different
    point ids — up to the choice of the first corner -/
def noDuplicateFaces (g' : Geometry) : Bool :=
  nodupB g'.faces && nodupB ((g'.faces.filter (!Strips.isDegenerateTriangle ·)).map minRot)

/-- `MeshCleanup::Cleanup(g, o)` returned an error (`none`) or `g'` -/
def verifyCleanup (o : CleanupOpts) (g : Geometry) : Option Geometry → Flags
  | none => [("status", !nothingToDo o && g.positionAtt.isNone)]
  | some g' =>
    [("valid", g'.valid && g'.isMesh && sameShape g g'),
     ("only-input-triangles", subMultiset (rtris (describesA g')) (rtris (describesA g))),
     ("documented-removals-only", removalsDocumented o g g'),
     ("no-degenerate-face-left", !o.removeDegeneratedFaces || g'.faces.all (!posDegenerate g' ·)),
     ("no-duplicate-face-left", !o.removeDuplicateFaces || noDuplicateFaces g'),
     ("nothing-unused-left", !o.removeUnusedAttributes || nothingUnused g'),
     ("points-and-values-kept", o.removeUnusedAttributes ||
        (g'.numPoints == g.numPoints && g'.atts.map (·.numValues) == g.atts.map (·.numValues) &&
         pointTuplesA g' == pointTuplesA g))]

/-! ### MeshStripifier -/

/-- the generator returned `false` (`none`, nothing is demanded) or the index stream `s` -/
def verifyStrips (restart : Bool) (g : Geometry) : Option (List Nat) → Flags
  | none => []
  | some s =>
    let expected := if restart then g.faces else g.faces.filter (!Strips.isDegenerateTriangle ·)
    [("indices", s.all fun i => i < g.numPoints || (restart && i == Strips.restartIndex)),
     ("describes", sameTriangles (trianglesOfA g (Strips.triangles restart s)) (trianglesOfA g expected))]

/-! ### builders -/

/-- `TriangleSoupMeshBuilder::Finalize` returned `g'` for a well-formed `s`: the demanded clauses -/
def demandedBuildMesh (s : MeshSpec) (g' : Geometry) : Flags :=
  [("valid", g'.valid && g'.isMesh && g'.atts.length == s.atts.length),
   ("describes", sameTriangles (describesA g') s.triangles),
   ("no-duplicate-values", s.numFaces == 0 || noDupValuesSupported g'),
   ("no-duplicate-points", noDupKeys g'),
   ("no-identical-points", s.numFaces == 0 || !allSupported g' || noDupTuples g')]

/-- `TriangleSoupMeshBuilder::Finalize` returned `nullptr` (`none`) or `g'` -/
def verifyBuildMesh (s : MeshSpec) : Option Geometry → Flags
  | none => [("status", !s.wellFormed)]
  | some g' =>
    if !s.wellFormed then []
    else demandedBuildMesh s g' ++
      [("strict-no-duplicate-values", s.numFaces == 0 || noDupValuesAll g'),
       ("strict-no-identical-points", noDupTuples g')]

/-- `PointCloudBuilder::Finalize(dedup)` returned `g'` for a well-formed `s`: the demanded clauses -/
def demandedBuildPointCloud (s : PointCloudSpec) (g' : Geometry) : Flags :=
  if s.dedup then
    [("valid", g'.valid && !g'.isMesh && g'.atts.length == s.atts.length),
     ("describes", sameSet (describesA g') s.points && g'.numPoints ≤ s.numPoints),
     ("no-duplicate-values", s.numPoints == 0 || noDupValuesSupported g'),
     ("no-duplicate-points", noDupKeys g'),
     ("no-identical-points", s.numPoints == 0 || !allSupported g' || noDupTuples g')]
  else
    [("valid", g'.valid && !g'.isMesh && g'.atts.length == s.atts.length),
     ("describes", (describesA g').isPerm s.points)]

/-- `PointCloudBuilder::Finalize(dedup)` returned `nullptr` (`none`) or `g'` -/
def verifyBuildPointCloud (s : PointCloudSpec) : Option Geometry → Flags
  | none => [("status", !s.wellFormed)]
  | some g' =>
    if !s.wellFormed then []
    else demandedBuildPointCloud s g' ++
      (if s.dedup then
        [("strict-no-duplicate-values", s.numPoints == 0 || noDupValuesAll g'),
         ("strict-no-identical-points", noDupTuples g')]
       else [])

end C14
end Draco
