import DracoModel.EbTable
/-
  Vertex traversals that order the attribute values of an Edgebreaker mesh:
    compression/mesh/traverser/traverser_base.h
    compression/mesh/traverser/depth_first_traverser.h
    compression/mesh/traverser/max_prediction_degree_traverser.h
    compression/mesh/traverser/mesh_traversal_sequencer.h         (GenerateSequenceInternal)
    compression/mesh/traverser/mesh_attribute_indices_encoding_observer.h (OnNewVertexVisited)
-/
namespace Draco.Eb

/-- result of `GenerateSequence` and the filled `MeshAttributeIndicesEncodingData` -/
structure SeqOut where
  /-- `point_ids_` of the controller -/
  pointIds : Array Nat
  /-- `encoded_attribute_value_index_to_corner_map` -/
  d2c : Array Nat
  /-- `vertex_to_encoded_attribute_value_index_map` -/
  v2d : Array Nat
deriving Inhabited

/-- `MeshAttributeIndicesEncodingObserver::OnNewVertexVisited` -/
@[inline] def onNewVertex (faces : Array Nat) (s : SeqOut) (v corner : Nat) : R SeqOut := do
  let p ← rd "mesh->face(corner / 3)[corner % 3]" faces corner
  let v2d ← wr "vertex_to_encoded_attribute_value_index_map" s.v2d v s.d2c.size
  pure { pointIds := s.pointIds.push p, d2c := s.d2c.push corner, v2d := v2d }

/-- `IsFaceVisited(FaceIndex)` -/
@[inline] def faceVisited (fv : Array Bool) (f : Nat) : R Bool :=
  if f == inv then pure true else rdB "is_face_visited_" fv f

@[inline] def faceOfCorner (c : Nat) : Nat := if c == inv then inv else c / 3

/-- `if (!IsVertexVisited(v)) { MarkVertexVisited(v); OnNewVertexVisited(v, corner); }` -/
@[inline] def visitVertex (faces : Array Nat) (vv : Array Bool) (out : SeqOut) (v corner : Nat) :
    R (Array Bool × SeqOut) := do
  if !(← rdB "is_vertex_visited_" vv v) then
    let vv ← wrB "is_vertex_visited_" vv v true
    let out ← onNewVertex faces out v corner
    pure (vv, out)
  else pure (vv, out)

/-- the `while (true)` loop of `DepthFirstTraverser::TraverseFromCorner`, started at the corner on top
    of the stack; returns the visited flags, the sequence and the stack -/
def dfInner (t : TView) (faces : Array Nat) (fuel : Nat) (fv vv : Array Bool) (out : SeqOut)
    (stack : Array Nat) (cornerId faceId : Nat) : R (Array Bool × Array Bool × SeqOut × Array Nat) := do
  let mut fv := fv
  let mut vv := vv
  let mut out := out
  let mut stack := stack
  let mut cornerId := cornerId
  let mut faceId := faceId
  let mut fin2 := false
  for _ in [0:fuel] do
    fv ← wrB "MarkFaceVisited" fv faceId true
    let vertId ← t.vertex cornerId
    if vertId == inv then raise .fail
    if !(← rdB "is_vertex_visited_" vv vertId) then
      let onBoundary ← t.isOnBoundary vertId
      vv ← wrB "is_vertex_visited_" vv vertId true
      out ← onNewVertex faces out vertId cornerId
      if !onBoundary then
        cornerId ← t.rightCorner cornerId
        faceId := cornerId / 3
        continue
    let right ← t.rightCorner cornerId
    let left ← t.leftCorner cornerId
    let rightFace := faceOfCorner right
    let leftFace := faceOfCorner left
    if (← faceVisited fv rightFace) then
      if (← faceVisited fv leftFace) then
        stack := stack.pop
        fin2 := true
        break
      else
        cornerId := left
        faceId := leftFace
    else
      if (← faceVisited fv leftFace) then
        cornerId := right
        faceId := rightFace
      else
        stack := stack.set! (stack.size - 1) left
        stack := stack.push right
        fin2 := true
        break
  if !fin2 then raise (.fuel "DepthFirstTraverser: inner loop")
  pure (fv, vv, out, stack)

/-- the `while (!corner_traversal_stack_.empty())` loop of `TraverseFromCorner` -/
def dfStack (t : TView) (faces : Array Nat) (fuel : Nat) (fv vv : Array Bool) (out : SeqOut)
    (stack : Array Nat) : R (Array Bool × Array Bool × SeqOut) := do
  let mut fv := fv
  let mut vv := vv
  let mut out := out
  let mut stack := stack
  let mut fin := false
  for _ in [0:fuel] do
    if stack.isEmpty then
      fin := true
      break
    let cornerId := stack.back!
    let faceId := cornerId / 3
    if cornerId == inv then
      stack := stack.pop
      continue
    if (← faceVisited fv faceId) then
      stack := stack.pop
      continue
    let (fv', vv', out', stack') ← dfInner t faces fuel fv vv out stack cornerId faceId
    fv := fv'
    vv := vv'
    out := out'
    stack := stack'
  if !fin then raise (.fuel "DepthFirstTraverser: stack loop")
  pure (fv, vv, out)

/-- `MeshTraversalSequencer<DepthFirstTraverser>::GenerateSequenceInternal`
    (`corner_order_ == nullptr` in the decoder). `v2dSize` is the size given to
    `MeshAttributeIndicesEncodingData::Init`. -/
def depthFirst (t : TView) (faces : Array Nat) (v2dSize : Nat) : R SeqOut := do
  let nf := t.numFaces
  let nv := t.numVertices
  let fuel := 4 * (nf + nv) + 16
  let mut fv := Array.replicate nf false
  let mut vv := Array.replicate nv false
  let mut out : SeqOut := { pointIds := Array.mkEmpty nv, d2c := Array.mkEmpty nv, v2d := Array.replicate v2dSize 0 }
  for i in [0:nf] do
    -- TraverseFromCorner(3 i)
    let c0 := 3 * i
    if (← rdB "is_face_visited_" fv i) then continue
    let nextVert ← t.vertex (nextC c0)
    let prevVert ← t.vertex (prevC c0)
    if nextVert == inv || prevVert == inv then raise .fail
    let (vv1, out1) ← visitVertex faces vv out nextVert (nextC c0)
    let (vv2, out2) ← visitVertex faces vv1 out1 prevVert (prevC c0)
    let (fv3, vv3, out3) ← dfStack t faces fuel fv vv2 out2 #[c0]
    fv := fv3
    vv := vv3
    out := out3
  pure out

/-- `ComputePriority` + `AddCornerToTraversalStack` / direct continuation of
    `MaxPredictionDegreeTraverser`: the priority of `corner` -/
@[inline] def mpPriority (t : TView) (vv : Array Bool) (degree : Array Nat) (corner : Nat) :
    R (Nat × Array Nat) := do
  let vTip ← t.vertex corner
  if !(← rdB "is_vertex_visited_" vv vTip) then
    let d := (← rd "prediction_degree_" degree vTip) + 1
    let degree ← wr "prediction_degree_" degree vTip d
    pure (if d > 1 then 1 else 2, degree)
  else pure (0, degree)

/-- state of the three priority stacks of `MaxPredictionDegreeTraverser` -/
structure MpStacks where
  st0 : Array Nat := #[]
  st1 : Array Nat := #[]
  st2 : Array Nat := #[]
  best : Nat := 0

/-- `AddCornerToTraversalStack` -/
@[inline] def MpStacks.add (s : MpStacks) (corner priority : Nat) : MpStacks :=
  let s := if priority == 0 then { s with st0 := s.st0.push corner }
           else if priority == 1 then { s with st1 := s.st1.push corner }
           else { s with st2 := s.st2.push corner }
  if priority < s.best then { s with best := priority } else s

/-- `PopNextCornerToTraverse` -/
@[inline] def MpStacks.pop (s : MpStacks) : Nat × MpStacks :=
  if s.best ≤ 0 && !s.st0.isEmpty then (s.st0.back!, { s with st0 := s.st0.pop, best := 0 })
  else if s.best ≤ 1 && !s.st1.isEmpty then (s.st1.back!, { s with st1 := s.st1.pop, best := 1 })
  else if !s.st2.isEmpty then (s.st2.back!, { s with st2 := s.st2.pop, best := 2 })
  else (inv, s)

/-- the `while (true)` loop of `MaxPredictionDegreeTraverser::TraverseFromCorner` -/
def mpInner (t : TView) (faces : Array Nat) (fuel : Nat) (fv vv : Array Bool) (out : SeqOut)
    (degree : Array Nat) (stacks : MpStacks) (cornerId : Nat) :
    R (Array Bool × Array Bool × SeqOut × Array Nat × MpStacks) := do
  let mut fv := fv
  let mut vv := vv
  let mut out := out
  let mut degree := degree
  let mut stacks := stacks
  let mut cornerId := cornerId
  let mut fin2 := false
  for _ in [0:fuel] do
    let faceId := cornerId / 3
    fv ← wrB "MarkFaceVisited" fv faceId true
    let vertId ← t.vertex cornerId
    let (vv1, out1) ← visitVertex faces vv out vertId cornerId
    vv := vv1
    out := out1
    let right ← t.rightCorner cornerId
    let left ← t.leftCorner cornerId
    let rightVisited ← faceVisited fv (faceOfCorner right)
    let leftVisited ← faceVisited fv (faceOfCorner left)
    if !leftVisited then
      let (priority, degree1) ← mpPriority t vv degree left
      degree := degree1
      if rightVisited && priority ≤ stacks.best then
        cornerId := left
        continue
      else
        stacks := stacks.add left priority
    if !rightVisited then
      let (priority, degree1) ← mpPriority t vv degree right
      degree := degree1
      if priority ≤ stacks.best then
        cornerId := right
        continue
      else
        stacks := stacks.add right priority
    fin2 := true
    break
  if !fin2 then raise (.fuel "MaxPredictionDegreeTraverser: inner loop")
  pure (fv, vv, out, degree, stacks)

/-- the `while ((corner_id = PopNextCornerToTraverse()) != kInvalidCornerIndex)` loop -/
def mpStack (t : TView) (faces : Array Nat) (fuel : Nat) (fv vv : Array Bool) (out : SeqOut)
    (degree : Array Nat) (stacks : MpStacks) :
    R (Array Bool × Array Bool × SeqOut × Array Nat × MpStacks) := do
  let mut fv := fv
  let mut vv := vv
  let mut out := out
  let mut degree := degree
  let mut stacks := stacks
  let mut fin := false
  for _ in [0:fuel] do
    let (cornerId, stacks1) := stacks.pop
    stacks := stacks1
    if cornerId == inv then
      fin := true
      break
    if (← faceVisited fv (cornerId / 3)) then continue
    let (fv', vv', out', degree', stacks') ← mpInner t faces fuel fv vv out degree stacks cornerId
    fv := fv'
    vv := vv'
    out := out'
    degree := degree'
    stacks := stacks'
  if !fin then raise (.fuel "MaxPredictionDegreeTraverser: stack loop")
  pure (fv, vv, out, degree, stacks)

/-- `MeshTraversalSequencer<MaxPredictionDegreeTraverser>::GenerateSequenceInternal`
    (only instantiated for the base corner table) -/
def maxPredictionDegree (t : TView) (faces : Array Nat) (v2dSize : Nat) : R SeqOut := do
  let nf := t.numFaces
  let nv := t.numVertices
  let fuel := 4 * (nf + nv) + 16
  let mut fv := Array.replicate nf false
  let mut vv := Array.replicate nv false
  let mut out : SeqOut := { pointIds := Array.mkEmpty nv, d2c := Array.mkEmpty nv, v2d := Array.replicate v2dSize 0 }
  -- OnTraversalStart
  let mut degree := Array.replicate nv 0
  let mut stacks : MpStacks := {}
  for i in [0:nf] do
    let c0 := 3 * i
    if nv == 0 then continue
    stacks := { stacks with st0 := stacks.st0.push c0, best := 0 }
    let nextVert ← t.vertex (nextC c0)
    let prevVert ← t.vertex (prevC c0)
    let (vv1, out1) ← visitVertex faces vv out nextVert (nextC c0)
    let (vv2, out2) ← visitVertex faces vv1 out1 prevVert (prevC c0)
    let tip ← t.vertex c0
    let (vv3, out3) ← visitVertex faces vv2 out2 tip c0
    let (fv4, vv4, out4, degree4, stacks4) ← mpStack t faces fuel fv vv3 out3 degree stacks
    fv := fv4
    vv := vv4
    out := out4
    degree := degree4
    stacks := stacks4
  pure out

end Draco.Eb
