import DracoModel.EbTable
/-
  Vertex traversals that order the attribute values of an Edgebreaker mesh:
    compression/mesh/traverser/traverser_base.h
    compression/mesh/traverser/depth_first_traverser.h
    compression/mesh/traverser/max_prediction_degree_traverser.h
    compression/mesh/traverser/mesh_traversal_sequencer.h         (GenerateSequenceInternal)
    compression/mesh/traverser/mesh_attribute_indices_encoding_observer.h (OnNewVertexVisited)
-/
namespace Draco.Eb

/-- result of `GenerateSequence` and the filled `MeshAttributeIndicesEncodingData` -/
structure SeqOut where
  /-- `point_ids_` of the controller -/
  pointIds : Array Nat
  /-- `encoded_attribute_value_index_to_corner_map` -/
  d2c : Array Nat
  /-- `vertex_to_encoded_attribute_value_index_map` -/
  v2d : Array Nat
deriving Inhabited

/-- `MeshAttributeIndicesEncodingObserver::OnNewVertexVisited` -/
@[inline] def onNewVertex (faces : Array Nat) (s : SeqOut) (v corner : Nat) : R SeqOut := do
  let p ← rd "mesh->face(corner / 3)[corner % 3]" faces corner
  let v2d ← wr "vertex_to_encoded_attribute_value_index_map" s.v2d v s.d2c.size
  pure { pointIds := s.pointIds.push p, d2c := s.d2c.push corner, v2d := v2d }

/-- `IsFaceVisited(FaceIndex)` -/
@[inline] def faceVisited (fv : Array Bool) (f : Nat) : R Bool :=
  if f == inv then pure true else rdB "is_face_visited_" fv f

@[inline] def faceOfCorner (c : Nat) : Nat := if c == inv then inv else c / 3

/-- `MeshTraversalSequencer<DepthFirstTraverser>::GenerateSequenceInternal`
    (`corner_order_ == nullptr` in the decoder). `v2dSize` is the size given to
    `MeshAttributeIndicesEncodingData::Init`. -/
def depthFirst (t : TView) (faces : Array Nat) (v2dSize : Nat) : R SeqOut := do
  let nf := t.numFaces
  let nv := t.numVertices
  let fuel := 4 * (nf + nv) + 16
  let mut fv := Array.replicate nf false
  let mut vv := Array.replicate nv false
  let mut out : SeqOut := { pointIds := Array.mkEmpty nv, d2c := Array.mkEmpty nv, v2d := Array.replicate v2dSize 0 }
  let mut stack : Array Nat := #[]
  for i in [0:nf] do
    -- TraverseFromCorner(3 i)
    let c0 := 3 * i
    if (← rdB "is_face_visited_" fv i) then continue
    stack := #[c0]
    let nextVert ← t.vertex (nextC c0)
    let prevVert ← t.vertex (prevC c0)
    if nextVert == inv || prevVert == inv then throw .fail
    if !(← rdB "is_vertex_visited_" vv nextVert) then
      vv ← wrB "is_vertex_visited_" vv nextVert true
      out ← onNewVertex faces out nextVert (nextC c0)
    if !(← rdB "is_vertex_visited_" vv prevVert) then
      vv ← wrB "is_vertex_visited_" vv prevVert true
      out ← onNewVertex faces out prevVert (prevC c0)
    let mut fin := false
    for _ in [0:fuel] do
      if stack.isEmpty then
        fin := true
        break
      let mut cornerId := stack.back!
      let mut faceId := cornerId / 3
      if cornerId == inv then
        stack := stack.pop
        continue
      if (← faceVisited fv faceId) then
        stack := stack.pop
        continue
      let mut fin2 := false
      for _ in [0:fuel] do
        fv ← wrB "MarkFaceVisited" fv faceId true
        let vertId ← t.vertex cornerId
        if vertId == inv then throw .fail
        if !(← rdB "is_vertex_visited_" vv vertId) then
          let onBoundary ← t.isOnBoundary vertId
          vv ← wrB "is_vertex_visited_" vv vertId true
          out ← onNewVertex faces out vertId cornerId
          if !onBoundary then
            cornerId ← t.rightCorner cornerId
            faceId := cornerId / 3
            continue
        let right ← t.rightCorner cornerId
        let left ← t.leftCorner cornerId
        let rightFace := faceOfCorner right
        let leftFace := faceOfCorner left
        if (← faceVisited fv rightFace) then
          if (← faceVisited fv leftFace) then
            stack := stack.pop
            fin2 := true
            break
          else
            cornerId := left
            faceId := leftFace
        else
          if (← faceVisited fv leftFace) then
            cornerId := right
            faceId := rightFace
          else
            stack := stack.set! (stack.size - 1) left
            stack := stack.push right
            fin2 := true
            break
      if !fin2 then throw (.fuel "DepthFirstTraverser: inner loop")
    if !fin then throw (.fuel "DepthFirstTraverser: stack loop")
  pure out

/-- `MeshTraversalSequencer<MaxPredictionDegreeTraverser>::GenerateSequenceInternal`
    (only instantiated for the base corner table) -/
def maxPredictionDegree (t : TView) (faces : Array Nat) (v2dSize : Nat) : R SeqOut := do
  let nf := t.numFaces
  let nv := t.numVertices
  let fuel := 4 * (nf + nv) + 16
  let mut fv := Array.replicate nf false
  let mut vv := Array.replicate nv false
  let mut out : SeqOut := { pointIds := Array.mkEmpty nv, d2c := Array.mkEmpty nv, v2d := Array.replicate v2dSize 0 }
  -- OnTraversalStart
  let mut degree := Array.replicate nv 0
  let mut st0 : Array Nat := #[]
  let mut st1 : Array Nat := #[]
  let mut st2 : Array Nat := #[]
  let mut best := 0
  for i in [0:nf] do
    let c0 := 3 * i
    if nv == 0 then continue
    st0 := st0.push c0
    best := 0
    let nextVert ← t.vertex (nextC c0)
    let prevVert ← t.vertex (prevC c0)
    if !(← rdB "is_vertex_visited_" vv nextVert) then
      vv ← wrB "is_vertex_visited_" vv nextVert true
      out ← onNewVertex faces out nextVert (nextC c0)
    if !(← rdB "is_vertex_visited_" vv prevVert) then
      vv ← wrB "is_vertex_visited_" vv prevVert true
      out ← onNewVertex faces out prevVert (prevC c0)
    let tip ← t.vertex c0
    if !(← rdB "is_vertex_visited_" vv tip) then
      vv ← wrB "is_vertex_visited_" vv tip true
      out ← onNewVertex faces out tip c0
    let mut fin := false
    for _ in [0:fuel] do
      -- PopNextCornerToTraverse
      let mut cornerId := inv
      if best ≤ 0 && !st0.isEmpty then
        cornerId := st0.back!
        st0 := st0.pop
        best := 0
      else if best ≤ 1 && !st1.isEmpty then
        cornerId := st1.back!
        st1 := st1.pop
        best := 1
      else if !st2.isEmpty then
        cornerId := st2.back!
        st2 := st2.pop
        best := 2
      if cornerId == inv then
        fin := true
        break
      if (← faceVisited fv (cornerId / 3)) then continue
      let mut fin2 := false
      for _ in [0:fuel] do
        let faceId := cornerId / 3
        fv ← wrB "MarkFaceVisited" fv faceId true
        let vertId ← t.vertex cornerId
        if !(← rdB "is_vertex_visited_" vv vertId) then
          vv ← wrB "is_vertex_visited_" vv vertId true
          out ← onNewVertex faces out vertId cornerId
        let right ← t.rightCorner cornerId
        let left ← t.leftCorner cornerId
        let rightVisited ← faceVisited fv (faceOfCorner right)
        let leftVisited ← faceVisited fv (faceOfCorner left)
        if !leftVisited then
          -- ComputePriority(left_corner_id)
          let vTip ← t.vertex left
          let mut priority := 0
          if !(← rdB "is_vertex_visited_" vv vTip) then
            let d := (← rd "prediction_degree_" degree vTip) + 1
            degree ← wr "prediction_degree_" degree vTip d
            priority := if d > 1 then 1 else 2
          if rightVisited && priority ≤ best then
            cornerId := left
            continue
          else
            if priority == 0 then st0 := st0.push left
            else if priority == 1 then st1 := st1.push left
            else st2 := st2.push left
            if priority < best then best := priority
        if !rightVisited then
          let vTip ← t.vertex right
          let mut priority := 0
          if !(← rdB "is_vertex_visited_" vv vTip) then
            let d := (← rd "prediction_degree_" degree vTip) + 1
            degree ← wr "prediction_degree_" degree vTip d
            priority := if d > 1 then 1 else 2
          if priority ≤ best then
            cornerId := right
            continue
          else
            if priority == 0 then st0 := st0.push right
            else if priority == 1 then st1 := st1.push right
            else st2 := st2.push right
            if priority < best then best := priority
        fin2 := true
        break
      if !fin2 then throw (.fuel "MaxPredictionDegreeTraverser: inner loop")
    if !fin then throw (.fuel "MaxPredictionDegreeTraverser: stack loop")
  pure out

end Draco.Eb
