import DracoModel.SeqEncoder
/-
  `Options` (src/draco/core/options.{h,cc}), `DracoOptions<AttributeKey>` (compression/config/
  draco_options.h), the speed getter of `EncoderOptionsBase` (compression/config/encoder_options.h),
  `Encoder::CreateExpertEncoderOptions` (compression/encode.cc), and the resolution of everything the
  sequential encoders read from them into `SeqEnc.EncOpts`.

  The C++ stores every value as TEXT in a `std::map<std::string, std::string>`:
    SetInt / SetBool   `std::to_string(int)`                 read by `atoi`
    SetFloat           `snprintf("%.9g")` (since fix 1b5fb06) read by `atof` → `float`
    SetVector<T>       the elements' texts joined by " "     read by `strtol` / `strtof` per element
    SetString          the text itself
  The model keeps the VALUE that the text denotes (`OptVal`) and states the text only where it is
  observable and cheap: the decimal text of integers (`OptVal.text`, `atoi`).  For floats the model
  relies on "`%.9g` followed by `strtof` restores every finite float32 exactly" (the content of fix
  1b5fb06; NaN payloads and the sign of NaN are not restored) — checked against the real class by the
  driver op `options` (tools/props/options_cases.py).  Reading an entry with a getter of another kind
  than the setter that wrote it ("one named option should be set with only a single data type",
  options.h) is defined in C++ through the text; the model defines the combinations int/bool/string
  and answers the default value for the others (marked in `getInt` / `getFloat`).
-/
namespace Draco.Opt
open Draco

/-- what an entry of the string map denotes -/
inductive OptVal where
  | int (v : Int)                -- SetInt, SetBool
  | float (bits : Nat)           -- SetFloat (float32 bit pattern)
  | str (s : String)             -- SetString
  | ints (vs : List Int)         -- SetVector<int>
  | floats (bits : List Nat)     -- SetVector<float>
deriving Repr, BEq, DecidableEq, Inhabited

/-- `std::atoi` on the texts that occur: optional blanks, optional sign, decimal digits; stops at the
    first other character; no digits → 0 (overflow is undefined behaviour in C and not modelled) -/
def atoi (s : String) : Int :=
  let cs := s.toList.dropWhile (fun c => c == ' ' || c == '\t' || c == '\n')
  let (neg, ds) := match cs with
    | '-' :: r => (true, r)
    | '+' :: r => (false, r)
    | r => (false, r)
  let n : Nat := (ds.takeWhile Char.isDigit).foldl (fun acc c => acc * 10 + (c.toNat - 48)) 0
  if neg then -(n : Int) else (n : Int)

/-- the text stored for an entry, where the model knows it: `std::to_string(int)` is the decimal text -/
def OptVal.text : OptVal → Option String
  | .int v => some (toString v)
  | .str s => some s
  | .ints vs => some (" ".intercalate (vs.map toString))
  | _ => none

/-- `Options`: the map, most recent binding first (a name occurs at most once) -/
structure Options where
  entries : List (String × OptVal) := []
deriving Repr, BEq, DecidableEq, Inhabited

def Options.find (o : Options) (name : String) : Option OptVal := o.entries.lookup name

/-- `options_[name] = …` -/
def Options.set (o : Options) (name : String) (v : OptVal) : Options :=
  ⟨(name, v) :: o.entries.filter (fun e => e.1 != name)⟩

def Options.setInt (o : Options) (name : String) (v : Int) : Options := o.set name (.int v)
/-- `SetBool`: `std::to_string(val ? 1 : 0)` -/
def Options.setBool (o : Options) (name : String) (b : Bool) : Options := o.set name (.int (if b then 1 else 0))
def Options.setFloat (o : Options) (name : String) (bits : Nat) : Options := o.set name (.float bits)
def Options.setString (o : Options) (name : String) (s : String) : Options := o.set name (.str s)
def Options.setIntVector (o : Options) (name : String) (vs : List Int) : Options := o.set name (.ints vs)
def Options.setFloatVector (o : Options) (name : String) (bits : List Nat) : Options := o.set name (.floats bits)

/-- `IsOptionSet` -/
def Options.isSet (o : Options) (name : String) : Bool := (o.find name).isSome

/-- `GetInt(name, default_val)`: `atoi` of the stored text. Entries written by `SetFloat` /
    `SetVector<float>` are outside the model (default value). -/
def Options.getInt (o : Options) (name : String) (dflt : Int) : Int :=
  match o.find name with
  | none => dflt
  | some (.int v) => v
  | some (.str s) => atoi s
  | some (.ints vs) => vs.headD 0
  | some _ => dflt

/-- `GetBool(name, default_val)`: `GetInt(name, -1)`; −1 means "not set" — also for an entry that was
    set to −1 — otherwise `static_cast<bool>` -/
def Options.getBool (o : Options) (name : String) (dflt : Bool) : Bool :=
  let r := o.getInt name (-1)
  if r == -1 then dflt else r != 0

/-- `GetFloat(name, default_val)` (float32 bit pattern); only for entries written by `SetFloat` -/
def Options.getFloat (o : Options) (name : String) (dflt : Nat) : Nat :=
  match o.find name with
  | some (.float b) => b
  | some (.floats (b :: _)) => b
  | _ => dflt

/-- `GetString(name, default_val)` where the stored text is known to the model -/
def Options.getString (o : Options) (name : String) (dflt : String) : String :=
  match o.find name with
  | none => dflt
  | some v => v.text.getD dflt

/-- `GetVector<float>(name, num_dims, out)`: `none` = returns false (not set); otherwise the first
    `min(num_dims, stored)` elements overwrite the front of `out` -/
def Options.getFloatVector (o : Options) (name : String) (numDims : Nat) (out : List Nat) : Option (List Nat) :=
  match o.find name with
  | none => none
  | some (.floats bs) => let k := bs.take numDims; some (k ++ out.drop k.length)
  | some (.float b) => some ([b].take numDims ++ out.drop (min 1 numDims))
  | some _ => some out

def Options.getIntVector (o : Options) (name : String) (numDims : Nat) (out : List Int) : Option (List Int) :=
  match o.find name with
  | none => none
  | some (.ints vs) => let k := vs.take numDims; some (k ++ out.drop k.length)
  | some (.int v) => some ([v].take numDims ++ out.drop (min 1 numDims))
  | some _ => some out

/-- `MergeAndReplace` -/
def Options.mergeAndReplace (o other : Options) : Options :=
  other.entries.reverse.foldl (fun acc e => acc.set e.1 e.2) o

/-! ### `DracoOptions<AttributeKey>` -/

structure DracoOptions where
  global : Options := {}
  /-- `attribute_options_`: one `Options` per attribute key that was ever written -/
  atts : List (Nat × Options) := []
deriving Repr, BEq, Inhabited

/-- `FindAttributeOptions` -/
def DracoOptions.findAtt (o : DracoOptions) (key : Nat) : Option Options := o.atts.lookup key

/-- `GetAttributeOptions(key)` + write back -/
def DracoOptions.modifyAtt (o : DracoOptions) (key : Nat) (f : Options → Options) : DracoOptions :=
  { o with atts := (key, f ((o.findAtt key).getD {})) :: o.atts.filter (fun e => e.1 != key) }

def DracoOptions.setAttributeInt (o : DracoOptions) (key : Nat) (name : String) (v : Int) : DracoOptions :=
  o.modifyAtt key (·.setInt name v)
def DracoOptions.setAttributeFloat (o : DracoOptions) (key : Nat) (name : String) (b : Nat) : DracoOptions :=
  o.modifyAtt key (·.setFloat name b)
def DracoOptions.setAttributeFloatVector (o : DracoOptions) (key : Nat) (name : String) (bs : List Nat) : DracoOptions :=
  o.modifyAtt key (·.setFloatVector name bs)
/-- `SetAttributeOptions(key, options)`: replaces the attribute's options -/
def DracoOptions.setAttributeOptions (o : DracoOptions) (key : Nat) (ao : Options) : DracoOptions :=
  o.modifyAtt key (fun _ => ao)
def DracoOptions.setGlobalInt (o : DracoOptions) (name : String) (v : Int) : DracoOptions :=
  { o with global := o.global.setInt name v }
def DracoOptions.setGlobalBool (o : DracoOptions) (name : String) (b : Bool) : DracoOptions :=
  { o with global := o.global.setBool name b }

/-- `GetAttributeInt`: the attribute's own option if it has one, else the GLOBAL option, else the default -/
def DracoOptions.getAttributeInt (o : DracoOptions) (key : Nat) (name : String) (dflt : Int) : Int :=
  match o.findAtt key with
  | some ao => if ao.isSet name then ao.getInt name dflt else o.global.getInt name dflt
  | none => o.global.getInt name dflt

def DracoOptions.getAttributeFloat (o : DracoOptions) (key : Nat) (name : String) (dflt : Nat) : Nat :=
  match o.findAtt key with
  | some ao => if ao.isSet name then ao.getFloat name dflt else o.global.getFloat name dflt
  | none => o.global.getFloat name dflt

def DracoOptions.getAttributeFloatVector (o : DracoOptions) (key : Nat) (name : String) (numDims : Nat)
    (out : List Nat) : Option (List Nat) :=
  match o.findAtt key with
  | some ao => if ao.isSet name then ao.getFloatVector name numDims out else o.global.getFloatVector name numDims out
  | none => o.global.getFloatVector name numDims out

/-- `IsAttributeOptionSet` AS WRITTEN: once the attribute has ANY options of its own, only those are
    consulted (no global fallback, unlike the getters) -/
def DracoOptions.isAttributeOptionSet (o : DracoOptions) (key : Nat) (name : String) : Bool :=
  match o.findAtt key with
  | some ao => ao.isSet name
  | none => o.global.isSet name

/-- the attribute's option if set, else the global one, else `none` -/
def DracoOptions.attributeIntOpt (o : DracoOptions) (key : Nat) (name : String) : Option Int :=
  match o.findAtt key with
  | some ao =>
    if ao.isSet name then some (ao.getInt name 0)
    else if o.global.isSet name then some (o.global.getInt name 0) else none
  | none => if o.global.isSet name then some (o.global.getInt name 0) else none

/-- `EncoderOptionsBase::GetSpeed`: max(encoding_speed, decoding_speed), 5 when both are unset -/
def DracoOptions.getSpeed (o : DracoOptions) : Int :=
  let e := o.global.getInt "encoding_speed" (-1)
  let d := o.global.getInt "decoding_speed" (-1)
  let m := max e d
  if m == -1 then 5 else m

/-- `EncoderOptionsBase::SetSpeed` -/
def DracoOptions.setSpeed (o : DracoOptions) (e d : Int) : DracoOptions :=
  (o.setGlobalInt "encoding_speed" e).setGlobalInt "decoding_speed" d

/-- `Encoder::CreateExpertEncoderOptions`: global options are copied; attribute `i` receives the options
    stored for its attribute TYPE, if any (`attTypes` = the attribute types by attribute id) -/
def DracoOptions.toExpert (o : DracoOptions) (attTypes : List Nat) : DracoOptions :=
  (SeqEnc.zipIdxFrom 0 attTypes).foldl (fun acc it =>
    match o.findAtt it.2 with
    | some ao => acc.setAttributeOptions it.1 ao
    | none => acc) { global := o.global, atts := [] }

/-- everything the sequential encoders read from the options, resolved per attribute id:
    `GetSpeed()`, `use_built_in_attribute_compression` (default true), `compress_connectivity` (default
    false), `quantization_bits` (attribute → global → −1), explicit quantization when
    `IsAttributeOptionSet` holds for both `quantization_origin` and `quantization_range`
    (`GetAttributeVector` into a zero vector of `num_components` floats, `GetAttributeFloat(…, 1.f)`),
    `prediction_scheme` (attribute → global → unset) -/
def DracoOptions.resolve (o : DracoOptions) (numComponents : List Nat) : SeqEnc.EncOpts :=
  { speed := o.getSpeed,
    builtin := o.global.getBool "use_built_in_attribute_compression" true,
    compressConnectivity := o.global.getBool "compress_connectivity" false,
    atts := (SeqEnc.zipIdxFrom 0 numComponents).map fun inc =>
      let i := inc.1
      { quantBits := o.getAttributeInt i "quantization_bits" (-1),
        explicitQuant :=
          if o.isAttributeOptionSet i "quantization_origin" && o.isAttributeOptionSet i "quantization_range" then
            some ((o.getAttributeFloatVector i "quantization_origin" inc.2 (List.replicate inc.2 0)).getD
                    (List.replicate inc.2 0),
                  o.getAttributeFloat i "quantization_range" 0x3f800000)
          else none,
        prediction := o.attributeIntOpt i "prediction_scheme" } }

end Draco.Opt
