/-
  The control skeleton shared by `DynamicIntegerPointsKdTreeDecoder::DecodeInternal` and
  `DynamicIntegerPointsKdTreeEncoder::EncodeInternal`: a `while (!stack.empty())` loop that pops
  one tuple, either finishes it (`continue`) or pushes up to two children — first half, then
  second half, so that the second half is popped first — while threading a state `S` and
  appending to an output.  `tree` is the same computation by structural recursion;
  `DracoProofs/TreeStack.lean` proves `run` = `tree`.
-/
namespace Draco.TreeStack

/-- the effect of one loop iteration on the popped tuple -/
inductive Step (F O S : Type) where
  /-- outputs written, in order; nothing pushed -/
  | leaf (out : List O) (s : S)
  /-- outputs written, then tuples pushed: `first` (if any), then `second` (if any, on top) -/
  | split (out : List O) (first second : Option F) (s : S)

def optList {α} : Option α → List α
  | none => []
  | some a => [a]

/-- the loop; the stack top is the list head; `acc` = outputs so far, newest first;
    `none` = the body returned false (or the iteration budget `fuel` ran out) -/
def run {F O S} (step : F → S → Option (Step F O S)) :
    Nat → List F → S → List O → Option (List O × S)
  | _, [], s, acc => some (acc, s)
  | 0, _ :: _, _, _ => none
  | fuel+1, fr :: stack, s, acc =>
    match step fr s with
    | none => none
    | some (.leaf out s1) => run step fuel stack s1 (out.reverse ++ acc)
    | some (.split out f sn s1) => run step fuel (optList sn ++ (optList f ++ stack)) s1 (out.reverse ++ acc)

/-- the subtree of one tuple by recursion: second half first; outputs in order -/
def tree {F O S} (step : F → S → Option (Step F O S)) : Nat → F → S → Option (List O × S)
  | 0, _, _ => none
  | d+1, fr, s =>
    match step fr s with
    | none => none
    | some (.leaf out s1) => some (out, s1)
    | some (.split out f sn s1) =>
      match (match sn with
             | none => some ([], s1)
             | some c => tree step d c s1) with
      | none => none
      | some (o2, s2) =>
        match (match f with
               | none => some ([], s2)
               | some c => tree step d c s2) with
        | none => none
        | some (o1, s3) => some (out ++ (o2 ++ o1), s3)

end Draco.TreeStack
