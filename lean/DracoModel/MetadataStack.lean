import DracoModel.Metadata
/-
  The explicit-stack loop of `MetadataDecoder::DecodeMetadata(Metadata *)`
  (src/draco/metadata/metadata_decoder.cc), as an iterative machine.
  `DracoProofs/MetadataStack.lean` proves that it computes the same function as the
  recursive `decodeNode` (`decodeMetadataIter_eq`).

  C++ state: `metadata_stack`, a vector of tuples `{parent_metadata, decoded_metadata, level}`,
  and the partially built tree that the raw pointers point into. After the root tuple has been
  processed every tuple on the stack has the form `{p, nullptr, l}`; the `num_sub_metadata`
  tuples pushed for one parent are equal and contiguous, and the parents of the tuples on the
  stack are, bottom to top, nodes on one root-to-leaf path of the tree under construction.
  The functional state therefore is that path, a list of frames (top of the stack first), each
  frame standing for `pending` copies of `{node, nullptr, childLevel}`:

    C++ stack (bottom → top)  =  for fr in frames.reverse : fr.pending × {fr, nullptr, fr.childLevel}

  One `runStack` step with a top frame that still has pending tuples is one iteration of the
  C++ `while` loop (pop, level check, `DecodeName`, create the child, entries, count, push).
  A top frame without pending tuples is a finished node: it is removed from the path and
  attached to its parent — in C++ the child was attached by `AddSubMetadata` *before* its
  content was decoded (pointers make that possible); the only observable part of that call,
  the refusal of a duplicate name, does not depend on the child's content nor on anything
  decoded in between, and any failure aborts the whole decode, so checking it when the child
  is finished gives the same result.
-/
namespace Draco

/-- a node under construction whose `pending` stack tuples have not been popped yet -/
structure MdFrame where
  /-- name under which the node is added to its parent (unused for the root) -/
  name : Bytes
  /-- entries of the node, complete, ascending -/
  entries : List (Bytes × Bytes)
  /-- finished children so far, descending -/
  subsAcc : List (Bytes × Metadata)
  /-- number of tuples `{this node, nullptr, childLevel}` still on the stack -/
  pending : Nat
  childLevel : Nat

/-- The part of a loop iteration after `metadata` has been determined: `num_entries`, the
    entries, `num_sub_metadata`, its check against `remaining_size()`, and the pushes. -/
def openNode (allowEmpty : Bool) (name : Bytes) (hasParent : Bool) (level : Nat) : Rd MdFrame :=
  fun bs =>
    match decVarint 32 bs with
    | none => none
    | some (numEntries, bs1) =>
      match decodeEntries allowEmpty numEntries [] bs1 with
      | none => none
      | some (es, bs2) =>
        match decVarint 32 bs2 with
        | none => none
        | some (numSubs, bs3) =>
          if numSubs > bs3.length then none
          else some ({ name := name, entries := es.reverse, subsAcc := [], pending := numSubs,
                       childLevel := if hasParent then level + 1 else level }, bs3)

/-- `while (!metadata_stack.empty())`. `fuel` bounds the number of steps. -/
def runStack (allowEmpty : Bool) : Nat → List MdFrame → Rd Metadata
  | 0, _ => fun _ => none
  | _+1, [] => fun _ => none
  | fuel+1, fr :: stack => fun bs =>
    if fr.pending = 0 then
      let node := Metadata.mk fr.entries fr.subsAcc.reverse
      match stack with
      | [] => some (node, bs)
      | parent :: stack' =>
        match insertNewDesc fr.name node parent.subsAcc with
        | none => none
        | some acc' => runStack allowEmpty fuel ({ parent with subsAcc := acc' } :: stack') bs
    else if fr.childLevel > kMaxSubmetadataLevel then none
    else
      match decodeName bs with
      | none => none
      | some (name, bs1) =>
        match openNode allowEmpty name true fr.childLevel bs1 with
        | none => none
        | some (child, bs2) =>
          runStack allowEmpty fuel (child :: { fr with pending := fr.pending - 1 } :: stack) bs2

/-- `DecodeMetadata(Metadata *)` as the explicit-stack loop. Every popped tuple consumes at
    least three bytes and finishing a node is one more step, so `remaining + 1` steps suffice. -/
def decodeMetadataIter (allowEmpty : Bool) : Rd Metadata := fun bs =>
  match openNode allowEmpty [] false 0 bs with
  | none => none
  | some (root, bs1) => runStack allowEmpty (bs1.length + 1) [root] bs1

end Draco
