import DracoModel.Rans
/-
  Mirrors src/draco/compression/entropy/rans_symbol_encoder.h (`RAnsSymbolEncoder`:
  `Create`, `EncodeTable`), rans_symbol_decoder.h (`RAnsSymbolDecoder::Create`) and
  rans_symbol_coding.h.

  `double` arithmetic of `RAnsSymbolEncoder::Create` enters only through the two functions of a
  `ProbOracle`; the integer logic around them is modelled exactly.  `ProbOracle.float` is the
  executable binary64 instance (Lean `Float` = C `double`).
-/
namespace Draco

/-- `ComputeRAnsPrecisionFromUniqueSymbolsBitLength` -/
def ransPrecisionBits (symbolsBitLength : Nat) : Nat :=
  let u := (3 * symbolsBitLength) / 2
  if u < 12 then 12 else if u > 20 then 20 else u

/-- The two floating point expressions of `RAnsSymbolEncoder::Create`.
    * `est freq total precision` =
      `static_cast<uint32_t>(double(freq) / double(total) * double(precision) + 0.5f)`
    * `rescale precision actTotal prob` =
      `static_cast<int32_t>(floor(double(precision) / double(actTotal) * double(prob)))` -/
structure ProbOracle where
  est : Nat → Nat → Nat → Nat
  rescale : Nat → Nat → Nat → Nat

/-- binary64 instance, same operation order as the C++ (`0.5f` is exactly `0.5`) -/
def ProbOracle.float : ProbOracle where
  est := fun freq total precision =>
    let prob : Float := freq.toFloat / total.toFloat
    (prob * precision.toFloat + 0.5).toUInt32.toNat
  rescale := fun precision actTotal prob =>
    let rel : Float := precision.toFloat / actTotal.toFloat
    (Float.floor (rel * prob.toFloat)).toUInt32.toNat

/-- an exact rational instance (round half up / floor), used for kernel-checked examples -/
def ProbOracle.exact : ProbOracle where
  est := fun freq total precision => (2 * freq * precision + total) / (2 * total)
  rescale := fun precision actTotal prob => precision * prob / actTotal

/-! ### stable sort (std::stable_sort) -/

/-- stable merge (takes from the left list whenever `le x y`), tail recursive, structural on
    the fuel `xs.length + ys.length` so that the kernel can evaluate it -/
def mergeTR {α} (le : α → α → Bool) : Nat → List α → List α → List α → List α
  | 0, xs, ys, acc => acc.reverseAux (xs ++ ys)
  | _+1, [], ys, acc => acc.reverseAux ys
  | _+1, xs, [], acc => acc.reverseAux xs
  | f+1, x :: xs, y :: ys, acc =>
    if le x y then mergeTR le f xs (y :: ys) (x :: acc) else mergeTR le f (x :: xs) ys (y :: acc)

/-- top-down merge sort, `fuel ≥ log2 length` suffices; stable because the merge takes from
    the left list whenever `le a b`. -/
def msortFuel {α} (le : α → α → Bool) : Nat → List α → List α
  | 0, l => l
  | f+1, l =>
    if l.length < 2 then l
    else
      let h := l.length / 2
      mergeTR le l.length (msortFuel le f (l.take h)) (msortFuel le f (l.drop h)) []

/-- `std::stable_sort(sorted_probabilities…, ProbabilityLess)`: symbol ids by ascending prob -/
def sortedIds (probs : Array Nat) : List Nat :=
  msortFuel (fun i j => probs.getD i 0 ≤ probs.getD j 0) probs.size (List.range probs.size)

/-! ### Create (encoder) -/

/-- `max_valid_symbol`: index of the last non zero frequency, 0 if there is none -/
def maxValidSymbolAux : List Nat → Nat → Nat → Nat
  | [], _, m => m
  | f :: fs, i, m => maxValidSymbolAux fs (i + 1) (if f > 0 then i else m)

def maxValidSymbol (freqs : List Nat) : Nat := maxValidSymbolAux freqs 0 0

/-- state of the over-allocation loop: table, `total_rans_prob`, `error` -/
structure RescaleSt where
  probs : Array Nat
  total : Int
  error : Int

/-- the value of `fix` after its three adjustments (`fix == 0 → 1`, `fix ≥ prob → prob - 1`,
    `fix > error → error`); `newProb` may exceed `p` for an arbitrary oracle, hence `Int`. -/
def rescaleFix (p newProb : Nat) (error : Int) : Int :=
  let fix0 : Int := (p : Int) - (newProb : Int)
  let fix1 : Int := if fix0 = 0 then 1 else fix0
  let fix2 : Int := if fix1 ≥ (p : Int) then (p : Int) - 1 else fix1
  if fix2 > error then error else fix2

/-- one run of `for (int j = num_symbols - 1; j > 0; --j)`; `ids` = the symbol ids for
    `j = num_symbols-1, …, 1`, `first` ↔ `j == num_symbols - 1`, `actTotal` = the value of
    `total_rans_prob` when the run starts (`act_rel_error_d` is not updated inside the run).
    `none` = `return false` ("Most frequent symbol would be empty"). -/
def rescalePass (o : ProbOracle) (prec actTotal : Nat) :
    List Nat → Bool → RescaleSt → Option RescaleSt
  | [], _, st => some st
  | s :: ids, first, st =>
    let p := st.probs.getD s 0
    if p ≤ 1 then (if first then none else some st)
    else
      let fix := rescaleFix p (o.rescale prec actTotal p) st.error
      let st' : RescaleSt :=
        ⟨st.probs.setIfInBounds s ((p : Int) - fix).toNat, st.total - fix, st.error - fix⟩
      if st'.total = (prec : Int) then some st' else rescalePass o prec actTotal ids false st'

/-- `while (error > 0) { … }`.  Fuel: every run lowers `error` by at least 1 when
    `rescale … p ≤ p` (true of the floating point expression, since `act_rel_error_d < 1`), so
    the initial `error` is enough fuel; running out of fuel (`none`) corresponds to a C++ loop
    that does not terminate (e.g. a single symbol whose estimate exceeds the precision). -/
def rescaleLoop (o : ProbOracle) (prec : Nat) (ids : List Nat) : Nat → RescaleSt → Option RescaleSt
  | 0, st => if st.error > 0 then none else some st
  | f+1, st =>
    if st.error > 0 then
      match rescalePass o prec st.total.toNat ids true st with
      | none => none
      | some st' => rescaleLoop o prec ids f st'
    else some st

/-- the first loop of `Create`: `rans_prob = est(freq)`, raised to 1 when `freq > 0` -/
def initialProbs (o : ProbOracle) (prec total : Nat) (freqs : List Nat) : List Nat :=
  freqs.map fun f =>
    let e := o.est f total prec
    if e = 0 ∧ f > 0 then 1 else e

/-- the `if (total_rans_prob != rans_precision_) { … }` block of `Create`: add the missing
    precision to the most frequent symbol, or rescale.  `none` = `return false`. -/
def normaliseProbs (o : ProbOracle) (prec : Nat) (probs0 : List Nat) : Option (List Nat) :=
  let totalProb := sumNat probs0
  if totalProb = prec then some probs0
  else
    let arr := probs0.toArray
    let sorted := sortedIds arr
    if totalProb < prec then
      let last := sorted.getLastD 0
      some (arr.setIfInBounds last (arr.getD last 0 + (prec - totalProb))).toList
    else
      let ids := (sorted.drop 1).reverse
      let err := totalProb - prec
      match rescaleLoop o prec ids err ⟨arr, totalProb, err⟩ with
      | none => none
      | some st => some st.probs.toList

/-- The probability computation of `RAnsSymbolEncoder::Create` (everything before
    `EncodeTable`): the normalised table `probability_table_[i].prob`, `i < num_symbols_`.
    `none` = `return false`, and additionally the inputs on which the C++ is undefined:
    no frequencies at all, or `total_freq = 0` (0/0 = NaN converted to `uint32_t`).
    Range: `int total_rans_prob` does not overflow as long as `Σ est < 2^31`; for the floating
    point instance `Σ est ≤ precision + num_symbols`. -/
def createProbs (o : ProbOracle) (pb : Nat) (freqs : List Nat) : Option (List Nat) :=
  let total := sumNat freqs
  if freqs.isEmpty || total == 0 then none else
  let n := maxValidSymbol freqs + 1
  match normaliseProbs o (2 ^ pb) (initialProbs o (2 ^ pb) total (freqs.take n)) with
  | none => none
  | some probs => if sumNat probs ≠ 2 ^ pb then none else some probs

/-! ### EncodeTable -/

/-- number of leading zeros of `ps`, at most `lim` -/
def zeroRunLen : Nat → List Nat → Nat
  | 0, _ => 0
  | _, [] => 0
  | lim+1, p :: ps => if p = 0 then zeroRunLen lim ps + 1 else 0

/-- the loop of `RAnsSymbolEncoder::EncodeTable`; `skip` realises `i += offset`.
    `none` = `return false` (a probability ≥ 2^22). -/
def encTableGo : List Nat → Nat → Option Bytes
  | [], _ => some []
  | _ :: ps, skip+1 => encTableGo ps skip
  | p :: ps, 0 =>
    if p ≥ 2 ^ 22 then none
    else if p = 0 then
      let offset := zeroRunLen 63 ps
      match encTableGo ps offset with
      | none => none
      | some bs => some ((offset * 4 + 3) :: bs)
    else
      match encTableGo ps 0 with
      | none => none
      | some bs =>
        if p < 2 ^ 6 then some ((p * 4) :: bs)
        else if p < 2 ^ 14 then some (((p * 4 + 1) % 256) :: (p / 64 % 256) :: bs)
        else some (((p * 4 + 2) % 256) :: (p / 64 % 256) :: (p / 16384 % 256) :: bs)

/-- tail recursive version of `encTableGo` (`acc` = output so far, reversed);
    `encTableGoTR_eq` in DracoProofs.RansTable -/
def encTableGoTR : List Nat → Nat → Bytes → Option Bytes
  | [], _, acc => some acc.reverse
  | _ :: ps, skip+1, acc => encTableGoTR ps skip acc
  | p :: ps, 0, acc =>
    if p ≥ 2 ^ 22 then none
    else if p = 0 then
      let offset := zeroRunLen 63 ps
      encTableGoTR ps offset ((offset * 4 + 3) :: acc)
    else if p < 2 ^ 6 then encTableGoTR ps 0 ((p * 4) :: acc)
    else if p < 2 ^ 14 then encTableGoTR ps 0 ((p / 64 % 256) :: ((p * 4 + 1) % 256) :: acc)
    else encTableGoTR ps 0 ((p / 16384 % 256) :: (p / 64 % 256) :: ((p * 4 + 2) % 256) :: acc)

/-- `RAnsSymbolEncoder::EncodeTable`.  The C++ relies on "the last symbol always has non-zero
    probability" (it reads `probability_table_[i + offset + 1]` unchecked); tables violating
    this are rejected by the model. -/
def encodeTable (probs : List Nat) : Option Bytes :=
  if probs.getLast? == some 0 then none
  else
    match encTableGoTR probs 0 [] with
    | none => none
    | some bs => some (encVarint probs.length ++ bs)

/-- `RAnsSymbolEncoder::Create`: the table and its encoding. -/
def ransSymbolEncoderCreate (o : ProbOracle) (pb : Nat) (freqs : List Nat) :
    Option (List Nat × Bytes) :=
  match createProbs o pb freqs with
  | none => none
  | some probs =>
    match encodeTable probs with
    | none => none
    | some bs => some (probs, bs)

/-! ### RAnsSymbolDecoder::Create -/

/-- the table loop of `RAnsSymbolDecoder::Create`: `remaining = num_symbols_ - i`, `acc` = the
    entries decoded so far in reverse order.  Every round consumes at least one symbol, so
    `fuel = num_symbols_` is enough (`decTableGo_fuel` in DracoProofs.RansTable).
    The extra bytes are combined with `+` (the C++ uses `|` on disjoint bit ranges). -/
def decTableGo : Nat → Nat → List Nat → Rd (List Nat)
  | 0, _, acc => fun bs => some (acc.reverse, bs)
  | fuel+1, remaining, acc => fun bs =>
    if remaining = 0 then some (acc.reverse, bs)
    else
      match bs with
      | [] => none
      | b :: bs1 =>
        let token := b % 4
        if token = 3 then
          let offset := b / 4
          if offset ≥ remaining then none
          else decTableGo fuel (remaining - (offset + 1)) (List.replicate (offset + 1) 0 ++ acc) bs1
        else if token = 0 then decTableGo fuel (remaining - 1) ((b / 4) :: acc) bs1
        else if token = 1 then
          match bs1 with
          | e0 :: bs2 => decTableGo fuel (remaining - 1) ((b / 4 + e0 * 64) :: acc) bs2
          | _ => none
        else
          match bs1 with
          | e0 :: e1 :: bs3 =>
            decTableGo fuel (remaining - 1) ((b / 4 + e0 * 64 + e1 * 16384) :: acc) bs3
          | _ => none

/-- table part of `RAnsSymbolDecoder::Create` (bitstream ≥ 2.0): `num_symbols_` as varint,
    the plausibility test against the remaining size, the probabilities.
    (`i + offset >= num_symbols_` is evaluated without `uint32_t` wrap, exact for
    `num_symbols_ < 2^32 - 63`, i.e. for buffers below 64 MiB.) -/
def decodeTable : Rd (List Nat) := fun bs =>
  match decVarint 32 bs with
  | none => none
  | some (n, rest) =>
    if n / 64 > rest.length then none
    else decTableGo n n [] rest

/-- `RAnsSymbolDecoder::Create`.  For `num_symbols_ == 0` the C++ returns true without building
    the look-up table; the model returns the empty table (callers test `probs.size = 0`). -/
def ransSymbolDecoderCreate (pb : Nat) : Rd RansDecTable := fun bs =>
  match decodeTable bs with
  | none => none
  | some (probs, rest) =>
    if probs.isEmpty then some (⟨#[], #[], #[]⟩, rest)
    else
      match ransBuildLookup pb probs with
      | none => none
      | some t => some (t, rest)

end Draco
