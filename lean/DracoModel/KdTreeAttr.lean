import DracoModel.KdTree
import DracoModel.SeqDecoder
import DracoModel.KdTreeLegacy
/-
  The kd-tree point cloud decoder around `DynamicIntegerPointsKdTreeDecoder`:
    compression/point_cloud/point_cloud_kd_tree_decoder.cc   (DecodeGeometryData, CreateAttributesDecoder)
    compression/attributes/kd_tree_attributes_decoder.cc     (DecodePortableAttributes with the
        PointAttributeVectorOutputIterator, DecodeDataNeededByPortableTransforms,
        TransformAttributesToOriginalFormat, TransformAttributeBackToSignedType)
    compression/attributes/kd_tree_attributes_shared.h
  Current bitstream (2.3) here; the pre-2.3 layouts (`FloatPointsTreeDecoder`, integer kd-tree
  inside `DecodeDataNeededByPortableTransforms`) are in DracoModel/KdTreeLegacy.lean and dispatched
  to by `decodeKdGeometry`.
-/
namespace Draco
namespace Kd
open DecM

/-- one iteration of the `for i < GetNumAttributes()` loop of `DecodePortableAttributes`:
    `Reset(num_points)` of the attribute (and of the portable attribute of a float attribute),
    classification by data type; `dim` = `total_dimensionality` so far -/
def classifyOne (numPoints : Nat) (d : AttDesc) (dim : Nat) : DecM KdAtt := do
  alloc "attribute.Reset" (numPoints * (dataTypeLength d.dataType * d.numComponents))
  let dt := d.dataType
  if dt = Generated.DT_UINT32.toNat ∨ dt = Generated.DT_UINT16.toNat ∨ dt = Generated.DT_UINT8.toNat then
    pure ⟨d, 0, dim, dataTypeLength dt⟩
  else if dt = Generated.DT_INT32.toNat ∨ dt = Generated.DT_INT16.toNat ∨ dt = Generated.DT_INT8.toNat then
    pure ⟨d, 1, dim, dataTypeLength dt⟩
  else if dt = Generated.DT_FLOAT32.toNat then do
    alloc "kd_tree.portable_attribute.Reset" (numPoints * (4 * d.numComponents))
    pure ⟨d, 2, dim, 4⟩
  else fail

/-- the whole loop, with the running `total_dimensionality` -/
def classify (numPoints : Nat) : List AttDesc → Nat → DecM (List KdAtt × Nat)
  | [], dim => pure ([], dim)
  | d :: ds, dim => do
    let ka ← classifyOne numPoints d dim
    let r ← classify numPoints ds (dim + d.numComponents)
    pure (ka :: r.1, r.2)

/-- quantization parameters of the float attributes / `min_signed_values_` of one attribute -/
inductive KdTransform where
  | none
  | signed (mins : List Int)
  | quant (bits : Nat) (mins : List Nat) (range : Nat)
deriving Repr

/-- quantization parameters of one float attribute: `min_values`, `range`, `quantization_bits` -/
def quantParamsOf (ka : KdAtt) : DecM KdTransform :=
  if ka.kind = 2 then do
    let mins ← replicateM' ka.desc.numComponents rdU32
    let range ← rdU32
    let bits ← rdU8
    require (bits ≤ 31)
    -- AttributeQuantizationTransform::SetParameters → IsQuantizationValid
    require (1 ≤ bits && bits ≤ 30)
    pure (KdTransform.quant bits mins range)
  else pure KdTransform.none

/-- `DecodeDataNeededByPortableTransforms` (bitstream ≥ 2.3), first loop: float attributes -/
def decodeQuantParams : List KdAtt → DecM (List KdTransform)
  | [] => pure []
  | ka :: kas => do
    let t ← quantParamsOf ka
    let ts ← decodeQuantParams kas
    pure (t :: ts)

/-- `min_signed_values_` of one signed attribute: one `DecodeVarint<int32_t>` per component -/
def signedMinsOf (ka : KdAtt) (t : KdTransform) : DecM KdTransform :=
  if ka.kind = 1 then do
    let mins ← replicateM' ka.desc.numComponents (lift (decVarintSigned 32))
    pure (KdTransform.signed mins)
  else pure t

/-- second loop: the signed attributes -/
def decodeSignedMins : List KdAtt → List KdTransform → DecM (List KdTransform)
  | ka :: kas, t :: ts => do
    let t' ← signedMinsOf ka t
    let ts' ← decodeSignedMins kas ts
    pure (t' :: ts')
  | _, _ => pure []

/-- `value + min` per component (`c` cycles through `mins`) -/
def mapRow {α} (f : α → Nat → Nat) : List α → List Nat → List Nat
  | m :: ms, v :: vs => f m v :: mapRow f ms vs
  | _, _ => []

/-- `TransformAttributesToOriginalFormat` for one attribute whose decoded rows are `rows` -/
def finishAttribute (opts : DecOpts) (numPoints : Nat) (ka : KdAtt) (t : KdTransform)
    (rows : List (List Nat)) : Attribute :=
  let d := ka.desc
  let len := ka.dataSize
  match t with
  | .signed mins =>
    -- TransformAttributeBackToSignedType<T>: `static_cast<T>(uint32(unsigned_val) + uint32(min))`
    d.toAttribute numPoints
      (rows.flatMap fun r => (mapRow (fun (m : Int) v => (v + toUnsigned 32 m) % 2^32) mins r).flatMap (writeLE len))
  | .quant bits mins range =>
    if opts.skip.contains d.attType then
      -- att->CopyFrom(*src_att): the DT_UINT32 portable attribute with its transform data
      { attType := d.attType, dataType := Generated.DT_UINT32.toNat, numComponents := d.numComponents,
        normalized := false, uniqueId := d.uniqueId, numValues := numPoints, map := none,
        values := rows.flatMap fun r => r.flatMap (writeLE 4),
        transform := .quantization bits mins range }
    else
      -- `DequantizeFloat(int32_t(portable value)) + min_value(c)`
      d.toAttribute numPoints
        (rows.flatMap fun r =>
          (mapRow (fun m v => Leaf.dequant range bits m (toSigned 32 v)) mins r).flatMap (writeLE 4))
  | .none => d.toAttribute numPoints (rows.flatMap fun r => r.flatMap (writeLE len))

def zip3With {α β γ δ} (f : α → β → γ → δ) : List α → List β → List γ → List δ
  | a :: as, b :: bs, c :: cs => f a b c :: zip3With f as bs cs
  | _, _, _ => []

/-- `KdTreeAttributesDecoder::DecodeAttributes` (= `DecodePortableAttributes`,
    `DecodeDataNeededByPortableTransforms`, `TransformAttributesToOriginalFormat`) for the
    attributes `descs` of this decoder, bitstream 2.3 -/
def decodeKdAttributes (opts : DecOpts) (numPoints : Nat) (descs : List AttDesc) :
    DecM (List Attribute) := do
  -- DecodePortableAttributes
  let level ← rdU8
  alloc "kd_tree.atts" (24 * descs.length)
  let cl ← classify numPoints descs 0
  let kas := cl.1
  let dim := cl.2
  -- PointAttributeVectorOutputIterator: memory_.resize(max data_size * num_components)
  alloc "kd_tree.output_iterator.memory" (kas.foldl (fun m ka => max m (ka.dataSize * ka.desc.numComponents)) 0)
  require (level ≤ 6)
  -- DynamicIntegerPointsKdTreeDecoder(dimension): p_, axes_, base_stack_, levels_stack_
  alloc "kd_tree_decoder.p" (4 * dim)
  alloc "kd_tree_decoder.axes" (4 * dim)
  alloc "kd_tree_decoder.base_stack" ((32 * dim + 1) * (24 + 4 * dim))
  alloc "kd_tree_decoder.levels_stack" ((32 * dim + 1) * (24 + 4 * dim))
  let dp ← decodePoints level dim numPoints
  -- `decoder.num_decoded_points() != num_expected_points`
  require (dp.1 == numPoints)
  let pts := dp.2
  -- DecodeDataNeededByPortableTransforms
  let ts ← decodeQuantParams kas
  let ts ← decodeSignedMins kas ts
  -- TransformAttributesToOriginalFormat
  pure (zip3With (finishAttribute opts numPoints) kas ts (kas.map fun ka => pts.map (attRow ka)))

/-- `PointCloudDecoder::DecodePointAttributes` with `KdTreeAttributesDecoder`s: all
    `DecodeAttributesDecoderData` first, then all `DecodeAttributes` -/
def decodePointAttributesKd (opts : DecOpts) (numPoints : Nat) : DecM (List Attribute) := do
  let numDecoders ← rdU8
  let descss ← replicateM' numDecoders decodeAttDescs
  let attss ← mapM' (decodeKdAttributes opts numPoints) descss
  pure attss.flatten

/-- `PointCloudKdTreeDecoder`: `DecodeGeometryData` + `DecodePointAttributes` -/
def decodeKdGeometry (opts : DecOpts) : DecM Geometry := do
  let ver ← version
  if ver < bsVersion 2 3 then decodeKdGeometryLegacy else
  let np ← rdI32
  require (decide (0 ≤ np))
  let numPoints := np.toNat
  declare numPoints
  let atts ← decodePointAttributesKd opts numPoints
  pure { isMesh := false, numPoints := numPoints, faces := [], atts := atts }

end Kd

end Draco
