import DracoModel.SeqDecoder
import DracoModel.EbDecoder
import DracoModel.KdTreeAttr
/-
  `Decoder::DecodeBufferToGeometry` (compression/decode.cc) over all modelled geometry decoders:
  sequential point cloud / mesh (DracoModel/SeqDecoder.lean), Edgebreaker mesh
  (DracoModel/EbDecoder.lean) and kd-tree point cloud (DracoModel/KdTreeAttr.lean).
-/
namespace Draco

def decodeGeometry (opts : DecOpts) : DecM DecodeResult :=
  decodeStreamWith Eb.decodeEdgebreaker Kd.decodeKdGeometry opts

end Draco
