import DracoModel.SeqDecoder
import DracoModel.EbDecoder
/-
  `Decoder::DecodeBufferToGeometry` (compression/decode.cc) over all modelled geometry decoders:
  sequential point cloud / mesh (DracoModel/SeqDecoder.lean) and Edgebreaker mesh
  (DracoModel/EbDecoder.lean).
-/
namespace Draco

def decodeGeometry (opts : DecOpts) : DecM DecodeResult :=
  decodeStreamWith Eb.decodeEdgebreaker opts

end Draco
