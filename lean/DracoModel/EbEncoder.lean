import DracoModel.SeqEncoder
import DracoModel.EbDecoder
import DracoModel.EbEncConnectivity
import DracoModel.EbEncTraversal
import DracoModel.EbEncPredict
/-
  The Edgebreaker mesh ENCODER (encoder_method 1 on meshes) above the connectivity:
    compression/expert_encode.cc                      (EncodeMeshToBuffer: method selection)
    compression/point_cloud/point_cloud_encoder.cc    (Encode, EncodeHeader, EncodeMetadata,
        EncodePointAttributes, GenerateAttributesEncoders, RearrangeAttributesEncoders,
        EncodeAllAttributes, MarkParentAttribute, GetPortableAttribute)
    compression/mesh/mesh_encoder.cc                  (EncodeGeometryData)
    compression/mesh/mesh_edgebreaker_encoder.cc      (InitializeEncoder,
        ComputeNumberOfEncodedPoints, ComputeNumberOfEncodedFaces)
    compression/mesh/mesh_edgebreaker_encoder_impl.cc (Init, GenerateAttributesEncoder,
        EncodeAttributesEncoderIdentifier, GetAttributeCornerTable, GetAttributeEncodingData)
    compression/attributes/sequential_attribute_encoders_controller.cc (with a mesh traversal
        sequencer), attributes_encoder.cc, sequential_{,integer_,quantization_,normal_}
        attribute_encoder.cc
    compression/attributes/prediction_schemes/prediction_scheme_encoder_factory.{h,cc}
        (SelectPredictionMethod, GetPredictionMethodFromOptions, CreatePredictionSchemeForEncoder,
        MeshPredictionSchemeEncoderFactory), prediction_scheme_factory.h (CreateMeshPredictionScheme)
  Re-used from the sequential encoder model (DracoModel/SeqEncoder.lean): options, encoder type,
  portable values, quantization parameters, symbol / raw value coding, descriptors, header pieces.

  Input domain: the geometries the harness builds — every attribute has the mesh element type
  `MESH_CORNER_ATTRIBUTE` (the default of `Mesh::AddAttribute`).
-/
namespace Draco.EbEnc
open Draco Draco.SeqEnc
open Draco.Eb hiding nextC prevC Scheme iabs

/-! ### options and choices -/

/-- `EncoderOptions` as far as the Edgebreaker encoder reads them -/
structure EbOpts where
  /-- speed, `use_built_in_attribute_compression`, attribute options -/
  base : EncOpts := {}
  /-- global `edgebreaker_method` (−1 when unset) -/
  edgebreakerMethod : Int := -1
  /-- global `split_mesh_on_seams` when set -/
  splitMeshOnSeams : Option Bool := none
deriving Inhabited

/-- decisions of the encoder that every decoder undoes without knowing how they were taken -/
structure EbChoices where
  conn : ConnChoices
  /-- tagged / raw scheme chosen by `EncodeSymbols` for the values of attribute `att_id` -/
  attScheme : Nat → Draco.Scheme
  /-- constrained multi-parallelogram of attribute `att_id`: the crease flags per context, in
      decoding order (what `ShannonEntropyTracker` made the encoder choose) -/
  crease : Nat → Array (Array Bool)

def EbChoices.seq (ch : EbChoices) : SeqEnc.Choices :=
  { oracle := ch.conn.oracle, selectPrediction := fun _ => 0, attScheme := ch.attScheme, connScheme := .tagged }

/-- `use_single_connectivity_` (`MeshEdgebreakerEncoderImpl::Init`) -/
def useSingleConnectivity (o : EbOpts) : Bool :=
  match o.splitMeshOnSeams with
  | some b => b
  | none => decide (o.base.speed ≥ 6)

/-- `MeshEdgebreakerEncoder::InitializeEncoder`: the traversal coder (0 standard, 2 valence);
    `none`: no implementation is created (`impl_ == nullptr`) -/
def traversalCoder (o : EbOpts) (numFaces : Nat) : Option Nat :=
  let m := if o.edgebreakerMethod == -1 then
      (if o.base.speed ≥ 5 || numFaces < 1000 then 0 else 2 : Int)
    else o.edgebreakerMethod
  if m == 0 then some 0 else if m == 2 then some 2 else none

/-! ### geometry access -/

def posType : Nat := Generated.geometryAttribute_POSITION.toNat

/-- `PointCloud::GetNamedAttributeId(POSITION)`: the first attribute of that type -/
def namedAttributeId (atts : Array Attribute) (t : Nat) : Option Nat :=
  (List.range atts.size).find? fun i => (atts[i]!).attType == t

/-- `att->mapped_index(point)`; points beyond an explicit map are outside the domain -/
@[inline] def mappedIndex (m : Option (Array Nat)) (p : Nat) : R Nat :=
  match m with
  | none => pure p
  | some a => rd "PointAttribute::mapped_index" a p

/-- `IsDataTypeIntegral` -/
def isIntegralType (dt : Nat) : Bool := (1 ≤ dt && dt ≤ 8) || dt == 11

/-! ### prediction scheme selection -/

/-- `SelectPredictionMethod(att_id, options, encoder)` for a triangular mesh -/
def selectPredictionMethod (o : EncOpts) (atts : Array Attribute) (numPoints attId : Nat) : Int :=
  if o.speed ≥ 10 then Generated.PREDICTION_DIFFERENCE else
  let a := atts[attId]!
  let attQuant := (o.att attId).quantBits
  let posId := namedAttributeId atts posType
  let texCase : Bool :=
    attQuant != -1 && a.attType == Generated.geometryAttribute_TEX_COORD.toNat && a.numComponents == 2 &&
    (match posId with
     | none => false
     | some pid =>
       let pa := atts[pid]!
       let valid := if isIntegralType pa.dataType then true else
         let pq := (o.att pid).quantBits
         decide (pq > 0) && decide (pq ≤ 21) && decide (2 * pq + attQuant < 64)
       valid && decide (o.speed < 4))
  if texCase then Generated.MESH_PREDICTION_TEX_COORDS_PORTABLE else
  if a.attType == Generated.geometryAttribute_NORMAL.toNat then
    (if o.speed < 4 then
      match posId with
      | none => Generated.PREDICTION_DIFFERENCE
      | some pid =>
        if isIntegralType (atts[pid]!).dataType || (o.att pid).quantBits > 0 then Generated.MESH_PREDICTION_GEOMETRIC_NORMAL
        else Generated.PREDICTION_DIFFERENCE
     else Generated.PREDICTION_DIFFERENCE)
  else if o.speed ≥ 8 then Generated.PREDICTION_DIFFERENCE
  else if o.speed ≥ 2 || numPoints < 40 then Generated.MESH_PREDICTION_PARALLELOGRAM
  else Generated.MESH_PREDICTION_CONSTRAINED_MULTI_PARALLELOGRAM

/-- the prediction scheme object of one sequential encoder -/
inductive PScheme where
  | none | delta | parallelogram | constrainedMulti | texCoords | geometricNormal
  /-- `MeshPredictionSchemeGeometricNormalEncoder` with the wrap transform (not modelled) -/
  | geometricNormalWrap
deriving Repr, BEq, Inhabited

def PScheme.needsParent : PScheme → Bool
  | .texCoords | .geometricNormal | .geometricNormalWrap => true
  | _ => false

/-- `GetPredictionMethod()` -/
def PScheme.method : PScheme → Int
  | .none => Generated.PREDICTION_NONE
  | .delta => Generated.PREDICTION_DIFFERENCE
  | .parallelogram => Generated.MESH_PREDICTION_PARALLELOGRAM
  | .constrainedMulti => Generated.MESH_PREDICTION_CONSTRAINED_MULTI_PARALLELOGRAM
  | .texCoords => Generated.MESH_PREDICTION_TEX_COORDS_PORTABLE
  | .geometricNormal | .geometricNormalWrap => Generated.MESH_PREDICTION_GEOMETRIC_NORMAL

/-- `CreateIntPredictionScheme` of the integer / quantization (`kind` 1, 2) and the normal
    (`kind` 3) encoder followed by `InitPredictionScheme` (a scheme whose parent attribute does
    not exist is dropped) -/
def createScheme (o : EncOpts) (atts : Array Attribute) (numPoints attId kind : Nat) : PScheme :=
  let opt := (o.att attId).prediction
  let sel := selectPredictionMethod o atts numPoints attId
  let s : PScheme :=
    if kind == 3 then
      let pm := opt.getD sel
      if pm == Generated.MESH_PREDICTION_GEOMETRIC_NORMAL then .geometricNormal
      else if pm == Generated.PREDICTION_DIFFERENCE then .delta
      else .none
    else
      let p := opt.getD (-1)
      let m := if p == -1 then sel
               else if p < 0 || p ≥ Generated.NUM_PREDICTION_SCHEMES then Generated.PREDICTION_NONE else p
      if m == Generated.PREDICTION_NONE then .none
      else if m == Generated.MESH_PREDICTION_PARALLELOGRAM then .parallelogram
      else if m == Generated.MESH_PREDICTION_CONSTRAINED_MULTI_PARALLELOGRAM then .constrainedMulti
      else if m == Generated.MESH_PREDICTION_TEX_COORDS_PORTABLE then .texCoords
      else if m == Generated.MESH_PREDICTION_GEOMETRIC_NORMAL then .geometricNormalWrap
      else .delta          -- incl. the deprecated mesh schemes: the factory returns nullptr
  if s.needsParent && (namedAttributeId atts posType).isNone then .none else s

/-! ### attribute encoders (`GenerateAttributesEncoder`) -/

/-- one `SequentialAttributeEncoder` -/
structure SeqEncSt where
  attId : Nat
  /-- `GetUniqueId()`: 0 generic, 1 integer, 2 quantization, 3 normals -/
  kind : Nat
  scheme : PScheme
deriving Repr, Inhabited

/-- one `SequentialAttributeEncodersController` with its `MeshTraversalSequencer` -/
structure Controller where
  /-- `point_attribute_ids_` -/
  attIds : Array Nat
  /-- `att_data_id` (−1: position encoding data) -/
  attDataId : Int
  /-- `MeshTraversalMethod` -/
  traversalMethod : Nat
  /-- the traverser runs on the `MeshAttributeCornerTable` of `attDataId` -/
  onAttTable : Bool
  /-- `sequential_encoders_` (creation order) -/
  encs : Array SeqEncSt := #[]
deriving Repr, Inhabited

/-- `GenerateAttributesEncoders` + `Init` of every controller (`CreateSequentialEncoders`) -/
def generateControllers (o : EbOpts) (atts : Array Attribute) (numPoints : Nat) (conn : ConnEnc) :
    R (Array Controller) := do
  let single := useSingleConnectivity o
  let mut cs : Array Controller := #[]
  for attId in [0:atts.size] do
    if single && cs.size > 0 then
      cs := cs.modify 0 fun c => { c with attIds := c.attIds.push attId }
      continue
    let a := atts[attId]!
    let attDataId : Int :=
      (((List.range conn.atts.size).find? fun i => (conn.atts[i]!).attIndex == attId).map Int.ofNat).getD (-1)
    let isPos := a.attType == posType
    let mut noInterior := true
    if !(single || isPos) then
      if decide (attDataId < 0) then throw (Err.ub "attribute_data_[-1]")
      noInterior := (conn.atts[attDataId.toNat]!).conn.noInteriorSeams
    if single || isPos || noInterior then
      let mut method := Generated.MESH_TRAVERSAL_DEPTH_FIRST.toNat
      if o.base.speed == 0 && isPos then
        method := Generated.MESH_TRAVERSAL_PREDICTION_DEGREE.toNat
        if single && atts.size > 1 then method := Generated.MESH_TRAVERSAL_DEPTH_FIRST.toNat
      cs := cs.push { attIds := #[attId], attDataId, traversalMethod := method, onAttTable := false }
    else
      cs := cs.push { attIds := #[attId], attDataId, traversalMethod := Generated.MESH_TRAVERSAL_DEPTH_FIRST.toNat,
                      onAttTable := true }
  -- Init: CreateSequentialEncoders
  pure (cs.map fun c =>
    { c with encs := c.attIds.map fun attId =>
        let kind := encoderType (atts[attId]!) (o.base.att attId)
        { attId, kind, scheme := if kind == 0 then .none else createScheme o.base atts numPoints attId kind } })

/-- parent attributes of attribute `attId` (`NumParentAttributes` / `GetParentAttributeId`) -/
def parentsOf (atts : Array Attribute) (cs : Array Controller) (attId : Nat) : List Nat :=
  match cs.toList.findSome? fun c => c.encs.toList.find? fun e => e.attId == attId with
  | some e => if e.scheme.needsParent then (namedAttributeId atts posType).toList else []
  | none => []

/-- `PointCloudEncoder::RearrangeAttributesEncoders`: `attributes_encoder_ids_order_`;
    `.fail`: a dependency cannot be resolved -/
def rearrangeEncoders (atts : Array Attribute) (cs : Array Controller) : R (Array Nat) := do
  let n := cs.size
  let encoderOf := fun (attId : Nat) =>
    ((List.range n).find? fun i => (cs[i]!).attIds.contains attId).getD 0
  let mut order : Array Nat := #[]
  let mut processed := Array.replicate n false
  for _ in [0:n + 1] do
    if order.size ≥ n then break
    let mut any := false
    for i in [0:n] do
      if processed[i]! then continue
      let mut can := true
      for attId in (cs[i]!).attIds do
        for parent in parentsOf atts cs attId do
          -- (`parent_att_id != i` compares an attribute id with an encoder id, as written)
          if parent != i && !(processed[encoderOf parent]!) then
            can := false
            break
      if !can then continue
      order := order.push i
      processed := processed.set! i true
      any := true
    if !any && order.size < n then throw .fail
  -- attribute order inside encoders with several attributes
  let mut attProcessed := Array.replicate atts.size false
  for ae in order do
    let c := cs[ae]!
    let nea := c.attIds.size
    if nea < 2 then continue
    let mut local_ : Array Nat := #[]
    for _ in [0:nea + 1] do
      if local_.size ≥ nea then break
      let mut any := false
      for i in [0:nea] do
        let attId := c.attIds[i]!
        if attProcessed.getD i true then continue
        let mut can := true
        for parent in parentsOf atts cs attId do
          if !(attProcessed.getD parent true) then
            can := false
            break
        if !can then continue
        local_ := local_.push i
        attProcessed := attProcessed.set! i true
        any := true
      if !any && local_.size < nea then throw .fail
    -- `SetAttributeIds(attribute_encoding_order)` replaces the attribute ids by LOCAL indices while
    -- `sequential_encoders_` keeps its order: only the identity is modelled
    if local_ != c.attIds then throw (.unsupported "attributes reordered inside one attributes encoder")
  pure order

/-! ### attribute values -/

/-- what one `SequentialAttributeEncoder` contributes to the stream and leaves behind -/
structure AttOut where
  attId : Nat
  kind : Nat
  /-- method actually written (after the range based drop) -/
  scheme : PScheme
  /-- portable values (int32) in encoding order -/
  portable : Array Int := #[]
  valueBytes : Bytes
  transformBytes : Bytes := []
deriving Inhabited

/-- the portable attribute of a parent (POSITION) attribute as a prediction scheme sees it -/
structure ParentAtt where
  kind : Nat
  numComponents : Nat
  dataType : Nat
  /-- point → value index of the portable attribute (`TransformAttributeToPortableFormat`) -/
  map : Array Nat
  values : Array Int
deriving Inhabited

/-- `attribute->GetValue(attribute->mapped_index(p))` for the points of the sequence -/
def rowsAt (a : Attribute) (pointIds : Array Nat) : R (List Bytes) := do
  let vals := a.values.toArray
  let m := a.map.map List.toArray
  let mut out : Array Bytes := Array.mkEmpty pointIds.size
  for p in pointIds do
    out := out.push (valueAt vals a.stride (← mappedIndex m p))
  pure out.toList

/-- the point map `TransformAttributeToPortableFormat` gives the portable attribute of a parent -/
def parentMap (a : Attribute) (numPoints : Nat) (pointIds : Array Nat) : R (Array Nat) := do
  let m := a.map.map List.toArray
  let mut vtv := Array.replicate a.numValues 0
  for i in [0:pointIds.size] do
    vtv ← wr "value_to_value_map" vtv (← mappedIndex m (pointIds[i]!)) i
  let mut out := Array.mkEmpty numPoints
  for p in [0:numPoints] do
    out := out.push (← rd "value_to_value_map" vtv (← mappedIndex m p))
  pure out

/-- value ranges the wrap transform cannot represent drop the prediction (`fix:` commit) -/
def effectiveScheme (scheme : PScheme) (portable : Array Int) : PScheme :=
  if scheme != .none && portable.size > 0 then
    match Wrap.dataBounds portable.toList with
    | some (mn, mx) => if mx - mn ≥ 2 ^ 31 - 1 then PScheme.none else scheme
    | none => scheme
  else scheme

/-- `SetPredictionSchemeParentAttributes`: the position source of the schemes with a parent attribute -/
def encParentSource (scheme : PScheme) (pointIds : Array Nat) (parent : Option ParentAtt) : R PosSource := do
  let mut pos : PosSource := { pointIds := #[], map := #[], values := #[] }
  if scheme.needsParent then
    match parent with
    | none => throw .fail
    | some p =>
      if p.numComponents != 3 then throw .fail
      if p.kind == 0 then
        -- the attribute itself: accepted when its data type is integral (64-bit / bool positions)
        if isIntegralType p.dataType then throw (.unsupported "prediction from a position attribute without a portable form")
        else throw .fail
      pos := { pointIds, map := p.map, values := p.values }
  pure pos

/-- the coded symbols of `EncodeValues` -/
def symbolBodyR (ch : EbChoices) (o : EncOpts) (attId nc : Nat) (syms : List Nat) : R Bytes :=
  match encodeSymbolBody ch.seq (symbolLevel o.speed) o.builtin attId nc syms with
  | none => throw Err.fail
  | some b => pure b

/-- the value block of `EncodeValues` for the scheme `scheme`: method (and transform) byte, coded corrections,
    `EncodePredictionData` -/
def encodeSchemeBlock (ch : EbChoices) (o : EncOpts) (attId kind nc : Nat) (scheme : PScheme)
    (md : MeshData) (pos : PosSource) (portable : Array Int) : R Bytes := do
  let body := symbolBodyR ch o attId nc
  let finish := finishBits ch.conn
  let m8 := toUnsigned 8 scheme.method
  let wrapByte := toUnsigned 8 Generated.PREDICTION_TRANSFORM_WRAP
  let octaByte := toUnsigned 8 Generated.PREDICTION_TRANSFORM_NORMAL_OCTAHEDRON_CANONICALIZED
  match scheme with
  | .none =>
    let b ← body (portable.toList.map (toSymbol 32))
    pure (m8 :: b)
  | .geometricNormalWrap => throw (.unsupported "geometric normal prediction with the wrap transform")
  | .geometricNormal | .delta =>
    if kind == 3 then
      -- PredictionSchemeNormalOctahedronCanonicalizedEncodingTransform(max_value = (1 << q) - 1)
      let q := (o.att attId).quantBits
      match Octa.setMaxQuantizedValue (2 ^ q.toNat - 1) with
      | none => throw (.ub "octahedron transform with invalid quantization bits")
      | some ot =>
        if scheme == .delta then
          let corr := deltaEncodeOcta ot portable
          let b ← body (corr.toList.map (toUnsigned 32))
          pure (m8 :: octaByte :: (b ++ Octa.encodeTransformData ot))
        else
          let (corr, flips) ← geometricNormalEncode md pos ot portable
          let b ← body (corr.toList.map (toUnsigned 32))
          let fe := flips.foldl (fun e f => e.encodeBit f) RAnsBitEnc.start
          pure (m8 :: octaByte :: (b ++ Octa.encodeTransformData ot ++ finish fe))
    else
      match wrapInitOf portable with
      | none => throw .fail
      | some wt =>
        let corr ← deltaEncodeWrap wt nc portable
        let b ← body (corr.toList.map (toSymbol 32))
        pure (m8 :: wrapByte :: (b ++ Wrap.encodeTransformData wt))
  | .parallelogram =>
    match wrapInitOf portable with
    | none => throw .fail
    | some wt =>
      let corr ← parallelogramEncode md wt nc portable
      let b ← body (corr.toList.map (toSymbol 32))
      pure (m8 :: wrapByte :: (b ++ Wrap.encodeTransformData wt))
  | .constrainedMulti =>
    match wrapInitOf portable with
    | none => throw .fail
    | some wt =>
      let (corr, isCrease) ← constrainedMultiEncode md wt nc (ch.crease attId) portable
      let b ← body (corr.toList.map (toSymbol 32))
      pure (m8 :: wrapByte :: (b ++ encodeCreaseFlags finish isCrease ++ Wrap.encodeTransformData wt))
  | .texCoords =>
    match wrapInitOf portable with
    | none => throw .fail
    | some wt =>
      let (corr, orient) ← texCoordsEncode md pos wt nc portable
      let b ← body (corr.toList.map (toSymbol 32))
      pure (m8 :: wrapByte :: (b ++ encodeOrientations finish orient ++ Wrap.encodeTransformData wt))

/-- `SequentialIntegerAttributeEncoder::EncodeValues` with a mesh prediction scheme.
    `nc` = components of the portable values; `numValues` = `attribute()->size()`.
    (Composition of `effectiveScheme`, `encParentSource`, `encodeSchemeBlock`.) -/
def encodeIntegerValuesEb (ch : EbChoices) (o : EncOpts) (attId kind nc numValues : Nat) (scheme : PScheme)
    (md : MeshData) (pointIds : Array Nat) (parent : Option ParentAtt) (portable : Array Int) :
    R (PScheme × Bytes) := do
  if numValues == 0 then return (scheme, [])
  let scheme := effectiveScheme scheme portable
  let pos ← encParentSource scheme pointIds parent
  let bs ← encodeSchemeBlock ch o attId kind nc scheme md pos portable
  pure (scheme, bs)

instance : Inhabited MeshData := ⟨⟨⟨#[], #[], #[], #[], false, 0⟩, #[], #[]⟩⟩

/-- one call of `encodeIntegerValuesEb` during the encode: its arguments and its result -/
structure ValueBlock where
  /-- index of the controller (attribute encoder) -/
  ctrl : Nat
  attId : Nat
  kind : Nat
  nc : Nat
  numValues : Nat
  scheme : PScheme
  md : MeshData
  pointIds : Array Nat
  parent : Option ParentAtt
  portable : Array Int
  outScheme : PScheme
  bytes : Bytes
deriving Inhabited

/-- `MeshEdgebreakerEncoder::ComputeNumberOfEncodedPoints` -/
def computeNumberOfEncodedPoints (atts : Array Attribute) (conn : ConnEnc) (usedTables : Array AttConn) : R Nat := do
  let t := conn.ct
  let mut n := t.numVertices - t.numIsolated
  if atts.size > 1 then
    for vi in [0:t.numVertices] do
      let first := t.vc[vi]!
      if first == inv then continue
      let mut last := first
      let mut c ← swingRight t.opp first
      let mut seams := 0
      let mut fin := false
      for _ in [0:t.numCorners + 2] do
        if c == inv then
          fin := true
          break
        let mut found := false
        for a in usedTables do
          if (← rd "MeshAttributeCornerTable::Vertex" a.c2v c) != (← rd "MeshAttributeCornerTable::Vertex" a.c2v last) then
            found := true
            break
        if found then seams := seams + 1
        if c == first then
          fin := true
          break
        last := c
        c ← swingRight t.opp c
      if !fin then throw (.fuel "ComputeNumberOfEncodedPoints")
      let onBoundary := (← swingLeft t.opp first) == inv
      if !onBoundary && seams > 0 then n := n + seams - 1 else n := n + seams
  pure n

/-- the faces handed to `CornerTable::Create` and, for every non-position attribute, the attribute value index of
    every corner (`InitAttributeData`); `single` = `use_single_connectivity_` -/
def connInputs (g : Geometry) (single : Bool) : R (Faces × Array (Nat × Array Nat)) := do
  let atts := g.atts.toArray
  let faces : Array Nat := (flattenFaces g.faces).toArray
  let posId := namedAttributeId atts posType
  let mut posFaces : Faces := Array.mkEmpty g.faces.length
  if single then
    posFaces := g.faces.toArray
  else
    match posId with
    | none => throw .fail          -- CreateCornerTableFromPositionAttribute returns nullptr
    | some pid =>
      let m := (atts[pid]!).map.map List.toArray
      for (a, b, c) in g.faces do
        posFaces := posFaces.push (← mappedIndex m a, ← mappedIndex m b, ← mappedIndex m c)
  -- InitAttributeData: every attribute whose type is not POSITION
  let mut attCornerValues : Array (Nat × Array Nat) := #[]
  if !single then
    if (atts.toList.filter fun a => a.attType == posType).length != 1 then
      throw (.unsupported "several POSITION attributes (attribute_data_ has unused entries)")
    for attId in [0:atts.size] do
      let a := atts[attId]!
      if a.attType == posType then continue
      let m := a.map.map List.toArray
      let mut cv := Array.mkEmpty faces.size
      for p in faces do
        cv := cv.push (← mappedIndex m p)
      attCornerValues := attCornerValues.push (attId, cv)
  pure (posFaces, attCornerValues)

/-- `EncodeAttributesEncoderIdentifier` of one attribute encoder: att_data_id, element type, traversal method -/
def ctrlIdBytes (conn : ConnEnc) (c : Controller) : Bytes :=
  let perVertex := c.attDataId < 0 || (conn.atts[c.attDataId.toNat]!).conn.noInteriorSeams
  [toUnsigned 8 c.attDataId,
   (if perVertex then Generated.MESH_VERTEX_ATTRIBUTE else Generated.MESH_CORNER_ATTRIBUTE).toNat, c.traversalMethod]

/-- `EncodeAttributesEncoderData` of one attribute encoder: attribute descriptors, sequential encoder types -/
def ctrlDataBytes (atts : Array Attribute) (c : Controller) : Bytes :=
  encVarint c.attIds.size ++ c.attIds.toList.flatMap (fun attId => descBytes (descOf (atts[attId]!))) ++
    c.encs.toList.map (·.kind)

/-- the head of the attribute section: number of encoders, identifiers, encoder data (in stream order) -/
def attHeaderBytes (atts : Array Attribute) (conn : ConnEnc) (cs : Array Controller) (order : Array Nat) : Bytes :=
  [cs.size % 256] ++ order.toList.flatMap (fun e => ctrlIdBytes conn (cs[e]!)) ++
    order.toList.flatMap (fun e => ctrlDataBytes atts (cs[e]!))

/-- `TransformAttributeToPortableFormat` of one sequential encoder: portable int32 values and the bytes of
    `EncodeDataNeededByPortableTransform` -/
def portableOf (o : EbOpts) (a : Attribute) (s : SeqEncSt) (rows : List Bytes) : R (Array Int × Bytes) := do
  let ao := o.base.att s.attId
  if s.kind == 1 then
    match integerPortable a rows with
    | none => throw .fail
    | some p => pure (p.toArray, [])
  else if s.kind == 2 then
    match quantizationParams a ao with
    | none => throw .fail
    | some (mins, range, q) =>
      pure ((quantizedPortable mins range q a.numComponents rows).toArray,
            mins.flatMap (writeLE 4) ++ writeLE 4 range ++ [q % 256])
  else if s.kind == 3 then
    if a.numComponents != 3 then throw .fail
    if ao.quantBits < 1 then throw .fail
    match Octa.init ao.quantBits.toNat with
    | none => throw .fail
    | some ot => pure ((octaPortable ot rows).toArray, [ao.quantBits.toNat % 256])
  else pure (#[], [])

/-- what one sequential encoder contributed -/
structure EncItem where
  attId : Nat
  kind : Nat
  portable : Array Int := #[]
  /-- raw values (kind 0) or the value block -/
  valueBytes : Bytes := []
  trBytes : Bytes := []
  /-- method actually written -/
  scheme : PScheme := .none
  block : Option ValueBlock := none
deriving Inhabited

instance : Inhabited TView := ⟨⟨#[], #[], #[], #[], false, 0⟩⟩

/-- the result of one attribute encoder (controller) -/
structure CtrlOut where
  ctrl : Nat
  view : TView
  seq : SeqOut
  items : Array EncItem
  /-- the parent attribute known after this controller -/
  parent : Option ParentAtt
deriving Inhabited

/-- value blocks, then the transform parameters (`EncodePortableAttributes`,
    `EncodeDataNeededByPortableTransforms`) -/
def CtrlOut.bytes (c : CtrlOut) : Bytes :=
  c.items.toList.flatMap (·.valueBytes) ++ c.items.toList.flatMap (·.trBytes)

/-- the view an attribute encoder traverses and predicts on -/
def viewOfController (conn : ConnEnc) (c : Controller) : R TView := do
  let t := conn.ct
  if c.onAttTable then
    if decide (c.attDataId < 0) then throw (Err.ub "attribute_data_[-1]")
    let a := (conn.atts[c.attDataId.toNat]!).conn
    pure { c2v := a.c2v, opp := t.opp, seam := a.edgeSeam, lm := a.lm, isAtt := true, numFaces := t.numFaces }
  else pure t.view

/-- the parent attribute after the sequential encoder `s` produced its portable values `pt` -/
def parentAfter (g : Geometry) (anyNeedsParent : Bool) (posId : Option Nat) (pointIds : Array Nat) (s : SeqEncSt)
    (pt : Array Int × Bytes) (parent : Option ParentAtt) : R (Option ParentAtt) :=
  if anyNeedsParent && some s.attId == posId then do
    let a := g.atts.toArray[s.attId]!
    let m ← parentMap a g.numPoints pointIds
    pure (some { kind := s.kind, numComponents := a.numComponents, dataType := a.dataType, map := m, values := pt.1 })
  else pure parent

/-- `GenerateSequence` of an attribute encoder on its view -/
def sequenceOfController (g : Geometry) (conn : ConnEnc) (c : Controller) (view : TView) : R SeqOut :=
  let faces : Array Nat := (flattenFaces g.faces).toArray
  let v2dInit := Array.replicate view.numVertices inv
  if c.traversalMethod == Generated.MESH_TRAVERSAL_PREDICTION_DEGREE.toNat
  then maxPredictionDegreeOrder view faces conn.processed v2dInit
  else depthFirstOrder view faces conn.processed v2dInit

/-- `TransformAttributesToPortableFormat` over the sequential encoders of one attribute encoder: portable values and
    transform bytes of each, and the parent attribute (the portable POSITION attribute) once it has been produced -/
def portablePass (o : EbOpts) (g : Geometry) (anyNeedsParent : Bool) (posId : Option Nat) (pointIds : Array Nat) :
    List SeqEncSt → Option ParentAtt → R (List (Array Int × Bytes) × Option ParentAtt)
  | [], parent => pure ([], parent)
  | s :: ss, parent => do
    let a := g.atts.toArray[s.attId]!
    let rows ← rowsAt a pointIds
    let pt ← portableOf o a s rows
    let parent' ← parentAfter g anyNeedsParent posId pointIds s pt parent
    let (rest, pfin) ← portablePass o g anyNeedsParent posId pointIds ss parent'
    pure (pt :: rest, pfin)

/-- `EncodePortableAttributes` of one sequential encoder -/
def encodeItem (ch : EbChoices) (o : EbOpts) (g : Geometry) (e : Nat) (mdata : MeshData) (pointIds : Array Nat)
    (parent : Option ParentAtt) (s : SeqEncSt) (pt : Array Int × Bytes) : R EncItem := do
  let a := g.atts.toArray[s.attId]!
  if s.kind == 0 then
    let rows ← rowsAt a pointIds
    pure { attId := s.attId, kind := 0, valueBytes := rows.flatten, trBytes := pt.2 }
  else
    let nc := if s.kind == 3 then 2 else a.numComponents
    let (sch, vb) ← encodeIntegerValuesEb ch o.base s.attId s.kind nc a.numValues s.scheme mdata pointIds parent pt.1
    pure { attId := s.attId, kind := s.kind, portable := pt.1, valueBytes := vb, trBytes := pt.2, scheme := sch,
           block := some { ctrl := e, attId := s.attId, kind := s.kind, nc, numValues := a.numValues,
                           scheme := s.scheme, md := mdata, pointIds, parent, portable := pt.1,
                           outScheme := sch, bytes := vb } }

/-- `EncodePortableAttributes` over the sequential encoders -/
def encodePass (ch : EbChoices) (o : EbOpts) (g : Geometry) (e : Nat) (mdata : MeshData) (pointIds : Array Nat)
    (parent : Option ParentAtt) : List SeqEncSt → List (Array Int × Bytes) → R (List EncItem)
  | s :: ss, pt :: pts => do
    let it ← encodeItem ch o g e mdata pointIds parent s pt
    let rest ← encodePass ch o g e mdata pointIds parent ss pts
    pure (it :: rest)
  | _, _ => pure []

/-- `EncodeAttributes` of one attribute encoder: `GenerateSequence`, `TransformAttributesToPortableFormat`,
    `EncodePortableAttributes`; `parent` = the parent attribute known so far -/
def encodeController (ch : EbChoices) (o : EbOpts) (g : Geometry) (conn : ConnEnc) (cs : Array Controller)
    (anyNeedsParent : Bool) (posId : Option Nat) (e : Nat) (parent : Option ParentAtt) : R CtrlOut := do
  let c := cs[e]!
  -- GenerateSequence
  let view ← viewOfController conn c
  let seq ← sequenceOfController g conn c view
  let mdata : MeshData := { t := view, d2c := seq.d2c, v2d := seq.v2d }
  let (pts, parent) ← portablePass o g anyNeedsParent posId seq.pointIds c.encs.toList parent
  let items ← encodePass ch o g e mdata seq.pointIds parent c.encs.toList pts
  pure { ctrl := e, view, seq, items := items.toArray, parent }

/-- `EncodeAllAttributes`: the attribute encoders in stream order, the parent attribute handed on -/
def encodeControllers (ch : EbChoices) (o : EbOpts) (g : Geometry) (conn : ConnEnc) (cs : Array Controller)
    (anyNeedsParent : Bool) (posId : Option Nat) : List Nat → Option ParentAtt → R (List CtrlOut)
  | [], _ => pure []
  | e :: es, parent => do
    let c ← encodeController ch o g conn cs anyNeedsParent posId e parent
    let rest ← encodeControllers ch o g conn cs anyNeedsParent posId es c.parent
    pure (c :: rest)

/-- the result of the whole encode -/
structure Encoded where
  bytes : Bytes
  conn : ConnEnc
  controllers : Array Controller
  /-- `attributes_encoder_ids_order_` -/
  order : Array Nat
  /-- per attribute id -/
  outs : Array AttOut
  /-- point ids / data-to-corner map of every controller (by controller index) -/
  seqs : Array SeqOut
  /-- the value blocks of the integer / quantization / normal encoders, in stream order -/
  blocks : Array ValueBlock := #[]
  /-- the attribute encoders' outputs in stream order -/
  couts : Array CtrlOut := #[]
  /-- `num_encoded_points()` / `num_encoded_faces()` as `ComputeNumberOfEncoded…` set them -/
  numEncodedPoints : Nat
  numEncodedFaces : Nat
deriving Inhabited

/-- `PointCloudEncoder::Encode` of `MeshEdgebreakerEncoder` on `g` (a mesh). -/
def encodeEdgebreaker (ch : EbChoices) (g : Geometry) (md : Option GeometryMetadata) (o : EbOpts) : R Encoded := do
  let atts := g.atts.toArray
  let numFacesMesh := g.faces.length
  -- EncodeHeader, EncodeMetadata
  let header : Bytes :=
    [68, 82, 65, 67, 79, Generated.kDracoMeshBitstreamVersionMajor.toNat, Generated.kDracoMeshBitstreamVersionMinor.toNat,
     1, Generated.MESH_EDGEBREAKER_ENCODING.toNat] ++
    writeLE 2 (if md.isSome then Generated.METADATA_FLAG_MASK.toNat else 0)
  let some mdBytes := encodeMetadataPart md | throw .fail
  -- InitializeEncoder
  let some coder := traversalCoder o numFacesMesh | throw .fail
  let single := useSingleConnectivity o
  -- EncodeConnectivity
  let posId := namedAttributeId atts posType
  let (posFaces, attCornerValues) ← connInputs g single
  let conn ← encodeConnectivity ch.conn (coder == 2) posFaces attCornerValues
  let t := conn.ct
  let numEncodedFaces := t.numFaces - t.numDegenerated
  -- EncodePointAttributes
  let cs ← generateControllers o atts g.numPoints conn
  if cs.size > 255 then throw (.unsupported "more than 255 attribute encoders")
  let order ← rearrangeEncoders atts cs
  -- which attribute is a parent (`MarkParentAttribute` during Init)
  let anyNeedsParent := cs.any fun c => c.encs.any fun s => s.scheme.needsParent
  -- EncodeAllAttributes
  let couts ← encodeControllers ch o g conn cs anyNeedsParent posId order.toList none
  let bytes := attHeaderBytes atts conn cs order ++ couts.flatMap (·.bytes)
  let items := couts.flatMap (·.items.toList)
  let outs : Array AttOut := items.foldl (fun outs it =>
      outs.set! it.attId { attId := it.attId, kind := it.kind, scheme := it.scheme, portable := it.portable,
                           valueBytes := it.valueBytes, transformBytes := if it.kind == 0 then [] else it.trBytes })
    (Array.replicate atts.size { attId := 0, kind := 0, scheme := .none, valueBytes := [] })
  let seqs : Array SeqOut := couts.foldl (fun seqs c => seqs.set! c.ctrl c.seq) (Array.replicate cs.size default)
  let blocks : Array ValueBlock := (items.filterMap (·.block)).toArray
  -- ComputeNumberOfEncodedPoints: the attribute corner tables still in use
  let usedTables : Array AttConn := (cs.toList.filterMap fun c =>
    if c.onAttTable && c.attDataId ≥ 0 then some (conn.atts[c.attDataId.toNat]!).conn else none).toArray
  let numEncodedPoints ← computeNumberOfEncodedPoints atts conn usedTables
  pure { bytes := header ++ mdBytes ++ [coder] ++ conn.bytes ++ bytes, conn, controllers := cs, order, outs, seqs, blocks,
         couts := couts.toArray, numEncodedPoints, numEncodedFaces }

/-- **CTIso**: the decoder's corner table (`dc2v`, `dopp`, `numFaces` faces) is isomorphic to the
    non-degenerate part of the encoder's table `t` under the corner map
    `3 i + k ↦ Next^k(processed[i])`: opposite corners correspond and two decoder corners carry the same
    vertex exactly when their images do -/
def ctIso (t : CT) (processed : Array Nat) (numFaces : Nat) (dc2v dopp : Array Nat) : Bool := Id.run do
  if numFaces != processed.size then return false
  if dc2v.size != 3 * numFaces || dopp.size != 3 * numFaces then return false
  let phi := fun (d : Nat) =>
    let c := processed[d / 3]!
    if d % 3 == 0 then c else if d % 3 == 1 then Eb.nextC c else Eb.prevC c
  -- inverse corner map
  let mut back := Array.replicate t.numCorners inv
  for d in [0:3 * numFaces] do
    let c := phi d
    if c ≥ t.numCorners then return false
    if back[c]! != inv then return false
    back := back.set! c d
  let mut v2e := Array.replicate (dc2v.foldl (fun m v => max m (v + 1)) 0) inv
  let mut e2v := Array.replicate t.numVertices inv
  for d in [0:3 * numFaces] do
    let c := phi d
    -- opposite corners
    let od := dopp[d]!
    let oc := t.opp[c]!
    if od == inv then
      if oc != inv then return false
    else
      if od ≥ 3 * numFaces || phi od != oc then return false
    -- vertices
    let vd := dc2v[d]!
    let ve := t.c2v[c]!
    if vd ≥ v2e.size || ve ≥ e2v.size then return false
    if v2e[vd]! == inv then v2e := v2e.set! vd ve else if v2e[vd]! != ve then return false
    if e2v[ve]! == inv then e2v := e2v.set! ve vd else if e2v[ve]! != vd then return false
  return true


end Draco.EbEnc
