import DracoModel.EbPredict
import DracoModel.SeqEncoder
/-
  Mesh prediction scheme ENCODERS of bitstream 2.2:
    prediction_schemes/prediction_scheme_delta_encoder.h
    prediction_schemes/mesh_prediction_scheme_parallelogram_encoder.h (+ _shared.h)
    prediction_schemes/mesh_prediction_scheme_constrained_multi_parallelogram_encoder.h
    prediction_schemes/mesh_prediction_scheme_tex_coords_portable_encoder.h (+ _predictor.h)
    prediction_schemes/mesh_prediction_scheme_geometric_normal_encoder.h (+ _predictor_area.h)
    prediction_schemes/prediction_scheme_wrap_encoding_transform.h   (DracoModel/Wrap.lean)
    prediction_schemes/prediction_scheme_normal_octahedron_canonicalized_encoding_transform.h
                                                                     (DracoModel/Octahedron.lean)
  `ComputeCorrectionValues(in_data, out_corr, …)`: `in_data` = portable int32 values,
  result = the corrections (int32).  The predictors are the functions the decoders use
  (DracoModel/EbPredict.lean); the encoder side differs in the order of the entries (from the
  back), in reading `vertex_to_data_map` entries that may still be −1 (`inv`; the C++ would then
  index `in_data` with a negative offset: `Err.ub`) and in the decisions it takes:

  * constrained multi-parallelogram: which parallelograms are used for an entry is decided with
    `ShannonEntropyTracker` (`double`, `log2`) — a parameter of the model (`creaseChoice`), read
    back from the crease flags of the C++ stream by the driver op;
  * tex-coords portable: orientation = which of the two candidates is closer (exact int64
    arithmetic, modelled; overflow = `Err.ub`);
  * geometric normal: flip bit = which of the two candidates has the smaller correction (exact,
    modelled).
-/
namespace Draco.EbEnc
open Draco
open Draco.Eb hiding nextC prevC iabs

/-- the three `vertex_to_data_map` entries `ComputeParallelogramPrediction` reads for corner
    `ci`: the encoder's map holds −1 for vertices without a value -/
def checkParallelogramEntries (md : MeshData) (ci : Nat) : R Unit := do
  let oci ← md.t.opposite ci
  if oci == inv then return ()
  let a ← rd "vertex_to_data_map" md.v2d (← md.t.vertex oci)
  let b ← rd "vertex_to_data_map" md.v2d (← md.t.vertex (Eb.nextC oci))
  let c ← rd "vertex_to_data_map" md.v2d (← md.t.vertex (Eb.prevC oci))
  if a == inv || b == inv || c == inv then throw (.ub "in_data[vertex_to_data_map = -1]")

/-- `ComputeParallelogramPrediction` on the encoder side -/
def parallelogramPredictionE (md : MeshData) (p ci : Nat) (data : Array Int) (nc : Nat) :
    R (Option (Array Int)) := do
  checkParallelogramEntries md ci
  parallelogramPrediction md p ci data nc

/-- `transform().ComputeCorrection(in + off, pred, out + off)` for the wrap transform -/
@[inline] def corrWrap (wt : WrapT) (nc off : Nat) (pred : Nat → R Int) (data : Array Int) (out : Array Int) :
    R (Array Int) := do
  let mut out := out
  for c in [0:nc] do
    let v := Wrap.encCorr wt (← rdI "in_data" data (off + c)) (← pred c)
    out ← wrI "out_corr" out (off + c) v
  pure out

/-- `PredictionSchemeWrapEncodingTransform::Init(in_data, size, num_components)`: bounds of all
    values (`none`: no values — the C++ reads `orig_data[0]`) -/
def wrapInitOf (data : Array Int) : Option WrapT :=
  match Wrap.dataBounds data.toList with
  | none => none
  | some (mn, mx) => Wrap.init mn mx

/-- the loop shared by the delta and the parallelogram encoder: the entries `n-1, …, 1` from the back
    (`corrAt p out` writes the corrections of entry `p`), then entry 0 -/
def encodeBackward (n size : Nat) (corrAt : Nat → Array Int → R (Array Int)) : R (Array Int) := do
  let mut out := Array.replicate size (0 : Int)
  for k in [0:n - 1] do
    out ← corrAt (n - 1 - k) out
  corrAt 0 out

/-- the prediction of entry `p` of the delta coder: the previous entry, zero for the first -/
def deltaPred (nc : Nat) (data : Array Int) (p c : Nat) : R Int :=
  if p == 0 then pure 0 else rdI "in_data" data ((p - 1) * nc + c)

/-- `PredictionSchemeDeltaEncoder::ComputeCorrectionValues` (wrap transform) -/
def deltaEncodeWrap (wt : WrapT) (nc : Nat) (data : Array Int) : R (Array Int) :=
  if nc == 0 then pure data else
  encodeBackward (data.size / nc) data.size fun p out => corrWrap wt nc (p * nc) (deltaPred nc data p) data out

/-- the corrections of entry `p` of the parallelogram encoder -/
def parallelogramCorrAt (md : MeshData) (wt : WrapT) (nc : Nat) (data : Array Int) (p : Nat) (out : Array Int) :
    R (Array Int) := do
  if p == 0 then corrWrap wt nc 0 (fun _ => pure 0) data out else
  let corner := md.d2c[p]!
  match ← parallelogramPredictionE md p corner data nc with
  | none => corrWrap wt nc (p * nc) (fun c => rdI "in_data" data ((p - 1) * nc + c)) data out
  | some pv => corrWrap wt nc (p * nc) (fun c => rdI "pred_vals" pv c) data out

/-- `MeshPredictionSchemeParallelogramEncoder::ComputeCorrectionValues` -/
def parallelogramEncode (md : MeshData) (wt : WrapT) (nc : Nat) (data : Array Int) : R (Array Int) :=
  encodeBackward md.d2c.size data.size (parallelogramCorrAt md wt nc data)

/-- `MeshPredictionSchemeConstrainedMultiParallelogramEncoder::ComputeCorrectionValues`.
    `crease[i]` = the crease flags of context `i` in DECODING order (entry 1 first) — the choice
    the C++ makes with its entropy tracker; the encoder walks the entries from the back and
    therefore consumes each context from its end.  Returns the corrections and `is_crease_edge_`
    as the encoder collects it (in encoding order). `none` flags left: the choice "use none". -/
def constrainedMultiEncode (md : MeshData) (wt : WrapT) (nc : Nat) (crease : Array (Array Bool))
    (data : Array Int) : R (Array Int × Array (Array Bool)) := do
  let kMax := Generated.kMaxNumParallelograms.toNat
  let mut out := Array.replicate data.size (0 : Int)
  -- number of flags of each context not yet consumed
  let mut left : Array Nat := (Array.range kMax).map fun i => (crease.getD i #[]).size
  let mut isCrease : Array (Array Bool) := Array.replicate kMax #[]
  let ncorn := 3 * md.t.numFaces
  let n := md.d2c.size
  for k in [0:n - 1] do
    let p := n - 1 - k
    let start := md.d2c[p]!
    let mut corner := start
    let mut preds : Array (Array Int) := #[]
    let mut firstPass := true
    let mut fin := false
    for _ in [0:2 * ncorn + 4] do
      if corner == inv then
        fin := true
        break
      match ← parallelogramPredictionE md p corner data nc with
      | some pv =>
        preds := preds.push pv
        if preds.size == kMax then
          fin := true
          break
      | none => pure ()
      if firstPass then corner ← md.t.swingLeft corner else corner ← md.t.swingRight corner
      if corner == start then
        fin := true
        break
      if corner == inv && firstPass then
        firstPass := false
        corner ← md.t.swingRight start
    if !fin then throw (.fuel "constrained multi-parallelogram: corners of a vertex")
    let numPar := preds.size
    -- the configuration chosen for this entry: `numPar` flags of context `numPar - 1`
    let mut numUsed := 0
    let mut multi : Array Int := Array.replicate nc 0
    if numPar > 0 then
      let ctx := numPar - 1
      let flags := crease.getD ctx #[]
      let have_ ← rd "crease flags left" left ctx
      let base := have_ - numPar
      left ← wr "crease flags left" left ctx base
      for i in [0:numPar] do
        -- (a context without flags left: every parallelogram excluded)
        let isCr := if have_ ≥ numPar then flags.getD (base + i) true else true
        isCrease := isCrease.modify ctx (·.push isCr)
        if !isCr then
          numUsed := numUsed + 1
          let pv := preds[i]!
          for j in [0:nc] do
            multi := multi.set! j (wrap32 (multi[j]! + pv[j]!))
    if numUsed == 0 then
      out ← corrWrap wt nc (p * nc) (fun c => rdI "in_data" data ((p - 1) * nc + c)) data out
    else
      let m := multi.map fun x => Int.tdiv x numUsed
      out ← corrWrap wt nc (p * nc) (fun c => rdI "multi_pred_vals" m c) data out
  out ← corrWrap wt nc 0 (fun _ => pure 0) data out
  pure (out, isCrease)

/-- `EncodePredictionData` of the constrained multi-parallelogram encoder (without the transform
    data): per context the number of flags and the flags of the entries in reverse entry order -/
def encodeCreaseFlags (finish : RAnsBitEnc → Bytes) (isCrease : Array (Array Bool)) : Bytes := Id.run do
  let mut bytes : Bytes := []
  for i in [0:Generated.kMaxNumParallelograms.toNat] do
    let flags := isCrease.getD i #[]
    let numUsed := i + 1
    bytes := bytes ++ encVarint (flags.size % 2 ^ 32)
    if flags.size > 0 then
      let mut e := RAnsBitEnc.start
      -- j = size - numUsed, size - 2 numUsed, … ≥ 0
      let groups := flags.size / numUsed
      for g in [0:groups] do
        let j := flags.size - numUsed * (g + 1)
        for k in [0:numUsed] do
          e := e.encodeBit (flags.getD (j + k) false)
      bytes := bytes ++ finish e
  pure bytes

/-- `MeshPredictionSchemeTexCoordsPortablePredictor::ComputePredictedValue<true>`: the prediction
    and, when the geometric predictor was used, the orientation pushed to `orientations_`;
    `none` = returns false -/
def texPredictEnc (md : MeshData) (ps : PosSource) (corner : Nat) (data : Array Int) (dataId : Nat) :
    R (Option ((Int × Int) × Option Bool)) := do
  let nextVert ← md.t.vertex (Eb.nextC corner)
  let prevVert ← md.t.vertex (Eb.prevC corner)
  let nextData ← rd "vertex_to_data_map()->at" md.v2d nextVert
  let prevData ← rd "vertex_to_data_map()->at" md.v2d prevVert
  -- (`int` entries: −1 compares below every data id)
  if nextData == inv || prevData == inv then throw (.ub "data[vertex_to_data_map = -1]")
  if prevData < dataId && nextData < dataId then
    let nU ← rdI "data" data (2 * nextData)
    let nV ← rdI "data" data (2 * nextData + 1)
    let pU ← rdI "data" data (2 * prevData)
    let pV ← rdI "data" data (2 * prevData + 1)
    if pU == nU && pV == nV then
      return some ((pU, pV), none)
    let (tx, ty, tz) ← ps.get dataId
    let (nx, ny, nz) ← ps.get nextData
    let (px, py, pz) ← ps.get prevData
    let pnx := px - nx
    let pny := py - ny
    let pnz := pz - nz
    let cnx := tx - nx
    let cny := ty - ny
    let cnz := tz - nz
    let int64Max : Int := 2 ^ 63 - 1
    let mut pnNorm2 : Int := 0
    let mut cnDotPn : Int := 0
    for (pi, ci) in [(pnx, cnx), (pny, cny), (pnz, cnz)] do
      let a := Eb.iabs pi
      let b := Eb.iabs ci
      if a > 0xffffffff || b > 0xffffffff then return none
      let aa := a * a
      if aa > int64Max - pnNorm2 then return none
      pnNorm2 := pnNorm2 + aa
      let ab := a * b
      if ab > int64Max then return none
      let term := if (pi < 0) != (ci < 0) then -ab else ab
      if (term > 0 && cnDotPn > int64Max - term) || (term < 0 && cnDotPn < -int64Max - term) then return none
      cnDotPn := cnDotPn + term
    if pnNorm2 != 0 then
      let pnU := pU - nU
      let pnV := pV - nV
      let nUvAbsMax := max (Eb.iabs nU) (Eb.iabs nV)
      if nUvAbsMax > int64Max / pnNorm2 then return none
      let pnUvAbsMax := max (Eb.iabs pnU) (Eb.iabs pnV)
      if Eb.iabs cnDotPn > int64Max / pnUvAbsMax then return none
      let xU ← i64 "x_uv" (nU * pnNorm2 + cnDotPn * pnU)
      let xV ← i64 "x_uv" (nV * pnNorm2 + cnDotPn * pnV)
      let pnAbsMax := max (max (Eb.iabs pnx) (Eb.iabs pny)) (Eb.iabs pnz)
      if Eb.iabs cnDotPn > int64Max / pnAbsMax then return none
      let xpx := nx + Int.tdiv (cnDotPn * pnx) pnNorm2
      let xpy := ny + Int.tdiv (cnDotPn * pny) pnNorm2
      let xpz := nz + Int.tdiv (cnDotPn * pnz) pnNorm2
      let dx := tx - xpx
      let dy := ty - xpy
      let dz := tz - xpz
      let cxNorm2 ← dot3 "(tip_pos - x_pos).SquaredNorm" (dx, dy, dz) (dx, dy, dz)
      let normSquared : Int := intSqrt ((cxNorm2.toNat * pnNorm2.toNat) % 2 ^ 64)
      let cxU ← i64 "cx_uv * norm_squared" (pnV * normSquared)
      let cxV ← i64 "cx_uv * norm_squared" (-pnU * normSquared)
      -- is_encoder_t: both candidates in signed int64 arithmetic
      let p0U := Int.tdiv (← i64 "x_uv + cx_uv" (xU + cxU)) pnNorm2
      let p0V := Int.tdiv (← i64 "x_uv + cx_uv" (xV + cxV)) pnNorm2
      let p1U := Int.tdiv (← i64 "x_uv - cx_uv" (xU - cxU)) pnNorm2
      let p1V := Int.tdiv (← i64 "x_uv - cx_uv" (xV - cxV)) pnNorm2
      let cU ← rdI "data" data (2 * dataId)
      let cV ← rdI "data" data (2 * dataId + 1)
      let d0U ← i64 "c_uv - predicted_uv_0" (cU - p0U)
      let d0V ← i64 "c_uv - predicted_uv_0" (cV - p0V)
      let d1U ← i64 "c_uv - predicted_uv_1" (cU - p1U)
      let d1V ← i64 "c_uv - predicted_uv_1" (cV - p1V)
      let n0 ← i64 "SquaredNorm" ((← i64 "SquaredNorm" (d0U * d0U)) + (← i64 "SquaredNorm" (d0V * d0V)))
      let n1 ← i64 "SquaredNorm" ((← i64 "SquaredNorm" (d1U * d1U)) + (← i64 "SquaredNorm" (d1V * d1V)))
      if n0 < n1 then
        return some ((wrap32 p0U, wrap32 p0V), some true)
      else
        return some ((wrap32 p1U, wrap32 p1V), some false)
  let mut off := 0
  if prevData < dataId then off := prevData * 2
  if nextData < dataId then off := nextData * 2
  else
    if dataId > 0 then off := (dataId - 1) * 2
    else return some ((0, 0), none)
  pure (some ((← rdI "data" data off, ← rdI "data" data (off + 1)), none))

/-- `MeshPredictionSchemeTexCoordsPortableEncoder::ComputeCorrectionValues`: corrections and
    `orientations_` (in the order they were pushed) -/
def texCoordsEncode (md : MeshData) (ps : PosSource) (wt : WrapT) (nc : Nat) (data : Array Int) :
    R (Array Int × Array Bool) := do
  if nc != 2 then throw (.ub "tex-coord prediction on an attribute without 2 components")
  let mut out := Array.replicate data.size (0 : Int)
  let mut orient : Array Bool := #[]
  let n := md.d2c.size
  for k in [0:n] do
    let p := n - 1 - k
    let corner := md.d2c[p]!
    match ← texPredictEnc md ps corner data p with
    | none => throw .fail
    | some ((u, v), o) =>
      match o with
      | some b => orient := orient.push b
      | none => pure ()
      out ← corrWrap wt 2 (2 * p) (fun c => pure (if c == 0 then u else v)) data out
  pure (out, orient)

/-- `EncodePredictionData` of the tex-coords encoder (without the transform data) -/
def encodeOrientations (finish : RAnsBitEnc → Bytes) (orient : Array Bool) : Bytes :=
  let e := (orient.toList.foldl (fun (acc : RAnsBitEnc × Bool) o => (acc.1.encodeBit (o == acc.2), o))
    (RAnsBitEnc.start, true)).1
  writeLE 4 (orient.size % 2 ^ 32) ++ finish e

/-- one entry of `MeshPredictionSchemeGeometricNormalEncoder::ComputeCorrectionValues`: the predicted
    normal `pred` is canonicalized, both directions are converted to octahedral coordinates, the
    corrections of the entry `o` against both are compared (`ModMax`, `AbsSum`); result: the flip bit
    and the correction (`MakePositive`) -/
def normalCorrection (ot : OctaT) (pred : Int × Int × Int) (o : Int × Int) : Bool × Int × Int :=
  let absSum2 := fun (p : Int × Int) => Eb.iabs p.1 + Eb.iabs p.2
  let v := Octa.canonicalizeIntVec ot pred
  let posOct := Octa.intVecToCoords ot v
  let negOct := Octa.intVecToCoords ot (wrap32 (-v.1), wrap32 (-v.2.1), wrap32 (-v.2.2))
  let pc := Octa.encCorr ot o posOct
  let ng := Octa.encCorr ot o negOct
  let pc := (Octa.modMax ot pc.1, Octa.modMax ot pc.2)
  let ng := (Octa.modMax ot ng.1, Octa.modMax ot ng.2)
  if absSum2 pc < absSum2 ng then (false, Octa.makePositive ot pc.1, Octa.makePositive ot pc.2)
  else (true, Octa.makePositive ot ng.1, Octa.makePositive ot ng.2)

/-- `MeshPredictionSchemeGeometricNormalEncoder::ComputeCorrectionValues`: corrections (already
    positive) and the flip bits in encoding order; `ot` = tool box / transform for
    `quantization_bits` -/
def geometricNormalEncode (md : MeshData) (ps : PosSource) (ot : OctaT) (data : Array Int) :
    R (Array Int × Array Bool) := do
  let mut out := Array.replicate data.size (0 : Int)
  let mut flips : Array Bool := Array.mkEmpty md.d2c.size
  for p in [0:md.d2c.size] do
    let pred ← normalPredict md ps (md.d2c[p]!)
    let o0 ← rdI "in_data" data (2 * p)
    let o1 ← rdI "in_data" data (2 * p + 1)
    let r := normalCorrection ot pred (o0, o1)
    flips := flips.push r.1
    out ← wrI "out_corr" out (2 * p) r.2.1
    out ← wrI "out_corr" out (2 * p + 1) r.2.2
  pure (out, flips)

/-- `PredictionSchemeDeltaEncoder::ComputeCorrectionValues` with the canonicalized octahedron
    transform on entries of two values: the function of the sequential encoder model -/
def deltaEncodeOcta (ot : OctaT) (data : Array Int) : Array Int :=
  (SeqEnc.deltaEncode (SeqEnc.octaEnc ot) [0, 0] (SeqEnc.entriesOf 2 data.size data.toList)).flatten.toArray

end Draco.EbEnc
