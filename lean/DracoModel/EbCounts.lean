import DracoModel.Geometry
import DracoModel.Varint
/-
  Reported element counts of the encoders (C09), "as written":

    compression/mesh/mesh_edgebreaker_encoder.cc        ComputeNumberOfEncodedPoints (per vertex)
    compression/mesh/mesh_edgebreaker_decoder_impl.cc   AssignPointsToCorners        (per vertex)
    compression/mesh/mesh_sequential_encoder.cc         ComputeNumberOfEncodedPoints/Faces,
                                                        EncodeConnectivity (uncompressed indices)
    compression/point_cloud/point_cloud_sequential_encoder.cc
                                                        ComputeNumberOfEncodedPoints, EncodeGeometryData

  The Edgebreaker procedures are modelled on an abstract vertex fan: the corners around one
  vertex in `SwingRight` order starting at `LeftMostCorner(v)`, each carrying what the two
  procedures look at (the point id of the corner in the input mesh, and the vertex of the corner
  in every attribute corner table).
-/
namespace Draco.Counts

/-! ## sequential encoders -/

/-- `MeshSequentialEncoder::ComputeNumberOfEncodedPoints/Faces` (`mesh()->num_points()`,
    `mesh()->num_faces()`) and `PointCloudSequentialEncoder::ComputeNumberOfEncodedPoints`
    (`point_cloud()->num_points()`; `PointCloudEncoder` reports no faces: a point cloud has
    `faces = []`) -/
def seqReportedCounts (g : Geometry) : Nat × Nat := (g.numPoints, g.faces.length)

/-- `buffer()->Encode(static_cast<T>(face[j].value()))` / `EncodeVarint` for one index: the
    width is selected by `mesh()->num_points()` -/
def encodeSeqIndex (numPoints : Nat) (v : Nat) : Bytes :=
  if numPoints < 256 then writeLE 1 v
  else if numPoints < 2^16 then writeLE 2 v
  else if numPoints < 2^21 then encVarint v
  else writeLE 4 v

/-- the `for (FaceIndex i(0); i < num_faces; ++i)` loops of `EncodeConnectivity` -/
def encodeSeqFaces (numPoints : Nat) : List (Nat × Nat × Nat) → Bytes
  | [] => []
  | (a, b, c) :: fs =>
    encodeSeqIndex numPoints a ++ (encodeSeqIndex numPoints b ++
      (encodeSeqIndex numPoints c ++ encodeSeqFaces numPoints fs))

/-- `MeshSequentialEncoder::EncodeConnectivity` without `compress_connectivity`:
    varint num_faces, varint num_points, method byte 1, the indices -/
def encodeSeqConnectivityRaw (numPoints : Nat) (faces : List (Nat × Nat × Nat)) : Bytes :=
  encVarint faces.length ++ (encVarint numPoints ++ (1 :: encodeSeqFaces numPoints faces))

/-- `PointCloudSequentialEncoder::EncodeGeometryData`: `buffer()->Encode(int32_t num_points)` -/
def encodePcGeometryData (numPoints : Nat) : Bytes := writeLE 4 numPoints

/-- `PointCloudEncoder::EncodeHeader` of the sequential encoders (`GetEncodingMethod() = 0`) for
    a geometry without metadata (`flags = 0`): "DRACO", version of the geometry type, type, method,
    uint16 flags -/
def encodeSeqHeader (isMesh : Bool) : Bytes :=
  [68, 82, 65, 67, 79] ++
  (if isMesh then
     [Generated.kDracoMeshBitstreamVersionMajor.toNat, Generated.kDracoMeshBitstreamVersionMinor.toNat,
      Generated.TRIANGULAR_MESH.toNat, Generated.MESH_SEQUENTIAL_ENCODING.toNat]
   else
     [Generated.kDracoPointCloudBitstreamVersionMajor.toNat,
      Generated.kDracoPointCloudBitstreamVersionMinor.toNat,
      Generated.POINT_CLOUD.toNat, Generated.POINT_CLOUD_SEQUENTIAL_ENCODING.toNat]) ++ writeLE 2 0

/-! ## Edgebreaker: one vertex fan -/

/-- one corner around a vertex, in `SwingRight` order starting at `LeftMostCorner(v)` -/
structure FanCorner where
  /-- `mesh()->CornerToPointId(corner)` (only the pre-fix encoder formula looks at it) -/
  pid : Nat
  /-- encoder: `attribute_corner_tables[i]->Vertex(corner)` for every attribute corner table in
      use; decoder: `attribute_data_[i].connectivity_data.Vertex(corner)` -/
  av : List Nat
deriving Repr, DecidableEq

structure Fan where
  /-- c₀ … c_{k-1}, k ≥ 1 -/
  corners : List FanCorner
  /-- interior vertex: `SwingRight(c_{k-1}) = c₀`; boundary vertex:
      `SwingRight(c_{k-1}) = kInvalidCornerIndex` (`IsOnBoundary(v)`, `is_vert_hole_[v]`) -/
  closed : Bool
  /-- decoder only: `attribute_data_[i].connectivity_data.IsCornerOnSeam(c₀)` per attribute -/
  onSeam : List Bool
deriving Repr, DecidableEq

/-- the loops `for (i = 0; i < attribute_corner_tables.size(); ++i) if (tables[i]->Vertex(c) !=
    tables[i]->Vertex(last_c)) { found = true; break; }` (encoder) and
    `for (i < attribute_data_.size()) if (…Vertex(c) != …Vertex(prev_c))` (decoder) -/
def avDiff : List Nat → List Nat → Bool
  | x :: xs, y :: ys => x != y || avDiff xs ys
  | _, _ => false

/-- body of the `while (corner_index != kInvalidCornerIndex)` loop of
    `MeshEdgebreakerEncoder::ComputeNumberOfEncodedPoints` over the corners still to visit;
    state: `last_corner_index`; result: `num_attribute_seams`. A seam is counted iff some used
    attribute corner table has `Vertex(corner_index) != Vertex(last_corner_index)`; point ids are
    not consulted. -/
def encWalk (last : FanCorner) : List FanCorner → Nat
  | [] => 0
  | c :: cs => (if avDiff c.av last.av then 1 else 0) + encWalk c cs

/-- `num_attribute_seams` of one vertex: the loop starts at `SwingRight(first_corner)` and, for
    an interior vertex, still processes `first_corner` (against c_{k-1}) before the
    `corner_index == first_corner_index` break. -/
def encSeams (f : Fan) : Nat :=
  match f.corners with
  | [] => 0
  | c0 :: cs => encWalk c0 (if f.closed then cs ++ [c0] else cs)

/-- contribution of one non-isolated vertex to `num_points` in
    `MeshEdgebreakerEncoder::ComputeNumberOfEncodedPoints`: 1 (from `num_vertices() -
    NumIsolatedVertices()`) plus `num_attribute_seams - 1` for an interior vertex with seams,
    `num_attribute_seams` otherwise -/
def encPoints (f : Fan) : Nat :=
  1 + (if f.closed && decide (encSeams f > 0) then encSeams f - 1 else encSeams f)

/-- formula before fix: commit 49d6567. Loop body of
    `MeshEdgebreakerEncoder::ComputeNumberOfEncodedPoints` as it was: state `last_point_index`,
    `last_corner_index`; a seam was counted when `mesh()->CornerToPointId(corner)` changed, and
    the attribute corner tables were only consulted in the else-branch (point id unchanged). -/
def encWalkPreFix (lastPid : Nat) (last : FanCorner) : List FanCorner → Nat
  | [] => 0
  | c :: cs =>
    if c.pid != lastPid then 1 + encWalkPreFix c.pid c cs
    else (if avDiff c.av last.av then 1 else 0) + encWalkPreFix lastPid c cs

/-- formula before fix: commit 49d6567. `num_attribute_seams` of one vertex. -/
def encSeamsPreFix (f : Fan) : Nat :=
  match f.corners with
  | [] => 0
  | c0 :: cs => encWalkPreFix c0.pid c0 (if f.closed then cs ++ [c0] else cs)

/-- formula before fix: commit 49d6567. Contribution of one non-isolated vertex to
    `num_encoded_points`. -/
def encPointsPreFix (f : Fan) : Nat :=
  1 + (if f.closed && decide (encSeamsPreFix f > 0) then encSeamsPreFix f - 1 else encSeamsPreFix f)

/-- the `while (act_c != c)` loop of `AssignPointsToCorners` for attribute `i` over c₁ …:
    number of corners skipped before the first one whose `Vertex` differs from `vert_id` -/
def seamOffset (i vid : Nat) : List FanCorner → Option Nat
  | [] => none
  | c :: cs =>
    if c.av.getD i 0 != vid then some 0
    else match seamOffset i vid cs with
      | some n => some (n + 1)
      | none => none

/-- the `for (i < attribute_data_.size())` loop choosing `deduplication_first_corner` of an
    interior vertex; `flags` are the `IsCornerOnSeam(c₀)` values of attributes `i, i+1, …`;
    result: position of the start corner in c₀ … c_{k-1} -/
def dedupStart (c0 : FanCorner) (cs : List FanCorner) : Nat → List Bool → Nat
  | _, [] => 0
  | i, flag :: flags =>
    if !flag then dedupStart c0 cs (i + 1) flags
    else match seamOffset i (c0.av.getD i 0) cs with
      | some n => n + 1
      | none => dedupStart c0 cs (i + 1) flags

/-- the deduplication pass `while (c != kInvalidCornerIndex && c != deduplication_first_corner)`:
    number of new points created after the start corner -/
def decWalk (prev : FanCorner) : List FanCorner → Nat
  | [] => 0
  | c :: cs => (if avDiff c.av prev.av then 1 else 0) + decWalk c cs

/-- number of entries `MeshEdgebreakerDecoderImpl::AssignPointsToCorners` appends to
    `point_to_corner_map` for one vertex -/
def decPoints (f : Fan) : Nat :=
  match f.corners with
  | [] => 0
  | c0 :: cs =>
    if f.closed then
      let n := dedupStart c0 cs 0 f.onSeam
      -- walk cyclically from the start corner until it is reached again
      match (c0 :: cs).drop n ++ (c0 :: cs).take n with
      | [] => 0
      | s :: rest => 1 + decWalk s rest
    else 1 + decWalk c0 cs

/-! ### specification vocabulary (used only in theorem statements) -/

/-- (previous, current) corner pairs visited when walking `l` after `prev` -/
def consecPairs (prev : FanCorner) : List FanCorner → List (FanCorner × FanCorner)
  | [] => []
  | c :: cs => (prev, c) :: consecPairs c cs

/-- consecutive corner pairs of the fan; cyclically consecutive for an interior vertex -/
def Fan.pairs (f : Fan) : List (FanCorner × FanCorner) :=
  match f.corners with
  | [] => []
  | c0 :: cs => consecPairs c0 (if f.closed then cs ++ [c0] else cs)

/-- number of (cyclically) consecutive corner pairs whose attribute vertices differ -/
def Fan.avChanges (f : Fan) : Nat := f.pairs.countP (fun p => p.1.av != p.2.av)

end Draco.Counts
