/-
  DracoModel.Basic — conventions shared by the whole model.

  * A byte is a `Nat` (< 256 when it comes from a real buffer); byte strings are `List Nat`.
  * A byte-level reader is a function `List Nat → Option (α × List Nat)`: it consumes a
    prefix of the remaining input and returns the rest.  The read position of the C++
    `DecoderBuffer` is `total − rest.length`.
  * Fixed-width C++ arithmetic is written with explicit `% 2^w`.
-/
namespace Draco

abbrev Bytes := List Nat

/-- All entries are real bytes. -/
def IsBytes (bs : Bytes) : Prop := ∀ b ∈ bs, b < 256

abbrev Rd (α : Type) := Bytes → Option (α × Bytes)

@[inline] def Rd.pure {α} (a : α) : Rd α := fun bs => some (a, bs)
@[inline] def Rd.bind {α β} (r : Rd α) (f : α → Rd β) : Rd β := fun bs =>
  match r bs with
  | none => none
  | some (a, rest) => f a rest

instance : Monad Rd where
  pure := Rd.pure
  bind := Rd.bind

@[inline] def Rd.fail {α} : Rd α := fun _ => none

/-- two's complement reinterpretation of a `w`-bit pattern -/
def toSigned (w : Nat) (u : Nat) : Int :=
  if u % 2^w < 2^(w-1) then (u % 2^w : Nat) else (u % 2^w : Nat) - (2^w : Nat)

/-- `w`-bit pattern of an integer -/
def toUnsigned (w : Nat) (x : Int) : Nat := (x % (2^w : Nat)).toNat

/-- int32 wrap-around -/
def wrap32 (x : Int) : Int := (x + 2^31) % 2^32 - 2^31

end Draco
