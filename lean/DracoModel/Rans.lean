import DracoModel.Varint
/-
  Mirrors the classes `RAnsEncoder<rans_precision_bits_t>` / `RAnsDecoder<rans_precision_bits_t>`
  of src/draco/compression/entropy/ans.h.

  Representation.  The C++ encoder appends bytes to `buf[buf_offset++]`, the decoder reads
  `buf[--buf_offset]`, i.e. the buffer is a stack.  The model keeps the stack as a list whose
  head is the *last written* byte (`rb`, "reversed buffer"); the real buffer is `rb.reverse`.
  A coder state is a pair `(state, rb)`.

  Ranges.  `ans_.state` is a `uint32_t`.  With `rans_precision_bits_t ≤ 20` and a table whose
  probabilities sum to `rans_precision`, every intermediate value is `< 2^30`
  (`l_rans_base * DRACO_ANS_IO_BASE = 2^(pb+10)`), so no wrap happens (see `DracoProofs.Rans`);
  the decoder nevertheless carries an explicit `% 2^32`.
-/
namespace Draco

/-- `rans_precision = 1 << rans_precision_bits_t` -/
def ransPrecision (pb : Nat) : Nat := 2 ^ pb

/-- `l_rans_base = rans_precision * 4` -/
def ransLBase (pb : Nat) : Nat := 4 * 2 ^ pb

/-- tail recursive sum (`List.sum` is a `foldr` and overflows the stack on long lists);
    `sumNat_eq_sum` in DracoProofs.Rans -/
def sumNat (l : List Nat) : Nat := l.foldl (· + ·) 0

/-- coder state: `ans_.state` and the reversed buffer (head = `buf[buf_offset-1]`) -/
abbrev RansSt := Nat × Bytes

/-! ### encoder -/

/-- The `while (state >= l_rans_base / rans_precision * DRACO_ANS_IO_BASE * p)` loop of
    `RAnsEncoder::rans_write`; `thr` is the threshold.  A `uint32_t` state with `thr ≥ 1024`
    leaves the loop after at most 3 rounds, the callers use fuel 4
    (`ransEncRenorm_fuel` in DracoProofs.Rans). -/
def ransEncRenorm (thr : Nat) : Nat → Nat → Bytes → RansSt
  | 0, x, rb => (x, rb)
  | f+1, x, rb =>
    if x ≥ thr then ransEncRenorm thr f (x / 256) ((x % 256) :: rb) else (x, rb)

/-- `RAnsEncoder::rans_write(sym)` with `sym->prob = p`, `sym->cum_prob = cum`.
    Meaningful for `p > 0` only (for `p = 0` the C++ loop does not terminate and then divides
    by zero; callers of the model test `p = 0` first). -/
def ransWrite (pb p cum : Nat) (st : RansSt) : RansSt :=
  let r := ransEncRenorm (4 * 256 * p) 4 st.1 st.2
  ((r.1 / p) * 2 ^ pb + r.1 % p + cum, r.2)

/-- `RAnsEncoder::write_end`: appends the 1..4 byte state tail.  The last branch is the
    `DRACO_DCHECK(0 && "State is too large to be serialized")` case, where the release build
    silently returns the offset without writing the state. -/
def ransWriteEnd (pb : Nat) (st : RansSt) : Bytes :=
  let s := (st.1 + 2 ^ 32 - ransLBase pb) % 2 ^ 32
  if s < 2 ^ 6 then s :: st.2
  else if s < 2 ^ 14 then
    let v := 2 ^ 14 + s
    (v / 256 % 256) :: (v % 256) :: st.2
  else if s < 2 ^ 22 then
    let v := 2 * 2 ^ 22 + s
    (v / 65536 % 256) :: (v / 256 % 256) :: (v % 256) :: st.2
  else if s < 2 ^ 30 then
    let v := 3 * 2 ^ 30 + s
    (v / 16777216 % 256) :: (v / 65536 % 256) :: (v / 256 % 256) :: (v % 256) :: st.2
  else st.2

/-- `write_init`: `state = l_rans_base`, empty buffer -/
def ransWriteInit (pb : Nat) : RansSt := (ransLBase pb, [])

/-- cumulative probabilities `cum_prob` (not inclusive), as an array -/
def cumArrayAux : List Nat → Nat → Array Nat → Array Nat
  | [], _, acc => acc
  | p :: ps, c, acc => cumArrayAux ps (c + p) (acc.push c)

def cumArray (probs : List Nat) : Array Nat := cumArrayAux probs 0 (Array.mkEmpty probs.length)

/-- the encoder's `probability_table_` (`rans_sym {prob, cum_prob}`) -/
structure RansEncTable where
  probs : Array Nat
  cums : Array Nat

def RansEncTable.ofProbs (probs : List Nat) : RansEncTable := ⟨probs.toArray, cumArray probs⟩

/-- `EncodeSymbol` for every symbol of `rsyms` in list order (the callers pass the input
    reversed: "rANS requires to encode the input symbols in the reverse order").
    `none`: a symbol outside the table or with probability 0 (C++: out of bounds read resp.
    non-terminating loop). -/
def ransEncLoop (pb : Nat) (t : RansEncTable) : List Nat → RansSt → Option RansSt
  | [], st => some st
  | s :: rest, st =>
    let p := t.probs.getD s 0
    if p = 0 then none
    else ransEncLoop pb t rest (ransWrite pb p (t.cums.getD s 0) st)

/-- `StartEncoding; for i = n-1 … 0: EncodeSymbol(syms[i]); EndEncoding` of
    `RAnsSymbolEncoder` for a finished probability table: varint(bytes_written) followed by the
    rANS bytes. -/
def encodeRans (pb : Nat) (probs : List Nat) (syms : List Nat) : Option Bytes :=
  match ransEncLoop pb (RansEncTable.ofProbs probs) syms.reverse (ransWriteInit pb) with
  | none => none
  | some st =>
    let out := (ransWriteEnd pb st).reverse
    some (encVarint out.length ++ out)

/-! ### decoder -/

/-- `RAnsDecoder::read_init(buf, offset)` with `offset = buf.length`.
    `before` = the bytes that precede `buf` in the enclosing `DecoderBuffer` (stream order).
    They matter only for the `x == 3` branch, which — unlike the branches for 1 and 2 — does not
    test `offset < 4` and reads `buf[offset-4 .. offset-1]`, i.e. up to 3 bytes *before* `buf`;
    `buf_offset` then becomes negative and no further byte is ever read.  When even `before`
    is too short the C++ reads outside of the `DecoderBuffer` (undefined); the model fails. -/
def ransReadInit (pb : Nat) (before buf : Bytes) : Option RansSt :=
  match buf.reverse with
  | [] => none
  | top :: rb =>
    let fin (v : Nat) (stack : Bytes) : Option RansSt :=
      let st := v + ransLBase pb
      if st ≥ ransLBase pb * 256 then none else some (st, stack)
    let x := top / 64
    if x = 0 then fin (top % 64) rb
    else if x = 1 then
      match rb with
      | b1 :: rb' => fin ((top * 256 + b1) % 2 ^ 14) rb'
      | _ => none
    else if x = 2 then
      match rb with
      | b1 :: b2 :: rb' => fin ((top * 65536 + b1 * 256 + b2) % 2 ^ 22) rb'
      | _ => none
    else if x = 3 then
      match rb ++ before.reverse with
      | b1 :: b2 :: b3 :: _ =>
        fin ((top * 16777216 + b1 * 65536 + b2 * 256 + b3) % 2 ^ 30) (rb.drop 3)
      | _ => none
    else none

/-- `while (state < l_rans_base && buf_offset > 0) state = state * 256 + buf[--buf_offset]` -/
def ransRenorm (l : Nat) : Nat → Bytes → RansSt
  | x, [] => (x, [])
  | x, b :: rb => if x < l then ransRenorm l (x * 256 + b) rb else (x, b :: rb)

/-- `lut_table_`, `probability_table_` of `RAnsDecoder` -/
structure RansDecTable where
  lut : Array Nat
  probs : Array Nat
  cums : Array Nat

/-- `for (j = act_prob; j < cum_prob; ++j) lut_table_[j] = i` -/
def lutPush (acc : Array Nat) : Nat → Nat → Array Nat
  | 0, _ => acc
  | p+1, i => lutPush (acc.push i) p i

def lutAux : List Nat → Nat → Array Nat → Array Nat
  | [], _, acc => acc
  | p :: ps, i, acc => lutAux ps (i + 1) (lutPush acc p i)

/-- `RAnsDecoder::rans_build_look_up_table`.  The C++ returns false as soon as a running sum
    exceeds `rans_precision` or when the final sum differs from it; every probability is
    `< 2^22` and the running sum is `≤ 2^20` before each addition, so the `uint32_t` sum cannot
    wrap and the test is equivalent to `sum ≠ rans_precision` (tested first, so that the
    look-up table is only built when it has exactly `rans_precision` entries). -/
def ransBuildLookup (pb : Nat) (probs : List Nat) : Option RansDecTable :=
  if sumNat probs ≠ 2 ^ pb then none
  else some ⟨lutAux probs 0 (Array.mkEmpty (2 ^ pb)), probs.toArray, cumArray probs⟩

/-- `RAnsDecoder::rans_read` (including `fetch_sym`): returns the symbol and the new state.
    `rem ≥ cum_prob` holds for every table made by `ransBuildLookup`. -/
def ransRead (pb : Nat) (t : RansDecTable) (st : RansSt) : Nat × RansSt :=
  let r := ransRenorm (ransLBase pb) st.1 st.2
  let quo := r.1 / 2 ^ pb
  let rem := r.1 % 2 ^ pb
  let s := t.lut.getD rem 0
  (s, ((quo * t.probs.getD s 0 + rem - t.cums.getD s 0) % 2 ^ 32, r.2))

/-- `n` successive `DecodeSymbol()` calls (specification version) -/
def ransReadN (pb : Nat) (t : RansDecTable) : Nat → RansSt → List Nat
  | 0, _ => []
  | n+1, st => let r := ransRead pb t st; r.1 :: ransReadN pb t n r.2

/-- tail recursive version used by the executable model -/
def ransReadNTR (pb : Nat) (t : RansDecTable) : Nat → RansSt → List Nat → List Nat
  | 0, _, acc => acc.reverse
  | n+1, st, acc => let r := ransRead pb t st; ransReadNTR pb t n r.2 (r.1 :: acc)

/-- the prefix of `whole` that has been consumed when `cur` is what is left -/
def consumedOf (whole cur : Bytes) : Bytes := whole.take (whole.length - cur.length)

/-- `RAnsSymbolDecoder::StartDecoding` (bitstream ≥ 2.0: varint size): returns the initial
    decoder state, the buffer is advanced past the rANS data.  `before`: see `ransReadInit`. -/
def ransStartDecoding (pb : Nat) (before : Bytes) : Rd RansSt := fun bs =>
  match decVarint 64 bs with
  | none => none
  | some (len, rest) =>
    if len > rest.length then none
    else
      match ransReadInit pb (before ++ consumedOf bs rest) (rest.take len) with
      | none => none
      | some st => some (st, rest.drop len)

/-- `StartDecoding; n × DecodeSymbol; EndDecoding` -/
def decodeRans (pb : Nat) (t : RansDecTable) (before : Bytes) (n : Nat) : Rd (List Nat) := fun bs =>
  match ransStartDecoding pb before bs with
  | none => none
  | some (st, rest) => some (ransReadNTR pb t n st [], rest)

end Draco
