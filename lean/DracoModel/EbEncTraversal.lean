import DracoModel.EbTraversal
/-
  The vertex traversals of DracoModel/EbTraversal.lean as the ENCODER runs them:
    compression/mesh/traverser/mesh_traversal_sequencer.h (GenerateSequenceInternal with
        `corner_order_` set: `SetCornerOrder(processed_connectivity_corners_)`)
    compression/mesh/traverser/depth_first_traverser.h, max_prediction_degree_traverser.h
    compression/mesh/traverser/mesh_attribute_indices_encoding_observer.h
  The traverser classes are the ones the decoder instantiates; the only difference is the list of
  corners `TraverseFromCorner` is called with (the decoder uses the first corner of every face in
  face order).  `v2dInit` is the content `vertex_to_encoded_attribute_value_index_map` has when
  the traversal starts (the encoder assigns −1 = `inv`, the decoder resizes to 0).
-/
namespace Draco.EbEnc
open Draco
open Draco.Eb hiding nextC prevC

/-- `MeshTraversalSequencer<DepthFirstTraverser>::GenerateSequenceInternal` over `order` -/
def depthFirstOrder (t : TView) (faces : Array Nat) (order : Array Nat) (v2dInit : Array Nat) : R SeqOut := do
  let nf := t.numFaces
  let nv := t.numVertices
  let fuel := 4 * (nf + nv) + 16
  let mut fv := Array.replicate nf false
  let mut vv := Array.replicate nv false
  let mut out : SeqOut := { pointIds := Array.mkEmpty nv, d2c := Array.mkEmpty nv, v2d := v2dInit }
  let mut stack : Array Nat := #[]
  for c0 in order do
    -- TraverseFromCorner(c0)
    if (← faceVisited fv (faceOfCorner c0)) then continue
    stack := #[c0]
    let nextVert ← t.vertex (Eb.nextC c0)
    let prevVert ← t.vertex (Eb.prevC c0)
    if nextVert == inv || prevVert == inv then throw .fail
    if !(← rdB "is_vertex_visited_" vv nextVert) then
      vv ← wrB "is_vertex_visited_" vv nextVert true
      out ← onNewVertex faces out nextVert (Eb.nextC c0)
    if !(← rdB "is_vertex_visited_" vv prevVert) then
      vv ← wrB "is_vertex_visited_" vv prevVert true
      out ← onNewVertex faces out prevVert (Eb.prevC c0)
    let mut fin := false
    for _ in [0:fuel] do
      if stack.isEmpty then
        fin := true
        break
      let mut cornerId := stack.back!
      let mut faceId := cornerId / 3
      if cornerId == inv then
        stack := stack.pop
        continue
      if (← faceVisited fv faceId) then
        stack := stack.pop
        continue
      let mut fin2 := false
      for _ in [0:fuel] do
        fv ← wrB "MarkFaceVisited" fv faceId true
        let vertId ← t.vertex cornerId
        if vertId == inv then throw .fail
        if !(← rdB "is_vertex_visited_" vv vertId) then
          let onBoundary ← t.isOnBoundary vertId
          vv ← wrB "is_vertex_visited_" vv vertId true
          out ← onNewVertex faces out vertId cornerId
          if !onBoundary then
            cornerId ← t.rightCorner cornerId
            faceId := cornerId / 3
            continue
        let right ← t.rightCorner cornerId
        let left ← t.leftCorner cornerId
        let rightFace := faceOfCorner right
        let leftFace := faceOfCorner left
        if (← faceVisited fv rightFace) then
          if (← faceVisited fv leftFace) then
            stack := stack.pop
            fin2 := true
            break
          else
            cornerId := left
            faceId := leftFace
        else
          if (← faceVisited fv leftFace) then
            cornerId := right
            faceId := rightFace
          else
            stack := stack.set! (stack.size - 1) left
            stack := stack.push right
            fin2 := true
            break
      if !fin2 then throw (.fuel "DepthFirstTraverser: inner loop")
    if !fin then throw (.fuel "DepthFirstTraverser: stack loop")
  pure out

/-- `MeshTraversalSequencer<MaxPredictionDegreeTraverser>::GenerateSequenceInternal` over `order` -/
def maxPredictionDegreeOrder (t : TView) (faces : Array Nat) (order : Array Nat) (v2dInit : Array Nat) :
    R SeqOut := do
  let nf := t.numFaces
  let nv := t.numVertices
  let fuel := 4 * (nf + nv) + 16
  let mut fv := Array.replicate nf false
  let mut vv := Array.replicate nv false
  let mut out : SeqOut := { pointIds := Array.mkEmpty nv, d2c := Array.mkEmpty nv, v2d := v2dInit }
  -- OnTraversalStart
  let mut degree := Array.replicate nv 0
  let mut st0 : Array Nat := #[]
  let mut st1 : Array Nat := #[]
  let mut st2 : Array Nat := #[]
  let mut best := 0
  for c0 in order do
    if nv == 0 then continue
    st0 := st0.push c0
    best := 0
    let nextVert ← t.vertex (Eb.nextC c0)
    let prevVert ← t.vertex (Eb.prevC c0)
    if !(← rdB "is_vertex_visited_" vv nextVert) then
      vv ← wrB "is_vertex_visited_" vv nextVert true
      out ← onNewVertex faces out nextVert (Eb.nextC c0)
    if !(← rdB "is_vertex_visited_" vv prevVert) then
      vv ← wrB "is_vertex_visited_" vv prevVert true
      out ← onNewVertex faces out prevVert (Eb.prevC c0)
    let tip ← t.vertex c0
    if !(← rdB "is_vertex_visited_" vv tip) then
      vv ← wrB "is_vertex_visited_" vv tip true
      out ← onNewVertex faces out tip c0
    let mut fin := false
    for _ in [0:fuel] do
      -- PopNextCornerToTraverse
      let mut cornerId := inv
      if best ≤ 0 && !st0.isEmpty then
        cornerId := st0.back!
        st0 := st0.pop
        best := 0
      else if best ≤ 1 && !st1.isEmpty then
        cornerId := st1.back!
        st1 := st1.pop
        best := 1
      else if !st2.isEmpty then
        cornerId := st2.back!
        st2 := st2.pop
        best := 2
      if cornerId == inv then
        fin := true
        break
      if (← faceVisited fv (cornerId / 3)) then continue
      let mut fin2 := false
      for _ in [0:fuel] do
        let faceId := cornerId / 3
        fv ← wrB "MarkFaceVisited" fv faceId true
        let vertId ← t.vertex cornerId
        if !(← rdB "is_vertex_visited_" vv vertId) then
          vv ← wrB "is_vertex_visited_" vv vertId true
          out ← onNewVertex faces out vertId cornerId
        let right ← t.rightCorner cornerId
        let left ← t.leftCorner cornerId
        let rightVisited ← faceVisited fv (faceOfCorner right)
        let leftVisited ← faceVisited fv (faceOfCorner left)
        if !leftVisited then
          let vTip ← t.vertex left
          let mut priority := 0
          if !(← rdB "is_vertex_visited_" vv vTip) then
            let d := (← rd "prediction_degree_" degree vTip) + 1
            degree ← wr "prediction_degree_" degree vTip d
            priority := if d > 1 then 1 else 2
          if rightVisited && priority ≤ best then
            cornerId := left
            continue
          else
            if priority == 0 then st0 := st0.push left
            else if priority == 1 then st1 := st1.push left
            else st2 := st2.push left
            if priority < best then best := priority
        if !rightVisited then
          let vTip ← t.vertex right
          let mut priority := 0
          if !(← rdB "is_vertex_visited_" vv vTip) then
            let d := (← rd "prediction_degree_" degree vTip) + 1
            degree ← wr "prediction_degree_" degree vTip d
            priority := if d > 1 then 1 else 2
          if priority ≤ best then
            cornerId := right
            continue
          else
            if priority == 0 then st0 := st0.push right
            else if priority == 1 then st1 := st1.push right
            else st2 := st2.push right
            if priority < best then best := priority
        fin2 := true
        break
      if !fin2 then throw (.fuel "MaxPredictionDegreeTraverser: inner loop")
    if !fin then throw (.fuel "MaxPredictionDegreeTraverser: stack loop")
  pure out

end Draco.EbEnc
