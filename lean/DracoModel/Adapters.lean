import DracoModel.Basic
import DracoModel.Varint
import DracoModel.Wrap
import DracoModel.Octahedron
import DracoModel.Quantizer
import DracoModel.Metadata
import DracoModel.SymbolCoding
/-
  Interface to the leaf models (entropy coder, transforms, float quantizers, metadata).
  Every function here is a one-line call into the leaf model.
-/
namespace Draco.Leaf

/-- DecodeSymbols(num_values, num_components, buffer, out) -/
def decodeSymbols (numValues numComponents : Nat) : Rd (List Nat) := Draco.decodeSymbols numValues numComponents

abbrev WrapT := Draco.WrapT
/-- `DecodeTransformData` of the wrap transform after reading (min,max) -/
def wrapInit (minV maxV : Int) : Option WrapT := Wrap.init minV maxV
def wrapDec (t : WrapT) (pred corr : Int) : Int := Wrap.decOrig t pred corr

/-- canonicalized octahedron decoding transform for max_quantized_value; none when rejected -/
def octaInit (maxQ : Int) : Option OctaT := Octa.setMaxQuantizedValue maxQ
def octaDec (t : OctaT) (pred corr : Int × Int) : Int × Int := Octa.decOrig t pred corr

/-- one component of `AttributeQuantizationTransform::InverseTransformAttribute`:
    float32 bit pattern of `float(k) * (range / float(2^bits − 1)) + min` -/
def dequant (rangeBits bits minBits : Nat) (k : Int) : Nat :=
  Quant.dequantizeBits [minBits] rangeBits bits 0 k
/-- QuantizedOctahedralCoordsToUnitVector: three float32 bit patterns -/
def octaToUnit (q : Nat) (s t : Int) : Nat × Nat × Nat :=
  match Octa.init q with
  | none => (0, 0, 0)
  | some o =>
    let (x, y, z) := Octa.coordsToUnitVector o (s, t)
    (x.toBits.toNat, y.toBits.toNat, z.toBits.toNat)

/-- `MetadataDecoder::DecodeGeometryMetadata` (current code: empty values accepted) -/
def decodeGeometryMetadata : Rd GeometryMetadata := decodeGeometryMetadataFixed

end Draco.Leaf
