import DracoModel.FloatOps
import DracoModel.Varint
/-
  DracoModel.Quantizer — mirrors
    src/draco/core/quantization_utils.{h,cc}            (Quantizer, Dequantizer)
    src/draco/attributes/attribute_quantization_transform.{h,cc}
  generically over the float interface `FloatOps F`.

  The operation order and the types (`float` everywhere, `int32_t` for quantized values) are
  those of the C++ text:

    Quantizer::Init(range, maxq)      inverse_delta_ = float(maxq) / range
    Quantizer::QuantizeFloat(val)     val *= inverse_delta_;  int32(floor(val + 0.5f))
    Dequantizer::Init(range, maxq)    delta_ = range / float(maxq)      (fails if maxq <= 0)
    Dequantizer::DequantizeFloat(k)   float(k) * delta_
    GeneratePortableAttribute         q_val = QuantizeFloat(att_val[c] - min_values_[c])
    InverseTransformAttribute         value = DequantizeFloat(k) + min_values_[c]
-/
namespace Draco

/-- `min_values_` and `range_` of `AttributeQuantizationTransform` -/
structure QParams (F : Type) where
  minValues : List F
  range : F

namespace Quant
open FloatOps
variable {F : Type} [FloatOps F]

/-- `AttributeQuantizationTransform::IsQuantizationValid` -/
def isQuantizationValid (q : Int) : Bool := decide (1 ≤ q) && decide (q ≤ 30)

/-- `max_quantized_value = (1 << quantization_bits_) - 1`. No 32-bit wrap for
    `1 ≤ q ≤ 30`, which `IsQuantizationValid` guarantees on every path that sets
    `quantization_bits_`. -/
def maxQuantizedValue (q : Nat) : Int := (2:Int)^q - 1

/-- `Quantizer::Init(float range, int32_t max_quantized_value)`; returns `inverse_delta_` -/
def quantizerInit (range : F) (maxQ : Int) : F := div (ofInt maxQ) range

/-- `Quantizer::Init(float delta)`; returns `inverse_delta_` -/
def quantizerInitDelta (delta : F) : F := div (one : F) delta

/-- `Quantizer::QuantizeFloat` -/
def quantizeFloat (inverseDelta : F) (val : F) : Int :=
  floorToInt (add (mul val inverseDelta) (half : F))

/-- `Dequantizer::Init(float range, int32_t max_quantized_value)`; returns `delta_` -/
def dequantizerInit (range : F) (maxQ : Int) : Option F :=
  if maxQ ≤ 0 then none else some (div range (ofInt maxQ))

/-- `Dequantizer::Init(float delta)` -/
def dequantizerInitDelta (delta : F) : Option F := some delta

/-- `Dequantizer::DequantizeFloat` (`k` is an `int32_t`) -/
def dequantizeFloat (delta : F) (k : Int) : F := mul (ofInt k) delta

/-- `min_values_[c]` -/
def minOf (p : QParams F) (c : Nat) : F := p.minValues.getD c (zero : F)

/-- One component of `GeneratePortableAttribute`:
    `quantizer.Init(range(), max_quantized_value); value = att_val[c] - min_values()[c];
     q_val = quantizer.QuantizeFloat(value)`. -/
def quantize (p : QParams F) (q : Nat) (c : Nat) (x : F) : Int :=
  quantizeFloat (quantizerInit p.range (maxQuantizedValue q)) (sub x (minOf p c))

/-- One component of `InverseTransformAttribute`:
    `dequantizer.Init(range_, max_quantized_value);
     value = dequantizer.DequantizeFloat(k); value = value + min_values_[c]`.
    (`Dequantizer::Init` cannot fail for `q ≥ 1`; see `inverseTransform` for the check.) -/
def dequantize (p : QParams F) (q : Nat) (c : Nat) (k : Int) : F :=
  add (dequantizeFloat (div p.range (ofInt (maxQuantizedValue q))) k) (minOf p c)

/-- row of `GeneratePortableAttribute` -/
def quantizeRow (p : QParams F) (q : Nat) (row : List F) : List Int :=
  go 0 row
where
  go (c : Nat) : List F → List Int
    | [] => []
    | x :: xs => quantize p q c x :: go (c+1) xs

/-- `GeneratePortableAttribute` (identity point → value map) -/
def generatePortable (p : QParams F) (q : Nat) (values : List (List F)) : List (List Int) :=
  values.map (quantizeRow p q)

def dequantizeRow (p : QParams F) (q : Nat) (row : List Int) : List F :=
  go 0 row
where
  go (c : Nat) : List Int → List F
    | [] => []
    | k :: ks => dequantize p q c k :: go (c+1) ks

/-- `InverseTransformAttribute` (float32 target): fails when `Dequantizer::Init` fails -/
def inverseTransform (p : QParams F) (q : Nat) (ks : List (List Int)) : Option (List (List F)) :=
  match dequantizerInit p.range (maxQuantizedValue q) with
  | none => none
  | some _ => some (ks.map (dequantizeRow p q))

/-! ### ComputeParameters -/

/-- body of the scan loop for one component:
    `if (isnan(v)) return false; if (min > v) min = v; if (max < v) max = v;` -/
def scanComp (mn mx v : F) : Option (F × F) :=
  if isNaN v then none
  else some (if lt v mn then v else mn, if lt mx v then v else mx)

/-- inner loop `for c in 0 .. num_components` -/
def scanRow : List F → List F → List F → Option (List F × List F)
  | mn :: mns, mx :: mxs, v :: vs =>
    match scanComp mn mx v with
    | none => none
    | some (a, b) =>
      match scanRow mns mxs vs with
      | none => none
      | some (as, bs) => some (a :: as, b :: bs)
  | _, _, _ => some ([], [])

/-- outer loop `for i in 1 .. attribute.size()` -/
def scanRows (mn mx : List F) : List (List F) → Option (List F × List F)
  | [] => some (mn, mx)
  | v :: rest =>
    match scanRow mn mx v with
    | none => none
    | some (mn', mx') => scanRows mn' mx' rest

/-- final loop: NaN/Inf rejection and `range_ = max(range_, max[c] - min[c])` -/
def finalRange : List F → List F → F → Option F
  | mn :: mns, mx :: mxs, r =>
    if isNaN mn || isInf mn || isNaN mx || isInf mx then none
    else
      let dif := sub mx mn
      finalRange mns mxs (if lt r dif then dif else r)
  | _, _, r => some r

/-- `AttributeQuantizationTransform::ComputeParameters` (the part that does not depend on
    `quantization_bits`; the C++ additionally returns `false` when
    `!IsQuantizationValid(quantization_bits)` or when the transform is already initialised).
    `values` are the attribute values in `AttributeValueIndex` order, each of
    `numComponents` floats. The C++ reads value 0 unconditionally; an empty attribute is
    outside its domain and is mapped to `none` here. Note that value 0 is not tested by the
    `isnan` of the loop — it is caught by the final test because a NaN minimum never changes. -/
def computeParameters (numComponents : Nat) (values : List (List F)) : Option (QParams F) :=
  match values with
  | [] => none
  | first :: rest =>
    let v0 := first.take numComponents
    match scanRows v0 v0 rest with
    | none => none
    | some (mn, mx) =>
      match finalRange mn mx (zero : F) with
      | none => none
      | some r => some { minValues := mn, range := if eq r (zero : F) then (one : F) else r }

/-- `ComputeParameters(attribute, quantization_bits)` including the bit-count check -/
def computeParametersQ (numComponents : Nat) (q : Int) (values : List (List F)) :
    Option (QParams F × Nat) :=
  if isQuantizationValid q then
    match computeParameters numComponents values with
    | none => none
    | some p => some (p, q.toNat)
  else none

/-- `AttributeQuantizationTransform::SetParameters` -/
def setParameters (q : Int) (minValues : List F) (range : F) : Option (QParams F × Nat) :=
  if isQuantizationValid q then some ({ minValues := minValues, range := range }, q.toNat)
  else none

/-! ### parameter (de)serialisation -/

/-- `EncoderBuffer::Encode(float)`: 4 bytes little endian -/
def encodeFloat (x : F) : Bytes := writeLE 4 (toBits x)

/-- `AttributeQuantizationTransform::EncodeParameters`:
    `min_values_` (4·n bytes), `range_` (4 bytes), `uint8_t(quantization_bits_)`. -/
def encodeParameters (p : QParams F) (q : Nat) : Bytes :=
  p.minValues.flatMap encodeFloat ++ encodeFloat p.range ++ [q % 256]

def decodeFloats : Nat → Rd (List F)
  | 0 => fun bs => some ([], bs)
  | n+1 => fun bs =>
    match readLE 4 bs with
    | none => none
    | some (v, rest) =>
      match decodeFloats n rest with
      | none => none
      | some (vs, rest') => some ((ofBits v : F) :: vs, rest')

/-- `AttributeQuantizationTransform::DecodeParameters` -/
def decodeParameters (numComponents : Nat) : Rd (QParams F × Nat) := fun bs =>
  match decodeFloats (F := F) numComponents bs with
  | none => none
  | some (mins, rest) =>
    match readLE 4 rest with
    | none => none
    | some (r, rest') =>
      match readU8 rest' with
      | none => none
      | some (q, rest'') =>
        if isQuantizationValid q then
          some (({ minValues := mins, range := (ofBits r : F) }, q), rest'')
        else none

/-! ### bit-pattern front end over `Float32` for the line-protocol driver -/

def f32 (n : Nat) : Float32 := FloatOps.ofBits n
def bitsOfF32 (x : Float32) : Nat := FloatOps.toBits x

def paramsOfBits (mins : List Nat) (range : Nat) : QParams Float32 :=
  { minValues := mins.map f32, range := f32 range }

/-- `ComputeParameters` on bit patterns: `(min patterns, range pattern)` -/
def computeParametersBits (numComponents : Nat) (values : List (List Nat)) :
    Option (List Nat × Nat) :=
  match computeParameters numComponents (values.map (·.map f32)) with
  | none => none
  | some p => some (p.minValues.map bitsOfF32, bitsOfF32 p.range)

def quantizeBits (mins : List Nat) (range : Nat) (q c : Nat) (x : Nat) : Int :=
  quantize (paramsOfBits mins range) q c (f32 x)

def dequantizeBits (mins : List Nat) (range : Nat) (q c : Nat) (k : Int) : Nat :=
  bitsOfF32 (dequantize (paramsOfBits mins range) q c k)

/-- raw `Quantizer(range, maxq).QuantizeFloat(val)` on bit patterns -/
def quantizeFloatBits (range : Nat) (maxQ : Int) (val : Nat) : Int :=
  quantizeFloat (quantizerInit (f32 range) maxQ) (f32 val)

/-- raw `Quantizer(delta).QuantizeFloat(val)` on bit patterns -/
def quantizeFloatDeltaBits (delta : Nat) (val : Nat) : Int :=
  quantizeFloat (quantizerInitDelta (f32 delta)) (f32 val)

/-- raw `Dequantizer(range, maxq).DequantizeFloat(k)` on bit patterns -/
def dequantizeFloatBits (range : Nat) (maxQ : Int) (k : Int) : Option Nat :=
  match dequantizerInit (f32 range) maxQ with
  | none => none
  | some d => some (bitsOfF32 (dequantizeFloat d k))

/-- raw `Dequantizer(delta).DequantizeFloat(k)` on bit patterns -/
def dequantizeFloatDeltaBits (delta : Nat) (k : Int) : Nat :=
  bitsOfF32 (dequantizeFloat (f32 delta) k)

end Quant
end Draco
