import DracoModel.Basic
/-
  Array based corner tables as the Edgebreaker decoder uses them:
    mesh/corner_table.h            (Reset, Opposite, Next, Previous, Vertex, LeftMostCorner,
                                    SwingLeft/Right, SetOppositeCorner, MapCornerToVertex,
                                    SetLeftMostCorner, MakeVertexIsolated, AddNewVertex)
    mesh/mesh_attribute_corner_table.h  (the view with seam edges removed)

  Index types are `uint32_t` in the C++ (`kInvalid…Index = 0xFFFFFFFF`); they are `Nat` here with
  the same invalid value `inv`, so that comparisons such as `opp_face_id < src_face_id` agree.

  Every array access of the C++ is unchecked (`IndexTypeVector::operator[]`, `std::vector::
  operator[]`).  The model performs the access through `rd` / `wr`, which report an out-of-range
  index as `Err.ub`: the behaviour of the C++ is then undefined and the model does not guess
  (the driver prints `unsupported ub:<site>`).
-/
namespace Draco.Eb

/-- `kInvalidCornerIndex`, `kInvalidVertexIndex`, `kInvalidFaceIndex`,
    `kInvalidAttributeValueIndex` -/
def inv : Nat := 4294967295

inductive Err where
  /-- the C++ function returns `false` / `-1` -/
  | fail
  /-- the C++ would read or write out of bounds / overflow a signed integer at `site` -/
  | ub (site : String)
  /-- a loop bound of the model is exhausted (the C++ loop runs longer than any loop on a
      consistent table can) -/
  | fuel (site : String)
  /-- feature outside the model -/
  | unsupported (what : String)
deriving Repr, BEq, DecidableEq

abbrev R := Except Err

/-- `throw` at the fixed type `R α` (monomorphic, so that the verification condition generator of
    DracoProofs can be given one specification for it) -/
@[inline] def raise {α : Type} (e : Err) : R α := Except.error e

@[inline] def rd (site : String) (a : Array Nat) (i : Nat) : R Nat :=
  if h : i < a.size then pure a[i] else throw (.ub site)

@[inline] def wr (site : String) (a : Array Nat) (i v : Nat) : R (Array Nat) :=
  if h : i < a.size then pure (a.set i v h) else throw (.ub site)

@[inline] def rdB (site : String) (a : Array Bool) (i : Nat) : R Bool :=
  if h : i < a.size then pure a[i] else throw (.ub site)

@[inline] def wrB (site : String) (a : Array Bool) (i : Nat) (v : Bool) : R (Array Bool) :=
  if h : i < a.size then pure (a.set i v h) else throw (.ub site)

@[inline] def rdI (site : String) (a : Array Int) (i : Nat) : R Int :=
  if h : i < a.size then pure a[i] else throw (.ub site)

@[inline] def wrI (site : String) (a : Array Int) (i : Nat) (v : Int) : R (Array Int) :=
  if h : i < a.size then pure (a.set i v h) else throw (.ub site)

/-- `CornerTable::Next` -/
@[inline] def nextC (c : Nat) : Nat :=
  if c == inv then inv else if c % 3 == 2 then c - 2 else c + 1

/-- `CornerTable::Previous` -/
@[inline] def prevC (c : Nat) : Nat :=
  if c == inv then inv else if c % 3 == 0 then c + 2 else c - 1

/-- `CornerTable::Opposite` on the `opposite_corners_` array -/
@[inline] def opposite (opp : Array Nat) (c : Nat) : R Nat :=
  if c == inv then pure inv else rd "CornerTable::Opposite" opp c

/-- `CornerTable::Vertex` on the `corner_to_vertex_map_` array -/
@[inline] def vertex (c2v : Array Nat) (c : Nat) : R Nat :=
  if c == inv then pure inv else rd "CornerTable::Vertex" c2v c

/-- `CornerTable::LeftMostCorner` on `vertex_corners_` (no check of the vertex id) -/
@[inline] def leftMost (vc : Array Nat) (v : Nat) : R Nat := rd "CornerTable::LeftMostCorner" vc v

/-- `CornerTable::SwingRight` -/
@[inline] def swingRight (opp : Array Nat) (c : Nat) : R Nat := do
  pure (prevC (← opposite opp (prevC c)))

/-- `CornerTable::SwingLeft` -/
@[inline] def swingLeft (opp : Array Nat) (c : Nat) : R Nat := do
  pure (nextC (← opposite opp (nextC c)))

/-- `SetLeftMostCorner`: ignored for the invalid vertex -/
@[inline] def setLeftMost (vc : Array Nat) (v c : Nat) : R (Array Nat) :=
  if v == inv then pure vc else wr "CornerTable::SetLeftMostCorner" vc v c

/-- The corner table a traverser or a prediction scheme works on: the base `CornerTable`
    (`isAtt = false`) or a `MeshAttributeCornerTable` (`isAtt = true`, seam edges cut). -/
structure TView where
  /-- `corner_to_vertex_map_` of the table itself -/
  c2v : Array Nat
  /-- `opposite_corners_` of the base table -/
  opp : Array Nat
  /-- `is_edge_on_seam_` (attribute table only) -/
  seam : Array Bool
  /-- vertex → left most corner (`vertex_corners_` / `vertex_to_left_most_corner_map_`) -/
  lm : Array Nat
  isAtt : Bool
  numFaces : Nat

namespace TView

/-- `Opposite` -/
@[inline] def opposite (t : TView) (c : Nat) : R Nat :=
  if c == inv then pure inv
  else if t.isAtt then do
    if (← rdB "MeshAttributeCornerTable::IsCornerOppositeToSeamEdge" t.seam c) then pure inv
    else rd "CornerTable::Opposite" t.opp c
  else rd "CornerTable::Opposite" t.opp c

/-- `Vertex`: the attribute table indexes its vector without the invalid-corner check -/
@[inline] def vertex (t : TView) (c : Nat) : R Nat :=
  if !t.isAtt && c == inv then pure inv else rd "Vertex" t.c2v c

@[inline] def swingRight (t : TView) (c : Nat) : R Nat := do
  pure (prevC (← t.opposite (prevC c)))

@[inline] def swingLeft (t : TView) (c : Nat) : R Nat := do
  pure (nextC (← t.opposite (nextC c)))

/-- `GetRightCorner` = `Opposite(Next(c))` (the base table returns invalid for invalid) -/
@[inline] def rightCorner (t : TView) (c : Nat) : R Nat := t.opposite (nextC c)

/-- `GetLeftCorner` = `Opposite(Previous(c))` -/
@[inline] def leftCorner (t : TView) (c : Nat) : R Nat := t.opposite (prevC c)

/-- `IsOnBoundary(vertex)` -/
@[inline] def isOnBoundary (t : TView) (v : Nat) : R Bool := do
  let c ← rd "LeftMostCorner" t.lm v
  if c == inv then pure true else
  pure ((← t.swingLeft c) == inv)

def numVertices (t : TView) : Nat := t.lm.size

end TView

end Draco.Eb
