import DracoModel.EbTable
import DracoModel.Adapters
import DracoModel.BitCoders
import Generated.Constants
/-
  Mesh prediction scheme decoders used by bitstream 2.2:
    prediction_schemes/mesh_prediction_scheme_parallelogram_decoder.h (+ _shared.h)
    prediction_schemes/mesh_prediction_scheme_constrained_multi_parallelogram_decoder.h
    prediction_schemes/mesh_prediction_scheme_tex_coords_portable_decoder.h (+ _predictor.h)
    prediction_schemes/mesh_prediction_scheme_geometric_normal_decoder.h (+ _predictor_area.h)
    core/math_utils.h (IntSqrt)
  All of them run `ComputeOriginalValues(data, data, …)` in place on the portable attribute; the
  model does the same on an `Array Int` of int32 values.  `int64_t` arithmetic that can overflow
  (undefined behaviour in C++) is reported as `Err.ub`.
-/
namespace Draco.Eb
open Draco

/-- `MeshPredictionSchemeData` -/
structure MeshData where
  t : TView
  /-- `data_to_corner_map` -/
  d2c : Array Nat
  /-- `vertex_to_data_map` -/
  v2d : Array Nat

/-- a value that has to fit `int64_t`; the C++ computation overflows otherwise -/
@[inline] def i64 (site : String) (x : Int) : R Int :=
  if x < -(2 ^ 63) || x ≥ 2 ^ 63 then throw (.ub site) else pure x

/-- `ComputeParallelogramPrediction`: `none` = returns false -/
def parallelogramPrediction (md : MeshData) (p ci : Nat) (data : Array Int) (nc : Nat) :
    R (Option (Array Int)) := do
  let oci ← md.t.opposite ci
  if oci == inv then return none
  let vOpp ← rd "vertex_to_data_map" md.v2d (← md.t.vertex oci)
  let vNext ← rd "vertex_to_data_map" md.v2d (← md.t.vertex (nextC oci))
  let vPrev ← rd "vertex_to_data_map" md.v2d (← md.t.vertex (prevC oci))
  if vOpp < p && vNext < p && vPrev < p then
    let mut out : Array Int := Array.mkEmpty nc
    for c in [0:nc] do
      let r := (← rdI "in_data" data (vNext * nc + c)) + (← rdI "in_data" data (vPrev * nc + c))
                - (← rdI "in_data" data (vOpp * nc + c))
      out := out.push (wrap32 r)
    return some out
  return none

/-- `transform().ComputeOriginalValue(pred, corr + off, out + off)` for the wrap transform;
    `pred c` is component `c` of the prediction -/
@[inline] def applyWrap (wt : Leaf.WrapT) (nc off : Nat) (pred : Nat → R Int) (data : Array Int) : R (Array Int) := do
  let mut data := data
  for c in [0:nc] do
    let v := Leaf.wrapDec wt (← pred c) (← rdI "in_corr" data (off + c))
    data ← wrI "out_data" data (off + c) v
  pure data

/-- `PredictionSchemeDeltaDecoder::ComputeOriginalValues` (wrap transform) -/
def deltaDecodeWrap (wt : Leaf.WrapT) (nc : Nat) (data : Array Int) : R (Array Int) := do
  if nc == 0 then return data
  let n := data.size / nc
  let mut data ← applyWrap wt nc 0 (fun _ => pure 0) data
  for p in [1:n] do
    let d := data
    data ← applyWrap wt nc (p * nc) (fun c => rdI "out_data" d ((p - 1) * nc + c)) data
  pure data

/-- `MeshPredictionSchemeParallelogramDecoder::ComputeOriginalValues` -/
def parallelogramDecode (md : MeshData) (wt : Leaf.WrapT) (nc : Nat) (data : Array Int) : R (Array Int × Nat) := do
  let mut data ← applyWrap wt nc 0 (fun _ => pure 0) data
  let mut used := 0
  for p in [1:md.d2c.size] do
    let corner := md.d2c[p]!
    match ← parallelogramPrediction md p corner data nc with
    | none =>
      let d := data
      data ← applyWrap wt nc (p * nc) (fun c => rdI "out_data" d ((p - 1) * nc + c)) data
    | some pv =>
      used := used + 1
      data ← applyWrap wt nc (p * nc) (fun c => rdI "pred_vals" pv c) data
  pure (data, used)

/-- `MeshPredictionSchemeConstrainedMultiParallelogramDecoder::ComputeOriginalValues`;
    `crease[i]` = `is_crease_edge_[i]` -/
def constrainedMultiDecode (md : MeshData) (wt : Leaf.WrapT) (nc : Nat) (crease : Array (Array Bool))
    (data : Array Int) : R (Array Int × Nat) := do
  let kMax := Generated.kMaxNumParallelograms.toNat
  let mut data ← applyWrap wt nc 0 (fun _ => pure 0) data
  let mut pos : Array Nat := Array.replicate kMax 0
  let ncorn := 3 * md.t.numFaces
  let mut maxPar := 0
  for p in [1:md.d2c.size] do
    let start := md.d2c[p]!
    let mut corner := start
    let mut preds : Array (Array Int) := #[]
    let mut firstPass := true
    let mut fin := false
    for _ in [0:2 * ncorn + 4] do
      if corner == inv then
        fin := true
        break
      match ← parallelogramPrediction md p corner data nc with
      | some pv =>
        preds := preds.push pv
        if preds.size == kMax then
          fin := true
          break
      | none => pure ()
      if firstPass then corner ← md.t.swingLeft corner else corner ← md.t.swingRight corner
      if corner == start then
        fin := true
        break
      if corner == inv && firstPass then
        firstPass := false
        corner ← md.t.swingRight start
    if !fin then raise (.fuel "constrained multi-parallelogram: corners of a vertex")
    let numPar := preds.size
    if numPar > maxPar then maxPar := numPar
    let mut numUsed := 0
    let mut multi : Array Int := Array.replicate nc 0
    if numPar > 0 then
      for i in [0:numPar] do
        let ctx := numPar - 1
        let ps ← rd "is_crease_edge_pos" pos ctx
        pos ← wr "is_crease_edge_pos" pos ctx (ps + 1)
        let flags := crease.getD ctx #[]
        if flags.size ≤ ps then raise .fail
        if !flags[ps]! then
          numUsed := numUsed + 1
          let pv := preds[i]!
          for j in [0:nc] do
            multi := multi.set! j (wrap32 (multi[j]! + pv[j]!))
    if numUsed == 0 then
      let d := data
      data ← applyWrap wt nc (p * nc) (fun c => rdI "out_data" d ((p - 1) * nc + c)) data
    else
      let m := multi.map fun x => Int.tdiv x numUsed
      data ← applyWrap wt nc (p * nc) (fun c => rdI "multi_pred_vals" m c) data
  pure (data, maxPar)

/-- `IntSqrt` (core/math_utils.h) on `uint64_t` -/
def intSqrt (number : Nat) : Nat :=
  if number == 0 then 0 else
    let rec est (fuel : Nat) (act sq : Nat) : Nat :=
      match fuel with
      | 0 => sq
      | fuel+1 => if act ≥ 2 then est fuel (act / 4) ((sq * 2) % 2 ^ 64) else sq
    let sq0 := est 40 number 1
    let rec newton (fuel : Nat) (sq : Nat) : Nat :=
      match fuel with
      | 0 => sq
      | fuel+1 =>
        let sq' := ((sq + number / sq) % 2 ^ 64) / 2
        if sq' == 0 then 0 else
        if (sq' * sq') % 2 ^ 64 > number then newton fuel sq' else sq'
    newton 80 sq0

/-- position of an entry as three `int64_t`: `GetPositionForEntryId` / `GetPositionForDataId` -/
structure PosSource where
  /-- `entry_to_point_id_map_` of the attribute being decoded -/
  pointIds : Array Nat
  /-- point → value index of the (portable) position attribute -/
  map : Array Nat
  /-- portable position values, three per entry -/
  values : Array Int

def PosSource.get (ps : PosSource) (dataId : Nat) : R (Int × Int × Int) := do
  let pt ← rd "entry_to_point_id_map_" ps.pointIds dataId
  let vi ← rd "pos_attribute_->mapped_index" ps.map pt
  let x ← rdI "pos_attribute_->ConvertValue" ps.values (3 * vi)
  let y ← rdI "pos_attribute_->ConvertValue" ps.values (3 * vi + 1)
  let z ← rdI "pos_attribute_->ConvertValue" ps.values (3 * vi + 2)
  pure (x, y, z)

@[inline] def iabs (x : Int) : Int := if x < 0 then -x else x
@[inline] def u64 (x : Int) : Nat := toUnsigned 64 x
@[inline] def s64 (x : Nat) : Int := toSigned 64 x

/-- `VectorD<int64_t, 3>::AbsSum` (saturating at `INT64_MAX`); no component is `INT64_MIN` -/
def absSum3 (x y z : Int) : Int :=
  let mx : Int := 2 ^ 63 - 1
  let a := iabs x
  let b := iabs y
  if a > mx - b then mx else
  let r := a + b
  let c := iabs z
  if r > mx - c then mx else r + c

/-- `VectorD<int64_t, 3>::Dot`: every product and every partial sum has to fit `int64_t` -/
def dot3 (site : String) (a b : Int × Int × Int) : R Int := do
  let p0 ← i64 site (a.1 * b.1)
  let p1 ← i64 site (a.2.1 * b.2.1)
  let s1 ← i64 site (p0 + p1)
  let p2 ← i64 site (a.2.2 * b.2.2)
  i64 site (s1 + p2)

/-- `MeshPredictionSchemeTexCoordsPortablePredictor::ComputePredictedValue<false>`:
    returns the prediction and the remaining orientations (used from the back);
    `none` = returns false -/
def texPredict (md : MeshData) (ps : PosSource) (corner : Nat) (data : Array Int) (dataId : Nat)
    (orient : Array Bool) : R (Option ((Int × Int) × Array Bool × Bool)) := do
  let nextVert ← md.t.vertex (nextC corner)
  let prevVert ← md.t.vertex (prevC corner)
  -- `vertex_to_data_map()->at()` throws when out of range
  let nextData ← rd "vertex_to_data_map()->at" md.v2d nextVert
  let prevData ← rd "vertex_to_data_map()->at" md.v2d prevVert
  if prevData < dataId && nextData < dataId then
    let nU ← rdI "data" data (2 * nextData)
    let nV ← rdI "data" data (2 * nextData + 1)
    let pU ← rdI "data" data (2 * prevData)
    let pV ← rdI "data" data (2 * prevData + 1)
    if pU == nU && pV == nV then
      return some ((pU, pV), orient, false)
    let (tx, ty, tz) ← ps.get dataId
    let (nx, ny, nz) ← ps.get nextData
    let (px, py, pz) ← ps.get prevData
    let pnx := px - nx
    let pny := py - ny
    let pnz := pz - nz
    let cnx := tx - nx
    let cny := ty - ny
    let cnz := tz - nz
    -- squared norm of pn and dot product of cn and pn with overflow checks: "cannot be predicted"
    -- (`fix:` commit 6ce8bba)
    let int64Max : Int := 2 ^ 63 - 1
    let mut pnNorm2 : Int := 0
    let mut cnDotPn : Int := 0
    for (pi, ci) in [(pnx, cnx), (pny, cny), (pnz, cnz)] do
      let a := iabs pi
      let b := iabs ci
      if a > 0xffffffff || b > 0xffffffff then return none
      let aa := a * a
      if aa > int64Max - pnNorm2 then return none
      pnNorm2 := pnNorm2 + aa
      let ab := a * b
      if ab > int64Max then return none
      let term := if (pi < 0) != (ci < 0) then -ab else ab
      if (term > 0 && cnDotPn > int64Max - term) || (term < 0 && cnDotPn < -int64Max - term) then return none
      cnDotPn := cnDotPn + term
    if pnNorm2 != 0 then
      let pnU := pU - nU
      let pnV := pV - nV
      let nUvAbsMax := max (iabs nU) (iabs nV)
      if nUvAbsMax > int64Max / pnNorm2 then return none
      let pnUvAbsMax := max (iabs pnU) (iabs pnV)
      if iabs cnDotPn > int64Max / pnUvAbsMax then return none
      let xU ← i64 "x_uv" (nU * pnNorm2 + cnDotPn * pnU)
      let xV ← i64 "x_uv" (nV * pnNorm2 + cnDotPn * pnV)
      let pnAbsMax := max (max (iabs pnx) (iabs pny)) (iabs pnz)
      if iabs cnDotPn > int64Max / pnAbsMax then return none
      let xpx := nx + Int.tdiv (cnDotPn * pnx) pnNorm2
      let xpy := ny + Int.tdiv (cnDotPn * pny) pnNorm2
      let xpz := nz + Int.tdiv (cnDotPn * pnz) pnNorm2
      let dx := tx - xpx
      let dy := ty - xpy
      let dz := tz - xpz
      let cxNorm2 ← dot3 "(tip_pos - x_pos).SquaredNorm" (dx, dy, dz) (dx, dy, dz)
      let normSquared : Int := intSqrt ((cxNorm2.toNat * pnNorm2.toNat) % 2 ^ 64)
      let cxU ← i64 "cx_uv * norm_squared" (pnV * normSquared)
      let cxV ← i64 "cx_uv * norm_squared" (-pnU * normSquared)
      if orient.isEmpty then return none
      let orientation := orient.back!
      let orient := orient.pop
      let (predU, predV) :=
        if orientation then
          (Int.tdiv (s64 ((u64 xU + u64 cxU) % 2 ^ 64)) pnNorm2,
           Int.tdiv (s64 ((u64 xV + u64 cxV) % 2 ^ 64)) pnNorm2)
        else
          (Int.tdiv (s64 ((u64 xU + 2 ^ 64 - u64 cxU) % 2 ^ 64)) pnNorm2,
           Int.tdiv (s64 ((u64 xV + 2 ^ 64 - u64 cxV) % 2 ^ 64)) pnNorm2)
      return some ((wrap32 predU, wrap32 predV), orient, true)
  -- fall back to delta coding
  let mut off := 0
  if prevData < dataId then off := prevData * 2
  if nextData < dataId then off := nextData * 2
  else
    if dataId > 0 then off := (dataId - 1) * 2
    else return some ((0, 0), orient, false)
  pure (some ((← rdI "data" data off, ← rdI "data" data (off + 1)), orient, false))

/-- `MeshPredictionSchemeTexCoordsPortableDecoder::ComputeOriginalValues` -/
def texCoordsDecode (md : MeshData) (ps : PosSource) (wt : Leaf.WrapT) (nc : Nat) (orient : Array Bool)
    (data : Array Int) : R (Array Int × Nat) := do
  if nc != 2 then raise .fail
  let mut data := data
  let mut orient := orient
  let mut used := 0
  for p in [0:md.d2c.size] do
    let corner := md.d2c[p]!
    match ← texPredict md ps corner data p orient with
    | none => raise .fail
    | some ((u, v), o, geo) =>
      orient := o
      if geo then used := used + 1
      data ← applyWrap wt 2 (2 * p) (fun c => pure (if c == 0 then u else v)) data
  pure (data, used)

/-- `MeshPredictionSchemeGeometricNormalPredictorArea::ComputePredictedValue`;
    `oneTriangle` = `ONE_TRIANGLE` mode (selectable by bitstreams < 2.2), else `TRIANGLE_AREA` -/
def normalPredict (md : MeshData) (ps : PosSource) (corner : Nat) (oneTriangle : Bool := false) : R (Int × Int × Int) := do
  let posOfCorner := fun (c : Nat) => do
    let v ← md.t.vertex c
    let d ← rd "vertex_to_data_map()->at" md.v2d v
    ps.get d
  let (cx, cy, cz) ← posOfCorner corner
  let mut n0 : Nat := 0
  let mut n1 : Nat := 0
  let mut n2 : Nat := 0
  -- VertexCornersIterator(corner_table, corner_id)
  let mut c := corner
  let mut left := true
  let mut fin := false
  for _ in [0:6 * md.t.numFaces + 4] do
    if c == inv then
      fin := true
      break
    let (ax, ay, az) ← posOfCorner (nextC (if oneTriangle then corner else c))
    let (bx, b_y, bz) ← posOfCorner (prevC (if oneTriangle then corner else c))
    let dnx := ax - cx
    let dny := ay - cy
    let dnz := az - cz
    let dpx := bx - cx
    let dpy := b_y - cy
    let dpz := bz - cz
    -- the cross product is formed in uint64_t (`fix:` commit 6ed73ff): wrap-around, no overflow
    let r0 := dny * dpz - dnz * dpy
    let r1 := dnz * dpx - dnx * dpz
    let r2 := dnx * dpy - dny * dpx
    n0 := (n0 + u64 r0) % 2 ^ 64
    n1 := (n1 + u64 r1) % 2 ^ 64
    n2 := (n2 + u64 r2) % 2 ^ 64
    -- cit.Next()
    if left then
      c ← md.t.swingLeft c
      if c == inv then
        c ← md.t.swingRight corner
        left := false
      else if c == corner then
        c := inv
    else
      c ← md.t.swingRight c
  if !fin then throw (.fuel "geometric normal: corners of a vertex")
  let x := s64 n0
  let y := s64 n1
  let z := s64 n2
  if x == -(2 ^ 63) || y == -(2 ^ 63) || z == -(2 ^ 63) then throw (.ub "std::abs(INT64_MIN)")
  -- ONE_TRIANGLE: `static_cast<int32_t>(normal.AbsSum())`
  let absSum := if oneTriangle then wrap32 (absSum3 x y z) else absSum3 x y z
  let upper : Int := 2 ^ 29
  let (x, y, z) :=
    if absSum > upper then
      let q := absSum / upper
      (Int.tdiv x q, Int.tdiv y q, Int.tdiv z q)
    else (x, y, z)
  pure (wrap32 x, wrap32 y, wrap32 z)

/-- `MeshPredictionSchemeGeometricNormalDecoder::ComputeOriginalValues`; `fd` = the
    `flip_normal_bit_decoder_`, `dec` = `ComputeOriginalValue` of the octahedron transform
    (canonicalized, or the legacy one of bitstreams < 2.2) -/
def geometricNormalDecode (md : MeshData) (ps : PosSource) (ot : OctaT)
    (dec : Int × Int → Int × Int → Int × Int) (oneTriangle : Bool) (fd : RAnsBitDec)
    (data : Array Int) : R (Array Int × Nat) := do
  let mut data := data
  let mut fd := fd
  let mut flipped := 0
  for p in [0:md.d2c.size] do
    let corner := md.d2c[p]!
    let pred ← normalPredict md ps corner oneTriangle
    let (x, y, z) := Octa.canonicalizeIntVec ot pred
    let (flip, fd') := fd.nextBit
    fd := fd'
    if flip then flipped := flipped + 1
    let v := if flip then (wrap32 (-x), wrap32 (-y), wrap32 (-z)) else (x, y, z)
    let (s, t) := Octa.intVecToCoords ot v
    let c0 ← rdI "in_corr" data (2 * p)
    let c1 ← rdI "in_corr" data (2 * p + 1)
    let (a, b) := dec (s, t) (c0, c1)
    data ← wrI "out_data" data (2 * p) a
    data ← wrI "out_data" data (2 * p + 1) b
  pure (data, flipped)

/-- `MeshPredictionSchemeMultiParallelogramDecoder::ComputeOriginalValues` (legacy scheme) -/
def multiParallelogramDecode (md : MeshData) (wt : Leaf.WrapT) (nc : Nat) (data : Array Int) : R (Array Int × Nat) := do
  let mut data ← applyWrap wt nc 0 (fun _ => pure 0) data
  let ncorn := 3 * md.t.numFaces
  let mut maxPar : Nat := 0
  for p in [1:md.d2c.size] do
    let start := md.d2c[p]!
    let mut corner := start
    let mut numPar : Nat := 0
    let mut pred : Array Int := Array.replicate nc 0
    let mut fin := false
    for _ in [0:ncorn + 2] do
      if corner == inv then
        fin := true
        break
      match ← parallelogramPrediction md p corner data nc with
      | some pv =>
        for c in [0:nc] do
          pred := pred.set! c (wrap32 (pred[c]! + pv[c]!))
        numPar := numPar + 1
      | none => pure ()
      corner ← md.t.swingRight corner
      if corner == start then corner := inv
    if !fin then raise (.fuel "multi-parallelogram: corners of a vertex")
    if numPar > maxPar then maxPar := numPar
    if numPar == 0 then
      let d := data
      data ← applyWrap wt nc (p * nc) (fun c => rdI "out_data" d ((p - 1) * nc + c)) data
    else
      let m := pred.map fun x => Int.tdiv x numPar
      data ← applyWrap wt nc (p * nc) (fun c => rdI "pred_vals" m c) data
  pure (data, maxPar)

/-- positions as `Vector3f` for the deprecated tex-coord scheme: `GetPositionForEntryId` converts
    the parent attribute's value to float -/
structure PosSourceF where
  pointIds : Array Nat
  map : Array Nat
  /-- three float32 values per entry -/
  values : Array Float32

def PosSourceF.get (ps : PosSourceF) (dataId : Nat) : R (Float32 × Float32 × Float32) := do
  let pt ← rd "entry_to_point_id_map_" ps.pointIds dataId
  let vi ← rd "pos_attribute_->mapped_index" ps.map pt
  if 3 * vi + 2 < ps.values.size then
    pure (ps.values[3 * vi]!, ps.values[3 * vi + 1]!, ps.values[3 * vi + 2]!)
  else throw (.ub "pos_attribute_->ConvertValue")

/-- `double → int` with the range test of the deprecated tex-coord decoder
    (`isnan || > INT_MAX || < INT_MIN` gives `INT_MIN`); `u` is integral when in range -/
def doubleToIntChecked (u : Float) : Int :=
  if u.isNaN || u > 2147483647.0 || u < -2147483648.0 then -2147483648 else u.toInt64.toInt

/-- `MeshPredictionSchemeTexCoordsDecoder::ComputePredictedValue` (float arithmetic of the
    deprecated scheme, evaluated on `Float32` / `Float` = the SSE single / double operations of the
    compiled library; no fused multiply-add on the baseline x86-64 target). `pre12` = bitstream < 1.2. -/
def texPredictDeprecated (md : MeshData) (ps : PosSourceF) (pre12 : Bool) (corner : Nat) (data : Array Int)
    (dataId : Nat) (orient : Array Bool) : R (Option ((Int × Int) × Array Bool)) := do
  let nextVert ← md.t.vertex (nextC corner)
  let prevVert ← md.t.vertex (prevC corner)
  let nextData ← rd "vertex_to_data_map()->at" md.v2d nextVert
  let prevData ← rd "vertex_to_data_map()->at" md.v2d prevVert
  if prevData < dataId && nextData < dataId then
    let nU := Float32.ofInt (← rdI "data" data (2 * nextData))
    let nV := Float32.ofInt (← rdI "data" data (2 * nextData + 1))
    let pU := Float32.ofInt (← rdI "data" data (2 * prevData))
    let pV := Float32.ofInt (← rdI "data" data (2 * prevData + 1))
    if pU == nU && pV == nV then
      return some ((doubleToIntChecked pU.toFloat, doubleToIntChecked pV.toFloat), orient)
    let (tx, ty, tz) ← ps.get dataId
    let (nx, ny, nz) ← ps.get nextData
    let (px, py, pz) ← ps.get prevData
    let pnx := px - nx
    let pny := py - ny
    let pnz := pz - nz
    let cnx := tx - nx
    let cny := ty - ny
    let cnz := tz - nz
    let zero : Float32 := 0
    let dot := fun (a b c x y z : Float32) => ((zero + a * x) + b * y) + c * z
    let pnNorm2 := dot pnx pny pnz pnx pny pnz
    let mut s : Float32 := 0
    let mut t : Float32 := 0
    if pre12 || pnNorm2 > 0 then
      s := dot pnx pny pnz cnx cny cnz / pnNorm2
      let ex := cnx - pnx * s
      let ey := cny - pny * s
      let ez := cnz - pnz * s
      t := (dot ex ey ez ex ey ez / pnNorm2).sqrt
    let pnU := pU - nU
    let pnV := pV - nV
    let pnus := pnU * s + nU
    let pnut := pnU * t
    let pnvs := pnV * s + nV
    let pnvt := pnV * t
    if orient.isEmpty then return none
    let orientation := orient.back!
    let orient := orient.pop
    let (u, v) := if orientation then (pnus - pnvt, pnvs + pnut) else (pnus + pnvt, pnvs - pnut)
    let fu := (u.toFloat + 0.5).floor
    let fv := (v.toFloat + 0.5).floor
    return some ((doubleToIntChecked fu, doubleToIntChecked fv), orient)
  let mut off := 0
  if prevData < dataId then off := prevData * 2
  if nextData < dataId then off := nextData * 2
  else
    if dataId > 0 then off := (dataId - 1) * 2
    else return some ((0, 0), orient)
  pure (some ((← rdI "data" data off, ← rdI "data" data (off + 1)), orient))

/-- `MeshPredictionSchemeTexCoordsDecoder::ComputeOriginalValues` -/
def texCoordsDeprecatedDecode (md : MeshData) (ps : PosSourceF) (pre12 : Bool) (wt : Leaf.WrapT) (nc : Nat)
    (orient : Array Bool) (data : Array Int) : R (Array Int) := do
  if nc != 2 then raise .fail
  let mut data := data
  let mut orient := orient
  for p in [0:md.d2c.size] do
    let corner := md.d2c[p]!
    match ← texPredictDeprecated md ps pre12 corner data p orient with
    | none => raise .fail
    | some ((u, v), o) =>
      orient := o
      data ← applyWrap wt 2 (2 * p) (fun c => pure (if c == 0 then u else v)) data
  pure data

end Draco.Eb
