import DracoModel.KdTreeRows
import DracoModel.Quantizer
/-
  The kd-tree point cloud decoder on bitstreams older than 2.3 (`DRACO_BACKWARDS_COMPATIBILITY_SUPPORTED`):
    compression/attributes/kd_tree_attributes_decoder.cc
        DecodePortableAttributes                 (returns true at once below 2.3)
        DecodeDataNeededByPortableTransforms     ("Handle old bitstream": attribute tuples, method byte,
                                                  kKdTreeQuantizationEncoding = 0 / kKdTreeIntegerEncoding = 1)
        TransformAttributesToOriginalFormat      (nothing to do: no portable attributes, no signed minima —
                                                  signed attributes are NOT converted back and
                                                  `skip_attribute_transform` has no effect)
    compression/point_cloud/algorithms/float_points_tree_decoder.{h,cc}   (DecodePointCloud,
                                                  DecodePointCloudKdTreeInternal)
    compression/point_cloud/algorithms/quantize_points_3.h                (DequantizePoints3)
    compression/point_cloud/point_cloud_kd_tree_decoder.cc
  including the point count checks of the fixes 0596d06 (the attribute block's count must equal the
  header's), d17d15d (the float tree's count is checked also against a header count of 0),
  c9df685 (integer tree: the declared count is the iterator limit and the decoded count must equal
  it), 63027a3 (float tree: the embedded integer tree is limited by the tree's count and its
  failure is a failure).
-/
namespace Draco
namespace Kd
open DecM

/-- the tuple loop of the old bitstream branch: every data type of at most 4 bytes is taken as it
    is (`data_size > 4` → false); nothing is read -/
def classifyLegacy : List AttDesc → Nat → Option (List KdAtt × Nat)
  | [], dim => some ([], dim)
  | d :: ds, dim =>
    if dataTypeLength d.dataType > 4 then none else
    match classifyLegacy ds (dim + d.numComponents) with
    | none => none
    | some r => some (⟨d, 0, dim, dataTypeLength d.dataType⟩ :: r.1, r.2)

/-- `DynamicIntegerPointsKdTreeDecoder<level>(dimension)`: `p_`, `axes_`, `base_stack_`, `levels_stack_` -/
def allocTreeDecoder (dim : Nat) : DecM Unit := do
  alloc "kd_tree_decoder.p" (4 * dim)
  alloc "kd_tree_decoder.axes" (4 * dim)
  alloc "kd_tree_decoder.base_stack" ((32 * dim + 1) * (24 + 4 * dim))
  alloc "kd_tree_decoder.levels_stack" ((32 * dim + 1) * (24 + 4 * dim))

/-- `PointAttributeVectorOutputIterator(atts)`: `memory_.resize(max data_size * num_components)` -/
def allocOutputIterator (kas : List KdAtt) : DecM Unit :=
  alloc "kd_tree.output_iterator.memory" (kas.foldl (fun m ka => max m (ka.dataSize * ka.desc.numComponents)) 0)

/-- `attr->Reset(num_points)` of every attribute -/
def resetAll (numPoints : Nat) : List KdAtt → DecM Unit
  | [] => pure ()
  | ka :: kas => do
    alloc "attribute.Reset" (numPoints * (ka.dataSize * ka.desc.numComponents))
    resetAll numPoints kas

/-- the value bytes of one decoded point in one attribute: `SetAttributeValue(avi, data_source)` -/
def legacyRowBytes (ka : KdAtt) (p : List Nat) : Bytes := (attRow ka p).flatMap (writeLE ka.dataSize)

/-- `kKdTreeIntegerEncoding`: compression level, the attribute block's point count (0596d06), the
    attributes reset to it, `DynamicIntegerPointsKdTreeDecoder<level>(total_dimensionality)` limited
    by and checked against that count (c9df685) -/
def decodeLegacyInt (legacy : Bool) (numPoints : Nat) (kas : List KdAtt) (dim : Nat) :
    DecM (List Attribute) := do
  let level ← rdU8
  require (level ≤ 6)
  let np ← rdU32
  require (np == numPoints)
  resetAll np kas
  allocOutputIterator kas
  allocTreeDecoder dim
  let dp ← decodePointsL legacy level dim np
  require (dp.1 == np)
  pure (kas.map fun ka => ka.desc.toAttribute np (dp.2.flatMap (legacyRowBytes ka)))

/-- one coordinate of `DequantizePoints3`: the float32 bit pattern of
    `dequantize(int32_t(v - max_quantized_value))`, `max_quantized_value = (1u << bits) - 1`,
    `Dequantizer::Init(range, max_quantized_value)` (which fails for 0 and leaves `delta_ = 1.f`),
    `DequantizeFloat(k) = float(k) * delta_` -/
def dequant3 (rangeBits bits v : Nat) : Nat :=
  let maxQ : Nat := 2 ^ bits - 1
  let delta : Float32 :=
    match Quant.dequantizerInit (Quant.f32 rangeBits) (maxQ : Int) with
    | some d => d
    | none => FloatOps.one
  Quant.bitsOfF32 (Quant.dequantizeFloat delta (toSigned 32 ((v + 2 ^ 32 - maxQ) % 2 ^ 32)))

/-- `Point3f(x, y, z)` of one quantized point as the 12 bytes `SetAttributeValue` copies from -/
def floatPointBytes (rangeBits bits : Nat) (p : List Nat) : Bytes :=
  [p.getD 0 0, p.getD 1 0, p.getD 2 0].flatMap fun v => writeLE 4 (dequant3 rangeBits bits v)

/-- `FloatPointsTreeDecoder::DecodePointCloud`: `decoded_version`, for version 3 the method byte
    (`int8_t`, must be `KDTREE` = 1); version 2 has none; other versions are rejected -/
def floatTreeHeader : DecM Unit := do
  let v ← rdU32
  if v = 3 then do
    let m ← rdU8
    require (m == 1)
  else if v = 2 then pure ()
  else fail

/-- the embedded `DynamicIntegerPointsKdTreeDecoder<level>(3)` writing through a
    `back_insert_iterator` into `qpoints` (`reserve(num_points_)`), limited by the tree's count
    (63027a3); skipped for 0 points -/
def floatTreePoints (legacy : Bool) (level np : Nat) : DecM (List (List Nat)) :=
  if np = 0 then pure [] else do
    alloc "float_points_tree_decoder.qpoints" (12 * np)
    allocTreeDecoder 3
    let dp ← decodePointsL legacy level 3 np
    pure dp.2

/-- `FloatPointsTreeDecoder::DecodePointCloudKdTreeInternal` with `set_num_points_from_header(np)`:
    `(quantization_bits, range, qpoints)` -/
def floatTreeInternal (legacy : Bool) (headerPoints : Nat) : DecM (Nat × Nat × List (List Nat)) := do
  let qbits ← rdU32
  require (qbits ≤ 31)
  let range ← rdU32
  let np ← rdU32
  -- has_num_points_from_header_ (d17d15d: also for a header count of 0)
  require (np == headerPoints)
  let level ← rdU32
  require (level ≤ 6)
  let pts ← floatTreePoints legacy level np
  require (pts.length == np)
  pure (qbits, range, pts)

/-- `kKdTreeQuantizationEncoding` for the single three-component attribute `ka`: an unused compression
    level byte, the attribute block's point count (0596d06), `att->Reset`, the float points tree,
    `DequantizePoints3` through `operator=(const VectorD<float, 3>&)`, which copies `byte_stride`
    bytes of the three floats (the data type is not required to be DT_FLOAT32) -/
def decodeLegacyFloat (legacy : Bool) (numPoints : Nat) (ka : KdAtt) : DecM Attribute := do
  let _level ← rdU8
  let np ← rdU32
  require (np == numPoints)
  alloc "attribute.Reset" (np * (ka.dataSize * ka.desc.numComponents))
  allocOutputIterator [ka]
  floatTreeHeader
  let r ← floatTreeInternal legacy np
  pure (ka.desc.toAttribute np
    (r.2.2.flatMap fun p => (floatPointBytes r.2.1 r.1 p).take (ka.dataSize * ka.desc.numComponents)))

/-- the method dispatch of the old bitstream branch -/
def decodeLegacyMethod (legacy : Bool) (numPoints : Nat) (kas : List KdAtt) (dim : Nat) (method : Nat) :
    DecM (List Attribute) :=
  if method = 0 then
    match kas with
    | [ka] =>
      if ka.desc.numComponents = 3 then do
        let a ← decodeLegacyFloat legacy numPoints ka
        pure [a]
      else fail
    | _ => fail
  else if method = 1 then decodeLegacyInt legacy numPoints kas dim
  else fail

/-- `KdTreeAttributesDecoder::DecodeAttributes` on a bitstream older than 2.3 for the attributes
    `descs` of this decoder -/
def decodeKdAttributesLegacy (numPoints : Nat) (descs : List AttDesc) : DecM (List Attribute) := do
  alloc "kd_tree.atts" (24 * descs.length)
  match classifyLegacy descs 0 with
  | none => fail
  | some cl => do
    let ver ← version
    let method ← rdU8
    decodeLegacyMethod (decide (ver < bsVersion 2 2)) numPoints cl.1 cl.2 method

/-- `PointCloudDecoder::DecodePointAttributes` with legacy `KdTreeAttributesDecoder`s -/
def decodePointAttributesKdLegacy (numPoints : Nat) : DecM (List Attribute) := do
  let numDecoders ← rdU8
  let descss ← replicateM' numDecoders decodeAttDescs
  let attss ← mapM' (decodeKdAttributesLegacy numPoints) descss
  pure attss.flatten

/-- `PointCloudKdTreeDecoder` on a bitstream older than 2.3 -/
def decodeKdGeometryLegacy : DecM Geometry := do
  let np ← rdI32
  require (decide (0 ≤ np))
  let numPoints := np.toNat
  declare numPoints
  let atts ← decodePointAttributesKdLegacy numPoints
  pure { isMesh := false, numPoints := numPoints, faces := [], atts := atts }

end Kd
end Draco
