import DracoModel.Basic
/-  Line-protocol helpers shared by the driver's op handlers (hex, integer lists). -/
namespace Draco.Proto

def hexDigit (n : Nat) : Char :=
  if n < 10 then Char.ofNat (48 + n) else Char.ofNat (87 + n)

def hexOfBytes (bs : List Nat) : String :=
  if bs.isEmpty then "-" else
    String.ofList (bs.foldr (fun b acc => hexDigit ((b / 16) % 16) :: hexDigit (b % 16) :: acc) [])

def hexVal (c : Char) : Nat :=
  let n := c.toNat
  if 48 ≤ n ∧ n ≤ 57 then n - 48
  else if 97 ≤ n ∧ n ≤ 102 then n - 87
  else if 65 ≤ n ∧ n ≤ 70 then n - 55
  else 0

def bytesOfHexAux : List Char → List Nat → List Nat
  | a :: b :: rest, acc => bytesOfHexAux rest ((hexVal a * 16 + hexVal b) :: acc)
  | _, acc => acc.reverse

def bytesOfHex (s : String) : List Nat :=
  if s == "-" then [] else bytesOfHexAux s.toList []

def natOf (s : String) : Nat := s.toNat?.getD 0
def intOf (s : String) : Int := s.toInt?.getD 0

def intList (s : String) : List Int :=
  if s == "-" || s.isEmpty then [] else (s.splitOn ",").map intOf
def natList (s : String) : List Nat :=
  if s == "-" || s.isEmpty then [] else (s.splitOn ",").map natOf

def joinInts (l : List Int) : String :=
  if l.isEmpty then "-" else ",".intercalate (l.map toString)
def joinNats (l : List Nat) : String :=
  if l.isEmpty then "-" else ",".intercalate (l.map toString)

/-- value of a `key=value` token list -/
def kv (args : List String) (key : String) : Option String :=
  args.findSome? fun t =>
    match t.splitOn "=" with
    | [k, v] => if k == key then some v else none
    | _ => none

end Draco.Proto
