import Ops.MeshTools
/- model side of the slice G validation: same line protocol as /tmp/slice_G/cpp/g_ops.cc
   `lake env lean --run Tie/RunG.lean [check] <file>` -/
open Draco Draco.Ops

def toks (line : String) : List String := (line.trimAscii.toString.splitOn " ").filter (· ≠ "")

partial def loop (f : String → String) (h : IO.FS.Stream) (out : IO.FS.Stream) : IO Unit := do
  let line ← h.getLine
  if line.isEmpty then return ()
  out.putStrLn (f line)
  loop f h out

def main (args : List String) : IO Unit := do
  let out ← IO.getStdout
  match args with
  | [path] =>
    let hdl ← IO.FS.Handle.mk path IO.FS.Mode.read
    loop (fun l => meshToolRun (toks l)) (IO.FS.Stream.ofHandle hdl) out
  | ["check", path] =>
    let hdl ← IO.FS.Handle.mk path IO.FS.Mode.read
    loop (fun l => meshToolCheck (toks l)) (IO.FS.Stream.ofHandle hdl) out
  | _ => loop (fun l => meshToolRun (toks l)) (← IO.getStdin) out
