import DracoModel.Wrap
import DracoModel.Octahedron
/-
  Correspondence check for slice C (wrap + octahedron transforms).
  usage: lake env lean --run TieC.lean wrap.txt octa.txt float.txt
  Every line of the input files was printed by /tmp/slice_C/cpp/gen.cc from the REAL draco
  classes: "<kind> <inputs…> <outputs…>".  The model recomputes the outputs; mismatches are
  printed and counted.  Additionally the *property* (C16) is checked on the C++ outputs.
-/
open Draco

def parseInts (ws : List String) : List Int := ws.map fun w => w.toInt?.getD 0

def b2i (b : Bool) : Int := if b then 1 else 0

structure Stats where
  lines : Nat := 0
  bad : Nat := 0
  propViol : Nat := 0   -- round-trip violations of the real code (as written)
  propViolFixed : Nat := 0
  unknown : Nat := 0

def octaOf (q : Int) : OctaT := (Octa.init q.toNat).getD (Octa.ofCenter 0)

def inGridB (t : OctaT) (p : Int × Int) : Bool :=
  0 ≤ p.1 && p.1 ≤ t.maxV && 0 ≤ p.2 && p.2 ≤ t.maxV

def f32 (u : Int) : Float32 := Float32.ofBits u.toNat.toUInt32

/-- returns (expected outputs recomputed by the model, outputs printed by C++, property flags) -/
def checkLine (kind : String) (a : List Int) : Option (List Int × List Int × Bool × Bool) :=
  match kind, a with
  | "WI", [mn, mx, ok, md, mc, nc] =>
    match Wrap.init mn mx with
    | none => some ([0, 0, 0, 0], [ok, md, mc, nc], true, true)
    | some t => some ([1, t.maxDif, t.maxCorr, t.minCorr], [ok, md, mc, nc], true, true)
  | "WX", [mn, mx, orig, pred, corr, o1, o2] =>
    match Wrap.init mn mx with
    | none => none
    | some t =>
      let c := Wrap.encCorr t orig pred
      -- the transform data round trip is exercised too
      let t' := match Wrap.decodeTransformData (Wrap.encodeTransformData t) with
        | some (t', []) => t'
        | _ => t
      some ([c, Wrap.decOrig t' pred c, Wrap.decOrigFixed t' pred c, b2i (t' == t)],
            [corr, o1, o2, 1],
            o1 == orig && t.minCorr ≤ corr && corr ≤ t.maxCorr, o2 == orig)
  | "WD", [mn, mx, pred, corr, o1, o2] =>
    match Wrap.init mn mx with
    | none => none
    | some t => some ([Wrap.decOrig t pred corr, Wrap.decOrigFixed t pred corr], [o1, o2], true, true)
  | "OQ", [q, mq, m, c] =>
    let t := octaOf q
    some ([t.maxQ, t.maxV, t.center], [mq, m, c], true, true)
  | "OT", [mq, ok, q, mqv, c] =>
    let bytes := writeLE 4 (toUnsigned 32 mq) ++ writeLE 4 (toUnsigned 32 5)
    match Octa.decodeTransformData bytes with
    | some (t, []) => some ([1, t.q, t.maxQ, t.center], [ok, q, mqv, c], true, true)
    | _ => some ([0, 0, 0, 0], [ok, q, mqv, c], true, true)
  | "LT", [mq, pre, ok, q, mqv, c] =>
    let bytes := writeLE 4 (toUnsigned 32 mq) ++ (if pre == 1 then writeLE 4 77 else [])
    match Octa.legacyDecodeTransformData (pre == 1) bytes with
    | some (t, []) => some ([1, t.q, t.maxQ, t.center], [ok, q, mqv, c], true, true)
    | _ => some ([0, 0, 0, 0], [ok, q, mqv, c], true, true)
  | "OB", q :: bytes =>
    let t := octaOf q
    some ((Octa.encodeTransformData t).map Int.ofNat, bytes, true, true)
  | "OC", [q, s, t, cs, ct] =>
    let tb := octaOf q
    let r := Octa.canonicalize tb (s, t)
    some ([r.1, r.2], [cs, ct], true, true)
  | "OI", [q, s, t, is, it, ind, rc, bl] =>
    let tb := octaOf q
    let r := Octa.invertDiamond tb (s, t)
    let d := if ind == 2 then 2 else b2i (Octa.isInDiamond tb s t)
    some ([r.1, r.2, d, Octa.rotationCount (s, t), b2i (Octa.isInBottomLeft (s, t))],
          [is, it, ind, rc, bl], true, true)
  | "OM", [q, x, mm, mp] =>
    let tb := octaOf q
    some ([Octa.modMax tb x, Octa.makePositive tb x], [mm, mp], true, true)
  | "OV", [q, x, y, z, s, t] =>
    let tb := octaOf q
    let r := Octa.intVecToCoords tb (x, y, z)
    some ([r.1, r.2], [s, t], inGridB tb (s, t) && Octa.canonicalize tb (s, t) == (s, t), true)
  | "ON", [q, x, y, z, x', y', z', s, t] =>
    let tb := octaOf q
    let v := Octa.canonicalizeIntVec tb (x, y, z)
    let r := Octa.intVecToCoords tb v
    some ([v.1, v.2.1, v.2.2, r.1, r.2], [x', y', z', s, t],
          iabs x' + iabs y' + iabs z' == tb.center && inGridB tb (s, t)
            && Octa.canonicalize tb (s, t) == (s, t), true)
  | "OX", [q, os, ot, ps, pt, cs, ct, bs, bt, lcs, lct, lbs, lbt] =>
    let tb := octaOf q
    let c := Octa.encCorr tb (os, ot) (ps, pt)
    let b := Octa.decOrig tb (ps, pt) c
    let lc := Octa.legacyEncCorr tb (os, ot) (ps, pt)
    let lb := Octa.legacyDecOrig tb (ps, pt) lc
    let canon := Octa.canonicalize tb (os, ot) == (os, ot)
    -- property on the C++ outputs: canonical orig ⇒ exact round trip and corrections in [0,2c]
    let prop := !canon || ((bs, bt) == (os, ot) && inGridB tb (cs, ct))
    let lprop := !canon || ((lbs, lbt) == (os, ot) && inGridB tb (lcs, lct))
    some ([c.1, c.2, b.1, b.2, lc.1, lc.2, lb.1, lb.2], [cs, ct, bs, bt, lcs, lct, lbs, lbt],
          prop, lprop)
  | "OR", [q, ps, pt, cs, ct, bs, bt, lbs, lbt] =>
    let tb := octaOf q
    let b := Octa.decOrig tb (ps, pt) (cs, ct)
    let lb := Octa.legacyDecOrig tb (ps, pt) (cs, ct)
    some ([b.1, b.2, lb.1, lb.2], [bs, bt, lbs, lbt], true, true)
  | "FV", [q, x, y, z, s, t] =>
    let tb := octaOf q
    let r := Octa.floatVecToCoords tb (f32 x, f32 y, f32 z)
    some ([r.1, r.2], [s, t], inGridB tb (s, t) && Octa.canonicalize tb (s, t) == (s, t), true)
  | "FU", [q, s, t, x, y, z] =>
    let tb := octaOf q
    let r := Octa.coordsToUnitVector tb (s, t)
    some ([r.1.toBits.toNat, r.2.1.toBits.toNat, r.2.2.toBits.toNat], [x, y, z], true, true)
  | _, _ => none

partial def loop (h : IO.FS.Stream) (st : Stats) : IO Stats := do
  let line ← h.getLine
  if line.isEmpty then return st
  let ws := (line.trimAsciiEnd.toString.splitOn " ").filter (· ≠ "")
  match ws with
  | [] => loop h st
  | kind :: rest =>
    let a := parseInts rest
    match checkLine kind a with
    | none =>
      IO.println s!"UNKNOWN/uninitialisable line: {line.trimAsciiEnd.toString}"
      loop h { st with lines := st.lines + 1, unknown := st.unknown + 1 }
    | some (model, cpp, p1, p2) =>
      let mut st := { st with lines := st.lines + 1 }
      if model != cpp then
        if st.bad < 40 then IO.println s!"MISMATCH {line.trimAsciiEnd.toString}  model={model} cpp={cpp}"
        st := { st with bad := st.bad + 1 }
      if !p1 then
        if st.propViol < 15 then IO.println s!"PROPERTY VIOLATED by real code: {line.trimAsciiEnd.toString}"
        st := { st with propViol := st.propViol + 1 }
      if !p2 then
        if st.propViolFixed < 15 then IO.println s!"PROPERTY VIOLATED (fixed decoder / legacy): {line.trimAsciiEnd.toString}"
        st := { st with propViolFixed := st.propViolFixed + 1 }
      loop h st

def main (args : List String) : IO UInt32 := do
  let mut total : Nat := 0
  for f in args do
    let h ← IO.FS.Handle.mk f IO.FS.Mode.read
    let st ← loop (IO.FS.Stream.ofHandle h) {}
    IO.println s!"{f}: lines={st.lines} model-vs-code mismatches={st.bad} property violations (code as written)={st.propViol} (fixed wrap decoder / legacy octahedron)={st.propViolFixed} unknown={st.unknown}"
    total := total + st.bad + st.unknown
  return (if total == 0 then 0 else 1)
