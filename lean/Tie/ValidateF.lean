import DracoModel.Quantizer
/- Bit-for-bit comparison of the Float32 model against the output of /tmp/slice_F/cpp/x
   (real draco code). Usage: lake env lean --run Validate.lean out.txt -/
open Draco Draco.Quant

def isNaNBits (n : Nat) : Bool := (n / 2^23) % 256 == 255 && n % 2^23 != 0
def sameF (a b : Nat) : Bool := a == b || (isNaNBits a && isNaNBits b)
def sameFs : List Nat → List Nat → Bool
  | [], [] => true
  | a :: as, b :: bs => sameF a b && sameFs as bs
  | _, _ => false

def toks (s : String) : List Int := (s.splitOn " ").filterMap fun t => if t.isEmpty then none else t.toInt?
def chunk (n : Nat) (l : List α) : List (List α) :=
  if n == 0 then [] else
  let rec go (fuel : Nat) (l : List α) : List (List α) :=
    match fuel, l with
    | 0, _ => []
    | _, [] => []
    | f+1, l => l.take n :: go f (l.drop n)
  go l.length l

/-- check the transform/inverse/encode/decode segments shared by A and S lines -/
def checkPipeline (mins : List Nat) (range : Nat) (q nc : Nat) (vals : List Nat)
    (segs : List (List Int)) : Bool :=
  match segs with
  | [ks, decs, enc, dec] =>
    let p := paramsOfBits mins range
    let rows := chunk nc (vals.map f32)
    let ksM := (generatePortable p q rows).flatten
    let okK := ksM == ks
    -- inverse transform on the C++ ks (so that a k mismatch does not mask a decode mismatch)
    let okD := match inverseTransform p q (chunk nc ks), decs with
      | some out, 1 :: ds => sameFs (out.flatten.map bitsOfF32) (ds.map Int.toNat)
      | none, [0] => true
      | _, _ => false
    let bytes := encodeParameters p q
    -- Lean's `Float32.toBits` canonicalises NaN payloads (C++ memcpy keeps them): compare the
    -- 4-byte groups as floats up to NaN class, the trailing bit-count byte exactly
    let encB := (enc.drop 1).map Int.toNat
    let okE := enc.headD 0 == Int.ofNat bytes.length && bytes.length == encB.length &&
      sameFs ((chunk 4 (bytes.take (4*(nc+1)))).map leValue) ((chunk 4 (encB.take (4*(nc+1)))).map leValue) &&
      bytes.drop (4*(nc+1)) == encB.drop (4*(nc+1))
    let okP := match decodeParameters (F := Float32) nc bytes, dec with
      | some ((p', q'), rest), 1 :: q2 :: more =>
        q2 == q' && sameFs (p'.minValues.map bitsOfF32 ++ [bitsOfF32 p'.range]) ((more.take (nc+1)).map Int.toNat)
          && more.drop (nc+1) == [Int.ofNat rest.length]
      | none, [0] => true
      | _, _ => false
    okK && okD && okE && okP
  | _ => false

def checkLine (line : String) : Bool :=
  let segs := line.splitOn " | "
  match segs with
  | [] => false
  | hd :: rest =>
    let kind := (hd.splitOn " ").headD ""
    let h := toks ((hd.drop (kind.length)).toString)
    let rs := rest.map toks
    if kind == "A" then
      match h with
      | q :: nc :: _np :: vals =>
        let nc := nc.toNat
        let vals := vals.map Int.toNat
        let m := computeParametersQ nc q (chunk nc (vals.map f32))
        match m, rs with
        | none, [[0]] => true
        | some (p, qn), (1 :: pr) :: more =>
          let mins := p.minValues.map bitsOfF32
          let r := bitsOfF32 p.range
          sameFs (mins ++ [r]) (pr.map Int.toNat) && checkPipeline mins r qn nc vals more
        | _, _ => false
      | _ => false
    else if kind == "S" then
      match h with
      | q :: nc :: _np :: more =>
        let nc := nc.toNat
        let mins := (more.take nc).map Int.toNat
        let range := ((more.drop nc).headD 0).toNat
        let vals := (more.drop (nc+1)).map Int.toNat
        match setParameters q (mins.map f32) (f32 range), rs with
        | none, [[0]] => true
        | some (_, qn), [1] :: segs => checkPipeline mins range qn nc vals segs
        | _, _ => false
      | _ => false
    else if kind == "Q" then
      match h, rs with
      | [range, maxq, val], [[k]] => quantizeFloatBits range.toNat maxq val.toNat == k
      | _, _ => false
    else if kind == "QD" then
      match h, rs with
      | [delta, val], [[k]] => quantizeFloatDeltaBits delta.toNat val.toNat == k
      | _, _ => false
    else if kind == "D" then
      match h, rs with
      | [range, maxq, k], [[ok, b]] =>
        match dequantizeFloatBits range.toNat maxq k with
        | none => ok == 0
        | some x => ok == 1 && sameF x b.toNat
      | _, _ => false
    else if kind == "DD" then
      match h, rs with
      | [delta, k], [[b]] => sameF (dequantizeFloatDeltaBits delta.toNat k) b.toNat
      | _, _ => false
    else if kind == "P" then
      match h, rs with
      | nc :: _len :: bytes, [res] =>
        let nc := nc.toNat
        match decodeParameters (F := Float32) nc (bytes.map Int.toNat), res with
        | none, [0] => true
        | some ((p, q), rest), 1 :: q2 :: more =>
          q2 == q && sameFs (p.minValues.map bitsOfF32 ++ [bitsOfF32 p.range]) ((more.take (nc+1)).map Int.toNat)
            && more.drop (nc+1) == [Int.ofNat rest.length]
        | _, _ => false
      | _, _ => false
    else false

def main (args : List String) : IO Unit := do
  let path := args.headD "/tmp/slice_F/cpp/out.txt"
  let lines := (← IO.FS.lines path)
  let mut bad := 0
  let mut n := 0
  for l in lines do
    if l.isEmpty then continue
    n := n + 1
    if !checkLine l then
      bad := bad + 1
      if bad ≤ 15 then IO.println s!"MISMATCH: {l}"
  IO.println s!"lines {n} mismatches {bad}"
