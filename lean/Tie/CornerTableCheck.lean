import DracoModel.CornerTable
/-
  Validation driver for DracoModel.CornerTable against the real library.
    lake env lean --run CornerTableCheck.lean <inputs> <cpp_dumps>
  <inputs>    : one case per line `k a0 b0 c0 a1 b1 c1 …`        (cpp/gen.cc)
  <cpp_dumps> : canonical dump of draco::CornerTable::Create      (cpp/ct_dump.cc)
  For every case: the model's dump must equal the C++ dump, and `consistent` /
  `consistentExtra` are evaluated on the table parsed back from the C++ dump.
-/
open Draco

def parseNats (s : String) : Array Int :=
  ((s.splitOn " ").filter (· ≠ "")).toArray.map fun t => t.toInt?.getD 0

def parseFaces (a : Array Int) : Faces := Id.run do
  let k := (a.getD 0 0).toNat
  let mut fs : Faces := Array.mkEmpty k
  for i in [0:k] do
    fs := fs.push ((a.getD (1 + 3 * i) 0).toNat, (a.getD (2 + 3 * i) 0).toNat, (a.getD (3 + 3 * i) 0).toNat)
  return fs

def idx (x : Int) : Option Nat := if x < 0 then none else some x.toNat

/-- inverse of `CornerTable.dump` -/
def ofDump (a : Array Int) : CornerTable :=
  let n := (a.getD 0 0).toNat
  let nv := (a.getD 1 0).toNat
  let np := (a.getD 2 0).toNat
  let no := (a.getD 3 0).toNat
  let sl (off len : Nat) : Array Int := a.extract off (off + len)
  { cornerToVertex := (sl 4 n).map Int.toNat
    oppositeCorners := (sl (4 + n) n).map idx
    vertexCorners := (sl (4 + 2 * n) nv).map idx
    nonManifoldVertexParents := (sl (4 + 2 * n + nv) np).map Int.toNat
    numOriginalVertices := no
    numDegeneratedFaces := (a.getD (4 + 2 * n + nv + np) 0).toNat
    numIsolatedVertices := (a.getD (5 + 2 * n + nv + np) 0).toNat }

/-- coverage statistics: (cases where BreakNonManifoldEdges removed a link, cases with new
    (split) vertices, cases with a linked pair) -/
def stats (faces : Faces) : Nat × Nat × Nat :=
  let ctv0 := initCtv faces
  let o1 := (computeOppositeCorners ctv0).1
  let o2 := breakNonManifoldEdges ctv0 o1
  let st := computeVertexCorners ctv0 o2 (numVerticesOf ctv0)
  ((if o1 == o2 then 0 else 1), (if st.parents.size > 0 then 1 else 0), (if o2.any Option.isSome then 1 else 0))

/-- one case; returns (model≠cpp, cpp violates C13, cpp fails the extra checks) -/
def checkCase (i : Nat) (l o : String) (report : Nat × Nat × Nat) (cov : IO.Ref (Nat × Nat × Nat)) :
    IO (Nat × Nat × Nat) := do
  let l := l.trimAscii.toString
  let o := o.trimAscii.toString
  let faces := parseFaces (parseNats l)
  let (s1, s2, s3) := stats faces
  cov.modify fun (a, b, c) => (a + s1, b + s2, c + s3)
  let md := match CornerTable.create faces with
    | none => "NULL"
    | some ct => ct.dump
  let (mism0, bad0, badX0) := report
  let mut mism := 0
  let mut bad := 0
  let mut badX := 0
  if md ≠ o then
    mism := 1
    if mism0 < 5 then
      IO.println s!"MISMATCH case {i}: {l}\n  cpp  : {o}\n  model: {md}"
  if o ≠ "NULL" then
    let ct := ofDump (parseNats o)
    if ct.dump ≠ o then
      IO.println s!"dump/ofDump not inverse at case {i}"
    if !ct.consistent faces then
      bad := 1
      if bad0 < 5 then IO.println s!"C++ TABLE VIOLATES C13 at case {i}: {l}\n  cpp  : {o}"
    if !ct.consistentExtra faces then
      badX := 1
      if badX0 < 5 then IO.println s!"C++ table fails the extra checks at case {i}: {l}\n  cpp  : {o}"
  return (mism, bad, badX)

def main (args : List String) : IO UInt32 := do
  match args with
  | [fin, fout] =>
    let ins ← IO.FS.lines fin
    let outs ← IO.FS.lines fout
    let cov ← IO.mkRef (0, 0, 0)
    let mut mism := 0
    let mut bad := 0
    let mut badX := 0
    if ins.size ≠ outs.size then
      IO.eprintln s!"line counts differ: {ins.size} inputs, {outs.size} dumps"
      return 2
    for i in [0:ins.size] do
      let (a, b, c) ← checkCase i ins[i]! outs[i]! (mism, bad, badX) cov
      mism := mism + a
      bad := bad + b
      badX := badX + c
    let (c1, c2, c3) ← cov.get
    IO.println s!"coverage: BNME broke a link in {c1} cases, split vertices in {c2} cases, some link in {c3} cases"
    IO.println s!"cases {ins.size}  model≠cpp {mism}  cpp-violates-C13 {bad}  cpp-fails-extra {badX}"
    return (if mism + bad + badX = 0 then 0 else 1)
  | _ =>
    IO.eprintln "usage: CornerTableCheck <inputs> <cpp_dumps>"
    return 2
