import DracoModel.Metadata
import DracoModel.MetadataStack
/-
  Replays the cases printed by /tmp/slice_D/cpp/gen (real MetadataEncoder / MetadataDecoder)
  through the model and compares bytes, status and decoded trees.

    lake env lean --run ValidateMetadata.lean /tmp/slice_D/cpp/cases.txt [fixed]

  With `fixed` the file is expected to come from the *patched* C++ and is compared with
  `encodeMetadataStatusFixed` / `decodeMetadataFixed` (bytes are only compared when the
  status is true: a failing patched encoder leaves unspecified partial output).
-/
open Draco

def hexVal (c : Char) : Nat :=
  if c.isDigit then c.toNat - '0'.toNat else c.toNat - 'a'.toNat + 10

def parseHex (s : String) : Bytes :=
  if s == "-" then [] else
    let rec go : List Char → List Nat
      | a :: b :: t => (hexVal a * 16 + hexVal b) :: go t
      | _ => []
    go s.toList

def hexDigit (n : Nat) : Char := "0123456789abcdef".toList.getD n '?'

def toHex (bs : Bytes) : String :=
  if bs.isEmpty then "-" else
    String.ofList (bs.foldr (fun b acc => hexDigit (b / 16) :: hexDigit (b % 16) :: acc) [])

partial def dumpM : Metadata → String
  | .mk es ss =>
    "{" ++ ",".intercalate (es.map fun e => toHex e.1 ++ ":" ++ toHex e.2) ++ "|" ++
      ",".intercalate (ss.map fun s => toHex s.1 ++ ":" ++ dumpM s.2) ++ "}"

def dumpG (g : GeometryMetadata) : String :=
  "[" ++ ",".intercalate (g.atts.map fun a => toString a.1 ++ ":" ++ dumpM a.2) ++ "]" ++
    dumpM g.root

/-- strictly ascending names -/
def sortedKeysB {α : Type} : List (Bytes × α) → Bool
  | a :: b :: t => bytesLt a.1 b.1 && sortedKeysB (b :: t)
  | _ => true

partial def canonicalB : Metadata → Bool
  | .mk es ss => sortedKeysB es && sortedKeysB ss && ss.all fun s => canonicalB s.2

/-- replay of the API calls; returns the object, the next token index and whether every
    `AddSubMetadata` return value agreed with the C++ -/
partial def parseM (t : Array String) (i : Nat) : Metadata × Nat × Bool := Id.run do
  -- t[i] = "M"
  let ne := t[i+1]!.toNat!
  let mut i := i + 2
  let mut m := Metadata.empty
  let mut ok := true
  for _ in [0:ne] do
    -- "E" kind name value
    m := m.addEntry (parseHex t[i+2]!) (parseHex t[i+3]!)
    i := i + 4
  let ns := t[i]!.toNat!
  i := i + 1
  for _ in [0:ns] do
    -- "S" name accepted M
    let name := parseHex t[i+1]!
    let accepted := t[i+2]! == "1"
    let (sub, j, ok') := parseM t (i + 3)
    ok := ok && ok'
    i := j
    match m.addSub name sub with
    | none => if accepted then ok := false
    | some m' => if accepted then m := m' else ok := false
  return (m, i, ok)

def parseG (t : Array String) (i : Nat) : GeometryMetadata × Bool := Id.run do
  let na := t[i+1]!.toNat!
  let mut i := i + 2
  let mut atts : Array (Nat × Metadata) := #[]
  let mut ok := true
  for _ in [0:na] do
    let id := t[i+1]!.toNat!
    let (m, j, ok') := parseM t (i + 2)
    atts := atts.push (id, m)
    ok := ok && ok'
    i := j
  let (root, _, ok') := parseM t i
  return ({ atts := atts.toList, root := root }, ok && ok')

def decLine {α} (r : Option (α × Bytes)) (dump : α → String) : String :=
  match r with
  | none => "DEC 0 -1 -"
  | some (x, rest) => s!"DEC 1 {rest.length} {dump x}"

structure Stats where
  cases : Nat := 0
  fuzz : Nat := 0
  mismatches : Nat := 0
  roundtrips : Nat := 0

def main (args : List String) : IO UInt32 := do
  let path := args.headD "/tmp/slice_D/cpp/cases.txt"
  let fixed := args.getD 1 "" == "fixed"
  let decM : Rd Metadata := if fixed then decodeMetadataFixed else decodeMetadata
  let decG : Rd GeometryMetadata :=
    if fixed then decodeGeometryMetadataFixed else decodeGeometryMetadata
  let lines := (← IO.FS.lines path)
  let mut st : Stats := {}
  let mut i := 0
  let report (name what exp got : String) : IO Unit :=
    IO.println s!"MISMATCH {name} {what}\n  c++  : {exp.take 300}\n  model: {got.take 300}"
  while i < lines.size do
    let l := lines[i]!
    if l.startsWith "CASE " then
      let hdr := l.splitOn " "
      let kind := hdr[1]!
      let name := hdr[2]!
      let ops := (lines[i+1]!.splitOn " ").toArray
      let tree := (lines[i+2]!.drop 5).toString
      let encL := lines[i+3]!.splitOn " "
      let decL := lines[i+4]!
      let encStatus := encL[1]! == "1"
      let encBytes := parseHex encL[2]!
      st := { st with cases := st.cases + 1 }
      if kind == "M" then
        let (m, _, ok) := parseM ops 1
        if !ok then
          report name "AddSubMetadata return values" "" ""; st := { st with mismatches := st.mismatches + 1 }
        if dumpM m != tree then
          report name "TREE" tree (dumpM m); st := { st with mismatches := st.mismatches + 1 }
        if !canonicalB m then
          report name "not canonical" "" ""; st := { st with mismatches := st.mismatches + 1 }
        let status := if fixed then encodeMetadataStatusFixed m else encodeMetadataStatus m
        if status != encStatus then
          report name "ENC status" (toString encStatus) (toString status)
          st := { st with mismatches := st.mismatches + 1 }
        let bytes := encodeMetadata m
        if (!fixed || status) && bytes != encBytes then
          report name "ENC bytes" (toHex encBytes) (toHex bytes)
          st := { st with mismatches := st.mismatches + 1 }
        let got := decLine (decM (encBytes ++ [0xab, 0xcd])) dumpM
        if got != decL then
          report name "DEC" decL got; st := { st with mismatches := st.mismatches + 1 }
        let gotI := decLine (decodeMetadataIter fixed (encBytes ++ [0xab, 0xcd])) dumpM
        if gotI != decL then
          report name "DEC (stack machine)" decL gotI; st := { st with mismatches := st.mismatches + 1 }
        if decL == s!"DEC 1 2 {tree}" then st := { st with roundtrips := st.roundtrips + 1 }
      else
        let (g, ok) := parseG ops 1
        if !ok then
          report name "AddSubMetadata return values" "" ""; st := { st with mismatches := st.mismatches + 1 }
        if dumpG g != tree then
          report name "TREE" tree (dumpG g); st := { st with mismatches := st.mismatches + 1 }
        let status :=
          if fixed then encodeGeometryMetadataStatusFixed g else encodeGeometryMetadataStatus g
        if status != encStatus then
          report name "ENC status" (toString encStatus) (toString status)
          st := { st with mismatches := st.mismatches + 1 }
        let bytes := encodeGeometryMetadata g
        if (!fixed || status) && bytes != encBytes then
          report name "ENC bytes" (toHex encBytes) (toHex bytes)
          st := { st with mismatches := st.mismatches + 1 }
        let got := decLine (decG (encBytes ++ [0xab, 0xcd])) dumpG
        if got != decL then
          report name "DEC" decL got; st := { st with mismatches := st.mismatches + 1 }
        if decL == s!"DEC 1 2 {tree}" then st := { st with roundtrips := st.roundtrips + 1 }
      i := i + 5
    else if l.startsWith "FUZZ " then
      let f := l.splitOn " "
      let bytes := parseHex f[2]!
      let decL := lines[i+1]!
      let got :=
        if f[1]! == "M" then decLine (decM bytes) dumpM else decLine (decG bytes) dumpG
      st := { st with fuzz := st.fuzz + 1 }
      if f[1]! == "M" && decLine (decodeMetadataIter fixed bytes) dumpM != decL then
        report s!"fuzz@{i+1}" ("DEC (stack machine) of " ++ f[2]!) decL ""
        st := { st with mismatches := st.mismatches + 1 }
      if got != decL then
        report s!"fuzz@{i+1}" ("DEC of " ++ f[2]!) decL got
        st := { st with mismatches := st.mismatches + 1 }
      i := i + 2
    else
      IO.println s!"unexpected line {i+1}: {l.take 80}"
      i := i + 1
  IO.println s!"cases={st.cases} (exact round trips: {st.roundtrips}) fuzz={st.fuzz} mismatches={st.mismatches}"
  return (if st.mismatches == 0 then 0 else 1)
