import DracoModel.IO.Stl
import DracoModel.IO.Ply
import DracoModel.IO.ObjText
import DracoModel.IO.Check
/- Model side of the slice-H validation: reads the same op lines as /tmp/slice_H/cpp/fmt_harness
   and prints the same output format.  Usage: lake env lean --run Tie/ValidateH.lean ops.txt -/
open Draco Draco.IO Draco.Proto

def geomOut (r : Res Geometry) : String :=
  match r with
  | .ok g => g.toText
  | .error .reject => "ERR"
  | .error .unsupported => "ERR:unsupported"
  | .error .ub => "ERR:ub"

def bytesOfString (s : String) : Bytes := s.toUTF8.toList.map (·.toNat)
def stringOfBytes (bs : Bytes) : String := String.ofList (bs.map Char.ofNat)

def handle (args : List String) : String :=
  match args with
  | "stl_rt" :: rest =>
    match Geometry.ofTokens rest with
    | none => "bad"
    | some (g, _) =>
      match Stl.encodeE g with
      | .error e => geomOut (.error e) ++ " | " ++ geomOut (.error e)
      | .ok bs => hexOfBytes bs ++ " | " ++ geomOut (Stl.decodeE bs)
  | "ply_rt" :: am :: rest =>
    match Geometry.ofTokens rest with
    | none => "bad"
    | some (g, _) =>
      match Ply.encodeE g with
      | .error e => geomOut (.error e) ++ " | " ++ geomOut (.error e)
      | .ok bs => hexOfBytes bs ++ " | " ++ geomOut (Ply.decodeE (am == "1") bs)
  | "obj_rt" :: am :: rest =>
    match Geometry.ofTokens rest with
    | none => "bad"
    | some (g, _) =>
      match Obj.encodeE Obj.f32Codec g with
      | .error e => geomOut (.error e) ++ " | " ++ geomOut (.error e)
      | .ok ls =>
        let text := Obj.render ls
        -- decode from the records themselves and, independently, from the re-lexed text
        let d1 := geomOut (Obj.decodeE Obj.f32Codec (am == "1") ls)
        let d2 := geomOut (Obj.decodeE Obj.f32Codec (am == "1") (Obj.lex text))
        hexOfBytes (bytesOfString text) ++ " | " ++ (if d1 == d2 then d1 else s!"LEXMISMATCH {d1} /// {d2}")
  | "check" :: rest =>
    match Geometry.ofTokens rest with
    | none => "bad"
    | some (g, _) =>
      let r (b : Nat) : Nat := (Obj.f32Codec.parse (Obj.f32Codec.print b)).getD 0
      s!"stl={checkStl g} ply={checkPly g} objExact={checkObjMesh exactCodec id g} objText={checkObjMesh Obj.f32Codec r g} objPoints={checkObjPoints exactCodec g}"
  | ["codec", b] =>
    let n := natOf b
    s!"{checkCodecBits n} {codecExact n}"
  | ["stl_dec", h] => geomOut (Stl.decodeE (bytesOfHex h))
  | ["ply_dec", am, h] => geomOut (Ply.decodeE (am == "1") (bytesOfHex h))
  | ["obj_dec", am, h] => geomOut (Obj.decodeE Obj.f32Codec (am == "1") (Obj.lex (stringOfBytes (bytesOfHex h))))
  | _ => "bad-op"

partial def loop (h : IO.FS.Stream) (out : IO.FS.Stream) : IO Unit := do
  let line ← h.getLine
  if line.isEmpty then return ()
  let args := (line.trimAscii.toString.splitOn " ").filter (· ≠ "")
  out.putStrLn (if args.isEmpty then "" else handle args)
  loop h out

def main (args : List String) : IO Unit := do
  let out ← IO.getStdout
  match args with
  | [path] =>
    let hdl ← IO.FS.Handle.mk path IO.FS.Mode.read
    loop (IO.FS.Stream.ofHandle hdl) out
  | _ => loop (← IO.getStdin) out
