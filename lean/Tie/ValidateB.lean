import DracoModel
import Generated.FastDivTab
/-
  Differential test driver for slice B: reads the vectors printed by /tmp/slice_B/cpp/gen
  (real draco code) and replays them through the model.
    ENC|kind|ops|hex                          model encoder must produce `hex`
    DEC|kind|legacy|hexinput|reqs|result      model decoder must produce `result`
-/
open Draco

def hexVal (c : Char) : Nat :=
  if c.isDigit then c.toNat - '0'.toNat else c.toNat - 'a'.toNat + 10

def parseHex (s : String) : Bytes :=
  let rec go : List Char → List Nat → List Nat
    | a :: b :: r, acc => go r ((hexVal a * 16 + hexVal b) :: acc)
    | _, acc => acc.reverse
  go s.toList []

def natOfChars (cs : List Char) : Nat := cs.foldl (fun a c => a * 10 + (c.toNat - '0'.toNat)) 0

def parseOp (s : String) : BitOp :=
  if s == "b0" then .bit false else if s == "b1" then .bit true else
    let cs := s.toList.drop 1
    .lsb32 (natOfChars (cs.takeWhile (· != ':'))) (natOfChars ((cs.dropWhile (· != ':')).drop 1))

def parseReq (s : String) : BitReq :=
  if s == "b" then .bit else .lsb32 (natOfChars (s.toList.drop 1))

def splitList (s : String) : List String := if s.isEmpty then [] else s.splitOn ","

def tab := Generated.fastdivTab

def showVals (pos : Nat) (vs : List String) : String :=
  toString pos ++ ":" ++ ",".intercalate vs

def optStr : Option Nat → String
  | none => "x"
  | some v => toString v

/-- bit mode of the buffers: all ops are `PutBits(value, nbits)` -/
def opBits : BitOp → List Bool
  | .bit b => [b]
  | .lsb32 n v => bitsOf n v

def reqWidth : BitReq → Nat
  | .bit => 1
  | .lsb32 n => n

def runGetBits : List BitReq → BitReader → List String → List String × BitReader
  | [], r, acc => (acc.reverse, r)
  | q :: qs, r, acc =>
    match r.getBits (reqWidth q) with
    | none => runGetBits qs r ("x" :: acc)
    | some (v, r') => runGetBits qs r' (toString v :: acc)

def decodeBitsMode (legacy withSize : Bool) (reqs : List BitReq) (bs : Bytes) : String :=
  let start : Option (Nat × Bytes) :=
    if withSize then readBitRegionSize legacy bs else some (0, bs)
  match start with
  | none => "F"
  | some (size, bs1) =>
    let (vals, r) := runGetBits reqs (BitReader.start bs1) []
    let pos := bs.length - bs1.length + r.bytesDecoded
    showVals pos (toString size :: vals)

def modelEnc (kind : String) (ops : List BitOp) : Option Bytes :=
  match kind with
  | "rans" => some (ransBitEncode tab zeroProbRawFloat ops)
  | "adapt" => some (adaptiveEncode tab floatProbModel ops)
  | "direct" => some (directEncode ops)
  | "folded" => some (foldedRansEncode tab zeroProbRawFloat ops)
  | "foldedadapt" => some (foldedEncode (adaptiveEncIface tab floatProbModel) ops)
  | "bits0" => some (encBitRegion false (ops.flatMap opBits))
  | "bits1" => some (encBitRegion true (ops.flatMap opBits))
  | _ => none

def fin (total : Nat) (r : Option (List String × Bytes)) : String :=
  match r with
  | none => "F"
  | some (vs, rest) => showVals (total - rest.length) vs

def modelDec (kind : String) (legacy : Bool) (reqs : List BitReq) (bs : Bytes) : Option String :=
  let n := bs.length
  match kind with
  | "rans" => some (fin n ((ransBitDecode legacy reqs bs).map fun (v, r) => (v.map toString, r)))
  | "adapt" => some (fin n ((adaptiveDecode floatProbModel reqs bs).map fun (v, r) => (v.map toString, r)))
  | "direct" => some (fin n ((directDecode reqs bs).map fun (v, r) => (v.map optStr, r)))
  | "folded" => some (fin n ((foldedRansDecode legacy reqs bs).map fun (v, r) => (v.map toString, r)))
  | "foldedadapt" =>
    some (fin n ((foldedDecode (adaptiveDecIface floatProbModel) reqs bs).map
      fun (v, r) => (v.map toString, r)))
  | "bits0" => some (decodeBitsMode legacy false reqs bs)
  | "bits1" => some (decodeBitsMode legacy true reqs bs)
  | _ => none

def hexOf (bs : Bytes) : String :=
  let d (n : Nat) : Char := if n < 10 then Char.ofNat (48 + n) else Char.ofNat (87 + n)
  String.ofList (bs.flatMap fun b => [d (b / 16), d (b % 16)])

def clip (s : String) : String := if s.length > 300 then String.ofList (s.toList.take 300) ++ "…" else s

partial def loop (h : IO.FS.Stream) (lineNo ok bad : Nat) : IO (Nat × Nat) := do
  let line ← h.getLine
  if line.isEmpty then return (ok, bad)
  let line := String.ofList (line.toList.filter (fun c => c != '\n' && c != '\r'))
  let parts := line.splitOn "|"
  match parts with
  | ["ENC", kind, ops, hex] =>
    match modelEnc kind ((splitList ops).map parseOp) with
    | none => IO.println s!"line {lineNo}: unknown kind {kind}"; loop h (lineNo+1) ok (bad+1)
    | some out =>
      let got := hexOf out
      if got == hex then loop h (lineNo+1) (ok+1) bad
      else
        IO.println s!"line {lineNo}: ENC {kind} MISMATCH\n  ops  {clip ops}\n  c++  {clip hex}\n  lean {clip got}"
        loop h (lineNo+1) ok (bad+1)
  | ["DEC", kind, legacy, hex, reqs, res] =>
    match modelDec kind (legacy == "1") ((splitList reqs).map parseReq) (parseHex hex) with
    | none => IO.println s!"line {lineNo}: unknown kind {kind}"; loop h (lineNo+1) ok (bad+1)
    | some got =>
      if got == res then loop h (lineNo+1) (ok+1) bad
      else
        IO.println s!"line {lineNo}: DEC {kind} legacy={legacy} MISMATCH\n  in   {clip hex}\n  reqs {clip reqs}\n  c++  {clip res}\n  lean {clip got}"
        loop h (lineNo+1) ok (bad+1)
  | _ =>
    IO.println s!"line {lineNo}: unparsable"
    loop h (lineNo+1) ok (bad+1)

def main (args : List String) : IO UInt32 := do
  let h ← match args with
    | [p] => do
      let f ← IO.FS.Handle.mk p .read
      pure (IO.FS.Stream.ofHandle f)
    | _ => IO.getStdin
  let (ok, bad) ← loop h 1 0 0
  IO.println s!"validateB: {ok} lines agree, {bad} lines differ"
  return (if bad == 0 then 0 else 1)
