import Ops.Core
import Ops.Codec
