import Ops.Core
