import Ops.Core
import Ops.Codec
import Ops.Transforms
import Ops.Quant
import Ops.CornerTable
import Ops.Metadata
import Ops.BitCoders
import Ops.MeshTools
