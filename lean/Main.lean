import Ops.Core
import Ops.Codec
import Ops.Transforms
import Ops.Quant
import Ops.CornerTable
import Ops.Metadata
import Ops.BitCoders
import Ops.MeshTools
import Ops.Symbols
import Ops.E2EProps
import Ops.IO
import Ops.SeqEnc
import Ops.Options
import Ops.EncBuf
import Ops.C0506
import Ops.KdTree
import Ops.KdEnc
import Ops.Robust
import Ops.EbEnc
/- Line-protocol driver of the executable model: one op per line in, one line out. -/
open Draco

def allOps : List (String × (List String → String)) := List.flatten [
  Ops.coreOps,
  Ops.codecOps,
  Ops.transformOps,
  Ops.quantOps,
  Ops.cornerTableOps,
  Ops.metadataOps,
  Ops.bitCoderOps,
  Ops.meshToolOps,
  Ops.symbolOps,
  Ops.ioOps,
  Ops.seqEncOps,
  Ops.optionsOps,
  Ops.encBufOps,
  Ops.c0506Ops,
  Ops.kdTreeOps,
  Ops.kdEncOps,
  Ops.e2ePropsOps,
  Ops.robustOps,
  Ops.ebEncOps]

def dispatch (line : String) : String :=
  match (line.trimAscii.toString.splitOn " ").filter (· ≠ "") with
  | [] => ""
  | op :: args =>
    match allOps.lookup op with
    | some f => f args
    | none => "bad-op"

partial def loop (h : IO.FS.Stream) (out : IO.FS.Stream) : IO Unit := do
  let line ← h.getLine
  if line.isEmpty then return ()
  out.putStrLn (dispatch line)
  loop h out

def main (args : List String) : IO Unit := do
  let out ← IO.getStdout
  match args with
  | [path] =>
    let hdl ← IO.FS.Handle.mk path IO.FS.Mode.read
    loop (IO.FS.Stream.ofHandle hdl) out
  | _ => loop (← IO.getStdin) out
