import DracoProofs.Animation
import DracoProofs.AnimCodec
import DracoProofs.GeneratedTable
/-
  C20 — keyframe animations survive the codec frame by frame, track by track.

  "Encoding a keyframe animation (timestamps plus any number of keyframe tracks of any component
   count and numeric type) and decoding it returns the same number of frames in the same order,
   the timestamps and every unquantized track bit-exactly, quantized tracks within the half-step
   bound, and each track retrievable under the id it was added with."

  Mechanism: a `KeyframeAnimation` IS a `PointCloud` (frame = point, track = attribute, track
  id = attribute unique id = attribute index, timestamps pinned to id 0) and is coded by the
  sequential point-cloud codec, whose `LinearSequencer` is the identity. The value-level parts
  (bit-exact generic/integer attributes, half-step bound of quantized ones) are the attribute
  coder properties (C04, C12, C16); this file proves the parts specific to animations:

  API side — model `Anim` (DracoModel/Animation.lean), for EVERY sequence of API calls, both
  call orders, failed and repeated calls included:
    * `reachable_uid_eq_index`, `timestamps_deref_defined`   unique id = index; the unchecked
                                                     `timestamps()->size()` never meets nullptr
    * `track_id_stable`, `track_ids_distinct`        the id returned by `AddKeyframes` finds the
                                                     track for the rest of the run; ids are ≥ 1
                                                     and strictly increasing
    * `timestamps_id_zero`, `set_timestamps_twice_fails`, `frame_count_mismatch_fails`
    * `num_frames_consistent`(`_strong`)             all tracks and the timestamps have
                                                     `num_frames()` entries
  quirks of the code as written (each a concrete witness):
    * `num_components_narrowed_witness`   "any component count" is FALSE of the code: the count
      goes through `int8_t`/`uint8_t`, `AddKeyframes(dt, 256, …)` succeeds and stores a track
      with 0 components, `257` stores 1 component per frame (the rest of the data is dropped);
      `track_id_stable` therefore states `numComponents = nc % 256` and gives the data only
      for `nc < 256`
    * `frame_product_wraps_witness`       the size check multiplies in `uint32_t`: with 65536
      frames a track of 65537 components and only 65536 values is accepted (the C++ copy loop
      then reads far past the end of the caller's vector)
    * `empty_timestamps_repeatable`, `placeholder_stays_after_failed_add`
  codec side — decoder model (DracoModel/SeqDecoder.lean):
    * `decoded_frames_in_stream_order` (`decodeSequentialAttributes`, bitstream ≥ 2.0),
      `decoded_frames_in_stream_order_legacy` (< 2.0), `decoded_frames_in_stream_order_v` (the
      version dispatch `DecodePointAttributes` runs),
      `decoded_geometry_frames_in_stream_order_seq` (whole stream, sequential decoders =
      `KeyframeAnimationDecoder`), `decoded_geometry_frames_in_stream_order` (complete decoder
      `decodeGeometry` on a stream with a sequential header)
    * `att_descs_roundtrip`                          unique ids (= track ids) survive, in order
    * `track_retrievable_after_roundtrip_partial`    both sides combined
      (`track_retrievable_after_roundtrip_v_partial`: its part (b) for the version dispatch)
-/
namespace Draco
namespace C20

/-- tracks first, timestamps last: two frames, a 3-component float32 track, a 1-component int8
    track, then a second `SetTimestamps` and an inconsistent `AddKeyframes` (both fail) -/
def tracksFirst : List AnimCall :=
  [.addKeyframes 9 3 [1, 2, 3, 4, 5, 6], .addKeyframes 1 1 [7, 8], .setTimestamps [10, 11],
   .setTimestamps [12, 13], .addKeyframes 1 2 [1, 2, 3]]

/-- timestamps first -/
def timestampsFirst : List AnimCall :=
  [.setTimestamps [10, 11], .addKeyframes 9 3 [1, 2, 3, 4, 5, 6], .addKeyframes 1 1 [7, 8]]

/-! ## the attribute list: unique id = index -/

/-- In every state reachable through the public API, attribute `i` carries unique id `i`, hence
    `GetAttributeByUniqueId(k)` is attribute `k` (or `nullptr` when there is none). -/
theorem reachable_uid_eq_index (calls : List AnimCall) :
    (∀ (i : Nat) (a : AnimAttr), (Anim.empty.run calls).1.atts[i]? = some a → a.uniqueId = i) ∧
    (∀ k : Nat, (Anim.empty.run calls).1.getByUniqueId k = (Anim.empty.run calls).1.atts[k]?) :=
  ⟨Anim.run_uidIdx Anim.empty_uidIdx calls,
   fun k => Anim.getByUniqueId_of_uidIdx (Anim.run_uidIdx Anim.empty_uidIdx calls) k⟩

/-- The unchecked dereference `timestamps()->size()` in `SetTimestamps` is evaluated only when
    `num_attributes() > 0`; in every reachable state it then looks at attribute 0 (never at
    `nullptr`), which justifies `Anim.timestampsSize`. -/
theorem timestamps_deref_defined (calls : List AnimCall)
    (hne : (Anim.empty.run calls).1.atts ≠ []) :
    ∃ a, (Anim.empty.run calls).1.timestamps = some a ∧
      (Anim.empty.run calls).1.atts[0]? = some a ∧
      (Anim.empty.run calls).1.timestampsSize = a.size := by
  obtain ⟨a, ha⟩ : ∃ a, (Anim.empty.run calls).1.atts[0]? = some a := by
    cases h : (Anim.empty.run calls).1.atts with
    | nil => exact absurd h hne
    | cons x xs => exact ⟨x, rfl⟩
  have hu := Anim.run_uidIdx Anim.empty_uidIdx calls
  exact ⟨a, by unfold Anim.timestamps; rw [Anim.getByUniqueId_of_uidIdx hu, ha], ha,
    Anim.timestampsSize_of_uidIdx hu ha⟩

example : ∃ a, (Anim.empty.run tracksFirst).1.timestamps = some a ∧ a.data = [10, 11] := by
  obtain ⟨a, h1, h2, -⟩ := timestamps_deref_defined tracksFirst (by decide)
  refine ⟨a, h1, ?_⟩
  have : (Anim.empty.run tracksFirst).1.atts[0]? = some
      { uniqueId := 0, attType := 4, dataType := 9, numComponents := 1, normalized := false,
        size := 2, data := [10, 11] } := by decide
  rw [this] at h2; cases h2; rfl

/-! ## track ids -/

/-- For EVERY call sequence: if call `k` is `AddKeyframes(dt, nc, data)` and returned `id ≥ 0`,
    then in the final animation (after all later calls of either kind, failed ones and the
    `SetTimestamps` that replaces the placeholder included) `keyframes(id)` =
    `GetAttributeByUniqueId(id)` is the attribute at index `id`, and it is that track: data type
    `dt`, `nc % 256` components (the stored `uint8_t`), one entry per frame where the frame
    count is the one at the time of the call and still the final one, the entries copied from
    `data`; `id ≥ 1` (0 is the timestamps). In the range without narrowing (`nc < 256`, product
    below `2^32`) the stored component count is `nc` and the stored data is exactly `data`. -/
theorem track_id_stable (calls : List AnimCall) (k dt nc : Nat) (data : List Nat) (id : Int)
    (hcall : calls[k]? = some (.addKeyframes dt nc data))
    (hret : (Anim.empty.run calls).2[k]? = some (.id id)) (hid : 0 ≤ id) :
    ∃ a : AnimAttr,
      (Anim.empty.run calls).1.getByUniqueId id.toNat = some a ∧
      (Anim.empty.run calls).1.atts[id.toNat]? = some a ∧
      1 ≤ id ∧
      a.uniqueId = id.toNat ∧ a.attType = 4 ∧ a.dataType = dt ∧ a.numComponents = nc % 256 ∧
      a.normalized = false ∧
      a.size = (Anim.empty.run (calls.take (k + 1))).1.numFrames ∧
      a.size = (Anim.empty.run calls).1.numFrames ∧
      a.data = copyEntries nc (nc % 256) a.size data ∧
      data.length = (nc * a.size) % 2^32 ∧
      (nc < 256 → nc * a.size < 2^32 →
        a.numComponents = nc ∧ a.data = data ∧ data.length = nc * a.size) := by
  obtain ⟨hnc, h1, -, -, hlen, hnf, hatt⟩ :=
    Anim.addKeyframes_in_run Anim.empty_uidIdx calls k dt nc data id hcall hret hid
  have hu := Anim.run_uidIdx Anim.empty_uidIdx calls
  refine ⟨_, by rw [Anim.getByUniqueId_of_uidIdx hu]; exact hatt, hatt, h1, rfl, rfl, rfl, rfl,
    rfl, rfl, hnf.symm, rfl, hlen, ?_⟩
  intro h256 hprod
  have hl : data.length = nc * (Anim.empty.run (calls.take (k + 1))).1.numFrames := by
    rw [hlen]; exact Nat.mod_eq_of_lt hprod
  rw [trackAttr_of_lt _ _ _ _ _ h256 hl]
  exact ⟨rfl, rfl, hl⟩

/-- non-vacuity, tracks-first order: the first track got id 1 and is still found under it after
    the second track, the timestamps and the two failed calls -/
example : ∃ a, (Anim.empty.run tracksFirst).1.getByUniqueId 1 = some a ∧
    a.dataType = 9 ∧ a.numComponents = 3 ∧ a.data = [1, 2, 3, 4, 5, 6] ∧ a.size = 2 := by
  obtain ⟨a, h1, -, -, -, -, h2, h3, -, h4, -, -, -, h5⟩ :=
    track_id_stable tracksFirst 0 9 3 [1, 2, 3, 4, 5, 6] 1 (by decide) (by decide) (by decide)
  have hs : a.size = 2 := by rw [h4]; decide
  obtain ⟨h6, h7, -⟩ := h5 (by decide) (by rw [hs]; decide)
  exact ⟨a, h1, h2, h6, h7, hs⟩

/-- non-vacuity, timestamps-first order: the int8 track is call 2 and got id 2 -/
example : ∃ a, (Anim.empty.run timestampsFirst).1.getByUniqueId 2 = some a ∧
    a.dataType = 1 ∧ a.data = [7, 8] := by
  obtain ⟨a, h1, -, -, -, -, h2, -, -, h4, -, -, -, h5⟩ :=
    track_id_stable timestampsFirst 2 1 1 [7, 8] 2 (by decide) (by decide) (by decide)
  have hs : a.size = 2 := by rw [h4]; decide
  obtain ⟨-, h7, -⟩ := h5 (by decide) (by rw [hs]; decide)
  exact ⟨a, h1, h2, h7⟩

/-- Ids returned by different successful `AddKeyframes` calls are strictly increasing in call
    order — in particular pairwise distinct. -/
theorem track_ids_distinct (calls : List AnimCall) (k1 k2 dt1 nc1 dt2 nc2 : Nat)
    (data1 data2 : List Nat) (id1 id2 : Int) (hk : k1 < k2)
    (hcall1 : calls[k1]? = some (.addKeyframes dt1 nc1 data1))
    (hret1 : (Anim.empty.run calls).2[k1]? = some (.id id1)) (hid1 : 0 ≤ id1)
    (hcall2 : calls[k2]? = some (.addKeyframes dt2 nc2 data2))
    (hret2 : (Anim.empty.run calls).2[k2]? = some (.id id2)) (hid2 : 0 ≤ id2) :
    id1 < id2 := by
  obtain ⟨-, -, -, hlen1, -⟩ :=
    Anim.addKeyframes_in_run Anim.empty_uidIdx calls k1 dt1 nc1 data1 id1 hcall1 hret1 hid1
  obtain ⟨-, -, hle2, -⟩ :=
    Anim.addKeyframes_in_run Anim.empty_uidIdx calls k2 dt2 nc2 data2 id2 hcall2 hret2 hid2
  have := (Anim.run_take_ext Anim.empty_uidIdx calls (k1 + 1) k2 hk).len
  omega

example : (1 : Int) < 2 :=
  track_ids_distinct tracksFirst 0 1 9 3 1 1 [1, 2, 3, 4, 5, 6] [7, 8] 1 2 (by decide)
    (by decide) (by decide) (by decide) (by decide) (by decide) (by decide)

/-! ## timestamps -/

/-- After a successful `SetTimestamps(ts)` with at least one frame, `timestamps()` =
    `GetAttributeByUniqueId(0)` is the float32 single-component attribute holding `ts`, with
    `ts.length` frames, in every later state of the run (`j > k` calls performed; `j ≥
    calls.length` is the final state). -/
theorem timestamps_id_zero (calls : List AnimCall) (k : Nat) (ts : List Nat)
    (hcall : calls[k]? = some (.setTimestamps ts))
    (hret : (Anim.empty.run calls).2[k]? = some (.bool true)) (hts : ts ≠ [])
    (j : Nat) (hj : k < j) :
    (Anim.empty.run (calls.take j)).1.getByUniqueId 0 = some
      { uniqueId := 0, attType := 4, dataType := 9, numComponents := 1, normalized := false,
        size := ts.length, data := ts } ∧
    (Anim.empty.run (calls.take j)).1.numFrames = ts.length := by
  obtain ⟨h1, h2⟩ :=
    Anim.setTimestamps_in_run Anim.empty_uidIdx calls k ts hcall hret hts j hj
  refine ⟨?_, h2⟩
  rw [Anim.getByUniqueId_of_uidIdx (Anim.run_uidIdx Anim.empty_uidIdx _), h1]
  rfl

/-- non-vacuity: timestamps set by call 2 of the tracks-first sequence, looked up at the end -/
example : (Anim.empty.run tracksFirst).1.getByUniqueId 0 = some
    { uniqueId := 0, attType := 4, dataType := 9, numComponents := 1, normalized := false,
      size := 2, data := [10, 11] } :=
  (timestamps_id_zero tracksFirst 2 [10, 11] (by decide) (by decide) (by decide) 5
    (by decide)).1

/-- non-vacuity: timestamps-first order, looked up after the first track was added -/
example : (Anim.empty.run (timestampsFirst.take 2)).1.numFrames = 2 :=
  (timestamps_id_zero timestampsFirst 0 [10, 11] (by decide) (by decide) (by decide) 2
    (by decide)).2

/-- "Timestamp attribute could be added only once": after a successful `SetTimestamps` with at
    least one frame every later `SetTimestamps` returns false. -/
theorem set_timestamps_twice_fails (calls : List AnimCall) (k1 k2 : Nat) (ts1 ts2 : List Nat)
    (hk : k1 < k2) (hcall1 : calls[k1]? = some (.setTimestamps ts1))
    (hret1 : (Anim.empty.run calls).2[k1]? = some (.bool true)) (hts : ts1 ≠ [])
    (hcall2 : calls[k2]? = some (.setTimestamps ts2)) :
    (Anim.empty.run calls).2[k2]? = some (.bool false) := by
  obtain ⟨h1, -⟩ :=
    Anim.setTimestamps_in_run Anim.empty_uidIdx calls k1 ts1 hcall1 hret1 hts k2 hk
  obtain ⟨hr, -⟩ := Anim.run_split Anim.empty calls k2 _ hcall2
  rw [hr]
  have hu := Anim.run_uidIdx Anim.empty_uidIdx (calls.take k2)
  have hsz := Anim.timestampsSize_of_uidIdx hu h1
  have hne : (Anim.empty.run (calls.take k2)).1.timestampsSize ≠ 0 := by
    rw [hsz]; show ts1.length ≠ 0
    intro h; exact hts (List.length_eq_zero_iff.mp h)
  rcases (Anim.empty.run (calls.take k2)).1.setTimestamps_cases ts2 with ⟨e, -⟩ | ⟨-, eatts, -, hc⟩
  · show some (AnimRet.bool ((Anim.empty.run (calls.take k2)).1.setTimestamps ts2).2) = _
    rw [e]
  · rcases hc with h0 | ⟨h0, -⟩
    · rw [h0] at h1; simp at h1
    · exact absurd h0 hne

example : (Anim.empty.run tracksFirst).2[3]? = some (.bool false) :=
  set_timestamps_twice_fails tracksFirst 2 3 [10, 11] [12, 13] (by decide) (by decide)
    (by decide) (by decide) (by decide)

/-- Quirk, as written: an EMPTY timestamp vector leaves `timestamps()->size() == 0`, so the
    "only once" rule does not apply and `SetTimestamps` succeeds again. -/
theorem empty_timestamps_repeatable :
    (Anim.empty.run [.setTimestamps [], .setTimestamps []]).2 = [.bool true, .bool true] := by
  decide

/-- Frame-count mismatches fail in both call orders, in ANY state `A`:
    (1) `AddKeyframes` on an animation that has attributes, with `data.size()` different from the
        (`uint32_t`) product `num_components * num_frames()`, returns -1 and leaves the animation
        — all existing tracks, the timestamps, the frame count — unchanged;
    (2) the same in the range where the product does not wrap;
    (3) `SetTimestamps` on an animation that has attributes, with a different number of frames,
        returns false and leaves the animation unchanged. -/
theorem frame_count_mismatch_fails (A : Anim) (hA : A.atts ≠ []) :
    (∀ (dt nc : Nat) (data : List Nat), data.length ≠ (nc * A.numFrames) % 2^32 →
        A.addKeyframes dt nc data = (A, -1)) ∧
    (∀ (dt nc : Nat) (data : List Nat), nc * A.numFrames < 2^32 →
        data.length ≠ nc * A.numFrames → A.addKeyframes dt nc data = (A, -1)) ∧
    (∀ ts : List Nat, ts.length ≠ A.numFrames → A.setTimestamps ts = (A, false)) := by
  have h1 : ∀ (dt nc : Nat) (data : List Nat), data.length ≠ (nc * A.numFrames) % 2^32 →
      A.addKeyframes dt nc data = (A, -1) := by
    intro dt nc data hlen
    have hpf : A.preFrames nc data = A.numFrames := by unfold Anim.preFrames; simp [hA]
    rcases A.addKeyframes_cases dt nc data with ⟨-, e⟩ | ⟨-, -, e1, -, -, e2⟩ | ⟨-, e, -⟩
    · exact e
    · exact Prod.ext (e2 hA) e1
    · rw [hpf] at e; exact absurd e hlen
  refine ⟨h1, ?_, ?_⟩
  · intro dt nc data hprod hlen
    exact h1 dt nc data (by rw [Nat.mod_eq_of_lt hprod]; exact hlen)
  · intro ts hlen
    rcases A.setTimestamps_cases ts with ⟨e, -⟩ | ⟨-, -, -, hc⟩
    · exact e
    · rcases hc with h0 | ⟨-, h0⟩
      · exact absurd h0 hA
      · exact absurd h0 hlen

/-- non-vacuity: 2 frames are fixed by the first track; a 3-value 2-component track and a
    3-frame timestamp vector are both rejected and change nothing -/
example :
    (Anim.empty.run (tracksFirst.take 2)).1.addKeyframes 1 2 [1, 2, 3]
      = ((Anim.empty.run (tracksFirst.take 2)).1, -1) ∧
    (Anim.empty.run (tracksFirst.take 2)).1.setTimestamps [1, 2, 3]
      = ((Anim.empty.run (tracksFirst.take 2)).1, false) := by
  obtain ⟨h1, -, h3⟩ := frame_count_mismatch_fails (Anim.empty.run (tracksFirst.take 2)).1
    (by decide)
  exact ⟨h1 1 2 [1, 2, 3] (by decide), h3 [1, 2, 3] (by decide)⟩

/-- non-vacuity, timestamps-first order -/
example : (Anim.empty.run (timestampsFirst.take 1)).1.addKeyframes 9 3 [1, 2, 3, 4]
      = ((Anim.empty.run (timestampsFirst.take 1)).1, -1) :=
  (frame_count_mismatch_fails (Anim.empty.run (timestampsFirst.take 1)).1 (by decide)).1
    9 3 [1, 2, 3, 4] (by decide)

/-- Quirk, as written: on an animation WITHOUT attributes `AddKeyframes` reserves attribute 0
    and sets the frame count to `data.size() / num_components` before the size check; when the
    check fails (size not a multiple of the component count) the call returns -1 but the
    placeholder and the frame count stay. -/
theorem placeholder_stays_after_failed_add :
    (Anim.empty.addKeyframes 9 2 [1, 2, 3]).2 = -1 ∧
    (Anim.empty.addKeyframes 9 2 [1, 2, 3]).1.atts =
      [{ uniqueId := 0, attType := 4, dataType := 9, numComponents := 2, normalized := false,
         size := 0, data := [] }] ∧
    (Anim.empty.addKeyframes 9 2 [1, 2, 3]).1.numFrames = 1 := by
  decide

/-! ## frame counts -/

/-- In every reachable state every attribute at an index ≥ 1 (every track) has exactly
    `num_frames()` entries, and attribute 0 (timestamps or placeholder) has `num_frames()` entries
    or none. -/
theorem num_frames_consistent_strong (calls : List AnimCall) :
    (∀ (i : Nat) (a : AnimAttr), (Anim.empty.run calls).1.atts[i]? = some a → 1 ≤ i →
        a.size = (Anim.empty.run calls).1.numFrames) ∧
    (∀ a : AnimAttr, (Anim.empty.run calls).1.atts[0]? = some a →
        a.size = 0 ∨ a.size = (Anim.empty.run calls).1.numFrames) :=
  Anim.run_framesOk Anim.empty_framesOk calls

/-- In every reachable state every attribute that has entries has `num_frames()` = `num_points()`
    of them: all tracks and the timestamps have the same number of frames, so the point cloud
    handed to the sequential encoder has one value per point in every (non-placeholder)
    attribute. -/
theorem num_frames_consistent (calls : List AnimCall) (a : AnimAttr)
    (ha : a ∈ (Anim.empty.run calls).1.atts) (hsz : a.size ≠ 0) :
    a.size = (Anim.empty.run calls).1.numFrames := by
  obtain ⟨h1, h2⟩ := num_frames_consistent_strong calls
  obtain ⟨i, hi, rfl⟩ := List.getElem_of_mem ha
  rcases Nat.eq_zero_or_pos i with h0 | h0
  · subst h0
    rcases h2 _ (List.getElem?_eq_getElem hi) with h | h
    · exact absurd h hsz
    · exact h
  · exact h1 i _ (List.getElem?_eq_getElem hi) h0

example : ∀ a ∈ (Anim.empty.run tracksFirst).1.atts, a.size = 2 := by
  intro a ha
  have hs : a.size ≠ 0 := by revert a; decide
  rw [num_frames_consistent tracksFirst a ha hs]; decide

/-! ## quirks: narrowing of the component count and of the size product -/

set_option maxRecDepth 20000 in
/-- "Any component count" is FALSE of the code as written. `AddKeyframes(DT_FLOAT32, 256, data)`
    with 256 values (one frame) succeeds and returns id 1, but the stored attribute has
    `256 % 256 = 0` components and no data (`PointAttribute::Init` takes `int8_t`); the
    descriptor written for it has `num_components = 0`, which `DecodeAttributesDecoderData`
    rejects. With 257 components one component per frame is stored. -/
theorem num_components_narrowed_witness :
    (Anim.empty.addKeyframes 9 256 (List.replicate 256 7)).2 = 1 ∧
    ((Anim.empty.addKeyframes 9 256 (List.replicate 256 7)).1.getByUniqueId 1).map
        (fun a => (a.numComponents, a.size, a.data)) = some (0, 1, []) ∧
    (Anim.empty.addKeyframes 9 257 (List.replicate 257 7)).2 = 1 ∧
    ((Anim.empty.addKeyframes 9 257 (List.replicate 257 7)).1.getByUniqueId 1).map
        (fun a => (a.numComponents, a.size, a.data)) = some (1, 1, [7]) := by
  decide

/-- The size check of `AddKeyframes` multiplies in `uint32_t`: on any animation with attributes
    and 65536 frames a track declared with 65537 components and only 65536 values is accepted
    (`65537 * 65536 % 2^32 = 65536`), although 65537 · 65536 values are needed. (In C++ the copy
    loop then reads `data[i * 65537]` for `i < 65536`, far past the end of the vector.) -/
theorem frame_product_wraps_witness (A : Anim) (hA : A.atts ≠ []) (hnf : A.numFrames = 65536)
    (dt : Nat) (data : List Nat) (hlen : data.length = 65536) :
    0 ≤ (A.addKeyframes dt 65537 data).2 ∧ data.length ≠ 65537 * A.numFrames := by
  have hpf : A.preFrames 65537 data = A.numFrames := by unfold Anim.preFrames; simp [hA]
  refine ⟨?_, by rw [hnf, hlen]; decide⟩
  rcases A.addKeyframes_cases dt 65537 data with ⟨h, -⟩ | ⟨-, h, -⟩ | ⟨-, -, e, -⟩
  · cases h
  · rw [hpf, hnf, hlen] at h; exact absurd rfl h
  · rw [e]; exact Int.natCast_nonneg _

/-- non-vacuity: 65536 timestamps, then the under-sized track -/
example : 0 ≤ ((Anim.empty.setTimestamps (List.replicate 65536 0)).1.addKeyframes 9 65537
    (List.replicate 65536 0)).2 := by
  have key : ∀ ts data : List Nat, ts.length = 65536 → data.length = 65536 →
      0 ≤ ((Anim.empty.setTimestamps ts).1.addKeyframes 9 65537 data).2 := by
    intro ts data h1 h2
    rcases Anim.empty.setTimestamps_cases ts with ⟨-, h, -⟩ | ⟨-, eatts, enf, -⟩
    · exact absurd rfl h
    · exact (frame_product_wraps_witness _ (by rw [eatts]; exact List.cons_ne_nil _ _)
        (by rw [enf]; exact h1) 9 _ h2).1
  exact key _ _ List.length_replicate List.length_replicate

/-! ## codec side: the decoder keeps stream order (LinearSequencer = identity) -/

/-- a complete sequential point-cloud stream (bitstream 2.3): header, 2 points, one attributes
    decoder with two generic attributes — unique id 0: float32 × 1 (the timestamps `1.0, 2.0`),
    unique id 1: int8 × 1 (a track `7, 8`) — both coded by the generic (raw) decoder -/
def sampleStream : Bytes :=
  [68, 82, 65, 67, 79, 2, 3, 0, 0, 0, 0,   -- "DRACO" 2.3 point cloud, sequential, no flags
   2, 0, 0, 0,                             -- num_points
   1,                                      -- one attributes decoder
   2, 4, 9, 1, 0, 0, 4, 1, 1, 0, 1,        -- descriptors
   0, 0,                                   -- decoder types: generic, generic
   0, 0, 128, 63, 0, 0, 0, 64,             -- timestamps
   7, 8]                                   -- track

/-- `SequentialAttributeDecodersController` over the `LinearSequencer`: the decoded attributes
    are, position by position, the attributes whose descriptors `DecodeAttributesDecoderData`
    read — same count, same order, each with the unique id stored in the stream — and each has
    the identity point→value map and exactly `numPoints` values: value `j` of attribute `i` is
    frame `j` of the `i`-th attribute of the stream. -/
theorem decoded_frames_in_stream_order (opts : DecOpts) (numPoints : Nat) (s s' : DSt)
    (atts : List Attribute)
    (h : decodeSequentialAttributes opts numPoints s = (some atts, s')) :
    ∃ descs s1, decodeAttDescs s = (some descs, s1) ∧
      atts.map (·.uniqueId) = descs.map (·.uniqueId) ∧
      atts.length = descs.length ∧
      ∀ a ∈ atts, a.map = none ∧ a.numValues = numPoints := by
  obtain ⟨descs, s1, h1, h2, h3⟩ := decodeSequentialAttributes_shape opts numPoints s s' atts h
  refine ⟨descs, s1, h1, h2, ?_, h3⟩
  have := congrArg List.length h2
  simpa using this

/-- non-vacuity: the attribute section of the sample stream (after header, point count and
    decoder count) -/
example : ∃ atts s', decodeSequentialAttributes {} 2
      { rest := sampleStream.drop 16, version := bsVersion 2 3 } = (some atts, s') ∧
    atts.map (·.uniqueId) = [0, 1] := by
  have h : (decodeSequentialAttributes {} 2
      { rest := sampleStream.drop 16, version := bsVersion 2 3 }).1.isSome = true := by decide +kernel
  cases hr : decodeSequentialAttributes {} 2
      { rest := sampleStream.drop 16, version := bsVersion 2 3 } with
  | mk o s' =>
    cases o with
    | none => rw [hr] at h; cases h
    | some atts =>
      obtain ⟨descs, s1, h1, h2, -⟩ := decoded_frames_in_stream_order _ _ _ _ _ hr
      refine ⟨atts, s', rfl, ?_⟩
      have hd : (decodeAttDescs { rest := sampleStream.drop 16, version := bsVersion 2 3 }).1.map
          (fun ds => ds.map (·.uniqueId)) = some [0, 1] := by decide +kernel
      rw [h1] at hd
      rw [h2]; simpa using hd

/-- the attribute section of a legacy (bitstream 1.3) stream with the same content as
    `sampleStream`: `uint32_t` attribute count, the two descriptors, decoder types, raw values -/
def legacyAttSection : Bytes :=
  [2, 0, 0, 0, 4, 9, 1, 0, 0, 4, 1, 1, 0, 1, 0, 0, 0, 0, 128, 63, 0, 0, 0, 64, 7, 8]

/-- The same for the controller of bitstreams < 2.0 (`decodeSequentialAttributesLegacy`: the
    transform parameters precede the values and the values are stored while they are decoded —
    neither changes the order or the count of anything). -/
theorem decoded_frames_in_stream_order_legacy (opts : DecOpts) (numPoints : Nat) (s s' : DSt)
    (atts : List Attribute)
    (h : decodeSequentialAttributesLegacy opts numPoints s = (some atts, s')) :
    ∃ descs s1, decodeAttDescs s = (some descs, s1) ∧
      atts.map (·.uniqueId) = descs.map (·.uniqueId) ∧
      atts.length = descs.length ∧
      ∀ a ∈ atts, a.map = none ∧ a.numValues = numPoints := by
  obtain ⟨descs, s1, h1, h2, h3⟩ :=
    decodeSequentialAttributesLegacy_shape opts numPoints s s' atts h
  refine ⟨descs, s1, h1, h2, ?_, h3⟩
  have := congrArg List.length h2
  simpa using this

/-- non-vacuity: the legacy attribute section at bitstream version 1.3 -/
example : ∃ atts s', decodeSequentialAttributesLegacy {} 2
      { rest := legacyAttSection, version := bsVersion 1 3 } = (some atts, s') ∧
    atts.map (·.uniqueId) = [0, 1] := by
  have h : (decodeSequentialAttributesLegacy {} 2
      { rest := legacyAttSection, version := bsVersion 1 3 }).1.isSome = true := by decide +kernel
  cases hr : decodeSequentialAttributesLegacy {} 2
      { rest := legacyAttSection, version := bsVersion 1 3 } with
  | mk o s' =>
    cases o with
    | none => rw [hr] at h; cases h
    | some atts =>
      obtain ⟨descs, s1, h1, h2, -⟩ := decoded_frames_in_stream_order_legacy _ _ _ _ _ hr
      refine ⟨atts, s', rfl, ?_⟩
      have hd : (decodeAttDescs { rest := legacyAttSection, version := bsVersion 1 3 }).1.map
          (fun ds => ds.map (·.uniqueId)) = some [0, 1] := by decide +kernel
      rw [h1] at hd
      rw [h2]; simpa using hd

/-- … and for the controller as `DecodePointAttributes` runs it, whatever the bitstream version
    of the stream (`decodeSequentialAttributesV` dispatches on the version to one of the two
    controllers above): stream order, stored unique ids, identity map, `numPoints` values. -/
theorem decoded_frames_in_stream_order_v (opts : DecOpts) (numPoints : Nat) (s s' : DSt)
    (atts : List Attribute)
    (h : decodeSequentialAttributesV opts numPoints s = (some atts, s')) :
    ∃ descs s1, decodeAttDescs s = (some descs, s1) ∧
      atts.map (·.uniqueId) = descs.map (·.uniqueId) ∧
      atts.length = descs.length ∧
      ∀ a ∈ atts, a.map = none ∧ a.numValues = numPoints := by
  obtain ⟨descs, s1, h1, h2, h3⟩ := decodeSequentialAttributesV_shape opts numPoints s s' atts h
  refine ⟨descs, s1, h1, h2, ?_, h3⟩
  have := congrArg List.length h2
  simpa using this

/-- non-vacuity: both versions through the dispatching controller -/
example :
    (∃ atts s', decodeSequentialAttributesV {} 2
        { rest := legacyAttSection, version := bsVersion 1 3 } = (some atts, s') ∧
      atts.length = 2 ∧ ∀ a ∈ atts, a.map = none ∧ a.numValues = 2) ∧
    (∃ atts s', decodeSequentialAttributesV {} 2
        { rest := sampleStream.drop 16, version := bsVersion 2 3 } = (some atts, s') ∧
      atts.length = 2 ∧ ∀ a ∈ atts, a.map = none ∧ a.numValues = 2) := by
  have key : ∀ st : DSt, (decodeSequentialAttributesV {} 2 st).1.isSome = true →
      (decodeAttDescs st).1.map List.length = some 2 →
      ∃ atts s', decodeSequentialAttributesV {} 2 st = (some atts, s') ∧
        atts.length = 2 ∧ ∀ a ∈ atts, a.map = none ∧ a.numValues = 2 := by
    intro st h hd
    cases hr : decodeSequentialAttributesV {} 2 st with
    | mk o s' =>
      cases o with
      | none => rw [hr] at h; cases h
      | some atts =>
        obtain ⟨descs, s1, h1, -, h3, h4⟩ := decoded_frames_in_stream_order_v _ _ _ _ _ hr
        rw [h1] at hd
        simp only [Option.map_some, Option.some.injEq] at hd
        exact ⟨atts, s', rfl, by rw [h3, hd], h4⟩
  exact ⟨key _ (by decide +kernel) (by decide +kernel), key _ (by decide +kernel) (by decide +kernel)⟩

/-- The same at the level of a whole stream, for the sequential decoders: every attribute of
    the decoded geometry has the identity map and `numPoints` values (entry `j` = point `j` =
    frame `j`). `decodeGeometrySeq` (DracoProofs/SeqStream.lean) is
    `Decoder::DecodeBufferToGeometry` with the Edgebreaker / kd-tree bodies rejected; on a
    point-cloud stream it is exactly `PointCloudSequentialDecoder::Decode`, and that is the
    whole of `KeyframeAnimationDecoder::Decode` (the class derives from
    `PointCloudSequentialDecoder`, there is no dispatcher in front of it). No hypothesis on the
    stream. -/
theorem decoded_geometry_frames_in_stream_order_seq (opts : DecOpts) (s s' : DSt)
    (r : DecodeResult) (h : decodeGeometrySeq opts s = (some r, s')) :
    ∀ a ∈ r.geometry.atts, a.map = none ∧ a.numValues = r.geometry.numPoints :=
  decodeGeometrySeq_shape opts s s' r h

/-- non-vacuity: the whole sample stream through the sequential decoder -/
example : ∃ r s', decodeGeometrySeq {} { rest := sampleStream } = (some r, s') ∧
    r.geometry.numPoints = 2 ∧ r.geometry.atts.map (·.uniqueId) = [0, 1] ∧
    r.geometry.atts.map (·.values) = [[0, 0, 128, 63, 0, 0, 0, 64], [7, 8]] ∧
    ∀ a ∈ r.geometry.atts, a.map = none ∧ a.numValues = r.geometry.numPoints := by
  have h : (decodeGeometrySeq {} { rest := sampleStream }).1.isSome = true := by decide +kernel
  cases hr : decodeGeometrySeq {} { rest := sampleStream } with
  | mk o s' =>
    cases o with
    | none => rw [hr] at h; cases h
    | some r =>
      refine ⟨r, s', rfl, ?_, ?_, ?_, decoded_geometry_frames_in_stream_order_seq _ _ _ _ hr⟩
      · have : ((decodeGeometrySeq {} { rest := sampleStream }).1.map (·.geometry.numPoints))
            = some 2 := by decide +kernel
        rw [hr] at this; simpa using this
      · have : ((decodeGeometrySeq {} { rest := sampleStream }).1.map
            (fun r => r.geometry.atts.map (·.uniqueId))) = some [0, 1] := by decide +kernel
        rw [hr] at this; simpa using this
      · have : ((decodeGeometrySeq {} { rest := sampleStream }).1.map
            (fun r => r.geometry.atts.map (·.values)))
            = some [[0, 0, 128, 63, 0, 0, 0, 64], [7, 8]] := by decide +kernel
        rw [hr] at this; simpa using this

/-- the header of the sample stream is readable and announces the sequential method -/
theorem sampleStream_isSeqStream : IsSeqStream { rest := sampleStream } := by
  have h : ((decodeHeader { rest := sampleStream }).1.map (·.encoderMethod)) = some 0 := by
    decide +kernel
  cases hr : decodeHeader { rest := sampleStream } with
  | mk o s1 =>
    cases o with
    | none => rw [hr] at h; cases h
    | some hd =>
      rw [hr] at h
      exact ⟨hd, s1, hr, by simpa using h⟩

/-- … and for the COMPLETE decoder `decodeGeometry` (DracoModel/Decoder.lean: sequential,
    Edgebreaker and kd-tree bodies behind the `Decoder::DecodeBufferToGeometry` dispatch) on
    every stream whose header announces a sequential method (`IsSeqStream`: header readable,
    encoder_method byte 0), where it coincides with `decodeGeometrySeq`. -/
theorem decoded_geometry_frames_in_stream_order (opts : DecOpts) (s s' : DSt) (r : DecodeResult)
    (hs : IsSeqStream s) (h : decodeGeometry opts s = (some r, s')) :
    ∀ a ∈ r.geometry.atts, a.map = none ∧ a.numValues = r.geometry.numPoints :=
  decodeGeometry_shape opts s s' r hs h

/-- non-vacuity: the whole sample stream through the complete decoder -/
example : ∃ r s', decodeGeometry {} { rest := sampleStream } = (some r, s') ∧
    r.geometry.numPoints = 2 ∧ r.geometry.atts.map (·.uniqueId) = [0, 1] ∧
    r.geometry.atts.map (·.values) = [[0, 0, 128, 63, 0, 0, 0, 64], [7, 8]] ∧
    ∀ a ∈ r.geometry.atts, a.map = none ∧ a.numValues = r.geometry.numPoints := by
  have h : (decodeGeometry {} { rest := sampleStream }).1.isSome = true := by decide +kernel
  cases hr : decodeGeometry {} { rest := sampleStream } with
  | mk o s' =>
    cases o with
    | none => rw [hr] at h; cases h
    | some r =>
      refine ⟨r, s', rfl, ?_, ?_, ?_,
        decoded_geometry_frames_in_stream_order _ _ _ _ sampleStream_isSeqStream hr⟩
      · have : ((decodeGeometry {} { rest := sampleStream }).1.map (·.geometry.numPoints))
            = some 2 := by decide +kernel
        rw [hr] at this; simpa using this
      · have : ((decodeGeometry {} { rest := sampleStream }).1.map
            (fun r => r.geometry.atts.map (·.uniqueId))) = some [0, 1] := by decide +kernel
        rw [hr] at this; simpa using this
      · have : ((decodeGeometry {} { rest := sampleStream }).1.map
            (fun r => r.geometry.atts.map (·.values)))
            = some [[0, 0, 128, 63, 0, 0, 0, 64], [7, 8]] := by decide +kernel
        rw [hr] at this; simpa using this

/-! ## codec side: descriptors (and with them the track ids) round-trip -/

/-- `DecodeAttributesDecoderData` (bitstream ≥ 2.0) applied to what
    `EncodeAttributesEncoderData` wrote (`encodeAttDescs`: varint count, then per attribute
    type, data type, component count, normalized flag as bytes and the varint unique id)
    returns exactly the descriptors — unique ids included, in order —, consumes exactly those
    bytes (`tail` is left) and logs its one allocation. Side conditions are the checks of the
    decoder: at least one attribute, type < `NAMED_ATTRIBUTES_COUNT`, `1 ≤` data type
    `< DT_TYPES_COUNT`, `1 ≤` components `≤ 255`, unique id < 2^32 (`AttDesc.Ok`). The decoder's
    `num_attributes ≤ 5 * remaining_size` check needs no hypothesis: every record has ≥ 5 bytes. -/
theorem att_descs_roundtrip (descs : List AttDesc) (tail : Bytes) (s : DSt)
    (hver : bsVersion 2 0 ≤ s.version) (hrest : s.rest = encodeAttDescs descs ++ tail)
    (hne : descs ≠ []) (hlen : descs.length < 2^32) (hok : ∀ d ∈ descs, d.Ok) :
    decodeAttDescs s = (some descs,
      { s with rest := tail
               allocs := ("attributes_decoder.point_attribute_ids", 4 * descs.length)
                 :: s.allocs }) :=
  decodeAttDescs_encodeAttDescs descs tail s hver hrest hne hlen hok

/-- non-vacuity: the descriptors of the sample stream (timestamps id 0, int8 track id 1) and a
    track with a two-byte unique id -/
example : decodeAttDescs
    { rest := encodeAttDescs [⟨4, 9, 1, false, 0⟩, ⟨4, 1, 1, false, 1⟩, ⟨4, 5, 3, true, 300⟩]
        ++ [0, 0, 9], version := bsVersion 2 3 }
    = (some [⟨4, 9, 1, false, 0⟩, ⟨4, 1, 1, false, 1⟩, ⟨4, 5, 3, true, 300⟩],
       { rest := [0, 0, 9], version := bsVersion 2 3,
         allocs := [("attributes_decoder.point_attribute_ids", 12)] }) :=
  att_descs_roundtrip _ [0, 0, 9] _ (by decide) rfl (by decide) (by decide) (by decide)

example : encodeAttDescs [⟨4, 9, 1, false, 0⟩, ⟨4, 1, 1, false, 1⟩]
    = [2, 4, 9, 1, 0, 0, 4, 1, 1, 0, 1] := by decide +kernel

/-! ## both sides combined -/

/-- the descriptors of the tracks-first animation (timestamps id 0, float32×3 id 1, int8×1 id 2)
    followed by three "generic decoder" type bytes and the raw values of the three attributes
    (2 frames each) -/
def tracksFirstState : DSt :=
  { rest := encodeAttDescs (Anim.empty.run tracksFirst).1.descs ++
      ([0, 0, 0] ++ List.replicate 8 1 ++ List.replicate 24 2 ++ [7, 8]),
    version := bsVersion 2 3 }

/-- PARTIAL. Take the animation built by ANY call sequence whose `AddKeyframes` calls use a
    valid data type and a component count with `nc % 256 ≠ 0` (`AnimCall.Codable`; without it
    the decoder rejects the descriptor, see `num_components_narrowed_witness`), with at least one
    attribute. Let a stream (bitstream ≥ 2.0) start with the descriptors the sequential encoder
    writes for it (`encodeAttDescs A.descs`: index order, unique id = index). Then
      (a) `DecodeAttributesDecoderData` returns exactly `A.descs`; position `id` carries unique
          id `id`, and the first descriptor with unique id `id` is the one at position `id`;
      (b) if `DecodeAttributes` succeeds on the rest of the stream, the decoded attribute list
          has one attribute per attribute of the animation, the first attribute with unique id
          `id` (what `keyframes(id)` returns on the decoded animation) is the one at stream
          position `id`, and it has `numPoints` entries with the identity map: entry `j` is
          frame `j`;
      (c) for a track added by call `k` with result `id ≥ 0`, the descriptor at position `id` is
          (GENERIC, `dt`, `nc % 256`, not normalized, `id`).
    The FULL statement would start from the encoder: "`decodeGeometry (encode A)` succeeds with
    `numPoints = A.numFrames` and value buffers equal to the tracks' data (bit-exact for
    unquantized, within half a step for quantized tracks)". That needs a model of
    `SequentialAttributeEncodersController::EncodeAttributes` (values, prediction, entropy
    coding), which is outside this file; here success of the value decoder is a hypothesis. -/
theorem track_retrievable_after_roundtrip_partial (calls : List AnimCall)
    (hcod : ∀ c ∈ calls, c.Codable)
    (hne : (Anim.empty.run calls).1.atts ≠ [])
    (hlen : (Anim.empty.run calls).1.atts.length < 2^32)
    (s : DSt) (tail : Bytes) (hver : bsVersion 2 0 ≤ s.version)
    (hrest : s.rest = encodeAttDescs (Anim.empty.run calls).1.descs ++ tail) :
    (∃ s1, decodeAttDescs s = (some (Anim.empty.run calls).1.descs, s1) ∧ s1.rest = tail) ∧
    (∀ id : Nat, id < (Anim.empty.run calls).1.atts.length →
      ∃ d, (Anim.empty.run calls).1.descs[id]? = some d ∧ d.uniqueId = id ∧
        (Anim.empty.run calls).1.descs.find? (fun d => d.uniqueId == id) = some d) ∧
    (∀ (opts : DecOpts) (numPoints : Nat) (atts : List Attribute) (s' : DSt),
      decodeSequentialAttributes opts numPoints s = (some atts, s') →
      atts.length = (Anim.empty.run calls).1.atts.length ∧
      ∀ id : Nat, id < (Anim.empty.run calls).1.atts.length →
        ∃ a, atts[id]? = some a ∧ atts.find? (fun a => a.uniqueId == id) = some a ∧
          a.uniqueId = id ∧ a.map = none ∧ a.numValues = numPoints) ∧
    (∀ (k dt nc : Nat) (data : List Nat) (id : Int),
      calls[k]? = some (.addKeyframes dt nc data) →
      (Anim.empty.run calls).2[k]? = some (.id id) → 0 ≤ id →
      (Anim.empty.run calls).1.descs[id.toNat]? = some ⟨4, dt, nc % 256, false, id.toNat⟩) := by
  have hu := Anim.run_uidIdx Anim.empty_uidIdx calls
  have hc := Anim.run_codable calls Anim.empty_codable hcod
  generalize hA : (Anim.empty.run calls).1 = A at *
  have hdne : A.descs ≠ [] := by
    unfold Anim.descs; intro h; exact hne (List.map_eq_nil_iff.mp h)
  have hdlen : A.descs.length = A.atts.length := by unfold Anim.descs; simp
  have hdec := decodeAttDescs_encodeAttDescs A.descs tail s hver hrest hdne
    (by rw [hdlen]; exact hlen) (Anim.descs_ok hu hc hlen)
  -- lookups by unique id in a list whose unique ids are the positions
  have hfind : ∀ {α : Type} (l : List α) (uid : α → Nat),
      (∀ (i : Nat) (x : α), l[i]? = some x → uid x = i) → ∀ id : Nat, id < l.length →
      ∃ x, l[id]? = some x ∧ l.find? (fun x => uid x == id) = some x ∧ uid x = id := by
    intro α l uid hl id hid
    refine ⟨l[id], by simp, ?_, hl id l[id] (by simp)⟩
    rw [List.find?_eq_some_iff_getElem]
    refine ⟨by simp [hl id l[id] (by simp)], id, hid, rfl, ?_⟩
    intro j hj
    have := hl j (l[j]'(by omega)) (by simp)
    simp [this]; omega
  have hduid : ∀ (i : Nat) (d : AttDesc), A.descs[i]? = some d → d.uniqueId = i := by
    intro i d hd
    rw [Anim.descs_getElem?] at hd
    cases ha : A.atts[i]? with
    | none => rw [ha] at hd; cases hd
    | some a =>
      rw [ha] at hd; simp only [Option.map_some, Option.some.injEq] at hd
      subst hd; exact hu i a ha
  refine ⟨⟨_, hdec, rfl⟩, ?_, ?_, ?_⟩
  · intro id hid
    obtain ⟨d, h1, h2, h3⟩ := hfind A.descs (·.uniqueId) hduid id (by rw [hdlen]; exact hid)
    exact ⟨d, h1, h3, h2⟩
  · intro opts numPoints atts s' hdecode
    obtain ⟨descs, s1, h1, h2, h3, h4⟩ :=
      decoded_frames_in_stream_order opts numPoints s s' atts hdecode
    rw [hdec] at h1
    obtain rfl : A.descs = descs := Option.some.inj (Prod.mk.inj h1).1
    have hauid : ∀ (i : Nat) (a : Attribute), atts[i]? = some a → a.uniqueId = i := by
      intro i a ha
      have h5 : (atts.map (·.uniqueId))[i]? = some a.uniqueId := by simp [ha]
      rw [h2] at h5
      simp only [List.getElem?_map] at h5
      cases hd : A.descs[i]? with
      | none => rw [hd] at h5; cases h5
      | some d =>
        rw [hd] at h5; simp only [Option.map_some, Option.some.injEq] at h5
        rw [← h5]; exact hduid i d hd
    refine ⟨by rw [h3, hdlen], ?_⟩
    intro id hid
    obtain ⟨a, g1, g2, g3⟩ := hfind atts (·.uniqueId) hauid id (by rw [h3, hdlen]; exact hid)
    have hmem : a ∈ atts := List.mem_of_getElem? g1
    exact ⟨a, g1, g2, g3, (h4 a hmem).1, (h4 a hmem).2⟩
  · intro k dt nc data id hcall hret hid
    subst hA
    obtain ⟨-, -, -, -, -, -, hatt⟩ :=
      Anim.addKeyframes_in_run Anim.empty_uidIdx calls k dt nc data id hcall hret hid
    rw [Anim.descs_getElem?, hatt]
    rfl

/-- non-vacuity: the stream decodes, and the attribute found under id 2 is the one at stream
    position 2, with 2 entries in frame order -/
example : ∃ atts s', decodeSequentialAttributes {} 2 tracksFirstState = (some atts, s') ∧
    ∃ a, atts.find? (fun a => a.uniqueId == 2) = some a ∧ atts[2]? = some a ∧
      a.numValues = 2 ∧ a.map = none := by
  have h : (decodeSequentialAttributes {} 2 tracksFirstState).1.isSome = true := by
    decide +kernel
  cases hr : decodeSequentialAttributes {} 2 tracksFirstState with
  | mk o s' =>
    cases o with
    | none => rw [hr] at h; cases h
    | some atts =>
      obtain ⟨-, -, h3, -⟩ := track_retrievable_after_roundtrip_partial tracksFirst
        (by decide) (by decide) (by decide) tracksFirstState
        ([0, 0, 0] ++ List.replicate 8 1 ++ List.replicate 24 2 ++ [7, 8]) (by decide) rfl
      obtain ⟨-, h4⟩ := h3 _ _ _ _ hr
      obtain ⟨a, g1, g2, -, g4, g5⟩ := h4 2 (by decide)
      exact ⟨atts, s', rfl, a, g2, g1, g5, g4⟩

/-- non-vacuity of part (c): the int8 track of the tracks-first sequence -/
example : (Anim.empty.run tracksFirst).1.descs[2]? = some ⟨4, 1, 1, false, 2⟩ :=
  (track_retrievable_after_roundtrip_partial tracksFirst (by decide) (by decide) (by decide)
    tracksFirstState ([0, 0, 0] ++ List.replicate 8 1 ++ List.replicate 24 2 ++ [7, 8])
    (by decide) rfl).2.2.2 1 1 1 [7, 8] 2 (by decide) (by decide) (by decide)

/-- Part (b) of `track_retrievable_after_roundtrip_partial` for the controller as
    `DecodePointAttributes` runs it (`decodeSequentialAttributesV`): on a stream of bitstream
    version ≥ 2.0 it is the ≥ 2.0 controller, so the same conclusion holds. Same PARTIAL status
    (success of the value decoder is a hypothesis). -/
theorem track_retrievable_after_roundtrip_v_partial (calls : List AnimCall)
    (hcod : ∀ c ∈ calls, c.Codable)
    (hne : (Anim.empty.run calls).1.atts ≠ [])
    (hlen : (Anim.empty.run calls).1.atts.length < 2^32)
    (s : DSt) (tail : Bytes) (hver : bsVersion 2 0 ≤ s.version)
    (hrest : s.rest = encodeAttDescs (Anim.empty.run calls).1.descs ++ tail)
    (opts : DecOpts) (numPoints : Nat) (atts : List Attribute) (s' : DSt)
    (h : decodeSequentialAttributesV opts numPoints s = (some atts, s')) :
    atts.length = (Anim.empty.run calls).1.atts.length ∧
    ∀ id : Nat, id < (Anim.empty.run calls).1.atts.length →
      ∃ a, atts[id]? = some a ∧ atts.find? (fun a => a.uniqueId == id) = some a ∧
        a.uniqueId = id ∧ a.map = none ∧ a.numValues = numPoints := by
  rw [decodeSequentialAttributesV_eq_current opts numPoints s hver] at h
  exact (track_retrievable_after_roundtrip_partial calls hcod hne hlen s tail hver hrest).2.2.1
    opts numPoints atts s' h

/-- non-vacuity: the tracks-first stream through the dispatching controller -/
example : ∃ atts s', decodeSequentialAttributesV {} 2 tracksFirstState = (some atts, s') ∧
    ∃ a, atts.find? (fun a => a.uniqueId == 1) = some a ∧ atts[1]? = some a ∧
      a.numValues = 2 ∧ a.map = none := by
  have h : (decodeSequentialAttributesV {} 2 tracksFirstState).1.isSome = true := by
    decide +kernel
  cases hr : decodeSequentialAttributesV {} 2 tracksFirstState with
  | mk o s' =>
    cases o with
    | none => rw [hr] at h; cases h
    | some atts =>
      obtain ⟨-, h4⟩ := track_retrievable_after_roundtrip_v_partial tracksFirst
        (by decide) (by decide) (by decide) tracksFirstState
        ([0, 0, 0] ++ List.replicate 8 1 ++ List.replicate 24 2 ++ [7, 8]) (by decide) rfl
        _ _ _ _ hr
      obtain ⟨a, g1, g2, -, g4, g5⟩ := h4 1 (by decide)
      exact ⟨atts, s', rfl, a, g2, g1, g5, g4⟩

/-! ## the composed theorem: animation → sequential point-cloud encoder → decoder → animation -/

open SeqEnc in
/-- **C20, composed with the sequential codec theorems (C01).**  Take the animation `A` built by ANY
    sequence of `SetTimestamps` / `AddKeyframes` calls (failed and repeated ones included) whose
    arguments are codable and plain (`AnimCall.Codable`: valid data type, stored component count ≠ 0;
    `AnimCall.Plain`: component count < 256, components are values of the track's type, fewer than
    2^23 frames/components per call — i.e. away from the two narrowings of the model), with at least one
    frame and the timestamps set.  For ALL encoder options and ALL choices of the encoder heuristics: if
    `KeyframeAnimationEncoder` (= `PointCloudSequentialEncoder` on the animation's point cloud
    `A.toGeometry`) produces a stream `bs`, then decoding `bs` followed by arbitrary bytes succeeds,
    leaves exactly those bytes unread, and returns a point cloud with
      * `A.numFrames` points (frames) and one attribute per attribute of `A`, in the same order;
      * for every attribute index `j` (0 = timestamps, ≥ 1 = tracks): the attribute found under unique id
        `j` — what `timestamps()` / `keyframes(j)` return on the decoded animation — is the one at
        position `j`, has `A`'s attribute type, data type and component count, the identity frame map,
        one value per frame, and its values are, frame by frame in order, `transformRow` of the frame's
        input row; if the track is not quantized (not float32, or no quantization bits for it) the
        values are BIT-EXACT the stored components. -/
theorem animation_roundtrip (calls : List AnimCall) (ch : Choices) (opts : EncOpts) (bs : Bytes)
    (hcod : ∀ c ∈ calls, c.Codable) (hplain : ∀ c ∈ calls, c.Plain)
    (hpos : 0 < (Anim.empty.run calls).1.numFrames)
    (hts : (Anim.empty.run calls).1.timestampsSize ≠ 0)
    (hna : (Anim.empty.run calls).1.atts.length < 2 ^ 32)
    (hexp : ∀ i org r, (opts.att i).explicitQuant = some (org, r) → r < 2 ^ 32 ∧ ∀ m ∈ org, m < 2 ^ 32)
    (henc : encodeGeometry ch (Anim.empty.run calls).1.toGeometry none opts = some bs)
    (extra : Bytes) :
    ∃ r st, decodeGeometry {} { rest := bs ++ extra } = (some r, st) ∧ st.rest = extra ∧
      r.metadata = none ∧ r.geometry.isMesh = false ∧ r.geometry.faces = [] ∧
      r.geometry.numPoints = (Anim.empty.run calls).1.numFrames ∧
      r.geometry.atts.length = (Anim.empty.run calls).1.atts.length ∧
      ∀ j a, (Anim.empty.run calls).1.atts[j]? = some a →
        ∃ d, r.geometry.atts[j]? = some d ∧
          r.geometry.atts.find? (fun x => x.uniqueId == j) = some d ∧
          d.uniqueId = j ∧ d.attType = a.attType ∧ d.dataType = a.dataType ∧
          d.numComponents = a.numComponents ∧ d.map = none ∧
          d.numValues = (Anim.empty.run calls).1.numFrames ∧
          d.values = ((pointRows a.toAttribute (Anim.empty.run calls).1.numFrames).map
            (transformRow opts j a.toAttribute)).flatten ∧
          ((a.dataType ≠ 9 ∨ (opts.att j).quantBits ≤ 0) →
            d.values = a.data.flatMap (writeLE (dataTypeLength a.dataType))) := by
  have hok := anim_geomOK calls opts hcod hplain hpos hts hna hexp
  obtain ⟨st, h1, h2⟩ := anim_seq_roundtrip ch _ opts bs hok henc extra
  refine ⟨_, st, h1, h2, rfl, rfl, rfl, rfl, ?_, fun j a ha => ?_⟩
  · simp only [expected, Anim.toGeometry, List.length_map]
    have : ∀ (l : List Attribute) k, (zipIdxFrom k l).length = l.length := by
      intro l; induction l with
      | nil => intro _; rfl
      | cons a as ih => intro k; simp [zipIdxFrom, ih]
    rw [this]; simp
  · exact anim_decoded_attribute calls opts hcod hplain hts hexp j a ha

open SeqEnc in
/-- **each track is retrievable under the id `AddKeyframes` returned** (`track_id_stable` ∘ unique ids
    preserved by the codec): if call `k` was `AddKeyframes(dt, nc, data)` and returned `id ≥ 0`, then in
    the decoded animation `keyframes(id)` (the first attribute with unique id `id`) exists, has data
    type `dt`, `nc` components, one value per frame, and — unless the track is a quantized float32
    track — holds exactly `data` (little endian, frame by frame). -/
theorem animation_track_retrievable (calls : List AnimCall) (ch : Choices) (opts : EncOpts) (bs : Bytes)
    (hcod : ∀ c ∈ calls, c.Codable) (hplain : ∀ c ∈ calls, c.Plain)
    (hpos : 0 < (Anim.empty.run calls).1.numFrames)
    (hts : (Anim.empty.run calls).1.timestampsSize ≠ 0)
    (hna : (Anim.empty.run calls).1.atts.length < 2 ^ 32)
    (hexp : ∀ i org r, (opts.att i).explicitQuant = some (org, r) → r < 2 ^ 32 ∧ ∀ m ∈ org, m < 2 ^ 32)
    (henc : encodeGeometry ch (Anim.empty.run calls).1.toGeometry none opts = some bs)
    (extra : Bytes) (k dt nc : Nat) (data : List Nat) (id : Int)
    (hcall : calls[k]? = some (.addKeyframes dt nc data))
    (hret : (Anim.empty.run calls).2[k]? = some (.id id)) (hid : 0 ≤ id) :
    ∃ r st d, decodeGeometry {} { rest := bs ++ extra } = (some r, st) ∧ 1 ≤ id ∧
      r.geometry.atts.find? (fun x => x.uniqueId == id.toNat) = some d ∧
      d.dataType = dt ∧ d.numComponents = nc ∧ d.numValues = (Anim.empty.run calls).1.numFrames ∧
      d.map = none ∧
      ((dt ≠ 9 ∨ (opts.att id.toNat).quantBits ≤ 0) →
        d.values = data.flatMap (writeLE (dataTypeLength dt))) := by
  obtain ⟨r, st, h1, _, _, _, _, _, _, hatt⟩ := animation_roundtrip calls ch opts bs hcod hplain hpos hts
    hna hexp henc extra
  obtain ⟨a, _, hai, h1id, _, _, hdt, hncs, _, _, hsz, _, _, hplainTrack⟩ :=
    track_id_stable calls k dt nc data id hcall hret hid
  have hpl := hplain _ (List.mem_of_getElem? hcall)
  obtain ⟨hnc256, _, _⟩ := hpl
  have hst := Anim.run_stored calls Anim.empty_stored hplain
  have hprod : nc * a.size < 2 ^ 32 := by
    rw [hsz]
    have := hst.1
    calc nc * (Anim.empty.run calls).1.numFrames ≤ 255 * (Anim.empty.run calls).1.numFrames :=
          Nat.mul_le_mul_right _ (by omega)
      _ < 2 ^ 32 := by omega
  obtain ⟨e1, e2, _⟩ := hplainTrack hnc256 hprod
  obtain ⟨d, _, hfind, _, _, hddt, hdnc, hdmap, hdnv, _, hexact⟩ := hatt id.toNat a hai
  refine ⟨r, st, d, h1, h1id, hfind, by rw [hddt, hdt], by rw [hdnc, e1], hdnv, hdmap, ?_⟩
  intro hq
  rw [hexact (by rw [hdt]; exact hq), e2, hdt]

open SeqEnc in
/-- **quantized tracks are `dequantize ∘ quantize` of the input**, by the codec's own float expressions:
    for a float32 attribute `j` with quantization bits, the parameters (`quantizationParams`: the
    configured ones, or per-component minima and the largest extent computed by `ComputeParameters`)
    exist, and the values found under unique id `j` after decoding are, frame by frame,
    `dequantRow (quantizeRow row)` — the expressions whose error C04 bounds by half a step. -/
theorem animation_quantized_track (calls : List AnimCall) (ch : Choices) (opts : EncOpts) (bs : Bytes)
    (hcod : ∀ c ∈ calls, c.Codable) (hplain : ∀ c ∈ calls, c.Plain)
    (hpos : 0 < (Anim.empty.run calls).1.numFrames)
    (hts : (Anim.empty.run calls).1.timestampsSize ≠ 0)
    (hna : (Anim.empty.run calls).1.atts.length < 2 ^ 32)
    (hexp : ∀ i org r, (opts.att i).explicitQuant = some (org, r) → r < 2 ^ 32 ∧ ∀ m ∈ org, m < 2 ^ 32)
    (henc : encodeGeometry ch (Anim.empty.run calls).1.toGeometry none opts = some bs)
    (extra : Bytes) (j : Nat) (a : AnimAttr) (ha : (Anim.empty.run calls).1.atts[j]? = some a)
    (h9 : a.dataType = 9) (hq : (opts.att j).quantBits > 0) :
    ∃ r st d mins range q, decodeGeometry {} { rest := bs ++ extra } = (some r, st) ∧
      r.geometry.atts.find? (fun x => x.uniqueId == j) = some d ∧
      quantizationParams a.toAttribute (opts.att j) = some (mins, range, q) ∧
      d.values = ((pointRows a.toAttribute (Anim.empty.run calls).1.numFrames).map fun row =>
        dequantRow range q mins (quantizeRow mins range q 0 (rowF32s a.numComponents row))).flatten := by
  obtain ⟨r, st, h1, _, _, _, _, _, _, hatt⟩ := animation_roundtrip calls ch opts bs hcod hplain hpos hts
    hna hexp henc extra
  obtain ⟨d, _, hfind, _, _, _, _, _, _, hv, _⟩ := hatt j a ha
  obtain ⟨encs, hf⟩ := encodeGeometry_full ch _ none opts bs henc
  have hg : (Anim.empty.run calls).1.toGeometry.atts[j]? = some a.toAttribute := by
    simp [Anim.toGeometry, ha]
  obtain ⟨e, _, he⟩ := encodeAttribute_of_index ch _ none opts bs encs hf j a.toAttribute hg
  have hco := Anim.run_codable calls Anim.empty_codable hcod a (List.mem_of_getElem? ha)
  obtain ⟨mins, range, q, hqp, hT⟩ := transformRow_quantized _ opts _ j a.toAttribute e he h9 hq
    (by show a.attType ≠ 1; rw [hco.1]; decide)
  exact ⟨r, st, d, mins, range, q, h1, hfind, hqp, by rw [hv, hT]; rfl⟩

/-! ### non-vacuity: three frames, a float32×2 track and an int16×1 track -/

def sampleCalls : List AnimCall :=
  [.setTimestamps [0, 1065353216, 1073741824],
   .addKeyframes 9 2 [1, 2, 3, 4, 5, 6],
   .addKeyframes 3 1 [65535, 5, 256]]

def sampleAnimChoices : SeqEnc.Choices := ⟨ProbOracle.exact, fun _ => 0, fun _ => .tagged, .tagged⟩
def sampleAnimOpts : SeqEnc.EncOpts := { builtin := false }

theorem sampleCalls_encodes : ∃ bs, SeqEnc.encodeGeometry sampleAnimChoices
    (Anim.empty.run sampleCalls).1.toGeometry none sampleAnimOpts = some bs := by
  have : (SeqEnc.encodeGeometry sampleAnimChoices (Anim.empty.run sampleCalls).1.toGeometry none
      sampleAnimOpts).isSome = true := by decide +kernel
  exact Option.isSome_iff_exists.1 this

/-- the int16 track was added second and got id 2; after encode + decode (with trailing bytes) it is
    found under id 2 with its three frames bit-exact, and the float track under id 1 -/
example : ∃ bs r st d1 d2,
    SeqEnc.encodeGeometry sampleAnimChoices (Anim.empty.run sampleCalls).1.toGeometry none sampleAnimOpts = some bs ∧
    decodeGeometry {} { rest := bs ++ [9, 9] } = (some r, st) ∧ st.rest = [9, 9] ∧
    r.geometry.numPoints = 3 ∧ r.geometry.atts.length = 3 ∧
    r.geometry.atts.find? (fun x => x.uniqueId == 1) = some d1 ∧
    d1.values = [1, 0, 0, 0, 2, 0, 0, 0, 3, 0, 0, 0, 4, 0, 0, 0, 5, 0, 0, 0, 6, 0, 0, 0] ∧
    r.geometry.atts.find? (fun x => x.uniqueId == 2) = some d2 ∧
    d2.dataType = 3 ∧ d2.values = [255, 255, 5, 0, 0, 1] := by
  obtain ⟨bs, hbs⟩ := sampleCalls_encodes
  have hcod : ∀ c ∈ sampleCalls, c.Codable := by decide
  have hplain : ∀ c ∈ sampleCalls, c.Plain := by decide
  have hexp : ∀ i org r, (sampleAnimOpts.att i).explicitQuant = some (org, r) →
      r < 2 ^ 32 ∧ ∀ m ∈ org, m < 2 ^ 32 := by
    intro i org r h
    have : (sampleAnimOpts.att i).explicitQuant = none := by
      simp [sampleAnimOpts, SeqEnc.EncOpts.att]
    rw [this] at h; cases h
  obtain ⟨r, st, h1, h2, _, _, _, h6, h7, hatt⟩ := animation_roundtrip sampleCalls sampleAnimChoices
    sampleAnimOpts bs hcod hplain (by decide) (by decide) (by decide) hexp hbs [9, 9]
  obtain ⟨d1, _, f1, _, _, _, _, _, _, _, x1⟩ := hatt 1 ⟨1, 4, 9, 2, false, 3, [1, 2, 3, 4, 5, 6]⟩ (by decide)
  obtain ⟨d2, _, f2, _, _, t2, _, _, _, _, x2⟩ := hatt 2 ⟨2, 4, 3, 1, false, 3, [65535, 5, 256]⟩ (by decide)
  refine ⟨bs, r, st, d1, d2, hbs, h1, h2, by rw [h6]; decide, by rw [h7]; decide, f1, ?_, f2, ?_, ?_⟩
  · rw [x1 (Or.inr (by simp [sampleAnimOpts, SeqEnc.EncOpts.att]))]; decide
  · rw [t2]
  · rw [x2 (Or.inl (by decide))]; decide

/-- non-vacuity of `animation_track_retrievable`: the third call returned id 2 and the decoded
    animation has the int16 track under id 2 with exactly the data passed to `AddKeyframes` -/
example : ∃ bs r st d,
    SeqEnc.encodeGeometry sampleAnimChoices (Anim.empty.run sampleCalls).1.toGeometry none sampleAnimOpts = some bs ∧
    decodeGeometry {} { rest := bs ++ [] } = (some r, st) ∧
    r.geometry.atts.find? (fun x => x.uniqueId == 2) = some d ∧ d.dataType = 3 ∧ d.numComponents = 1 ∧
    d.values = [65535, 5, 256].flatMap (writeLE 2) := by
  obtain ⟨bs, hbs⟩ := sampleCalls_encodes
  have hexp : ∀ i org r, (sampleAnimOpts.att i).explicitQuant = some (org, r) →
      r < 2 ^ 32 ∧ ∀ m ∈ org, m < 2 ^ 32 := by
    intro i org r h
    have : (sampleAnimOpts.att i).explicitQuant = none := by
      simp [sampleAnimOpts, SeqEnc.EncOpts.att]
    rw [this] at h; cases h
  obtain ⟨r, st, d, h1, _, hf, hdt, hnc, _, _, hv⟩ := animation_track_retrievable sampleCalls
    sampleAnimChoices sampleAnimOpts bs (by decide) (by decide) (by decide) (by decide) (by decide) hexp hbs []
    2 3 1 [65535, 5, 256] 2 (by decide) (by decide) (by decide)
  exact ⟨bs, r, st, d, hbs, h1, hf, hdt, hnc, hv (Or.inl (by decide))⟩

/- `animation_quantized_track`: its hypotheses (`encodeGeometry … = some bs` with quantization bits on a
   float track) involve the executable `Float32` quantizer, which the kernel cannot evaluate; witnessed by
   the driver cases of C20 with `q<track>=bits` (the op `anim` + model decode). -/

/-! ## the probability table of the symbol coder that carries every animation attribute -/
open Generated in
/-- the size-class branch of `RAnsSymbolEncoder::EncodeTable`, translated mechanically from clang's AST of /repo on
    every run: `return false` exactly for `prob ≥ 2^22`, otherwise 0/1/2 extra bytes for `prob < 2^6`, `< 2^14`, else
    (the classes the model's `encTableGo` uses: `Draco.table_entry_uses_sizeClass` in C08) -/
theorem source_tableSizeClass_is_model (p : Int) (hp : U32 p) :
    RAnsSymbolEncoder.EncodeTable_sizeClass p = sizeClass p := EncodeTable_sizeClass_eq_model p hp
example : Generated.RAnsSymbolEncoder.EncodeTable_sizeClass 64 = (none, 1) := by
  rw [source_tableSizeClass_is_model _ (by decide)]; decide

end C20
end Draco
